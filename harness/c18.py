"""C18 Fourier and wavelet transforms: correspondence + probes."""
import itertools
import math
import warnings
from fractions import Fraction

import numpy as np

from . import common as C

PID = 'C18'
SHARD_SIZE = 60
RULE = ('reciprocal_grid/realspace_grid: 1-3 axes x sizes 1..7 (even and odd) x axes subsets in random order x '
        'per-axis shift x halfcomplex x right/wrong parity, dyadic min/stride; DFT and FT operators (forward and '
        'inverse, numpy and pyfftw, sign -/+, halfcomplex, float32/64, complex64/128): small-integer arrays on '
        'shapes with 1..6 points per axis, compared entry by entry with the naive-sum model; wavelet '
        'bookkeeping: every discrete PyWavelets family x levels 0..3 x all 9 pad modes x odd/even shapes. '
        'A case is non-trivial when the input array is not identically zero / the shape has a transformed axis; '
        'distinct by (configuration, values).')
ASSUMPTIONS = [
    'Q vs R: for the grid/frequency functions the Q run is PROVED to be the rational restriction of the R model '
    '(C18/Transfer.v); for the parts involving cos/sin/sqrt (phases, kernel, DFT values) the link between the Q '
    'instance (CisQ.v) and the R instance is an assumption',
    'exact arithmetic: the model is the unrounded transform; float results are compared with tolerance 1e-9 '
    '(float64) / 2e-3 (float32) on small-integer inputs',
    'the 1-d passes inside np.fft / FFTW are not modelled individually: fftn is the composition of naive 1-d DFTs '
    '(which commute in exact arithmetic)',
    'PyWavelets filter banks (dwt/idwt numerics) are outside the model; only their coefficient lengths are modelled',
    'cos/sin at Q are a 64-bit fixed-point Taylor evaluation (C18/CisQ.v, error < 1e-17, compared with libm on every run)']
TRUSTED = ['translate/ft_formulas.py (Python ast -> Gallina: rmin/rmax/fmin/fmax case analyses, parity and half-complex '
           'shape rules, phase exponents, kernel, back-end dispatch + normalisation of the _call_numpy methods), fail-closed',
           'C18/CisQ.v as an approximation of exp(i pi a), pi and sqrt(2 pi) at Q',
           'NumPy broadcasting in fast_1d_tensor_mult modelled by index arithmetic (validated by the correspondence)',
           'np.fft / pyfftw / PyWavelets numerics (external; compared, not proved)']


def translate():
    from translate import ft_formulas
    return {'Gen/FtFormulas.v': ft_formulas.translate()}


# ------------------------------------------------- variant switches (measured)
_VAR = None


def variants():
    """Whether the still-open finding ft-halfcomplex-unshifted-axis is already rejected at construction."""
    global _VAR
    if _VAR is not None:
        return _VAR
    import odl
    v = {}
    with warnings.catch_warnings():
        warnings.simplefilter('ignore')
        sp2 = odl.uniform_discr([0, 0], [1, 1], (4, 5))
        try:
            odl.trafos.FourierTransform(sp2, halfcomplex=True, shift=(False, True), impl='numpy')
            v['ft_hc_needs_all_shifts'] = False
        except ValueError:
            v['ft_hc_needs_all_shifts'] = True
    _VAR = v
    return v


def var_lit():
    return '{| v_ft_hc_needs_all_shifts := %s |}' % C.b(variants()['ft_hc_needs_all_shifts'])


# ----------------------------------------------------------------- literals
def cq(zv):
    zv = complex(zv)
    return '(%s, %s)' % (C.q(zv.real), C.q(zv.imag))


def cqs(arr):
    return C.lst([cq(v) for v in np.asarray(arr).ravel().tolist()])


def axq(mi, ma, n):
    return '(%s, %s, %s%%nat)' % (C.q(float(mi)), C.q(float(ma)), C.nat(n))


def axqs(grid):
    return C.lst([axq(mi, ma, n) for mi, ma, n in zip(grid.min_pt, grid.max_pt, grid.shape)])


def nats(xs):
    return C.nats(xs) + '%nat'


def bools(xs):
    return C.lst([C.b(x) for x in xs])


def _rand_axes(rng, ndim):
    k = rng.randint(1, ndim)
    axes = rng.sample(range(ndim), k)
    if rng.random() < 0.5:
        axes.sort()
    return axes


DY_MIN = [0.0, -1.0, 0.5, -2.5, 3.0, 0.25]
DY_STRIDE = [1.0, 0.5, 0.25, 2.0]


def _rand_grid(rng, shape):
    import odl
    mins = [rng.choice(DY_MIN) for _ in shape]
    strides = [rng.choice(DY_STRIDE) for _ in shape]
    maxs = [m + (n - 1) * s for m, n, s in zip(mins, shape, strides)]
    return odl.uniform_grid(mins, maxs, shape)


# ------------------------------------------------------------- grid cases
def rg_cases(rng, tier):
    from odl.trafos.util import reciprocal_grid, realspace_grid
    cs = C.CaseSet('rg', ['C18.Model', 'C18.Corr'], 'check_rg', 'case_rg')
    todo = []
    # systematic 1-d: every size 1..9 x shift x halfcomplex x parity choice
    for n, sh, hc, wrong in itertools.product(range(1, 10 if tier == 'quick' else 14), [True, False],
                                              [False, True], [False, True]):
        todo.append(([n], [0], [sh], hc, wrong))
    nrand = 150 if tier == 'quick' else 800
    for _ in range(nrand):
        ndim = rng.choice([1, 2, 2, 3])
        shape = [rng.randint(1, 7) for _ in range(ndim)]
        axes = _rand_axes(rng, ndim)
        shifts = [rng.random() < 0.5 for _ in axes]
        todo.append((shape, axes, shifts, rng.random() < 0.5, rng.random() < 0.2))
    for shape, axes, shifts, hc, wrong in todo:
        grid = _rand_grid(rng, shape)
        ax_arg = None if (axes == list(range(len(shape))) and rng.random() < 0.5) else axes
        try:
            rg = reciprocal_grid(grid, shift=shifts, axes=ax_arg, halfcomplex=hc)
        except Exception:
            cs.add('{| g_grid := %s; g_axes := %s; g_shifts := %s; g_hc := %s; g_out := []; g_x0 := []; '
                   'g_par := None; g_back := None |}' % (axqs(grid), nats(axes), bools(shifts), C.b(hc)),
                   {'shape': shape, 'axes': axes, 'shifts': shifts, 'halfcomplex': hc,
                    'outcome': 'reciprocal_grid raised'}, None)
            continue
        odd = (shape[axes[-1]] % 2 == 1)
        if wrong:
            odd = not odd
        par = 'odd' if odd else 'even'
        x0 = [float(v) for v in grid.min_pt]
        try:
            with warnings.catch_warnings():
                warnings.simplefilter('ignore')
                back = realspace_grid(rg, x0, axes=ax_arg, halfcomplex=hc, halfcx_parity=par)
            back_t = '(Some %s)' % axqs(back)
        except ValueError:
            back_t = 'None'
        term = ('{| g_grid := %s; g_axes := %s; g_shifts := %s; g_hc := %s; g_out := %s; g_x0 := %s; '
                'g_par := %s; g_back := %s |}'
                % (axqs(grid), nats(axes), bools(shifts), C.b(hc), axqs(rg), C.qs(x0),
                   ('(Some %s)' % C.b(odd)) if hc else 'None', back_t))
        desc = {'shape': shape, 'axes': axes, 'shifts': shifts, 'halfcomplex': hc, 'parity': par,
                'min': x0, 'stride': [float(s) for s in grid.stride]}
        cs.add(term, desc, (tuple(shape), tuple(axes), tuple(shifts), hc, par, tuple(x0), tuple(desc['stride'])))
    return cs


# ------------------------------------------------------------- operators
def _rand_shape(rng, ndim, lo, hi, cap):
    while True:
        shape = [rng.randint(lo, hi) for _ in range(ndim)]
        if int(np.prod(shape)) <= cap:
            return shape


def _rand_arr(rng, shape, cplx):
    n = int(np.prod(shape))
    re = np.array([float(rng.randint(-4, 4)) for _ in range(n)]).reshape(shape)
    if not cplx:
        return re
    im = np.array([float(rng.randint(-4, 4)) for _ in range(n)]).reshape(shape)
    return re + 1j * im


def _tol(dtype):
    return Fraction(2, 1000) if np.dtype(dtype).itemsize <= 8 and np.dtype(dtype).kind == 'c' or np.dtype(dtype) == np.float32 \
        else Fraction(1, 10 ** 9)


DTYPES = ['float64', 'complex128', 'float32', 'complex64']


def dft_cases(rng, tier):
    import odl
    cs = C.CaseSet('dft', ['C18.Model', 'C18.Corr'], 'check_dft', 'case_dft')
    todo = []
    # systematic 1-d
    for n in range(1, 8 if tier == 'quick' else 11):
        for dt, sg, inv, impl in itertools.product(['float64', 'complex128'], ['-', '+'], [False, True],
                                                   ['numpy', 'pyfftw']):
            todo.append(([n], [0], dt, sg, False, inv, impl))
        for inv, impl in itertools.product([False, True], ['numpy', 'pyfftw']):
            todo.append(([n], [0], 'float64', '+' if inv else '-', True, inv, impl))
    nrand = 60 if tier == 'quick' else 400
    for _ in range(nrand):
        ndim = rng.choice([1, 2, 2, 3])
        shape = _rand_shape(rng, ndim, 1, 5, 30)
        axes = _rand_axes(rng, ndim)
        dt = rng.choice(DTYPES)
        inv = rng.random() < 0.5
        hc = (dt.startswith('float') and rng.random() < 0.5)
        sg = ('+' if inv else '-') if hc else rng.choice(['-', '+'])
        todo.append((shape, axes, dt, sg, hc, inv, rng.choice(['numpy', 'pyfftw'])))
    for shape, axes, dt, sg, hc, inv, impl in todo:
        ndim = len(shape)
        dom = odl.uniform_discr([0.0] * ndim, [float(n) for n in shape], shape, dtype=dt)
        fwd_sign = sg if not inv else ('-' if sg == '+' else '+')
        rshape = list(shape)
        if hc:
            rshape[axes[-1]] = shape[axes[-1]] // 2 + 1
        defrange = (1 not in rshape) or rng.random() < 0.3
        cdt = {'float64': 'complex128', 'float32': 'complex64'}.get(dt, dt)
        ran = None if defrange else odl.uniform_discr([0.0] * ndim, [1.0] * ndim, rshape, dtype=cdt)
        xin = np.zeros(0)
        try:
            with warnings.catch_warnings():
                warnings.simplefilter('ignore')
                fwd = odl.trafos.DiscreteFourierTransform(dom, range=ran, axes=axes, sign=fwd_sign,
                                                          halfcomplex=hc, impl=impl)
                if inv:
                    op = odl.trafos.DiscreteFourierTransformInverse(dom, domain=ran, axes=axes, sign=sg,
                                                                    halfcomplex=hc, impl=impl)
                    assert op.domain.shape == fwd.range.shape
                    xin = _rand_arr(rng, op.domain.shape, True)
                    if hc and rng.random() < 0.5:
                        xin = np.asarray(fwd(_rand_arr(rng, shape, False)))
                else:
                    op = fwd
                    xin = _rand_arr(rng, shape, dt.startswith('complex'))
                # the very first call (the first-call defect of the pyfftw real transform, cc7c4de, would
                # show here as well as in the probes)
                out = np.asarray(op(op.domain.element(np.array(xin, copy=True))))
            outt = '(IOk %s)' % cqs(out)
        except Exception as e:
            outt = _err_kind(e)
        sgz = -1 if sg == '-' else 1
        term = ('{| d_shape := %s; d_axes := %s; d_sg := %s; d_hc := %s; d_inv := %s; d_defrange := %s; '
                'd_real := %s; d_pyfftw := %s; d_var := %s; d_x := %s; d_out := %s; d_tol := %s |}'
                % (nats(shape), nats(axes), C.z(sgz), C.b(hc), C.b(inv), C.b(defrange),
                   C.b(dt.startswith('float')), C.b(impl == 'pyfftw'), var_lit(), cqs(xin), outt, C.q(_tol(dt))))
        desc = {'shape': shape, 'axes': axes, 'dtype': dt, 'sign': sg, 'halfcomplex': hc, 'inverse': inv,
                'impl': impl, 'default_range': defrange, 'x': np.asarray(xin).ravel().tolist(),
                'outcome': outt[:10]}
        key = (tuple(shape), tuple(axes), dt, sg, hc, inv, impl, defrange, str(desc['x'])) \
            if np.any(xin) or not outt.startswith('(IOk') else None
        cs.add(term, desc, key)
    return cs


def _err_kind(e):
    if isinstance(e, ValueError):
        return 'IValueErr'
    if isinstance(e, TypeError):
        return 'ITypeErr'
    return 'IOtherErr'


def ft_cases(rng, tier):
    import odl
    cs = C.CaseSet('ft', ['C18.Model', 'C18.Corr'], 'check_ft', 'case_ft')
    todo = []
    # systematic 1-d: sizes x shift x sign x dtype kind x direction x impl x halfcomplex
    for n in range(1, 7 if tier == 'quick' else 10):
        for sh, dt, inv, impl in itertools.product([True, False], ['float64', 'complex128'], [False, True],
                                                   ['numpy', 'pyfftw']):
            for sg in ['-', '+']:
                todo.append(([n], [0], [sh], dt, sg, False, inv, impl))
            if dt == 'float64':
                todo.append(([n], [0], [sh], dt, '+' if inv else '-', True, inv, impl))
    # every shift pattern x halfcomplex in 2-d (even x odd), real and complex
    for shifts, hc, dt, inv, impl in itertools.product(itertools.product([True, False], repeat=2), [False, True],
                                                       ['float64', 'complex128'], [False, True],
                                                       ['numpy', 'pyfftw']):
        if hc and dt != 'float64':
            continue
        shape = rng.choice([[2, 3], [3, 2], [4, 3], [3, 4]])
        todo.append((shape, [0, 1], list(shifts), dt, '+' if inv else '-', hc, inv, impl))
    nrand = 40 if tier == 'quick' else 300
    for _ in range(nrand):
        ndim = rng.choice([1, 2, 2, 3])
        shape = _rand_shape(rng, ndim, 2, 5, 24)
        axes = _rand_axes(rng, ndim)
        shifts = [rng.random() < 0.6 for _ in axes]
        dt = rng.choice(DTYPES)
        inv = rng.random() < 0.5
        hc = (dt.startswith('float') and rng.random() < 0.5)
        sg = ('+' if inv else '-') if (hc and rng.random() < 0.9) else rng.choice(['-', '+'])
        todo.append((shape, axes, shifts, dt, sg, hc, inv, rng.choice(['numpy', 'pyfftw'])))
    for shape, axes, shifts, dt, sg, hc, inv, impl in todo:
        ndim = len(shape)
        mins = [rng.choice([0.0, -1.0, 0.5, -2.0]) for _ in shape]
        sides = [rng.choice([1.0, 0.5, 0.25, 2.0]) for _ in shape]
        dom = odl.uniform_discr(mins, [m + n * s for m, n, s in zip(mins, shape, sides)], shape, dtype=dt)
        real = dt.startswith('float')
        xin = None
        try:
            with warnings.catch_warnings():
                warnings.simplefilter('ignore')
                if inv:
                    op = odl.trafos.FourierTransformInverse(dom, axes=axes, shift=shifts, sign=sg, halfcomplex=hc,
                                                            impl=impl)
                else:
                    op = odl.trafos.FourierTransform(dom, axes=axes, shift=shifts, sign=sg, halfcomplex=hc,
                                                     impl=impl)
                xin = _rand_arr(rng, op.domain.shape, inv or not real)
                out = np.asarray(op(op.domain.element(xin)))
            outt = '(IOk %s)' % cqs(out)
        except Exception as e:  # compared as an enum
            outt = _err_kind(e)
        if xin is None:
            xin = np.zeros(0)
        sgz = -1 if sg == '-' else 1
        term = ('{| t_grid := %s; t_axes := %s; t_shifts := %s; t_sg := %s; t_hc := %s; t_inv := %s; '
                't_real := %s; t_pyfftw := %s; t_var := %s; t_x := %s; t_out := %s; t_tol := %s |}'
                % (axqs(dom.grid), nats(axes), bools(shifts), C.z(sgz), C.b(hc and real), C.b(inv), C.b(real),
                   C.b(impl == 'pyfftw'), var_lit(), cqs(xin), outt, C.q(_tol(dt))))
        desc = {'shape': shape, 'axes': axes, 'shifts': shifts, 'dtype': dt, 'sign': sg, 'halfcomplex': hc,
                'inverse': inv, 'impl': impl, 'min_pt': mins, 'cell_sides': sides,
                'x': np.asarray(xin).ravel().tolist(), 'outcome': outt[:10]}
        key = (tuple(shape), tuple(axes), tuple(shifts), dt, sg, hc, inv, impl, tuple(mins), tuple(sides),
               str(desc['x'])) if (xin.size and np.any(xin)) or outt.startswith('I') else None
        cs.add(term, desc, key)
    return cs


def fac_cases(rng, tier):
    """dft_preprocess_data / dft_postprocess_data called directly (1-d arrays of ones)."""
    import odl
    from odl.trafos.util import reciprocal_grid, dft_preprocess_data, dft_postprocess_data
    cs = C.CaseSet('fac', ['C18.Model', 'C18.Corr'], 'check_fac', 'case_fac')
    for n, sh, half, sg, div, lin in itertools.product(range(2, 8 if tier == 'quick' else 12), [True, False],
                                                       [False, True], ['-', '+'], [False, True], [False, True]):
        x0 = rng.choice(DY_MIN)
        st = rng.choice(DY_STRIDE)
        grid = odl.uniform_grid(x0, x0 + (n - 1) * st, n)
        rgrid = reciprocal_grid(grid, shift=sh, halfcomplex=half)
        dt = rng.choice(['float64', 'complex128', 'int64'])
        with warnings.catch_warnings():
            warnings.simplefilter('ignore')
            pre = dft_preprocess_data(np.ones(n, dtype=dt), shift=sh, sign=sg,
                                      axes=rng.choice([None, 0]))
            post = dft_postprocess_data(np.ones(rgrid.shape, dtype=rng.choice(['complex128', 'float64'])),
                                        real_grid=grid, recip_grid=rgrid, shift=[sh], axes=rng.choice([None, (0,)]),
                                        interp='linear' if lin else 'nearest', sign=sg,
                                        op='divide' if div else 'multiply')
        term = ('{| p_ax := %s; p_sh := %s; p_half := %s; p_sg := %s; p_div := %s; p_lin := %s; p_pre := %s; '
                'p_post := %s |}' % (axq(grid.min_pt[0], grid.max_pt[0], n), C.b(sh), C.b(half),
                                     C.z(-1 if sg == '-' else 1), C.b(div), C.b(lin), cqs(pre), cqs(post)))
        cs.add(term, {'n': n, 'shift': sh, 'halfcomplex': half, 'sign': sg, 'op': 'divide' if div else 'multiply',
                      'interp': 'linear' if lin else 'nearest', 'x0': x0, 'stride': st, 'dtype': dt},
               (n, sh, half, sg, div, lin, x0, st))
    return cs


def cis_cases(rng, tier):
    cs = C.CaseSet('cis', ['C18.CisQ', 'C18.Corr'], 'check_cis', 'case_cis')
    for _ in range(200 if tier == 'quick' else 1500):
        a = Fraction(rng.randint(-60, 60), rng.choice([1, 2, 3, 4, 5, 6, 7, 8, 9, 12, 16, 25, 64, 97, 1000]))
        cs.add('{| c_a := %s; c_cos := %s; c_sin := %s |}'
               % (C.q(a), C.q(math.cos(math.pi * float(a))), C.q(math.sin(math.pi * float(a)))),
               {'a': str(a)}, str(a))
    return cs


# ----------------------------------------------------------------- wavelets
ODL_PAD_MODES = ['constant', 'periodic', 'symmetric', 'order0', 'order1', 'pywt_periodic', 'reflect',
                 'antireflect', 'antisymmetric']


def _shape_lit(shapes):
    a = nats(shapes[0])
    lv = C.lst([C.lst([nats(d[k]) for k in sorted(d)]) for d in shapes[1:]])
    return '(%s, %s)' % (a, lv)


def _slice_lit(slices):
    def sl(s):
        return '(%s, %s)%%nat' % (C.nat(s.start or 0), C.nat(s.stop))
    lv = C.lst([C.lst([sl(d[k]) for k in sorted(d)]) for d in slices[1:]])
    return '(%s, %s)' % (sl(slices[0]), lv)


def _coeff_lit(coeffs):
    def ar(a):
        return '(%s, %s)' % (nats(a.shape), C.qs(np.asarray(a).ravel().tolist()))
    lv = C.lst([C.lst([ar(d[k]) for k in sorted(d)]) for d in coeffs[1:]])
    return '(%s, %s)' % (ar(coeffs[0]), lv)


def wavelet_cases(rng, tier):
    import odl
    import pywt
    ws = C.CaseSet('wshape', ['C18.ModelW', 'C18.Corr'], 'check_wshape', 'case_wshape')
    wf = C.CaseSet('wflat', ['C18.ModelW', 'C18.Corr'], 'check_wflat', 'case_wflat')
    names = pywt.wavelist(kind='discrete')
    todo = []
    for name in names:                       # every family member at least once
        todo.append((name, rng.choice(ODL_PAD_MODES)))
    for pm in ODL_PAD_MODES:                 # every pad mode with a few short filters
        for name in ['haar', 'db2', 'sym3', 'bior2.2', 'coif1']:
            todo.append((name, pm))
    if tier != 'quick':
        for _ in range(300):
            todo.append((rng.choice(names), rng.choice(ODL_PAD_MODES)))
    for i, (name, pm) in enumerate(todo):
        w = pywt.Wavelet(name)
        for _try in range(50):
            ndim = rng.choice([1, 1, 2, 2, 3])
            shape = _rand_shape(rng, ndim, 1, 9, 120)
            axes = _rand_axes(rng, ndim)
            axes.sort()
            L = rng.randint(0, 3)
            with warnings.catch_warnings():
                warnings.simplefilter('ignore')
                shp = pywt.wavedecn_shapes(tuple(shape), w, mode='symmetric', level=L, axes=axes)
            if pywt.wavedecn_size(shp) <= 1500:
                break
        else:
            ndim, shape, axes, L = 1, [rng.randint(1, 9)], [0], rng.randint(0, 2)
        sp = odl.uniform_discr([0.0] * ndim, [1.0] * ndim, shape)
        with warnings.catch_warnings():
            warnings.simplefilter('ignore')
            W = odl.trafos.WaveletTransform(sp, name, nlevels=L, pad_mode=pm, axes=axes)
            x = _rand_arr(rng, shape, False)
            try:
                coeffs = pywt.wavedecn(x, wavelet=W.pywt_wavelet, level=L, mode=W.pywt_pad_mode, axes=axes)
            except ValueError:
                continue      # PyWavelets itself rejects the input ([anti]reflect on a length-1 axis)
            y = W(x)
            flat = np.asarray(y)
            un = pywt.unravel_coeffs(flat, coeff_slices=W.inverse._coeff_slices,
                                     coeff_shapes=W.inverse._coeff_shapes, output_format='wavedecn')
            recon = pywt.waverecn(un, wavelet=W.pywt_wavelet, mode=W.pywt_pad_mode, axes=axes)
            final = W.inverse(y)
        per = (W.pywt_pad_mode == 'periodization')
        term = ('{| w_per := %s; w_F := %s%%nat; w_axes := %s; w_L := %s%%nat; w_shape := %s; w_shapes := %s; '
                'w_slices := %s; w_size := %s%%nat; w_recon := %s; w_final := %s |}'
                % (C.b(per), C.nat(w.dec_len), nats(axes), C.nat(L), nats(shape), _shape_lit(W._coeff_shapes),
                   _slice_lit(W._coeff_slices), C.nat(W.range.size), nats(recon.shape), nats(final.shape)))
        desc = {'wavelet': name, 'pad_mode': pm, 'shape': shape, 'axes': axes, 'nlevels': L}
        ws.add(term, desc, (name, pm, tuple(shape), tuple(axes), L))
        if flat.size <= 400:
            term = ('{| v_coeffs := %s; v_flat := %s; v_shapes := %s; v_unflat := %s |}'
                    % (_coeff_lit(coeffs), C.qs(flat.tolist()), _shape_lit(W._coeff_shapes), _coeff_lit(un)))
            wf.add(term, desc, (name, pm, tuple(shape), tuple(axes), L, str(x.ravel().tolist())))
    return [ws, wf]


def haar_cases(rng, tier):
    import odl
    cs = C.CaseSet('haar', ['C18.ModelH', 'C18.Corr'], 'check_haar', 'case_haar')
    for n in range(1, 13 if tier == 'quick' else 25):
        for L in range(0, 4):
            for name in (['haar'] if tier == 'quick' else ['haar', 'db1']):
                sp = odl.uniform_discr(0, float(n), n)
                with warnings.catch_warnings():
                    warnings.simplefilter('ignore')
                    W = odl.trafos.WaveletTransform(sp, name, nlevels=L, pad_mode='pywt_periodic')
                    x = _rand_arr(rng, [n], False)
                    c = _rand_arr(rng, [W.range.size], False)
                    fwd = np.asarray(W(x))
                    inv = np.asarray(W.inverse(c))
                cs.add('{| h_L := %s%%nat; h_x := %s; h_fwd := %s; h_c := %s; h_inv := %s |}'
                       % (C.nat(L), C.qs(x.tolist()), C.qs(fwd.tolist()), C.qs(c.tolist()), C.qs(inv.tolist())),
                       {'n': n, 'nlevels': L, 'wavelet': name, 'x': x.tolist(), 'c': c.tolist()},
                       (n, L, name, str(x.tolist()), str(c.tolist())))
    return cs


def haarnd_cases(rng, tier):
    """Haar / pywt_periodic over a SUBSET of the axes of an N-d space with anisotropic cell sides."""
    import odl
    css = [C.CaseSet('haarnd%d' % i, ['C18.ModelH', 'C18.Corr'], 'check_haarnd', 'case_haarnd') for i in range(4)]
    count = 0
    todo = []
    for nd in (1, 2, 3):
        for k in range(1, nd + 1):
            for axes in itertools.permutations(range(nd), k):
                for L in (1, 2):
                    todo.append((nd, list(axes), L))
    if tier != 'quick':
        todo = todo * 3
    for nd, axes, L in todo:
        shape = [2 ** L * rng.randint(1, 2) if i in axes else rng.randint(1, 3) for i in range(nd)]
        if rng.random() < 0.15:                      # an odd level length somewhere (values still correspond)
            shape[axes[0]] += 1
        sides = [rng.choice([0.5, 2.0, 0.25, 1.0, 4.0]) for _ in shape]
        sp = odl.uniform_discr([0.0] * nd, [n * s for n, s in zip(shape, sides)], shape)
        with warnings.catch_warnings():
            warnings.simplefilter('ignore')
            W = odl.trafos.WaveletTransform(sp, 'haar', nlevels=L, pad_mode='pywt_periodic', axes=axes)
            x = _rand_arr(rng, shape, False)
            xs = [_rand_arr(rng, shape, False) for _ in range(2)]
            c = _rand_arr(rng, [W.range.size], False)
            even = all(shape[a] % (2 ** L) == 0 for a in axes)
            fwd = np.asarray(W(x)).ravel()
            adj = np.asarray(W.adjoint(c)).ravel()
            inv = np.asarray(W.inverse(c)).ravel()
            iadj = np.asarray(W.inverse.adjoint(x)).ravel()
        if not even:
            continue
        term = ('{| n_L := %s%%nat; n_shape := %s; n_axes := %s; n_sides := %s; n_x := %s; n_fwd := %s; '
                'n_xs := %s; n_c := %s; n_adj := %s; n_inv := %s; n_iadj := %s |}'
                % (C.nat(L), nats(shape), nats(axes), C.qs(sides), C.qs(x.ravel().tolist()), C.qs(fwd.tolist()),
                   C.qss([v.ravel().tolist() for v in xs]), C.qs(c.tolist()), C.qs(adj.tolist()),
                   C.qs(inv.tolist()), C.qs(iadj.tolist())))
        css[count % 4].add(term, {'shape': shape, 'axes': axes, 'nlevels': L, 'cell_sides': sides,
                                  'x': x.ravel().tolist(), 'c': c.tolist()},
                           (tuple(shape), tuple(axes), L, tuple(sides), str(x.ravel().tolist()), str(c.tolist())))
        count += 1
    return css


def correspondence(rng, tier):
    C.setup_impl_path()
    return [rg_cases(rng, tier), fac_cases(rng, tier), cis_cases(rng, tier), dft_cases(rng, tier), ft_cases(rng, tier)] \
        + wavelet_cases(rng, tier) + [haar_cases(rng, tier)] + haarnd_cases(rng, tier)


LEVEL_TEXT = ('Partial proof. Proved in Coq for ALL sizes/shapes/axes lists/shift patterns/signs: reciprocal_grid has '
              'stride 2pi/(n s) and its points are (k - n/2)D resp. (k - (n-1)/2)D in every parity x shift x half-complex '
              'case; realspace_grid(reciprocal_grid(g)) = g in N dimensions; the frequencies used by '
              'dft_postprocess_data equal the grid points times s/2pi in every case; Fourier inversion of the naive DFT '
              'over any commutative ring without zero divisors for every length (primitive root, geometric sum), hence '
              'inverse(forward(x)) = x for the ODL-normalised DFT along any axes list of an N-d array, for the '
              'half-complex pair rfftn/irfftn on real arrays (even and odd last axis, Hermitian symmetry), and for '
              'FourierTransform/FourierTransformInverse (pre/post phase factors and interpolation kernel cancel; kernel '
              'shown non-zero) on complex spaces, on real spaces, and half-complex with all axes shifted; wavelet '
              'unflatten(flatten(c)) = c for every coefficient structure, reconstruction length n + n mod 2 through any '
              'number of levels for every even filter length, and the crop rule restores n without raising. The '
              'executable model (naive sums, exact rationals + fixed-point cos/sin) agrees with NumPy-FFT/FFTW/ODL entry '
              'by entry on every branch incl. the error outcomes. Not proved (probed only): equality with NumPy, '
              'back-end agreement, Gaussian convergence, PyWavelets filter banks, the wavelet adjoint identity.')
LEVEL_NOTE = ('9 findings recorded (findings/C18.json): real-space DFT with pyfftw returns zeros on the first call; inverse '
              'DFT onto real spaces raises (pyfftw) / ignores impl; numpy half-complex inverse fails for odd lengths; '
              'pyfftw half-complex N-d inverse destroys its input; FT real+unshifted pyfftw inverse raises; FT '
              'half-complex with an unshifted non-last axis silently wrong/raises; wavelet adjoint wrong for odd level '
              'lengths and for pad_mode=periodic; dmey is not perfect-reconstruction (external). The status functions of '
              'the model carry measured variant switches so neither the defects nor their repair break the check. '
              'Trusted: exact-arithmetic idealisation, C18/CisQ.v cos/sin approximation, NumPy/FFTW/PyWavelets numerics. '
              'Axioms: classical reals + functional extensionality as printed by Print Assumptions.')
TECHNIQUE = ('Coq proof (algebra over an abstract commutative ring, list induction on flat N-d arrays, real analysis for '
             'the true cos/sin) + in-Coq differential correspondence at Q + property probes')


# =================================================================== probes
_PRE = "import odl, numpy as np, warnings\nwarnings.simplefilter('ignore')\n"


def _run(snippet):
    env = {}
    try:
        exec(snippet, env)
        return bool(env.get('ok')), {'observed': env.get('observed'), 'expected': env.get('expected')}
    except Exception as e:   # a raising property evaluation is a failure
        return False, '%s: %s' % (type(e).__name__, str(e)[:200])


class _GuardedHead(str):
    """Snippet head whose last line constructs `ft`; head + body becomes
    try: ft = ... except ValueError: ft = None / if ft is None: ok = True / else: body."""

    def __add__(self, body):
        lines = str(self).rstrip('\n').split('\n')
        ctor = lines[-1]
        pre = '\n'.join(lines[:-1]) + '\n'
        ind = ''.join('    ' + ln + '\n' for ln in body.rstrip('\n').split('\n'))
        return (pre + 'try:\n    ' + ctor + '\nexcept ValueError:\n    ft = None   # rejected at construction\n'
                'if ft is None:\n    ok = True\nelse:\n' + ind)


def _guarded(pre, ctor, body):
    """pre; try: ctor except ValueError -> clause not applicable (ok = True); else body."""
    ind = ''.join('    ' + ln + '\n' for ln in body.rstrip('\n').split('\n'))
    return (pre + 'try:\n    ' + ctor + '\n    _rejected = False\nexcept ValueError:\n    _rejected = True\n'
            'if _rejected:\n    ok = True   # combination rejected at construction\nelse:\n' + ind)


def _probe(out, key, what, snippet):
    ok, detail = _run(snippet)
    out.append(C.Probe(ok, key, what, snippet, detail))


def _arr_src(rng, shape, cplx, dt):
    n = int(np.prod(shape))
    re = [rng.randint(-4, 4) for _ in range(n)]
    if cplx:
        im = [rng.randint(-4, 4) for _ in range(n)]
        return 'np.array(%r).reshape(%r) + 1j*np.array(%r).reshape(%r)' % (re, tuple(shape), im, tuple(shape))
    return 'np.array(%r, dtype=%r).reshape(%r)' % (re, dt, tuple(shape))


_REF = ("def ref(x, axes, sg, hc):\n"
        "    if hc: return np.fft.rfftn(x, axes=axes)\n"
        "    if sg == '-': return np.fft.fftn(x, axes=axes)\n"
        "    return np.fft.ifftn(x, axes=axes) * np.prod([x.shape[a] for a in axes])\n")


def _tolf(dt):
    return 2e-4 if dt in ('float32', 'complex64') else 1e-10


def dft_probes(rng, tier, out):
    nper = 1 if tier == 'quick' else 4
    shapes = [[2], [3], [4], [5], [8], [9], [2, 3], [3, 4], [4, 4], [5, 3], [2, 3, 4], [3, 2, 5]]
    for shape in shapes:
        nd = len(shape)
        for dt, impl in itertools.product(DTYPES, ['numpy', 'pyfftw']):
            for _ in range(nper):
                real = dt.startswith('float')
                hc = real and rng.random() < 0.5
                sg = '-' if hc else rng.choice(['-', '+'])
                axes = _rand_axes(rng, nd)
                kind = 'real' if real else 'complex'
                head = (_PRE + _REF +
                        "dom = odl.uniform_discr(%r, %r, %r, dtype=%r)\nx = (%s).astype(%r)\naxes=%r\n"
                        "op = odl.trafos.DiscreteFourierTransform(dom, axes=axes, sign=%r, halfcomplex=%r, impl=%r)\n"
                        "r = ref(x, axes, %r, %r)\ntol = %r * (1 + np.abs(r).max())\n"
                        % ([0.0] * nd, [1.0] * nd, shape, dt, _arr_src(rng, shape, not real, dt), dt, axes, sg, hc,
                           impl, sg, hc, _tolf(dt)))
                cfg = 'shape=%s axes=%s dtype=%s sign=%s halfcomplex=%s impl=%s' % (shape, axes, dt, sg, hc, impl)
                # (a) equals NumPy's FFT: out-of-place (plan already made) and in-place
                _probe(out, 'dft-equals-numpy-fft-%s-%s%s' % (impl, kind, '-hc' if hc else ''),
                       'DiscreteFourierTransform equals np.fft (out-of-place and out=): ' + cfg,
                       head + "op(x.copy())\ny = np.asarray(op(x.copy()))\nout = op.range.element(); op(x.copy(), out=out)\n"
                       "observed = float(max(np.abs(y - r).max(), np.abs(np.asarray(out) - r).max())); expected = 0.0\n"
                       "ok = observed <= tol\n")
                # (b) the very first call of a fresh operator
                _probe(out, ('dft-pyfftw-real-firstcall' if (impl == 'pyfftw' and real and not hc)
                             else 'dft-firstcall-%s-%s%s' % (impl, kind, '-hc' if hc else '')),
                       'first call of a fresh DiscreteFourierTransform equals np.fft: ' + cfg,
                       head.replace("op = odl", "import pyfftw; pyfftw.forget_wisdom()\nop = odl") +
                       "y = np.asarray(op(x.copy()))\nobserved = float(np.abs(y - r).max()); expected = 0.0\n"
                       "ok = observed <= tol\n")
                # (c) the inverse returned by the operator recovers the input
                if real and not hc:
                    key = 'dft-inverse-real-nonhc-pyfftw'
                elif hc and impl == 'numpy' and shape[axes[-1]] % 2 == 1:
                    key = 'dft-inverse-hc-odd-numpy'
                else:
                    key = 'dft-roundtrip-%s-%s%s' % (impl, kind, '-hc' if hc else '')
                _probe(out, key, 'op.inverse with the same back-end recovers the input: ' + cfg,
                       head + "inv = odl.trafos.DiscreteFourierTransformInverse(dom, axes=axes, sign=%r, halfcomplex=%r, "
                       "impl=%r)\ny = op(x.copy()); y = op(x.copy())\nz = np.asarray(inv(y))\n"
                       "observed = float(np.abs(z - x).max()); expected = 0.0\nok = observed <= tol\n"
                       % ('+' if sg == '-' else '-', hc, impl))
                _probe(out, ('dft-inverse-real-nonhc-pyfftw' if (real and not hc)
                             else 'dft-inverse-property-%s-%s%s' % (impl, kind, '-hc' if hc else '')),
                       'op.inverse (as returned by the operator) recovers the input: ' + cfg,
                       head + "y = op(x.copy()); y = op(x.copy())\nz = np.asarray(op.inverse(y))\n"
                       "observed = float(np.abs(z - x).max()); expected = 0.0\nok = observed <= tol\n")
                # (d') the inverse leaves ITS input unchanged
                _probe(out, ('dft-inverse-hc-pyfftw-destroys-input' if (impl == 'pyfftw' and hc and len(axes) >= 2)
                             else 'dft-inverse-real-nonhc-pyfftw' if (impl == 'pyfftw' and real and not hc)
                             else 'dft-inverse-input-unchanged-%s-%s%s' % (impl, kind, '-hc' if hc else '')),
                       'calling the inverse operator leaves its input unchanged: ' + cfg,
                       head + "y = op(x.copy()); y = op(x.copy()); y0 = np.asarray(y).copy()\n"
                       "inv = odl.trafos.DiscreteFourierTransformInverse(dom, axes=axes, sign=%r, halfcomplex=%r, impl=%r)\n"
                       "try:\n    inv(y)\nexcept Exception:\n    pass\n"
                       "observed = float(np.abs(np.asarray(y) - y0).max()); expected = 0.0\nok = observed == 0.0\n"
                       % ('+' if sg == '-' else '-', hc, impl))
                # (d) input not modified
                _probe(out, 'dft-input-unchanged-%s-%s%s' % (impl, kind, '-hc' if hc else ''),
                       'calling the operator leaves its input unchanged: ' + cfg,
                       head + "xe = dom.element(x.copy()); op(xe); op(xe)\nok = bool(np.array_equal(np.asarray(xe), x))\n")


def backend_probes(rng, tier, out):
    """numpy and pyfftw return the same values, out-of-place and in-place, forward and inverse."""
    nper = 1 if tier == 'quick' else 3
    shapes = [[4], [5], [3, 4], [4, 5], [2, 3, 4]]
    for shape, dt, cont in itertools.product(shapes, DTYPES, [False, True]):
        nd = len(shape)
        for _ in range(nper):
            real = dt.startswith('float')
            hc = real and rng.random() < 0.5
            axes = _rand_axes(rng, nd)
            allsh = rng.random() < 0.5
            shifts = [True] * len(axes) if (allsh or hc) else [rng.random() < 0.5 for _ in axes]
            if cont and hc:
                shifts[-1] = True
            sg = '-' if hc else rng.choice(['-', '+'])
            for inv in (False, True):
                cls = ('FourierTransform' if cont else 'DiscreteFourierTransform') + ('Inverse' if inv else '')
                kw = "axes=%r, sign=%r, halfcomplex=%r" % (axes, ('+' if sg == '-' else '-') if inv else sg, hc)
                if cont:
                    kw += ", shift=%r" % (shifts,)
                unsh = cont and not all(shifts)
                kind = 'real' if real else 'complex'
                if real and not hc and inv and not cont:
                    key = 'dft-inverse-real-nonhc-pyfftw'
                elif real and hc and inv and not cont and shape[axes[-1]] % 2 == 1:
                    key = 'dft-inverse-hc-odd-numpy'
                elif cont and real and unsh and not hc and inv:
                    key = 'ft-real-unshifted-pyfftw-inverse'
                elif cont and real and unsh and hc:
                    key = 'ft-halfcomplex-unshifted-axis'
                else:
                    key = 'backends-agree-%s-%s%s%s' % (cls, kind, '-hc' if hc else '', '-unshifted' if unsh else '')
                snippet = (_PRE +
                           "dom = odl.uniform_discr(%r, %r, %r, dtype=%r)\n"
                           "ops = [odl.trafos.%s(dom, impl=i, %s) for i in ('numpy', 'pyfftw')]\n"
                           "rs = np.random.RandomState(%d)\nshp = ops[0].domain.shape\n"
                           "x = rs.randint(-4, 5, shp) + (1j * rs.randint(-4, 5, shp) if ops[0].domain.is_complex else 0)\n"
                           "x = x.astype(ops[0].domain.dtype)\nres = []\n"
                           "for op in ops:\n"
                           "    op(x.copy())\n"
                           "    res.append(np.asarray(op(x.copy())))\n"
                           "    out = op.range.element(); op(x.copy(), out=out); res.append(np.asarray(out))\n"
                           "observed = float(max(np.abs(r - res[0]).max() for r in res)); expected = 0.0\n"
                           "ok = observed <= %r * (1 + np.abs(res[0]).max())\n"
                           % ([-1.0] * nd, [1.0] * nd, shape, dt, cls, kw, rng.randint(0, 10 ** 6), _tolf(dt)))
                if key == 'ft-halfcomplex-unshifted-axis':
                    lines = snippet.split('\n')
                    k0 = [i for i, ln in enumerate(lines) if ln.startswith('ops = ')][0]
                    snippet = _guarded('\n'.join(lines[:k0]) + '\n', lines[k0], '\n'.join(lines[k0 + 1:]))
                _probe(out, key, '%s(%s) on shape %s dtype %s: numpy == pyfftw, out-of-place == in-place'
                       % (cls, kw, shape, dt), snippet)


def ft_probes(rng, tier, out):
    nper = 1 if tier == 'quick' else 3
    shapes = [[2], [3], [4], [5], [8], [3, 4], [4, 3], [5, 5], [2, 3, 4]]
    for shape, dt, impl in itertools.product(shapes, DTYPES, ['numpy', 'pyfftw']):
        nd = len(shape)
        for _ in range(nper):
            real = dt.startswith('float')
            hc = real and rng.random() < 0.5
            axes = _rand_axes(rng, nd)
            shifts = [rng.random() < 0.5 for _ in axes]
            if rng.random() < 0.3:
                shifts = [True] * len(axes)
            if hc:
                shifts[-1] = True
            sg = '-' if hc else rng.choice(['-', '+'])
            unsh = not all(shifts)
            kind = 'real' if real else 'complex'
            if real and unsh and hc:
                key = 'ft-halfcomplex-unshifted-axis'
            elif real and unsh and impl == 'pyfftw':
                key = 'ft-real-unshifted-pyfftw-inverse'
            else:
                key = 'ft-roundtrip-%s-%s%s%s' % (impl, kind, '-hc' if hc else '', '-unshifted' if unsh else '')
            mins = [rng.choice([0.0, -1.0, 0.5, -2.0]) for _ in shape]
            sides = [rng.choice([1.0, 0.5, 0.25, 2.0]) for _ in shape]
            head = (_PRE + "dom = odl.uniform_discr(%r, %r, %r, dtype=%r)\nx = (%s).astype(%r)\n"
                    "ft = odl.trafos.FourierTransform(dom, axes=%r, shift=%r, sign=%r, halfcomplex=%r, impl=%r)\n"
                    % (mins, [m + n * s for m, n, s in zip(mins, shape, sides)], shape, dt,
                       _arr_src(rng, shape, not real, dt), dt, axes, shifts, sg, hc, impl))
            if real and unsh and hc:
                # a constructor that rejects the combination makes the clause vacuous
                head = _GuardedHead(head)
            cfg = 'shape=%s axes=%s shift=%s dtype=%s sign=%s halfcomplex=%s impl=%s' % (shape, axes, shifts, dt, sg,
                                                                                          hc, impl)
            _probe(out, key, 'ft.inverse(ft(x)) == x: ' + cfg,
                   head + "z = np.asarray(ft.inverse(ft(x.copy())))\nobserved = float(np.abs(z - x).max()); expected = 0.0\n"
                   "ok = observed <= %r * (1 + np.abs(x).max())\n" % (10 * _tolf(dt)))
            # against the defining sum (independent oracle): s/sqrt(2pi) sinc(..) sum_j x_j exp(-+ i x_j xi_k)
            if not (real and unsh and hc):
                _probe(out, 'ft-equals-defining-sum-%s-%s%s%s' % (impl, kind, '-hc' if hc else '',
                                                                   '-unshifted' if unsh else ''),
                       'ft(x) equals the kernel-weighted direct sum over grid points: ' + cfg,
                       head + "y = np.asarray(ft(x.copy()))\nsgn = -1 if ft.sign == '-' else 1\nacc = x.astype(complex)\n"
                       "for ax in ft.axes:\n"
                       "    xs = dom.grid.coord_vectors[ax]; xi = ft.range.grid.coord_vectors[ax]\n"
                       "    s = dom.cell_sides[ax]\n"
                       "    M = np.exp(sgn * 1j * np.outer(xi, xs)) * (s / np.sqrt(2 * np.pi) * np.sinc(xi * s / (2 * np.pi)))[:, None]\n"
                       "    acc = np.moveaxis(np.tensordot(M, acc, axes=([1], [ax])), 0, ax)\n"
                       "observed = float(np.abs(y - acc).max()); expected = 0.0\n"
                       "ok = observed <= %r * (1 + np.abs(acc).max())\n" % (10 * _tolf(dt)))
            _probe(out, 'ft-input-unchanged-%s-%s%s' % (impl, kind, '-hc' if hc else ''),
                   'calling ft and ft.inverse leaves the inputs unchanged: ' + cfg,
                   head + "xe = dom.element(x.copy())\ntry:\n    y = ft(xe); y0 = np.asarray(y).copy(); ft.inverse(y)\n"
                   "    ok = bool(np.array_equal(np.asarray(xe), x) and np.array_equal(np.asarray(y), y0))\n"
                   "except Exception:\n    ok = bool(np.array_equal(np.asarray(xe), x))\n")
            # the inverse of the inverse is the transform again; temporaries/plan on the inverse operator
            _probe(out, key if (key.startswith('ft-half') or key.startswith('ft-real-unsh')) else
                   'ft-inverse-inverse-%s-%s%s%s' % (impl, kind, '-hc' if hc else '', '-unshifted' if unsh else ''),
                   'ft.inverse.inverse(x) == ft(x); ft.inverse with temporaries/plan gives the same values: ' + cfg,
                   head + "y0 = np.asarray(ft(x.copy())).copy()\ninv = ft.inverse\n"
                   "y1 = np.asarray(inv.inverse(x.copy())).copy()\n"
                   "z0 = np.asarray(inv(y0.copy())).copy()\ninv.create_temporaries()\n"
                   "if inv.impl == 'pyfftw': inv.init_fftw_plan()\n"
                   "z1 = np.asarray(inv(y0.copy())).copy(); inv.clear_temporaries(); z2 = np.asarray(inv(y0.copy())).copy()\n"
                   "observed = float(max(np.abs(y1 - y0).max(), np.abs(z1 - z0).max(), np.abs(z2 - z0).max())); expected = 0.0\n"
                   "ok = observed <= %r * (1 + np.abs(y0).max())\n" % (10 * _tolf(dt)))
            # temporaries and a cached plan do not change the values
            _probe(out, key if key.startswith('ft-half') else
                   'ft-temporaries-%s-%s%s%s' % (impl, kind, '-hc' if hc else '', '-unshifted' if unsh else ''),
                   'create_temporaries / init_fftw_plan / repeated calls give the same values: ' + cfg,
                   head + "y0 = np.asarray(ft(x.copy())).copy()\nft.create_temporaries()\n"
                   "if ft.impl == 'pyfftw': ft.init_fftw_plan()\n"
                   "y1 = np.asarray(ft(x.copy())).copy(); y2 = np.asarray(ft(x.copy())).copy()\n"
                   "observed = float(max(np.abs(y1 - y0).max(), np.abs(y2 - y0).max())); expected = 0.0\n"
                   "ok = observed <= %r * (1 + np.abs(y0).max())\n" % (10 * _tolf(dt)))


def gaussian_probes(rng, tier, out):
    """Convergence to the analytic transform of a Gaussian under grid refinement."""
    for nd in (1, 2):
        for impl, real, sg in itertools.product(['numpy', 'pyfftw'], [True, False], ['-', '+']):
            for shifts in itertools.product([True, False], repeat=nd):
                for hc in ([False, True] if real and sg == '-' else [False]):
                    if hc and not shifts[-1]:
                        continue
                    unsh = not all(shifts)
                    if real and unsh and hc:
                        key = 'ft-halfcomplex-unshifted-axis'
                    else:
                        key = 'ft-gaussian-convergence-%s-%s%s%s' % (impl, 'real' if real else 'complex',
                                                                      '-hc' if hc else '', '-unshifted' if unsh else '')
                    sizes = [16, 32, 64] if nd == 1 else [(12, 13), (24, 25), (48, 49)]
                    snippet = (_PRE + "errs = []\nfor n in %r:\n"
                               "    dom = odl.uniform_discr(%r, %r, n, dtype=%r)\n"
                               "    ft = odl.trafos.FourierTransform(dom, shift=%r, sign=%r, halfcomplex=%r, impl=%r)\n"
                               "    f = dom.element(lambda x: np.exp(-sum(xi ** 2 for xi in x) / 2))\n"
                               "    fhat = ft(f)\n"
                               "    true = ft.range.element(lambda x: np.exp(-sum(xi ** 2 for xi in x) / 2))\n"
                               "    m = np.ones(fhat.shape, bool)\n"
                               "    for ax, cv in enumerate(ft.range.grid.coord_vectors): m &= (np.abs(cv) <= 3).reshape([-1 if i == ax else 1 for i in range(len(fhat.shape))])\n"
                               "    errs.append(float(np.abs(np.asarray(fhat) - np.asarray(true))[m].max()))\n"
                               "observed = errs; expected = 'each refinement divides the error by >= 3 (2nd order), last <= 5e-3'\n"
                               "ok = errs[1] <= errs[0] / 3 and errs[2] <= errs[1] / 3 and errs[2] <= 5e-3\n"
                               % (sizes, [-8.0] * nd, [8.0] * nd, 'float64' if real else 'complex128',
                                  list(shifts), sg, hc, impl))
                    if key == 'ft-halfcomplex-unshifted-axis':
                        snippet = _guarded(_PRE, "odl.trafos.FourierTransform(odl.uniform_discr(%r, %r, %r), shift=%r, "
                                           "sign=%r, halfcomplex=%r, impl=%r)"
                                           % ([-8.0] * nd, [8.0] * nd, sizes[0], list(shifts), sg, hc, impl),
                                           snippet[len(_PRE):])
                    _probe(out, key, 'FourierTransform of a Gaussian on [-8,8]^%d converges to the Gaussian '
                           '(shift=%s sign=%s halfcomplex=%s impl=%s)' % (nd, list(shifts), sg, hc, impl), snippet)


def wavelet_probes(rng, tier, out):
    import pywt
    names = pywt.wavelist(kind='discrete')
    sel = names if tier != 'quick' else (['haar', 'db2', 'db5', 'sym4', 'coif2', 'bior1.3', 'bior4.4', 'rbio2.2',
                                          'dmey'] + rng.sample(names, 12))
    for name in sel:
        for pm in (ODL_PAD_MODES if tier != 'quick' else rng.sample(ODL_PAD_MODES, 3)):
            nd = rng.choice([1, 2, 2, 3])
            shape = _rand_shape(rng, nd, 2, 11, 200)
            axes = sorted(_rand_axes(rng, nd))
            L = rng.randint(0, 3)
            snippet = (_PRE + "sp = odl.uniform_discr(%r, %r, %r)\n"
                       "W = odl.trafos.WaveletTransform(sp, %r, nlevels=%d, pad_mode=%r, axes=%r)\n"
                       "x = sp.element(np.random.RandomState(%d).randint(-4, 5, %r).astype(float))\n"
                       "try:\n    y = W(x); z = W.inverse(y); observed = float(np.abs(np.asarray(z) - np.asarray(x)).max())\n"
                       "    # rounding is relative to the size of the coefficients (extrapolating pad modes amplify)\n"
                       "    ok = z.shape == x.shape and observed <= 1e-10 * (10 + float(np.abs(np.asarray(y)).max()))\n"
                       "except ValueError as e:\n"
                       "    ok = '[anti]reflect' in str(e)   # PyWavelets' own restriction on length-1 signals\n"
                       % ([0.0] * nd, [1.0] * nd, shape, name, L, pm, axes, rng.randint(0, 10 ** 6), tuple(shape)))
            _probe(out, 'wavelet-reconstruction-dmey-approximate-filter' if name == 'dmey'
                   else 'wavelet-reconstruction-%s' % pm,
                   'W.inverse(W(x)) == x for %s, nlevels=%d, pad_mode=%s, shape=%s, axes=%s' % (name, L, pm, shape, axes),
                   snippet)
    # non-orthogonal wavelets: no adjoint is returned (NotImplementedError), never a wrong one
    for name in [n for n in names if not pywt.Wavelet(n).orthogonal][:6 if tier == 'quick' else None]:
        snippet = (_PRE + "sp = odl.uniform_discr(0, 1, 8)\nW = odl.trafos.WaveletTransform(sp, %r, nlevels=1, pad_mode='pywt_periodic')\n"
                   "try:\n    W.adjoint; ok = False\nexcept NotImplementedError:\n    ok = True\n"
                   "try:\n    W.inverse.adjoint; ok = False\nexcept NotImplementedError:\n    pass\n" % name)
        _probe(out, 'wavelet-adjoint-nonorthogonal-not-implemented',
               'WaveletTransform(%s).adjoint raises NotImplementedError (biorthogonal wavelet)' % name, snippet)
    # adjoint identity: orthogonal wavelets, periodic extension
    orth = [n for n in names if pywt.Wavelet(n).orthogonal]
    for name in (orth if tier != 'quick' else ['haar', 'db2', 'db4', 'sym3', 'coif1'] + rng.sample(orth, 6)):
        for pm in ('pywt_periodic', 'periodic'):
            for parity in ('even', 'odd'):
                nd = rng.choice([1, 2])
                L = rng.randint(1, 3)
                if parity == 'even':      # every level length even on every axis
                    shape = [2 ** L * rng.randint(1, 4) for _ in range(nd)]
                else:
                    shape = [2 ** (L - 1) * (2 * rng.randint(1, 3) + 1) for _ in range(nd)]
                if pm == 'periodic':
                    key = 'wavelet-adjoint-padmode-periodic'
                elif parity == 'odd':
                    key = 'wavelet-adjoint-periodization-odd-length'
                else:
                    key = 'wavelet-adjoint-periodization-even'
                sides = [rng.choice([1.0, 0.5, 2.0]) for _ in shape]
                snippet = (_PRE + "sp = odl.uniform_discr(%r, %r, %r)\n"
                           "W = odl.trafos.WaveletTransform(sp, %r, nlevels=%d, pad_mode=%r)\n"
                           "rs = np.random.RandomState(%d)\n"
                           "x = sp.element(rs.randint(-4, 5, %r).astype(float)); y = W.range.element(rs.randint(-4, 5, W.range.size).astype(float))\n"
                           "try:\n    A = W.adjoint; B = W.inverse.adjoint\nexcept NotImplementedError:\n    A = B = None   # no adjoint is returned: nothing to check\n"
                           "if A is None:\n    ok = True\nelse:\n"
                           "    lhs = W(x).inner(y); rhs = x.inner(A(y))\n"
                           "    lhs2 = W.inverse(y).inner(x); rhs2 = y.inner(B(x))\n"
                           "    observed = [float(lhs - rhs), float(lhs2 - rhs2)]; expected = [0.0, 0.0]\n"
                           "    ok = abs(lhs - rhs) <= 1e-9 * (1 + abs(lhs)) and abs(lhs2 - rhs2) <= 1e-9 * (1 + abs(lhs2))\n"
                           % ([0.0] * nd, [n * s for n, s in zip(shape, sides)], shape, name, L, pm,
                              rng.randint(0, 10 ** 6), tuple(shape)))
                _probe(out, key, '<Wx,y> == <x,W.adjoint y> and the same for W.inverse: %s nlevels=%d pad_mode=%s shape=%s'
                       % (name, L, pm, shape), snippet)


def grid_probes(rng, tier, out):
    """realspace_grid(reciprocal_grid(g)) == g, reciprocal stride 2 pi/(n s), FT range grid."""
    todo = []
    for n, sh, hc in itertools.product(range(2, 9 if tier == 'quick' else 14), [True, False], [False, True]):
        todo.append(([n], [0], [sh], hc))
    for _ in range(60 if tier == 'quick' else 300):
        nd = rng.choice([2, 2, 3])
        shape = [rng.randint(2, 7) for _ in range(nd)]
        axes = _rand_axes(rng, nd)
        todo.append((shape, axes, [rng.random() < 0.5 for _ in axes], rng.random() < 0.5))
    for shape, axes, shifts, hc in todo:
        mins = [rng.choice(DY_MIN) for _ in shape]
        strides = [rng.choice(DY_STRIDE) for _ in shape]
        snippet = (_PRE + "from odl.trafos.util import reciprocal_grid, realspace_grid\n"
                   "mins, strides, shape, axes, shifts, hc = %r, %r, %r, %r, %r, %r\n"
                   "g = odl.uniform_grid(mins, [m + (n - 1) * s for m, n, s in zip(mins, shape, strides)], shape)\n"
                   "rg = reciprocal_grid(g, shift=shifts, axes=axes, halfcomplex=hc)\n"
                   "par = 'odd' if shape[axes[-1]] %% 2 else 'even'\n"
                   "back = realspace_grid(rg, g.min_pt, axes=axes, halfcomplex=hc, halfcx_parity=par)\n"
                   "want = [2 * np.pi / (shape[a] * strides[a]) for a in axes]\n"
                   "observed = [list(back.shape), back.min_pt.tolist(), back.max_pt.tolist(), [float(rg.stride[a]) for a in axes]]\n"
                   "expected = [list(g.shape), g.min_pt.tolist(), g.max_pt.tolist(), want]\n"
                   "ok = (back.shape == g.shape and np.allclose(back.min_pt, g.min_pt, atol=1e-12)\n"
                   "      and np.allclose(back.max_pt, g.max_pt, atol=1e-12, rtol=1e-12)\n"
                   "      and np.allclose([rg.stride[a] for a in axes], want, rtol=1e-12)\n"
                   "      and all(rg.shape[i] == g.shape[i] for i in range(g.ndim) if not (hc and i == axes[-1]))\n"
                   "      and (not hc or rg.shape[axes[-1]] == g.shape[axes[-1]] // 2 + 1))\n"
                   % (mins, strides, shape, axes, shifts, hc))
        _probe(out, 'grid-roundtrip%s-%s' % ('-hc' if hc else '', 'shifted' if all(shifts) else 'unshifted'),
               'realspace_grid(reciprocal_grid(g)) == g and reciprocal stride = 2 pi/(n s): shape=%s axes=%s shift=%s '
               'halfcomplex=%s' % (shape, axes, shifts, hc), snippet)


_ADJ = ("def adj_defect(op, a, b):\n"
        "    # |<op a, b>_ran - <a, op^* b>_dom| relative, plus the same for op^* and (op^*)^* == op\n"
        "    A = op.adjoint\n"
        "    l1 = op(a).inner(b); r1 = a.inner(A(b))\n"
        "    l2 = A(b).inner(a); r2 = b.inner(A.adjoint(a))\n"
        "    sc = 1 + abs(l1)\n"
        "    return max(abs(l1 - r1), abs(l2 - r2)) / sc\n")


def wavelet_axes_adjoint_probes(rng, tier, out):
    """Adjoint identity in the WEIGHTED inner products for transforms over a subset of the axes of
    spaces with different, non-unit cell sides per axis; both operator classes, their adjoints'
    adjoints; every orthogonal wavelet of the sweep."""
    import pywt
    names = pywt.wavelist(kind='discrete')
    orth = [n for n in names if pywt.Wavelet(n).orthogonal and n != 'dmey']
    sel = orth if tier != 'quick' else (['haar', 'db2', 'db3', 'sym4', 'coif1'] + rng.sample(orth, 8))
    for name in sel:
        for nd in (2, 3):
            for _ in range(1 if tier == 'quick' else 2):
                L = rng.randint(1, 2)
                k = rng.randint(1, nd - 1)                       # proper subset
                axes = rng.sample(range(nd), k)
                if rng.random() < 0.5:
                    axes.sort()
                ax_arg = axes
                if k == 1 and rng.random() < 0.5:
                    ax_arg = axes[0] - nd if rng.random() < 0.5 else axes[0]      # scalar / negative axis
                shape = [2 ** L * rng.randint(1, 3) if i in axes else rng.randint(2, 5) for i in range(nd)]
                sides = [rng.choice([0.5, 2.0, 0.25, 3.0, 1.5]) for _ in shape]
                for cls in ('W', 'W.inverse', 'W.adjoint', 'W.inverse.adjoint'):
                    snippet = (_PRE + _ADJ + "sp = odl.uniform_discr(%r, %r, %r)\n"
                               "W = odl.trafos.WaveletTransform(sp, %r, nlevels=%d, pad_mode='pywt_periodic', axes=%r)\n"
                               "op = %s\nrs = np.random.RandomState(%d)\n"
                               "a = op.domain.element(rs.randint(-4, 5, op.domain.shape).astype(float))\n"
                               "b = op.range.element(rs.randint(-4, 5, op.range.shape).astype(float))\n"
                               "observed = float(adj_defect(op, a, b)); expected = 0.0\nok = observed <= 1e-10\n"
                               % ([0.0] * nd, [n * s for n, s in zip(shape, sides)], shape, name, L, ax_arg, cls,
                                  rng.randint(0, 10 ** 6)))
                    _probe(out, 'wavelet-adjoint-axes-subset-%s' % cls,
                           '<op a,b> == <a,op.adjoint b> (weighted), op = %s of WaveletTransform(%s, nlevels=%d, '
                           'pywt_periodic, axes=%r) on shape %s with cell sides %s' % (cls, name, L, ax_arg, shape, sides),
                           snippet)


def fourier_adjoint_probes(rng, tier, out):
    """`adjoint` of the Fourier operators against the inner products of their spaces (not claimed by
    the property text; reported as findings)."""
    for cls in ('FourierTransform', 'DiscreteFourierTransform'):
        for shape, axes in [([4], [0]), ([4, 5], [0, 1]), ([4, 5], [1]), ([3, 4, 5], [0, 2]), ([3, 4, 5], [1])]:
            nd = len(shape)
            sides = [rng.choice([0.5, 2.0, 0.25, 1.0]) for _ in shape]
            for impl in ('numpy', 'pyfftw'):
                snippet = (_PRE + _ADJ + "sp = odl.uniform_discr(%r, %r, %r, dtype=complex)\n"
                           "op = odl.trafos.%s(sp, axes=%r, impl=%r)\nrs = np.random.RandomState(%d)\n"
                           "a = op.domain.element(rs.randint(-4, 5, op.domain.shape) + 1j * rs.randint(-4, 5, op.domain.shape))\n"
                           "b = op.range.element(rs.randint(-4, 5, op.range.shape) + 1j * rs.randint(-4, 5, op.range.shape))\n"
                           "observed = float(adj_defect(op, a, b)); expected = 0.0\nok = observed <= 1e-9\n"
                           % ([0.0] * nd, [n * s for n, s in zip(shape, sides)], shape, cls, axes, impl,
                              rng.randint(0, 10 ** 6)))
                _probe(out, 'dft-adjoint-is-unscaled-inverse' if cls.startswith('Discrete')
                       else 'ft-adjoint-is-inverse-not-adjoint',
                       '%s(axes=%r, impl=%s).adjoint is the adjoint for the spaces\' inner products, shape %s sides %s'
                       % (cls, axes, impl, shape, sides), snippet)


def aliased_inplace_probes(rng, tier, out):
    """`op(x, out=x)` on an operator whose range IS its domain (complex space): same values as
    out-of-place, on the very first call too (in-place clause)."""
    shapes = [[4], [5], [8], [3, 4], [2, 3, 4]] if tier == 'quick' else [[2], [4], [5], [8], [9], [16], [3, 4], [4, 4],
                                                                           [5, 3], [2, 3, 4]]
    for shape, impl, sg, inv, dt in itertools.product(shapes, ['numpy', 'pyfftw'], ['-', '+'], [False, True],
                                                      ['complex128', 'complex64']):
        nd = len(shape)
        axes = _rand_axes(rng, nd)
        ctor = ("odl.trafos.DiscreteFourierTransformInverse(sp, domain=sp, axes=%r, sign=%r, impl=%r)" if inv
                else "odl.trafos.DiscreteFourierTransform(sp, range=sp, axes=%r, sign=%r, impl=%r)") % (axes, sg, impl)
        snippet = (_PRE + "import pyfftw\nsp = odl.uniform_discr(%r, %r, %r, dtype=%r)\n"
                   "x0 = (%s).astype(%r)\naxes = %r\n"
                   "ref = np.fft.fftn(x0, axes=axes) if %r == '-' else np.fft.ifftn(x0, axes=axes) * np.prod([x0.shape[a] for a in axes])\n"
                   "if %r: ref = ref / np.prod([x0.shape[a] for a in axes])\n"
                   "pyfftw.forget_wisdom()\nop = %s\n"
                   "x = sp.element(x0.copy()); op(x, out=x); first = float(np.abs(np.asarray(x) - ref).max())\n"
                   "x = sp.element(x0.copy()); op(x, out=x); second = float(np.abs(np.asarray(x) - ref).max())\n"
                   "observed = [first, second]; expected = [0.0, 0.0]\n"
                   "ok = max(first, second) <= %r * (1 + np.abs(ref).max())\n"
                   % ([0.0] * nd, [1.0] * nd, shape, dt, _arr_src(rng, shape, True, dt), dt, axes, sg, inv, ctor,
                      _tolf(dt)))
        _probe(out, 'dft-pyfftw-aliased-inplace-firstcall' if impl == 'pyfftw' else 'dft-aliased-inplace-numpy',
               '%s: op(x, out=x) equals the out-of-place result on the first and second call (shape %s, %s)'
               % (ctor, shape, dt), snippet)


def call_history_probes(rng, tier, out):
    """Call HISTORIES on ONE operator object (the plan is cached on it): every sequence of length <= 3 of
    a = op(x), b = op(x, out=y), c = op(x, out=x); every call compared with numpy.fft (fix c5457f5)."""
    shapes = [[8], [128], [3, 4]] if tier == 'quick' else [[4], [5], [30], [31], [128], [3, 4], [8, 8]]
    hists = [''.join(h) for n in (1, 2, 3) for h in itertools.product('abc', repeat=n)]
    for shape, sg, inv in itertools.product(shapes, ['-', '+'], [False, True]):
        nd = len(shape)
        ctor = ("odl.trafos.DiscreteFourierTransformInverse(sp, domain=sp, sign=%r, impl='pyfftw')" if inv
                else "odl.trafos.DiscreteFourierTransform(sp, range=sp, sign=%r, impl='pyfftw')") % sg
        for h in hists:
            snippet = (_PRE + "import pyfftw\nsp = odl.uniform_discr(%r, %r, %r, dtype=complex)\n"
                       "rs = np.random.RandomState(%d)\n"
                       "def ref(a):\n"
                       "    r = np.fft.fftn(a) if %r == '-' else np.fft.ifftn(a) * a.size\n"
                       "    return r / a.size if %r else r\n"
                       "pyfftw.forget_wisdom()\nop = %s\nerrs = []\n"
                       "for kind in %r:\n"
                       "    x0 = rs.randint(-4, 5, %r) + 1j * rs.randint(-4, 5, %r)\n"
                       "    x = sp.element(x0.copy())\n"
                       "    if kind == 'a':\n        res = op(x)\n"
                       "    elif kind == 'b':\n        res = sp.element(); op(x, out=res)\n"
                       "    else:\n        op(x, out=x); res = x\n"
                       "    errs.append(float(np.abs(np.asarray(res) - ref(x0)).max() / (1 + np.abs(ref(x0)).max())))\n"
                       "    if kind != 'c': errs.append(float(np.abs(np.asarray(x) - x0).max()))   # input untouched\n"
                       "observed = errs; expected = 0.0\nok = max(errs) <= 1e-10\n"
                       % ([0.0] * nd, [1.0] * nd, shape, rng.randint(0, 10 ** 6), sg, inv, ctor, h,
                          tuple(shape), tuple(shape)))
            _probe(out, 'dft-pyfftw-call-history',
                   '%s on shape %s: call history %s (a = op(x), b = op(x, out=y), c = op(x, out=x)) equals numpy.fft '
                   'at every step' % (ctor, shape, h), snippet)


def plan_history_probes(rng, tier, out):
    """Histories on ONE pyfftw operator that also contain init_fftw_plan('estimate'|'measure') and
    clear_fftw_plan() at every position: the prepared plan is handed to pyfftw_call and executed as is, so its
    direction / flags / axes / array pair must be those of the operator.  Every result is compared with numpy.fft
    (DFT) or the numpy back-end of the same operator (FT)."""
    cfgs = []
    for cont, inv, sg, kind in itertools.product([False, True], [False, True], ['-', '+'], ['c2c', 'real', 'hc']):
        if kind == 'hc' and sg != ('+' if inv else '-'):
            continue
        for shape, axes in ([([8], [0]), ([3, 4], [1]), ([4, 3], [0, 1])] if tier == 'quick'
                            else [([8], [0]), ([5], [0]), ([30], [0]), ([3, 4], [1]), ([3, 4], [0]), ([4, 3], [0, 1]),
                                  ([2, 3, 4], [2, 0])]):
            cfgs.append((cont, inv, sg, kind, shape, axes))
    for cont, inv, sg, kind, shape, axes in cfgs:
        nd = len(shape)
        alias = (kind == 'c2c' and not cont)
        calls = 'abc' if alias else 'ab'
        toks = calls + 'emk'
        hists = [''.join(h) for n in (2, 3) for h in itertools.product(toks, repeat=n)
                 if any(t in 'emk' for t in h) and any(t in calls for t in h)]
        short = [h for h in hists if len(h) == 2]
        long_ = [h for h in hists if len(h) == 3]
        sel = short + (long_ if tier != 'quick' else rng.sample(long_, 5))
        cls = ('FourierTransform' if cont else 'DiscreteFourierTransform') + ('Inverse' if inv else '')
        dt = 'complex' if kind == 'c2c' else 'float'
        extra = ''
        if cont:
            extra = ', shift=%r' % ([rng.random() < 0.5 for _ in axes] if kind != 'hc' else [True] * len(axes),)
        elif alias:
            extra = ', domain=sp' if inv else ', range=sp'
        ctor = "odl.trafos.%s(sp, axes=%r, sign=%r, halfcomplex=%r, impl=IMPL%s)" % (cls, axes, sg, kind == 'hc', extra)
        for h in sel:
            snippet = (_PRE + "import pyfftw\nsp = odl.uniform_discr(%r, %r, %r, dtype=%s)\n"
                       "axes = %r\nrs = np.random.RandomState(%d)\n"
                       "IMPL = 'numpy'; refop = %s\n"
                       "pyfftw.forget_wisdom()\nIMPL = 'pyfftw'; op = %s\n"
                       "def np_ref(a):\n"
                       "    N = np.prod([sp.shape[i] for i in axes])\n"
                       "    if %r:      # DiscreteFourierTransformInverse\n"
                       "        if %r: return np.fft.irfftn(a, axes=axes, s=[sp.shape[i] for i in axes])\n"
                       "        r = np.fft.ifftn(a, axes=axes) if %r == '+' else np.fft.fftn(a, axes=axes) / N\n"
                       "        return r.real if %r else r\n"
                       "    if %r: return np.fft.rfftn(a, axes=axes)\n"
                       "    return np.fft.fftn(a, axes=axes) if %r == '-' else np.fft.ifftn(a, axes=axes) * N\n"
                       "def new_input():\n"
                       "    shp = op.domain.shape\n"
                       "    if op.domain.is_real: return rs.randint(-4, 5, shp).astype(float)\n"
                       "    if %r:      # half-complex inverse: a genuine half spectrum\n"
                       "        return np.fft.rfftn(rs.randint(-4, 5, sp.shape).astype(float), axes=axes)\n"
                       "    return rs.randint(-4, 5, shp) + 1j * rs.randint(-4, 5, shp)\n"
                       "errs = []\n"
                       "for kind in %r:\n"
                       "    if kind == 'e': op.init_fftw_plan('estimate'); continue\n"
                       "    if kind == 'm': op.init_fftw_plan('measure'); continue\n"
                       "    if kind == 'k': op.clear_fftw_plan(); continue\n"
                       "    x0 = new_input(); x = op.domain.element(x0.copy())\n"
                       "    want = np.asarray(refop(refop.domain.element(x0.copy()))) if %r else np_ref(x0)\n"
                       "    if kind == 'a':\n        res = op(x)\n"
                       "    elif kind == 'b':\n        res = op.range.element(); op(x, out=res)\n"
                       "    else:\n        op(x, out=x); res = x\n"
                       "    errs.append(float(np.abs(np.asarray(res) - want).max() / (1 + np.abs(want).max())))\n"
                       "observed = errs; expected = 0.0\nok = max(errs) <= 1e-10\n"
                       % ([0.0] * nd, [float(n) / 2 for n in shape], shape, dt, axes, rng.randint(0, 10 ** 6),
                          ctor, ctor, inv, kind == 'hc', sg, kind == 'real', kind == 'hc', sg,
                          inv and kind == 'hc', h, cont))
            key = 'pyfftw-prepared-plan-history-%s' % ('FT' if cont else 'DFT')
            if (not cont) and inv and kind == 'real' and any(t in 'em' for t in h):
                key = 'dft-inverse-real-nonhc-init-plan-raises'
            _probe(out, key,
                   '%s on shape %s: history %s (a = op(x), b = op(x, out=y), c = op(x, out=x), e/m = '
                   'init_fftw_plan(estimate/measure), k = clear_fftw_plan()) equals the reference at every call'
                   % (ctor.replace('IMPL', "'pyfftw'"), shape, h), snippet)


def ctor_default_probes(rng, tier, out):
    """Constructor-default consistency: Inverse(space)(Forward(space)(x)) == x with default arguments
    (only `impl` given), for the DFT and the FT, real and complex spaces."""
    for cont, dt, shape, impl in itertools.product([False, True], ['float64', 'complex128'],
                                                   [[8], [5], [4, 6], [3, 5]], ['numpy', 'pyfftw']):
        nd = len(shape)
        pre = 'Fourier' if cont else 'DiscreteFourier'
        snippet = (_PRE + "sp = odl.uniform_discr(%r, %r, %r, dtype=%r)\n"
                   "F = odl.trafos.%sTransform(sp, impl=%r)\nG = odl.trafos.%sTransformInverse(sp, impl=%r)\n"
                   "x = (%s).astype(%r)\n"
                   "z = np.asarray(G(F(x.copy())))\nobserved = float(np.abs(z - x).max()); expected = 0.0\n"
                   "ok = (G.domain == F.range and G.range == F.domain and F.sign != G.sign\n"
                   "      and observed <= 1e-9 * (1 + np.abs(x).max()))\n"
                   % ([0.0] * nd, [float(n) / 2 for n in shape], shape, dt, pre, impl, pre, impl,
                      _arr_src(rng, shape, dt.startswith('complex'), dt), dt))
        _probe(out, 'ft-inverse-default-sign' if cont else 'ctor-default-inverse-DFT',
               '%sTransformInverse(space)(%sTransform(space)(x)) == x with default arguments: shape %s dtype %s impl %s'
               % (pre, pre, shape, dt, impl), snippet)


def option_normalisation_probes(rng, tier, out):
    """Options given where they do not apply, or in a non-canonical spelling, must be normalised away:
    the operator equals the canonical one (same spaces, same values, round trip)."""
    same = ("def same(A, B, x):\n"
            "    a = np.asarray(A(x.copy())); b = np.asarray(B(x.copy()))\n"
            "    return (A.domain == B.domain and A.range.shape == B.range.shape and A.halfcomplex == B.halfcomplex\n"
            "            and a.shape == b.shape and float(np.abs(a - b).max()) <= 1e-10 * (1 + np.abs(b).max()))\n")
    # halfcomplex=True on a complex space has no effect (documented)
    for cls, shape, impl in itertools.product(['DiscreteFourierTransform', 'DiscreteFourierTransformInverse',
                                               'FourierTransform', 'FourierTransformInverse'],
                                              [[8], [5], [4, 6]], ['numpy', 'pyfftw']):
        nd = len(shape)
        sgn = ", sign='+'" if cls.endswith('Inverse') else ''
        snippet = (_PRE + same + "sp = odl.uniform_discr(%r, %r, %r, dtype=complex)\n"
                   "A = odl.trafos.%s(sp, halfcomplex=True, impl=%r%s)\nB = odl.trafos.%s(sp, halfcomplex=False, impl=%r%s)\n"
                   "x = %s\nx = x.reshape(A.domain.shape)\n"
                   "ok = A.halfcomplex is False and same(A, B, x) and same(A.inverse, B.inverse, np.asarray(B(x.copy())))\n"
                   % ([0.0] * nd, [1.0] * nd, shape, cls, impl, sgn, cls, impl, sgn, _arr_src(rng, shape, True, 'complex128')))
        _probe(out, 'dft-complex-halfcomplex-flag-range-shape' if cls.startswith('Discrete')
               else 'option-normalisation-FT-halfcomplex-on-complex',
               '%s(complex space, halfcomplex=True, impl=%s) is the halfcomplex=False operator (shape %s)'
               % (cls, impl, shape), snippet)
    # spellings: axes as int / negative / tuple / array, shift scalar vs list, truthy flags, impl capitalised
    for cls, dt in itertools.product(['DiscreteFourierTransform', 'FourierTransform'], ['float64', 'complex128']):
        hc = dt.startswith('float')
        variants = [("axes=1", "axes=(1,)"), ("axes=-1", "axes=[1]"), ("axes=np.array([0, 1])", "axes=(0, 1)"),
                    ("axes=(-2, -1)", "axes=(0, 1)"), ("halfcomplex=1", "halfcomplex=True"),
                    ("halfcomplex=0", "halfcomplex=False"), ("impl='NumPy'", "impl='numpy'"),
                    ("impl='PYFFTW'", "impl='pyfftw'")]
        if cls == 'FourierTransform':
            variants += [("shift=True", "shift=[True, True]"), ("shift=False, halfcomplex=False",
                                                                "shift=(False, False), halfcomplex=False"),
                         ("axes=1, shift=[True]", "axes=[1], shift=True")]
        for a, b in variants:
            if a == 'halfcomplex=1' and not hc:
                continue        # complex space: covered by the dedicated probes above
            base = '' if 'impl' in a else ", impl='numpy'"
            snippet = (_PRE + same + "sp = odl.uniform_discr([0.0, 0.0], [1.0, 3.0], [4, 6], dtype=%r)\n"
                       "A = odl.trafos.%s(sp, %s%s)\nB = odl.trafos.%s(sp, %s%s)\n"
                       "x = (%s).astype(%r)\nok = same(A, B, x) and A.axes == B.axes and A.impl == B.impl\n"
                       % (dt, cls, a, base, cls, b, base, _arr_src(rng, [4, 6], not hc, dt), dt))
            _probe(out, 'option-normalisation-%s' % cls, '%s(%s) == %s(%s) on a %s space' % (cls, a, cls, b, dt),
                   snippet)
    # sign '+' with a half-complex forward transform is rejected cleanly (documented), also via the inverse class
    for ctor in ["odl.trafos.DiscreteFourierTransform(sp, halfcomplex=True, sign='+')",
                 "odl.trafos.DiscreteFourierTransformInverse(sp, halfcomplex=True, sign='-')",
                 "odl.trafos.FourierTransform(sp, halfcomplex=True, sign='+')",
                 "odl.trafos.FourierTransformInverse(sp, halfcomplex=True, sign='-')",
                 "odl.trafos.FourierTransform(sp, sign='x')", "odl.trafos.DiscreteFourierTransform(sp, impl='fftw3')"]:
        snippet = (_PRE + "sp = odl.uniform_discr(0, 1, 8)\ntry:\n    %s\n    ok = False\nexcept ValueError:\n    ok = True\n"
                   % ctor)
        _probe(out, 'option-rejection-clean', '%s raises ValueError at construction' % ctor, snippet)
    # wavelets: options that do not apply / spellings
    for a, b in [("pad_mode='PERIODIC'", "pad_mode='periodic'"), ("pad_mode='periodic', pad_const=3", "pad_mode='periodic'"),
                 ("pad_mode='constant', pad_const=0.0", "pad_mode='constant'"), ("axes=1", "axes=(1,)"),
                 ("axes=-1", "axes=(1,)"), ("axes=(-2, -1)", "axes=(0, 1)"), ("impl='PyWt'", "impl='pywt'"),
                 ("nlevels=2.0", "nlevels=2")]:
        snippet = (_PRE + "sp = odl.uniform_discr([0.0, 0.0], [1.0, 3.0], [8, 12])\n"
                   "kw = dict(nlevels=2)\n"
                   "A = odl.trafos.WaveletTransform(sp, 'db2', **dict(kw, %s))\nB = odl.trafos.WaveletTransform(sp, 'db2', **dict(kw, %s))\n"
                   "x = sp.element(np.random.RandomState(%d).randint(-4, 5, (8, 12)).astype(float))\n"
                   "a = np.asarray(A(x)); b = np.asarray(B(x))\n"
                   "za = np.asarray(A.inverse(A(x))); observed = [float(np.abs(a - b).max()) if a.shape == b.shape else -1.0, float(np.abs(za - np.asarray(x)).max())]\n"
                   "ok = a.shape == b.shape and observed[0] <= 1e-12 and observed[1] <= 1e-9 and A.range == B.range\n"
                   % (a, b, rng.randint(0, 10 ** 6)))
        _probe(out, 'option-normalisation-WaveletTransform', 'WaveletTransform(%s) == WaveletTransform(%s)' % (a, b), snippet)
    snippet = (_PRE + "sp = odl.uniform_discr(0, 1, 8)\ntry:\n    odl.trafos.WaveletTransform(sp, 'db2', pad_mode='constant', pad_const=1.0)\n"
               "    ok = False\nexcept ValueError:\n    ok = True\n")
    _probe(out, 'option-rejection-clean', "WaveletTransform(pad_mode='constant', pad_const=1) raises ValueError (pywt back-end)",
           snippet)


def hc_inverse_input_probes(rng, tier, out):
    """The half-complex inverse leaves its input element alone and gives the same (right) result when the
    same element is passed again; 1-d sizes where FFTW's c2r algorithms differ, and 2-d."""
    sizes = [4, 17, 18, 22, 30, 31, 36, 64, 128] if tier == 'quick' else list(range(2, 70)) + [96, 100, 128, 200, 256, 512]
    shapes = [[n] for n in sizes] + [[4, 6], [3, 18]]
    for shape, impl, cont in itertools.product(shapes, ['numpy', 'pyfftw'], [False, True]):
        nd = len(shape)
        if cont and shape[-1] < 2:
            continue
        cls = 'FourierTransformInverse' if cont else 'DiscreteFourierTransformInverse'
        snippet = (_PRE + "import pyfftw\npyfftw.forget_wisdom()\nsp = odl.uniform_discr(%r, %r, %r)\n"
                   "fwd = odl.trafos.%s(sp, halfcomplex=True, impl='numpy')\n"
                   "inv = odl.trafos.%s(sp, halfcomplex=True, sign='+', impl=%r)\n"
                   "x0 = np.random.RandomState(%d).randint(-4, 5, %r).astype(float)\n"
                   "y = inv.domain.element(np.asarray(fwd(x0))); y0 = np.asarray(y).copy()\n"
                   "z1 = np.asarray(inv(y)).copy(); chg = float(np.abs(np.asarray(y) - y0).max())\n"
                   "z2 = np.asarray(inv(y)).copy()\n"
                   "observed = [chg, float(np.abs(z1 - x0).max()), float(np.abs(z2 - x0).max())]; expected = [0.0, 0.0, 0.0]\n"
                   "ok = chg == 0.0 and max(observed[1:]) <= 1e-9 * (1 + np.abs(x0).max())\n"
                   % ([0.0] * nd, [1.0] * nd, shape, cls.replace('Inverse', ''), cls, impl, rng.randint(0, 10 ** 6),
                      tuple(shape)))
        key = ('dft-inverse-hc-pyfftw-1d-destroys-input' if (impl == 'pyfftw' and nd == 1 and not cont)
               else 'hc-inverse-input-unchanged-%s-%s' % (cls, impl))
        _probe(out, key, '%s(halfcomplex=True, impl=%s) on shape %s: input element unchanged, second call on the same '
               'element gives the same result' % (cls, impl, shape), snippet)


def probes(rng, tier):
    C.setup_impl_path()
    out = []
    grid_probes(rng, tier, out)
    aliased_inplace_probes(rng, tier, out)
    call_history_probes(rng, tier, out)
    plan_history_probes(rng, tier, out)
    ctor_default_probes(rng, tier, out)
    option_normalisation_probes(rng, tier, out)
    hc_inverse_input_probes(rng, tier, out)
    wavelet_axes_adjoint_probes(rng, tier, out)
    fourier_adjoint_probes(rng, tier, out)
    dft_probes(rng, tier, out)
    backend_probes(rng, tier, out)
    ft_probes(rng, tier, out)
    gaussian_probes(rng, tier, out)
    wavelet_probes(rng, tier, out)
    return out
