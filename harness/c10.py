"""C10 out aliased to the input: object reifier + correspondence + probes.

The operators are built through the library's own factories / Functional.proximal
bindings / operator overloads; `reify` walks the LIVE operator object (class names,
closure variables of the factory-local classes, .left/.right/.scalar/... attributes)
and emits the Coq term of type `op Q` on which the model is run.  So which wrappers a
factory builds, in which order and with which constants, is read from the current
code on every run, not assumed.
"""
import itertools
import math
from fractions import Fraction

import numpy as np

from . import common as C
from translate import prox_calls as T

PID = 'C10'
SHARD_SIZE = 120
RULE = ('operators built by every proximal factory x options (g None/element, scalar/element sigma, lam), by the '
        '.proximal of every shipped functional incl. translated / scaled / perturbed / conjugated / separable-sum '
        'variants, by proximal_convex_conj/translation/arg_scaling/quadratic_perturbation/composition/combine_proximals, '
        'and random operator-arithmetic trees (sum, vector sum, composition, pointwise product, left/right scalar and '
        'vector multiples, diagonal) over them; spaces rn(n), uniform_discr 1-d/2-d, power spaces; inputs small dyadic '
        'numbers (constructed so that every square root is rational where one occurs); each case records P(x), '
        'P(y,out=y) and P(x,out=z) and is compared with the heap model and the value-level model; a case is non-trivial '
        'when the result differs from the input or the operator is not the identity; distinct by '
        '(reified operator term, input)')
ASSUMPTIONS = [
    'exact arithmetic (rounding, NaN/inf, signed zeros out of scope); tolerance 1e-10 in the correspondence',
    'lincomb is size-independent (C01 proves the three regimes of _lincomb_impl); C10 only probes the BLAS regime',
    'library primitives (lincomb, multiply, divide, assign, ufunc out=, augmented assignment) read their operands '
    'completely before writing out (C01 proves this for lincomb; NumPy element-wise ufuncs with out aliased to an input)',
    'operator parameters (g, element-valued sigma, bounds, translation, vectors) are not the same objects as x/out',
    'x and out are either the same element or share no array (no partial overlap, no views)',
    'an operator object keeps no state between calls (outside the translator grammar: fails closed; probed by call histories)',
    'shape information lives in the space: set_zero/ZeroOperator write zeros of the space shape',
]
TRUSTED = [
    'translate/prox_calls.py (Python ast -> Gallina programs over C10/Prims.v), fail-closed; its reading of each '
    'statement as a read-then-write primitive is validated by the correspondence on every branch',
    'harness/c10.py reify(): reads class names, closure cells and attributes of live operator objects',
    'C10/Model.v: hand-written programs only for dense MatrixOperator, the default in-place bridge and the row loop '
    'of DiagonalOperator; C10/Prims.v: proj_simplex and PointwiseNorm as value-level primitives',
    'Qsqrt_ps: exact square root on squares of rationals (generators construct such inputs)',
]
LEVEL_TEXT = ('Proof over REGENERATED programs: on every run translate/prox_calls.py (fail-closed Python-ast translator) '
              're-emits into Gen/ProxCalls.v the heap-level program of every _call of proximal_operators.py (all 14 '
              'classes + proj_l1, with their x-is-out tests, copies and temporaries), of the proximal classes of '
              'IndicatorSimplex/IndicatorSumConstraint, and of the in-place and out-of-place bodies of the nine '
              'expression classes of operator.py and of Scaling/Zero/Constant/MultiplyOperator. Over these definitions '
              'Coq proves for EVERY heap, every pair of elements x/out that are identical or disjoint, every operator '
              'tree (any depth, incl. DiagonalOperator, dense MatrixOperator and operators without `out`) and every '
              'parameter value: the in-place call leaves in out exactly the value-level result of the OLD x and changes '
              'no other live buffer; the out-of-place call returns the same value in a new element; hence '
              'P(x, out=x) == P(x). Dropping a copy, swapping the aliased/non-aliased branch or using out as scratch '
              'before the last read of x breaks these proofs; a construct outside the grammar fails closed. The aliased '
              'theorem holds over any carrier. Parameters and tree shapes are read off live operator objects and an '
              'in-Coq differential run of P(x), P(y,out=y), P(x,out=z) validates the translator\'s primitives on every branch.')
LEVEL_NOTE = ('The heap model treats lincomb as one correct read-then-write primitive: that this holds in every size regime of '
              '_lincomb_impl (direct / fallback / BLAS, all alias patterns) is C01\'s theorem, not C10\'s; C10 VALIDATES the '
              'composition at BLAS sizes: every proximal _call, the nine expression classes, DiagonalOperator and the in-place '
              'lincomb patterns of the solvers are run aliased and non-aliased on 50000/65536-entry float32/float64/complex '
              'spaces against the same operator evaluated with the BLAS regime switched off and against plain-NumPy closed '
              'forms (probes `blas:*`, also in the quick tier). '
              'Validated, not proved: the translator\'s reading of each library call as a read-then-write primitive '
              '(correspondence on all branches), NumPy/ODL primitives, proj_simplex / PointwiseNorm / SVD / Lambert-W as '
              'value-level or opaque functions, the three hand-written programs (MatrixOperator.dot, default in-place '
              'bridge, DiagonalOperator row loop), user-supplied temporaries assumed absent, rounding/NaN. Axioms: '
              'classical reals + funext for the R instances; the any-carrier theorems are closed under the global context.')
TECHNIQUE = ('source-to-Gallina translator (regenerated heap programs) + Coq heap model with symbolic execution and structural '
             'induction over operator trees; object reifier + in-Coq differential correspondence')


def translate():
    return {'Gen/ProxCalls.v': T.translate()}


class Unmodelled(Exception):
    pass


# ------------------------------------------------------------------ helpers
def leaves(el):
    """Leaf arrays of a (nested product) space element, each flattened in C order."""
    import odl
    if isinstance(el.space, odl.ProductSpace):
        out = []
        for p in el:
            out.extend(leaves(p))
        return out
    return [np.asarray(el).ravel().astype(float)]


def nleaves(space):
    import odl
    if isinstance(space, odl.ProductSpace):
        return sum(nleaves(s) for s in space)
    return 1


def vals(el):
    return [a.tolist() for a in leaves(el)]


def qval(el):
    return C.qss(vals(el))


def clo(P, fn='_call'):
    f = getattr(type(P), fn)
    return dict(zip(f.__code__.co_freevars, [c.cell_contents for c in (f.__closure__ or ())]))


def sv(s, space):
    if np.isscalar(s):
        return '(Sc %s)' % C.q(float(s))
    return '(El %s)' % qval(space.element(s))


def optv(g, space):
    if g is None:
        return 'None'
    return '(Some %s)' % qval(space.element(g))


def bound(b, space):
    if b is None:
        return 'BNone'
    if b in space.field:
        return '(BSc %s)' % C.q(float(b))
    return '(BEl %s)' % qval(space.element(b))


def weight_const(space):
    one = space.one()
    n = sum(a.size for a in leaves(one))
    return Fraction(float(one.norm()) ** 2).limit_denominator(10 ** 6) / n


def reify(P, wval=None):
    """Coq term (type `op Q`) of a live operator object; Unmodelled if outside the modelled classes."""
    import odl
    from odl.operator import operator as O
    from odl.operator import default_ops as D
    from odl.operator.pspace_ops import DiagonalOperator
    cls = type(P).__name__
    sp = P.domain
    if not hasattr(P.range, 'field') or isinstance(P.range, odl.set.sets.Field) or nleaves(P.domain) != nleaves(P.range):
        raise Unmodelled(cls + ' changes the number of component arrays')
    if isinstance(P, odl.solvers.Functional):
        raise Unmodelled('functional')
    # ---- operator arithmetic
    if type(P) is O.OperatorSum:
        if P._OperatorSum__tmp_ran is not None:
            raise Unmodelled('user temporaries')
        return '(OSum %s %s)' % (reify(P.left, wval), reify(P.right, wval))
    if type(P) is O.OperatorVectorSum:
        return '(OVecSum %s %s)' % (reify(P.operator, wval), qval(P.vector))
    if type(P) is O.OperatorComp:
        if P._OperatorComp__tmp is not None:
            raise Unmodelled('user temporaries')
        return '(OComp %s %s)' % (reify(P.left, wval), reify(P.right, wval))
    if type(P) is O.OperatorPointwiseProduct:
        return '(OPw %s %s)' % (reify(P.left, wval), reify(P.right, wval))
    if type(P) is O.OperatorLeftScalarMult:
        return '(OLScal %s %s)' % (reify(P.operator, wval), C.q(float(P.scalar)))
    if type(P) is O.OperatorRightScalarMult:
        if P._OperatorRightScalarMult__tmp is not None:
            raise Unmodelled('user temporaries')
        return '(ORScal %s %s)' % (reify(P.operator, wval), C.q(float(P.scalar)))
    if type(P) is O.OperatorLeftVectorMult:
        return '(OLVec %s %s)' % (reify(P.operator, wval), qval(P.vector))
    if type(P) is O.OperatorRightVectorMult:
        return '(ORVec %s %s)' % (reify(P.operator, wval), qval(P.vector))
    if type(P) is DiagonalOperator:
        ops = list(P.operators)
        if len(ops) != len(P.domain):
            raise Unmodelled('diagonal shape')
        term = reify(ops[-1], wval)
        for o in reversed(ops[:-1]):
            term = '(ODiag %d %s %s)' % (nleaves(o.domain), reify(o, wval), term)
        return term
    # ---- default operators
    if type(P) in (D.ScalingOperator, D.IdentityOperator):
        return '(OLeaf (LScaling %s))' % C.q(float(P.scalar))
    if type(P) is D.ZeroOperator:
        return '(OLeaf LZero)'
    if type(P) is D.ConstantOperator:
        return '(OLeaf (LConst %s))' % qval(P.constant)
    if type(P) is D.MultiplyOperator:
        return '(OLeaf (LMult %s))' % sv(P.multiplicand, sp)
    from odl.operator.tensor_ops import MatrixOperator
    if type(P) is MatrixOperator:
        import scipy.sparse
        if scipy.sparse.isspmatrix(P.matrix) or P.range.ndim != 1 or P.domain.ndim != 1:
            raise Unmodelled('sparse / n-d MatrixOperator')
        return '(OLeaf (LMat %s))' % C.qss(np.asarray(P.matrix, dtype=float).tolist())
    # ---- proximal classes (factory-local): identified by qualified name
    qn = type(P).__qualname__
    if not qn.startswith('proximal_') and not qn.startswith('IndicatorSimplex') and not qn.startswith('IndicatorSumConstraint'):
        raise Unmodelled(qn)
    c = clo(P)
    if cls == 'ProxOpBoxConstraint':
        return '(OLeaf (LBox %s %s))' % (bound(c['lower'], sp), bound(c['upper'], sp))
    if cls == 'ProximalL2':
        eps = np.finfo(getattr(sp, 'dtype', float)).resolution * 10
        return '(OLeaf (LL2 %s %s %s %s %s))' % (C.q(weight_const(sp)), C.q(float(1 + eps)), C.q(float(c['lam'])),
                                               C.q(float(P.sigma)), optv(c['g'], sp))
    if cls == 'ProximalConvexConjL2Squared':
        return '(OLeaf (LCCL2Sq %s %s %s))' % (C.q(float(c['lam'])), sv(P.sigma, sp), optv(c['g'], sp))
    if cls == 'ProximalL2Squared':
        return '(OLeaf (LL2Sq %s %s %s))' % (C.q(float(c['lam'])), sv(P.sigma, sp), optv(c['g'], sp))
    if cls == 'ProximalConvexConjL1':
        return '(OLeaf (LCCL1 %s %s %s))' % (C.q(float(c['lam'])), sv(P.sigma, sp), optv(c['g'], sp))
    if cls == 'ProximalConvexConjL1L2':
        return '(OLeaf (LCCL1L2 %s %s %s))' % (C.q(float(c['lam'])), C.q(float(P.sigma)), optv(c['g'], sp))
    if cls == 'ProximalL1':
        return '(OLeaf (LL1 %s %s %s))' % (C.q(float(c['lam'])), sv(P.sigma, sp), optv(c['g'], sp))
    if cls == 'ProximalL1L2':
        return '(OLeaf (LL1L2 %s %s %s))' % (C.q(float(c['lam'])), C.q(float(P.sigma)), optv(c['g'], sp))
    if cls == 'ProximalLInfty':
        return '(OLeaf (LLinf %s))' % C.q(float(P.sigma))
    if cls == 'ProximalConvexConjLinfty':
        return '(OLeaf LCCLinf)'
    if cls == 'ProximalConvexConjKL':
        return '(OLeaf (LCCKL %s %s %s))' % (C.q(float(c['lam'])), C.q(float(P.sigma)), optv(c['g'], sp))
    if cls == 'ProximalConvexConjKLCrossEntropy':
        if wval is None:
            raise Unmodelled('Lambert W value not supplied')
        return '(OLeaf (LCCKLCE %s (fun _ => %s)))' % (C.q(float(c['lam'])), C.qss(wval))
    if cls == 'ProximalHuber':
        return '(OLeaf (LHuber %s %s %s))' % (C.b(isinstance(sp, odl.ProductSpace)), C.q(float(c['gamma'])),
                                             C.q(float(P.sigma)))
    if cls == 'ProximalSimplex':
        return '(OLeaf (LSimplex %s))' % C.q(float(c['diameter']))
    if cls == 'ProximalSum':
        return '(OLeaf (LSumC %s))' % C.q(float(c['sum_value']))
    raise Unmodelled(qn)


JUNK = 70707.0


def junk_like(space):
    z = space.element()
    for a in _leaf_elems(z):
        a[:] = JUNK
    return z


def _leaf_elems(el):
    import odl
    if isinstance(el.space, odl.ProductSpace):
        for p in el:
            for a in _leaf_elems(p):
                yield a
    else:
        yield el


def observe(P, x):
    """(P(x), aliased result, separate-out result, input intact?, returned the out object?)"""
    x0 = x.copy()
    r = P(x)
    intact = vals(x) == vals(x0)
    y = x0.copy()
    ret = P(y, out=y)
    z = junk_like(P.range)
    x2 = x0.copy()
    ret2 = P(x2, out=z)
    intact = intact and vals(x2) == vals(x0)
    return vals(r), vals(y), vals(z), intact, (ret is y and ret2 is z and r is not x)


def finite(vs):
    return all(math.isfinite(v) for a in vs for v in a)


# ------------------------------------------------------------- input makers
def rnd_entry(rng):
    return rng.randint(-6, 6) * rng.choice([1.0, 1.0, 0.5, 0.25])


def rnd_el(rng, space, pos=False):
    el = space.element()
    for a in _leaf_elems(el):
        if a.size > 2000:
            rs = np.random.RandomState(rng.randrange(2 ** 31))
            v = (rs.randint(-6, 7, a.size) * rs.choice([1.0, 1.0, 0.5, 0.25], a.size)).reshape(a.shape)
        else:
            v = np.array([rnd_entry(rng) for _ in range(a.size)]).reshape(a.shape)
        if pos:
            v = np.abs(v) + rng.choice([0.5, 1.0])
        a[:] = v
    return el


def is_sq(fr):
    fr = Fraction(fr)
    if fr < 0:
        return False
    n, d = fr.numerator, fr.denominator
    return math.isqrt(n) ** 2 == n and math.isqrt(d) ** 2 == d


def rnd_el_sqnorm(rng, space):
    """element whose weighted squared norm is the square of a rational"""
    w = weight_const(space)
    for _ in range(4000):
        el = rnd_el(rng, space)
        s = sum(Fraction(float(v)) ** 2 for a in vals(el) for v in a)
        if is_sq(w * s):
            return el
    return space.zero()


PYTH = {1: [(0,), (1,), (-2,), (3,), (-0.5,)],
        2: [(3, 4), (-4, 3), (0, 2), (-1, 0), (5, -12), (6, 8), (0, 0), (1.5, 2), (-0.75, 1)],
        3: [(1, 2, 2), (2, -3, 6), (0, 3, -4), (-2, 4, 4), (0, 0, 1), (0, 0, 0), (0.5, 1, 1), (4, 4, 7), (-1, 4, 8)]}


def rnd_el_pyth(rng, pspace):
    """power-space element whose pointwise 2-norm is rational at every point"""
    k = len(pspace)
    npt = int(np.prod(pspace[0].shape))
    cols = [rng.choice(PYTH[k]) for _ in range(npt)]
    facs = [rng.choice([1, 1, 2, 0.5]) for _ in cols]
    cols = [tuple(f * c for c in col) for f, col in zip(facs, cols)]
    return pspace.element([np.array([col[i] for col in cols]).reshape(pspace[0].shape) for i in range(k)])


# ------------------------------------------------------------------ spaces
def flat_spaces(rng, tier):
    import odl
    sp = [odl.rn(1), odl.rn(2), odl.rn(3), odl.rn(5), odl.uniform_discr(0, 1, 4), odl.uniform_discr(0, 2, 2),
          odl.uniform_discr([0, 0], [1, 1], (2, 2)), odl.rn(3, weighting=4.0)]
    if tier != 'quick':
        sp += [odl.rn(8), odl.uniform_discr(0, 1, 8), odl.uniform_discr([0, 0], [2, 1], (2, 4)), odl.rn((2, 3))]
    return sp


def power_spaces(rng, tier):
    import odl
    sp = [odl.ProductSpace(odl.rn(2), 2), odl.ProductSpace(odl.rn(3), 3), odl.ProductSpace(odl.rn(2), 1),
          odl.ProductSpace(odl.uniform_discr(0, 1, 4), 2)]
    if tier != 'quick':
        sp += [odl.ProductSpace(odl.uniform_discr([0, 0], [1, 1], (2, 2)), 2), odl.ProductSpace(odl.rn(4), 3),
               odl.ProductSpace(odl.rn(1), 2)]
    return sp


DY = [0.5, 1.0, 2.0, 0.25, 4.0, 1.5]


# ------------------------------------------------------- operator builders
def leaf_builders(rng, space, sqrt_free=True):
    """[(name, P, make_input)] over a flat or power space: every factory x option."""
    import odl
    S = odl.solvers
    out = []
    pos_el = lambda: rnd_el(rng, space, pos=True)
    el = lambda: rnd_el(rng, space)
    sc = lambda: rng.choice(DY)
    plain = lambda: rnd_el(rng, space)

    def add(name, P, mk=plain):
        out.append((name, P, mk))

    for g in (None, el()):
        gn = 'g' if g is not None else 'nog'
        for sig in (sc(), pos_el()):
            sn = 'sc' if np.isscalar(sig) else 'el'
            add('l1-%s-%s' % (gn, sn), S.proximal_l1(space, lam=sc(), g=g)(sig))
            add('l2sq-%s-%s' % (gn, sn), S.proximal_l2_squared(space, lam=sc(), g=g)(sig))
            add('ccl2sq-%s-%s' % (gn, sn), S.proximal_convex_conj_l2_squared(space, lam=sc(), g=g)(sig))
            add('ccl1-%s-%s' % (gn, sn), S.proximal_convex_conj_l1(space, lam=sc(), g=g)(sig))
    lo_s, hi_s = -sc(), sc()
    lo_e = el()
    hi_e = lo_e + pos_el()
    for lo, hi, nm in ((None, None, 'none'), (lo_s, None, 'lo-sc'), (None, hi_s, 'hi-sc'), (lo_s, hi_s, 'sc-sc'),
                       (lo_e, None, 'lo-el'), (None, hi_e, 'hi-el'), (lo_e, hi_e, 'el-el'), (lo_s, hi_e + 8, 'sc-el'),
                       (lo_e - 8, hi_s, 'el-sc')):
        add('box-' + nm, S.proximal_box_constraint(space, lower=lo, upper=hi)(sc()))
    add('nonneg', S.proximal_nonnegativity(space)(sc()))
    add('const', S.proximal_const_func(space)(sc()))
    add('linf', S.proximal_linfty(space)(sc()))
    add('linf-big', S.proximal_linfty(space)(64.0))
    add('cclinf', S.proximal_convex_conj_linfty(space)(sc()))
    if not isinstance(space, odl.ProductSpace):
        add('huber', S.proximal_huber(space, gamma=sc())(sc()))
        add('simplex', S.IndicatorSimplex(space, diameter=sc()).proximal(sc()))
        add('sumconstraint', S.IndicatorSumConstraint(space, sum_value=rng.choice([1.0, -2.0, 0.5])).proximal(sc()))
    add('zero', odl.ZeroOperator(space))
    add('scaling', odl.ScalingOperator(space, -sc()))
    add('identity', odl.IdentityOperator(space))
    add('constop', odl.ConstantOperator(el()))
    add('mult-el', odl.MultiplyOperator(el()))
    add('mult-sc', odl.MultiplyOperator(sc(), domain=space, range=space))
    if sqrt_free:
        return out
    # ---- leaves with a square root: inputs are constructed
    for g in (None, el()):
        gn = 'g' if g is not None else 'nog'
        lam, sig = sc(), sc()
        mk = (lambda g=g: rnd_el_sqnorm(rng, space) + (g if g is not None else 0 * space.zero()))
        add('l2-%s' % gn, S.proximal_l2(space, lam=lam, g=g)(sig), mk)
        add('l2-%s-big' % gn, S.proximal_l2(space, lam=lam, g=g)(1024.0), mk)
        add('ccl2-%s' % gn, S.proximal_convex_conj_l2(space, lam=lam, g=g)(sig),
            (lambda g=g, sig=sig: sig * (rnd_el_sqnorm(rng, space) + (g if g is not None else 0 * space.zero()))))
    # KL conjugate: (x - lam)^2 + 4 lam sigma g must be a square at every entry
    lam, sig = rng.choice([0.5, 1.0, 2.0]), rng.choice([0.5, 1.0, 2.0])
    a_el = rnd_el(rng, space)

    def kl_g():
        g = space.element()
        for ga, aa in zip(_leaf_elems(g), _leaf_elems(a_el)):
            a = np.asarray(aa)
            cc = np.abs(a) + np.array([rng.choice([0.5, 1, 2, 3]) for _ in range(a.size)]).reshape(a.shape)
            ga[:] = (cc ** 2 - a ** 2) / (4 * lam * sig)
        return g
    g = kl_g()
    add('cckl-g', S.proximal_convex_conj_kl(space, lam=lam, g=g)(sig), lambda: a_el + lam)
    m = 4 * lam * sig     # without g: (x-lam)^2 + m a square:  m = 1,2,4,8,16 -> choose a from a table
    tab = {1.0: [0.0], 2.0: [0.5, -0.5], 4.0: [0.0, 1.5, -1.5], 8.0: [1.0, -1.0, 3.5], 16.0: [0.0, 3.0, -3.0, 7.5]}

    def kl_x():
        x = space.element()
        for xa in _leaf_elems(x):
            xa[:] = np.array([rng.choice(tab[m]) + lam for _ in range(xa.size)]).reshape(xa.shape)
        return x
    add('cckl-nog', S.proximal_convex_conj_kl(space, lam=lam)(sig), kl_x)
    return out


def group_builders(rng, pspace):
    import odl
    S = odl.solvers
    out = []
    sc = lambda: rng.choice(DY)
    out.append(('huber-pspace', S.proximal_huber(pspace, gamma=sc())(sc()), lambda: rnd_el_pyth(rng, pspace)))
    for g in (None, rnd_el(rng, pspace)):
        gn = 'g' if g is not None else 'nog'
        lam, sig = sc(), sc()
        out.append(('l1l2-%s' % gn, S.proximal_l1_l2(pspace, lam=lam, g=g)(sig),
                    (lambda g=g: rnd_el_pyth(rng, pspace) + (g if g is not None else 0 * pspace.zero()))))
        lam, sig = sc(), sc()
        out.append(('ccl1l2-%s' % gn, S.proximal_convex_conj_l1_l2(pspace, lam=lam, g=g)(sig),
                    (lambda g=g, sig=sig: rnd_el_pyth(rng, pspace) + (sig * g if g is not None else 0 * pspace.zero()))))
    return out


def functional_builders(rng, space):
    """Operators reached through Functional.proximal of shipped functionals and their derived forms."""
    import odl
    S = odl.solvers
    out = []
    sc = lambda: rng.choice(DY)
    el = lambda: rnd_el(rng, space)
    pos = lambda: rnd_el(rng, space, pos=True)
    plain = lambda: rnd_el(rng, space)
    base = [('L1', S.L1Norm(space)), ('L2sq', S.L2NormSquared(space)), ('Linf', S.LpNorm(space, np.inf)),
            ('ballLinf', S.IndicatorLpUnitBall(space, np.inf)), ('ballL1', S.IndicatorLpUnitBall(space, 1)),
            ('box', S.IndicatorBox(space, -1, 2)), ('nonneg', S.IndicatorNonnegativity(space)),
            ('izero', S.IndicatorZero(space)), ('const', S.ConstantFunctional(space, 3)),
            ('zerof', S.ZeroFunctional(space))]
    if not isinstance(space, odl.ProductSpace):
        base += [('huber', S.Huber(space, sc()))]
    for nm, f in base:
        y = el()
        s = sc()
        variants = [(nm, f), (nm + '-translated', f.translated(y)), (nm + '-leftscal', s * f),
                    (nm + '-rightscal', f * s), (nm + '-plusconst', f + 2.0),
                    (nm + '-quadperturb', S.FunctionalQuadraticPerturb(f, quadratic_coeff=rng.choice([0, 0.375, 1.5, 4.0]),
                                                                      linear_term=rng.choice([None, y]))),
                    (nm + '-translated-scaled', (f * s).translated(y)),
                    (nm + '-defaultconj', _FDCC()(f))]
        try:
            variants.append((nm + '-conj', f.convex_conj))
            variants.append((nm + '-conj-translated', f.convex_conj.translated(y)))
        except Exception:
            pass
        if nm in ('L1', 'L2sq', 'Linf'):
            variants.append((nm + '-bregman', S.BregmanDistance(f, el(), subgrad=el())))
        for vn, fv in variants:
            for sig in ((sc(), pos()) if vn.startswith(('L2sq', 'L1-', 'L1')) and 'perturb' not in vn and 'Linf' not in vn
                        else (sc(),)):
                try:
                    P = fv.proximal(sig)
                except Exception:
                    continue
                out.append(('F:%s-%s' % (vn, 'sc' if np.isscalar(sig) else 'el'), P, plain))
    return out


def sep_builders(rng, tier):
    import odl
    S = odl.solvers
    out = []
    sc = lambda: rng.choice(DY)
    a, b = odl.rn(2), odl.uniform_discr(0, 1, 2)
    f = S.SeparableSum(S.L1Norm(a), S.L2NormSquared(b), S.IndicatorBox(a, -1, 1))
    out.append(('sepsum-3', f.proximal(sc()), lambda: rnd_el(rng, f.domain)))
    out.append(('sepsum-3-steps', f.proximal([sc(), sc(), sc()]), lambda: rnd_el(rng, f.domain)))
    f2 = S.SeparableSum(S.L1Norm(a), 3)
    out.append(('sepsum-power', f2.proximal(sc()), lambda: rnd_el(rng, f2.domain)))
    out.append(('sepsum-translated', f2.translated(rnd_el(rng, f2.domain)).proximal(sc()), lambda: rnd_el(rng, f2.domain)))
    out.append(('sepsum-conj', f.convex_conj.proximal(sc()), lambda: rnd_el(rng, f.domain)))
    ps = odl.ProductSpace(a, 2)
    f3 = S.SeparableSum(S.GroupL1Norm(ps, 1), S.L1Norm(a))
    out.append(('sepsum-nested', f3.proximal(sc()), lambda: rnd_el(rng, f3.domain)))
    P = S.combine_proximals(S.proximal_l1(a, g=rnd_el(rng, a)), S.proximal_huber(a, 0.5), S.proximal_linfty(a))
    out.append(('combine-3', P(sc()), lambda: rnd_el(rng, P(1.0).domain)))
    return out


def composition_builders(rng, space):
    import odl
    S = odl.solvers
    out = []
    c = rng.choice([0.5, 2.0, -2.0])
    K = odl.ScalingOperator(space, c)
    for nm, pf in (('l1', S.proximal_l1(space, g=rnd_el(rng, space))), ('box', S.proximal_box_constraint(space, -1, 1)),
                   ('l2sq', S.proximal_l2_squared(space))):
        out.append(('composition-' + nm, S.proximal_composition(pf, K, c * c)(rng.choice(DY)),
                    lambda: rnd_el(rng, space)))
    el = rnd_el(rng, space, pos=True)
    out.append(('argscal-el', S.proximal_arg_scaling(S.proximal_l1(space), np.asarray(el))(rng.choice(DY)),
                lambda: rnd_el(rng, space)))
    out.append(('argscal-sc', S.proximal_arg_scaling(S.proximal_box_constraint(space, -1, 1), -2.0)(rng.choice(DY)),
                lambda: rnd_el(rng, space)))
    out.append(('argscal-0', S.proximal_arg_scaling(S.proximal_l1(space), 0)(rng.choice(DY)), lambda: rnd_el(rng, space)))
    out.append(('cc-elsigma', S.proximal_convex_conj(S.proximal_l1(space))(rnd_el(rng, space, pos=True)),
                lambda: rnd_el(rng, space)))
    out.append(('cc-cc', S.proximal_convex_conj(S.proximal_convex_conj(S.proximal_l1(space, g=rnd_el(rng, space))))(
        rng.choice(DY)), lambda: rnd_el(rng, space)))
    return out


def matrix_builders(rng, tier):
    import odl
    S = odl.solvers
    out = []
    X3, Y2 = odl.rn(3), odl.rn(2)
    c = rng.choice([0.5, 2.0])
    K = odl.MatrixOperator(c * np.array([[0, 1, 0], [0, 0, 1.]]), domain=X3, range=Y2)      # K K^T = c^2 I
    Pm = odl.MatrixOperator(c * np.array([[0, 1, 0], [0, 0, -1], [1, 0, 0.]]))              # scaled signed permutation
    Gm = odl.MatrixOperator(np.array([[1, 2, 0], [0, 1, -1], [0.5, 0, 1]]))                 # general square matrix
    mk3 = lambda: rnd_el(rng, X3)
    for nm, pf, sp in (('l1', S.proximal_l1(Y2, g=rnd_el(rng, Y2)), Y2), ('box', S.proximal_box_constraint(Y2, -1, 1), Y2),
                       ('linf', S.proximal_linfty(Y2), Y2)):
        out.append(('composition-nonsquare-' + nm, S.proximal_composition(pf, K, c * c)(rng.choice(DY)), mk3, X3))
    for nm, pf in (('l1', S.proximal_l1(X3)), ('huber', S.proximal_huber(X3, 0.5)), ('ccl1', S.proximal_convex_conj_l1(X3))):
        out.append(('composition-perm-' + nm, S.proximal_composition(pf, Pm, c * c)(rng.choice(DY)), mk3, X3))
    out.append(('matrix-square', Gm, mk3, X3))
    out.append(('matrix-normal', Gm.adjoint * Gm, mk3, X3))
    out.append(('matrix-sum', S.proximal_l1(X3)(0.5) + Gm, mk3, X3))
    out.append(('matrix-sum-right', Gm + S.proximal_l1(X3)(0.5) * Gm, mk3, X3))
    out.append(('matrix-landweber-step', odl.IdentityOperator(X3) - 0.25 * (K.adjoint * K), mk3, X3))
    out.append(('matrix-diag', odl.DiagonalOperator(Gm, S.proximal_l1(Y2)(1.0), Pm), lambda: rnd_el(rng, odl.ProductSpace(X3, Y2, X3)),
                odl.ProductSpace(X3, Y2, X3)))
    return out


def random_tree(rng, space, pool, depth):
    """operator arithmetic through the library's own overloads / classes"""
    import odl
    from odl.operator import operator as O
    if depth == 0 or rng.random() < 0.15:
        return rng.choice(pool)[1]
    k = rng.choice(['sum', 'vecsum', 'comp', 'pw', 'lscal', 'rscal', 'lvec', 'rvec', 'sub', 'neg', 'scalsum'])
    A = random_tree(rng, space, pool, depth - 1)
    s = rng.choice([0.5, 2.0, -1.0, -0.5, 3.0, 0.0])
    v = rnd_el(rng, space)
    if k == 'sum':
        return A + random_tree(rng, space, pool, depth - 1)
    if k == 'sub':
        return A - random_tree(rng, space, pool, depth - 1)
    if k == 'comp':
        return A * random_tree(rng, space, pool, depth - 1)
    if k == 'pw':
        return O.OperatorPointwiseProduct(A, random_tree(rng, space, pool, depth - 1))
    if k == 'vecsum':
        return A + v
    if k == 'scalsum':
        return A + s
    if k == 'lscal':
        return s * A
    if k == 'rscal':
        return O.OperatorRightScalarMult(A, s)
    if k == 'neg':
        return -A
    if k == 'lvec':
        return v * A
    return A * v


def all_builders(rng, tier):
    """[(name, P, make_input, space)]"""
    out = []
    fs = flat_spaces(rng, tier)
    ps = power_spaces(rng, tier)
    for sp in fs:
        for nm, P, mk in leaf_builders(rng, sp, sqrt_free=False):
            out.append((nm, P, mk, sp))
    for sp in ps:
        for nm, P, mk in leaf_builders(rng, sp, sqrt_free=True):
            out.append(('ps:' + nm, P, mk, sp))
        for nm, P, mk in group_builders(rng, sp):
            out.append((nm, P, mk, sp))
    import odl
    S = odl.solvers
    for sp in ps:
        for nm, f in (('groupL1', S.GroupL1Norm(sp)), ('groupL1ball', S.IndicatorGroupL1UnitBall(sp)),
                      ('groupL1-p1', S.GroupL1Norm(sp, 1))):
            sig = rng.choice(DY)
            mkp = (lambda sp=sp: rnd_el_pyth(rng, sp))
            out.append(('F:' + nm, f.proximal(sig), mkp, sp))
            out.append(('F:' + nm + '-conj', f.convex_conj.proximal(sig), mkp, sp))
            s = rng.choice([0.5, 2.0])
            out.append(('F:' + nm + '-leftscal', (s * f).proximal(sig), mkp, sp))
            # right scaling / default conjugate rescale the argument by a scalar: rationality of the norms is kept
            out.append(('F:' + nm + '-rightscal', (f * s).proximal(sig), mkp, sp))
            out.append(('F:' + nm + '-defaultconj', _FDCC()(f).proximal(sig), mkp, sp))
    for sp in fs[:4] + fs[4:5] + ps[:1]:
        for nm, P, mk in functional_builders(rng, sp):
            out.append((nm, P, mk, sp))
    for sp in fs[1:3] + fs[4:5] + ps[:1]:
        for nm, P, mk in composition_builders(rng, sp):
            out.append((nm, P, mk, sp))
    for nm, P, mk in sep_builders(rng, tier):
        out.append((nm, P, mk, P.domain))
    out.extend(matrix_builders(rng, tier))
    # functionals whose proximal involves L2 norms: constructed inputs, scalar rescalings only
    for sp in fs[:5]:
        for nm, f in (('L2', S.L2Norm(sp)), ('ballL2', S.IndicatorLpUnitBall(sp, 2))):
            sig = rng.choice(DY)
            mkq = (lambda sp=sp: rnd_el_sqnorm(rng, sp))
            out.append(('F:' + nm, f.proximal(sig), mkq, sp))
            out.append(('F:' + nm + '-conj', f.convex_conj.proximal(sig), (lambda sp=sp, sig=sig: sig * rnd_el_sqnorm(rng, sp)), sp))
            y = rnd_el(rng, sp)
            out.append(('F:' + nm + '-translated', f.translated(y).proximal(sig), (lambda sp=sp, y=y: rnd_el_sqnorm(rng, sp) + y), sp))
            s = rng.choice([0.5, 2.0, 4.0])
            out.append(('F:' + nm + '-leftscal', (s * f).proximal(sig), mkq, sp))
            out.append(('F:' + nm + '-rightscal', (f * s).proximal(sig), (lambda sp=sp, s=s: rnd_el_sqnorm(rng, sp) / s), sp))
    # random arithmetic trees over square-root-free leaves
    ntree = 40 if tier == 'quick' else 1000
    depth = 3 if tier == 'quick' else 6
    for sp in fs[1:3] + fs[4:5] + ps[:2]:
        pool = leaf_builders(rng, sp, sqrt_free=True)
        for i in range(ntree // 5):
            try:
                P = random_tree(rng, sp, pool, rng.randint(1, depth))
            except Exception:
                continue
            out.append(('tree', P, (lambda sp=sp: rnd_el(rng, sp)), sp))
    return out


def lambw_value(P, x):
    import scipy.special
    c = clo(P)
    lam, g = c['lam'], c['g']
    if g is None:
        w = scipy.special.lambertw(P.sigma / lam * np.exp(x / lam))
    else:
        w = scipy.special.lambertw(P.sigma / lam * g * np.exp(x / lam))
    return vals(P.domain.element(np.real(w)))


def correspondence(rng, tier):
    import odl
    cs = C.CaseSet('alias', ['C10.Model', 'C10.Corr'], 'check', 'case')
    stats = {'unmodelled': {}, 'nonfinite': 0}
    nin = 2 if tier == 'quick' else 7
    for nm, P, mk, sp in all_builders(rng, tier):
        try:
            term = reify(P)
        except Unmodelled as e:
            stats['unmodelled'][str(e)] = stats['unmodelled'].get(str(e), 0) + 1
            continue
        for _ in range(nin):
            x = sp.element(mk())
            oop, al, sep, intact, proto = observe(P, x)
            if not (finite(oop) and finite(al) and finite(sep)):
                stats['nonfinite'] += 1
                continue
            xs = vals(x)
            caseterm = ('{| c_op := %s; c_x := %s; c_oop := %s; c_alias := %s; c_sep := %s |}'
                        % (term, C.qss(xs), C.qss(oop), C.qss(al), C.qss(sep)))
            key = (term, str(xs)) if (oop != xs or 'LScaling (1 # 1)' not in term) else None
            cs.add(caseterm, {'builder': nm, 'space': repr(sp), 'op': repr(P)[:300], 'x': xs}, key)
    # Lambert-W leaf: W's value on this very input is supplied by the implementation
    kl = C.CaseSet('alias_klce', ['C10.Model', 'C10.Corr'], 'check', 'case')
    for sp in flat_spaces(rng, 'quick')[:5]:
        for g in (None, rnd_el(rng, sp, pos=True)):
            P = odl.solvers.proximal_convex_conj_kl_cross_entropy(sp, lam=rng.choice([0.5, 1.0, 2.0]), g=g)(rng.choice(DY))
            x = rnd_el(rng, sp)
            term = reify(P, lambw_value(P, x))
            oop, al, sep, intact, proto = observe(P, x)
            kl.add('{| c_op := %s; c_x := %s; c_oop := %s; c_alias := %s; c_sep := %s |}'
                   % (term, C.qss(vals(x)), C.qss(oop), C.qss(al), C.qss(sep)),
                   {'builder': 'ccklce', 'space': repr(sp), 'x': vals(x)}, (term, str(vals(x))))
    # operators whose _call has no `out` (default in-place bridge): the function value on this very input
    # is supplied by the implementation, the data flow of the bridge is what is compared
    fn = C.CaseSet('alias_oopfun', ['C10.Model', 'C10.Corr'], 'check', 'case')
    S = odl.solvers
    sp2 = odl.ProductSpace(odl.ProductSpace(odl.rn(3), 2), 2)
    ops = []
    for exps in ((1, 1), (1, 2), (1, np.inf)):
        f = S.NuclearNorm(sp2, outer_exp=exps[0], singular_vector_exp=exps[1])
        ops.append(('nuclear-%s' % (exps[1],), f.proximal(rng.choice(DY)), sp2))
    r3 = odl.rn(3)
    ops.append(('realpart', odl.RealPart(r3), r3))
    ops.append(('simple-functional-prox',
                S.simple_functional(r3, fcall=lambda x: 0.0,
                                    prox=lambda sig: _OopOnly(r3)).proximal(1.0),
                r3))
    ops.append(('oop-only', _OopOnly(r3), r3))
    for nm, P, sp in ops:
        for _ in range(nin):
            x = rnd_el(rng, sp)
            try:
                term = reify(P)
            except Unmodelled:
                if type(P)._call_has_out:
                    stats['unmodelled'][nm] = 1
                    continue
                term = '(OLeaf (LFun (fun _ => %s)))' % C.qss(vals(P(x)))
            oop, al, sep, intact, proto = observe(P, x)
            fn.add('{| c_op := %s; c_x := %s; c_oop := %s; c_alias := %s; c_sep := %s |}'
                   % (term, C.qss(vals(x)), C.qss(oop), C.qss(al), C.qss(sep)),
                   {'builder': nm, 'space': repr(sp), 'x': vals(x)}, (nm, str(vals(x))))
    correspondence.stats = stats
    return [cs, kl, fn]


def _OopOnly(space):
    import odl

    class OopOnly(odl.Operator):
        """user-style operator implemented out of place only"""

        def __init__(self):
            super(OopOnly, self).__init__(space, space, linear=False)

        def _call(self, x):
            return x.ufuncs.absolute() + 1
    return OopOnly()


# ------------------------------------------------------------------- probes
def _close(a, b, rtol, atol):
    return all(len(u) == len(v) and np.allclose(u, v, rtol=rtol, atol=atol, equal_nan=False) for u, v in zip(a, b)) \
        and len(a) == len(b)


def probe_ops(seed, tier):
    """Deterministic list [(key, description, P, x)] of the model-free probe: all builders on the
    correspondence spaces (fresh inputs), the leaf/group builders on large and float32 spaces, and
    classes outside the model (nuclear norm, Lambert-W, product-space Huber is excluded: it raises)."""
    import random
    import odl
    S = odl.solvers
    rng = random.Random('C10-probe-%d' % seed)
    out = []
    for nm, P, mk, sp in all_builders(rng, tier):
        key = 'alias:' + (nm if nm != 'tree' else 'tree-' + type(P).__name__)
        out.append((key, nm, P, sp.element(mk())))
    big = [odl.rn(150), odl.uniform_discr(0, 1, 128), odl.rn(7, dtype='float32'), odl.uniform_discr([0, 0], [1, 1], (12, 11)),
           odl.rn(5000)]
    if tier != 'quick':
        big += [odl.rn(60000), odl.uniform_discr(0, 1, 300, dtype='float32'), odl.rn((40, 30))]
    for sp in big:
        for nm, P, mk in leaf_builders(rng, sp, sqrt_free=True):
            out.append(('alias-large:' + nm, '%s on %r' % (nm, sp), P, rnd_el(rng, sp)))
        for g in (None, rnd_el(rng, sp)):
            gn = 'g' if g is not None else 'nog'
            sig = rng.choice(DY)
            out.append(('alias-large:l2-' + gn, 'l2 on %r' % sp, S.proximal_l2(sp, lam=rng.choice(DY), g=g)(sig), rnd_el(rng, sp)))
            out.append(('alias-large:ccl2-' + gn, 'ccl2 on %r' % sp, S.proximal_convex_conj_l2(sp, g=g)(sig), rnd_el(rng, sp)))
            gp = None if g is None else rnd_el(rng, sp, pos=True)
            out.append(('alias-large:cckl-' + gn, 'cckl on %r' % sp, S.proximal_convex_conj_kl(sp, lam=rng.choice(DY), g=gp)(sig),
                        rnd_el(rng, sp, pos=True)))
            out.append(('alias-large:ccklce-' + gn, 'ccklce on %r' % sp,
                        S.proximal_convex_conj_kl_cross_entropy(sp, lam=rng.choice(DY), g=gp)(sig), rnd_el(rng, sp)))
            out.append(('alias-large:kl-' + gn, 'KL.proximal on %r' % sp, S.KullbackLeibler(sp, prior=gp).proximal(sig),
                        rnd_el(rng, sp, pos=True)))
            out.append(('alias-large:klce-' + gn, 'KLCrossEntropy.proximal on %r' % sp,
                        S.KullbackLeiblerCrossEntropy(sp, prior=gp).proximal(sig), rnd_el(rng, sp)))
    for base in (odl.rn(6), odl.uniform_discr([0, 0], [1, 1], (5, 4)), odl.rn(120)):
        for k in (1, 2, 3):
            ps = odl.ProductSpace(base, k)
            for nm, P, mk in group_builders(rng, ps):
                out.append(('alias-large:' + nm, '%s on %r' % (nm, ps), P, rnd_el(rng, ps)))
            for nm, f in (('groupL1', S.GroupL1Norm(ps)), ('groupL1ball', S.IndicatorGroupL1UnitBall(ps))):
                y = rnd_el(rng, ps)
                for vn, fv in ((nm, f), (nm + '-translated', f.translated(y)), (nm + '-conj', f.convex_conj),
                               (nm + '-rightscal', f * 2.0), (nm + '-quadperturb', S.FunctionalQuadraticPerturb(f, 0.5, y))):
                    out.append(('alias-large:F:' + vn, '%s on %r' % (vn, ps), fv.proximal(rng.choice(DY)), rnd_el(rng, ps)))
    # nuclear norm (SVD; out-of-place only class -> default in-place bridge)
    for exps in ((1, 1), (1, 2), (1, np.inf)):
        sp2 = odl.ProductSpace(odl.ProductSpace(odl.rn(4), 2), 3)
        f = S.NuclearNorm(sp2, outer_exp=exps[0], singular_vector_exp=exps[1])
        out.append(('alias:nuclear-%s' % (exps[1],), 'NuclearNorm.proximal', f.proximal(rng.choice(DY)), rnd_el(rng, sp2)))
        out.append(('alias:nuclear-conj-%s' % (exps[1],), 'NuclearNorm.convex_conj.proximal', f.convex_conj.proximal(rng.choice(DY)),
                    rnd_el(rng, sp2)))
    return out


def eval_probe(P, x):
    import odl
    flt32 = getattr(P.domain, 'dtype', None) == np.dtype('float32') or \
        (isinstance(P.domain, odl.ProductSpace) and getattr(P.domain[0], 'dtype', None) == np.dtype('float32'))
    rtol, atol = (2e-4, 2e-5) if flt32 else (1e-9, 1e-11)
    oop, al, sep, intact, proto = observe(P, x)
    if not (finite(oop)):
        return True, 'nonfinite reference', None, None
    ok = _close(al, oop, rtol, atol) and _close(sep, oop, rtol, atol) and intact and proto
    return ok, None, al, oop


def replay_probe(seed, tier, index):
    key, desc, P, x = probe_ops(seed, tier)[index]
    ok, note, observed, expected = eval_probe(P, x)
    return ok, observed, expected


# ----------------------------------------------------- BLAS size regime (>= 50000 contiguous float entries)
def raw(el):
    """leaf arrays of an element, copied, dtype kept"""
    return [np.array(np.asarray(a), copy=True).ravel() for a in _leaf_elems(el)]


class _no_blas(object):
    """evaluate with the BLAS regime of _lincomb_impl switched off (the medium-size regime is used instead)"""

    def __enter__(self):
        import odl.space.npy_tensors as nt
        self.nt, self.old = nt, nt.THRESHOLD_MEDIUM
        nt.THRESHOLD_MEDIUM = 10 ** 15

    def __exit__(self, *a):
        self.nt.THRESHOLD_MEDIUM = self.old


def np_ref(P, x):
    """closed form in plain NumPy (no library arithmetic) for bare entry-wise leaves on tensor spaces; else None"""
    import odl
    if isinstance(P.domain, odl.ProductSpace):
        return None
    cls = type(P).__name__
    qn = type(P).__qualname__
    X = np.asarray(x).ravel()
    A = lambda e: np.asarray(P.domain.element(e)).ravel()
    if type(P) in (odl.ScalingOperator, odl.IdentityOperator):
        return [P.scalar * X]
    if type(P) is odl.MultiplyOperator:
        m = P.multiplicand
        return [(m if np.isscalar(m) else A(m)) * X]
    if not qn.startswith('proximal_'):
        return None
    c = clo(P)
    g = None if c.get('g') is None else A(c['g'])
    sig = getattr(P, 'sigma', None)
    if sig is not None and not np.isscalar(sig):
        sig = A(sig)
    if cls == 'ProximalL1':
        d = X - (0 if g is None else g)
        return [X - d / np.maximum(np.abs(d) / (sig * c['lam']), 1)]
    if cls == 'ProximalConvexConjL1':
        d = X - (0 if g is None else sig * g)
        return [d / (np.maximum(np.abs(d), c['lam']) / c['lam'])]
    if cls == 'ProximalL2Squared':
        t = 2 * sig * c['lam']
        return [(X + (0 if g is None else t * g)) / (1 + t)]
    if cls == 'ProximalConvexConjL2Squared':
        return [(X - (0 if g is None else sig * g)) / (1 + 0.5 * sig / c['lam'])]
    if cls == 'ProxOpBoxConstraint':
        r = X
        for b, f in ((c['lower'], np.maximum), (c['upper'], np.minimum)):
            if b is not None:
                r = f(r, b if b in P.domain.field else A(b))
        return [r]
    if cls == 'ProximalConvexConjKL':
        gg = 1 if g is None else g
        return [(X + c['lam'] - np.sqrt((X - c['lam']) ** 2 + 4 * c['lam'] * sig * gg)) / 2]
    if cls == 'ProximalHuber':
        n = np.abs(X)
        with np.errstate(divide='ignore', invalid='ignore'):
            return [X * np.where(n <= c['gamma'] + sig, c['gamma'] / (c['gamma'] + sig), 1 - sig / n)]
    if cls == 'ProximalL2':
        d = X - (0 if g is None else g)
        w = float(weight_const(P.domain))
        nrm = np.sqrt(w * np.sum(np.abs(d) ** 2))
        step = sig * c['lam'] / nrm if nrm > 0 else np.inf
        if step < 1 - 1e-9:
            return [(1 - step) * X + (0 if g is None else step * g)]
        if step > 1 + 1e-9:
            return [0 * X if g is None else g]
    return None


def blas_spaces(tier):
    import odl
    sp = [('f64', odl.rn(50000)), ('f32', odl.rn(65536, dtype='float32'))]
    cx = [('c128', odl.cn(50000))]
    if tier != 'quick':
        sp += [('f64b', odl.rn(65536)), ('f32b', odl.rn(50000, dtype='float32')), ('f64-2d', odl.rn((256, 256))),
               ('discr', odl.uniform_discr(0, 1, 65536))]
        cx += [('c64', odl.cn(65536, dtype='complex64'))]
    return sp, cx


def blas_ops(seed, tier):
    """[(key, description, thunk)]: thunk() -> (ok, detail).  Every proximal `_call`, the nine expression classes and
    DiagonalOperator on spaces inside the BLAS regime of _lincomb_impl, aliased and not aliased, against (1) the same
    operator evaluated with the BLAS regime switched off and (2) a plain-NumPy closed form where one exists."""
    import random
    import odl
    from odl.operator import operator as O
    S = odl.solvers
    rng = random.Random('C10-blas-%d' % seed)
    out = []
    reals, cplx = blas_spaces(tier)

    def add(key, desc, P, x):
        out.append((key, desc, (lambda P=P, x=x: eval_blas(P, x))))

    for tag, sp in reals:
        ops = list(leaf_builders(rng, sp, sqrt_free=True))
        for g in (None, rnd_el(rng, sp)):
            gn = 'g' if g is not None else 'nog'
            ops.append(('l2-' + gn, S.proximal_l2(sp, lam=rng.choice(DY), g=g)(rng.choice([0.5, 2.0, 4096.0])), None))
            ops.append(('ccl2-' + gn, S.proximal_convex_conj_l2(sp, g=g)(rng.choice(DY)), None))
            gp = None if g is None else rnd_el(rng, sp, pos=True)
            ops.append(('cckl-' + gn, S.proximal_convex_conj_kl(sp, lam=rng.choice(DY), g=gp)(rng.choice(DY)), 'pos'))
            ops.append(('kl-' + gn, S.KullbackLeibler(sp, prior=gp).proximal(rng.choice(DY)), 'pos'))
        y = rnd_el(rng, sp)
        f1, f2 = S.L1Norm(sp), S.L2NormSquared(sp)
        for nm, f in (('F:L1-translated', f1.translated(y)), ('F:L1-conj-translated', f1.convex_conj.translated(y)),
                      ('F:L2sq-translated', f2.translated(y)), ('F:L1-quadperturb', S.FunctionalQuadraticPerturb(f1, 0.5, y)),
                      ('F:L1-rightscal', f1 * 2.0), ('F:Linf-conj', S.LpNorm(sp, np.inf).convex_conj),
                      ('F:L2-translated', S.L2Norm(sp).translated(y)), ('F:huber-translated', S.Huber(sp, 0.5).translated(y))):
            ops.append((nm, f.proximal(rng.choice(DY)), None))
        # the nine expression classes, directly
        A, B = S.proximal_l1(sp, g=rnd_el(rng, sp))(0.5), S.proximal_l2_squared(sp, g=rnd_el(rng, sp))(rnd_el(rng, sp, pos=True))
        v = rnd_el(rng, sp)
        Id = odl.IdentityOperator(sp)
        for nm, P in (('OperatorSum', A + B), ('OperatorSum-scaled-identity', A + 2.0 * Id), ('OperatorSum-identity-left', Id - 0.5 * B),
                      ('OperatorVectorSum', A + v), ('OperatorComp', A * B), ('OperatorPointwiseProduct', O.OperatorPointwiseProduct(A, B)),
                      ('OperatorLeftScalarMult', -0.5 * A), ('OperatorRightScalarMult', O.OperatorRightScalarMult(A, 2.0)),
                      ('OperatorLeftVectorMult', v * A), ('OperatorRightVectorMult', A * v),
                      ('convex_conj-of-l1', S.proximal_convex_conj(S.proximal_l1(sp, g=v))(0.5)),
                      ('arg_scaling', S.proximal_arg_scaling(S.proximal_l1(sp), 2.0)(0.5))):
            ops.append((nm, P, None))
        for nm, P, mk in ops:
            x = rnd_el(rng, sp, pos=(mk == 'pos'))
            add('blas:%s:%s' % (nm, tag), '%s on %r' % (nm, sp), P, x)
        # product spaces: DiagonalOperator and the group proximals
        ps = odl.ProductSpace(sp, 2)
        for nm, P, mk in group_builders(rng, ps):
            add('blas:%s:%s' % (nm, tag), '%s on %r' % (nm, ps), P, rnd_el(rng, ps))
        D = odl.DiagonalOperator(S.proximal_l1(sp, g=rnd_el(rng, sp))(0.5), S.proximal_l2_squared(sp, g=rnd_el(rng, sp))(2.0))
        add('blas:DiagonalOperator:%s' % tag, 'DiagonalOperator on %r' % ps, D, rnd_el(rng, ps))
        sep = S.SeparableSum(S.L1Norm(sp).translated(rnd_el(rng, sp)), S.L2NormSquared(sp))
        add('blas:sepsum-prox:%s' % tag, 'SeparableSum.proximal on %r' % ps, sep.proximal(0.5), rnd_el(rng, ps))
        # element arithmetic the solvers apply in place to their iterates
        for nm, a, b, pat in (('lincomb-out-is-x1', 0.5, -2.0, 'x1'), ('lincomb-out-is-x2', 1.0, -1.0, 'x2'),
                              ('lincomb-out-is-x2-generic', 3.0, 0.25, 'x2'), ('lincomb-all-aliased', 0.5, 2.0, 'all'),
                              ('lincomb-x1-is-x2', 0.5, 2.0, 'x1x2'), ('lincomb-out-is-x1-a1', 1.0, -0.5, 'x1')):
            out.append(('blas:%s:%s' % (nm, tag), '%s on %r' % (nm, sp),
                        (lambda sp=sp, a=a, b=b, pat=pat, sd=rng.randrange(2 ** 30): eval_lincomb(sp, a, b, pat, sd))))
    for tag, sp in cplx:
        g = sp.element(np.asarray(rnd_el(rng, sp.real_space)) + 1j * np.asarray(rnd_el(rng, sp.real_space)))
        cx = lambda: sp.element(np.asarray(rnd_el(rng, sp.real_space)) + 1j * np.asarray(rnd_el(rng, sp.real_space)))
        Id = odl.IdentityOperator(sp)
        A = S.proximal_l2_squared(sp, g=g)(0.5)
        for nm, P in (('l2sq-g', A), ('ccl2sq-g', S.proximal_convex_conj_l2_squared(sp, g=g)(2.0)), ('scaling', odl.ScalingOperator(sp, 0.5 - 2j)),
                      ('OperatorSum', A + (1 + 1j) * Id), ('OperatorVectorSum', A + g), ('OperatorComp', A * (2.0 * Id)),
                      ('translation', S.proximal_translation(S.proximal_l2_squared(sp), g)(0.5))):
            add('blas:%s:%s' % (nm, tag), '%s on %r' % (nm, sp), P, cx())
        for nm, a, b, pat in (('lincomb-out-is-x1', 0.5, -2.0 + 1j, 'x1'), ('lincomb-out-is-x2', 1.0, -1.0, 'x2')):
            out.append(('blas:%s:%s' % (nm, tag), '%s on %r' % (nm, sp),
                        (lambda sp=sp, a=a, b=b, pat=pat, sd=rng.randrange(2 ** 30): eval_lincomb(sp, a, b, pat, sd))))
    return out


def _tols(space):
    import odl
    sp = space
    while isinstance(sp, odl.ProductSpace):
        sp = sp[0]
    single = np.dtype(getattr(sp, 'dtype', float)) in (np.dtype('float32'), np.dtype('complex64'))
    return (5e-4, 5e-4) if single else (1e-9, 1e-9)


def _dev(a, b, rtol, atol):
    """None when close, else a short description of the first deviation"""
    for k, (u, v) in enumerate(zip(a, b)):
        scale = max(1.0, float(np.max(np.abs(v))) if v.size else 1.0)
        bad = ~(np.abs(u - v) <= atol * scale + rtol * np.abs(v))
        if u.shape != v.shape or bad.any():
            i = int(np.argmax(bad)) if u.shape == v.shape else -1
            return 'array %d entry %d: %r vs %r (%d entries differ)' % (k, i, u[i], v[i], int(bad.sum()))
    return None


def eval_blas(P, x):
    x0 = raw(x)
    with _no_blas():
        ref = raw(P(x.copy()))
    if not all(np.isfinite(r).all() for r in ref):
        return True, 'nonfinite reference'
    rtol, atol = _tols(P.domain)
    r = P(x)
    oop = raw(r)
    y = x.copy()
    P(y, out=y)
    z = junk_like(P.range)
    x2 = x.copy()
    P(x2, out=z)
    why = []
    for nm, got in (('P(x)', oop), ('P(y, out=y)', raw(y)), ('P(x, out=z)', raw(z))):
        d = _dev(got, ref, rtol, atol)
        if d:
            why.append('%s differs from the value computed without the BLAS regime: %s' % (nm, d))
    for nm, el in (('x after P(x)', x), ('x after P(x, out=z)', x2)):
        if any((u != v).any() for u, v in zip(raw(el), x0)):
            why.append(nm + ' was modified')
    cf = np_ref(P, x)
    if cf is not None:
        d = _dev(oop, [np.asarray(c).ravel() for c in cf], max(rtol, 1e-7), max(atol, 1e-7))
        if d:
            why.append('P(x) differs from the plain-NumPy closed form: %s' % d)
    return (not why), '; '.join(why) or None


def eval_lincomb(sp, a, b, pat, sd):
    rs = np.random.RandomState(sd)

    def mk():
        v = rs.randint(-6, 7, sp.size) * 0.25
        if sp.is_complex:
            v = v + 1j * rs.randint(-6, 7, sp.size) * 0.5
        return sp.element(v.reshape(sp.shape))
    x, y = mk(), mk()
    X, Y = np.asarray(x).copy(), np.asarray(y).copy()
    if pat == 'x1':
        x.lincomb(a, x, b, y)
        want, keep = a * X + b * Y, (y, Y)
    elif pat == 'x2':
        x.lincomb(a, y, b, x)
        want, keep = a * Y + b * X, (y, Y)
    elif pat == 'all':
        x.lincomb(a, x, b, x)
        want, keep = (a + b) * X, (y, Y)
    else:
        x.lincomb(a, y, b, y)
        want, keep = (a + b) * Y, (y, Y)
    rtol, atol = _tols(sp)
    d = _dev([np.asarray(x).ravel()], [want.ravel()], rtol, atol)
    why = []
    if d:
        why.append('result differs from a*x1 + b*x2 of the old operands: ' + d)
    if (np.asarray(keep[0]) != keep[1]).any():
        why.append('a non-output operand was modified')
    return (not why), '; '.join(why) or None


def replay_blas(seed, tier, index):
    key, desc, thunk = blas_ops(seed, tier)[index]
    ok, detail = thunk()
    return ok, detail, None


# --------------------------------------------------- call histories on ONE operator object
HISTORIES = (('A', 'A', 'S', 'A'), ('S', 'A', 'A'))


def _hist_builders(rng, tier):
    import odl
    S = odl.solvers
    out = list(all_builders(rng, tier))
    for sp in flat_spaces(rng, 'quick')[1:5]:
        for g in (None, rnd_el(rng, sp, pos=True)):
            gn = 'g' if g is not None else 'nog'
            out.append(('ccklce-' + gn, S.proximal_convex_conj_kl_cross_entropy(sp, lam=rng.choice(DY), g=g)(rng.choice(DY)),
                        (lambda sp=sp: rnd_el(rng, sp)), sp))
            out.append(('F:KL-' + gn, S.KullbackLeibler(sp, prior=g).proximal(rng.choice(DY)),
                        (lambda sp=sp: rnd_el(rng, sp, pos=True)), sp))
            out.append(('F:KLconj-' + gn, S.KullbackLeibler(sp, prior=g).convex_conj.proximal(rng.choice(DY)),
                        (lambda sp=sp: rnd_el(rng, sp)), sp))
    sp2 = odl.ProductSpace(odl.ProductSpace(odl.rn(3), 2), 2)
    for e in (1, 2, np.inf):
        out.append(('nuclear-%s' % e, S.NuclearNorm(sp2, singular_vector_exp=e).proximal(rng.choice(DY)),
                    (lambda: rnd_el(rng, sp2)), sp2))
    return out


def history_ops(seed, tier):
    """[(key, description, thunk)].  Four independent builds of the same operator list (same seed): two objects receive
    call histories (A = P(y, out=y), S = P(x, out=z)) with a DIFFERENT input at every call, the results are compared
    with the out-of-place value of objects that are never called in place (one of them fresh at the last step)."""
    import random
    builds = [_hist_builders(random.Random('C10-hist-%d' % seed), tier) for _ in range(4)]
    rin = random.Random('C10-hist-in-%d' % seed)
    out = []
    for i, (nm, P, mk, sp) in enumerate(builds[0]):
        insts = [b[i][1] for b in builds]
        key = 'history:' + (nm if nm != 'tree' else 'tree-' + type(P).__name__)
        out.append((key, '%s on %r' % (nm, sp),
                    (lambda insts=insts, mk=mk, sp=sp, sd=rin.randrange(2 ** 30): eval_history(insts, mk, sp, sd))))
    return out


def eval_history(insts, mk, sp, sd):
    rtol, atol = _tols(sp)
    rtol, atol = max(rtol, 1e-9), max(atol, 1e-11)
    ref_op, fresh = insts[2], insts[3]
    why = []
    nhist = 0
    for inst, hist in zip(insts[:2], HISTORIES):
        for step, kind_ in enumerate(hist):
            x = sp.element(mk())
            # a different input at every call: shift by the step number when the maker repeats itself
            x = x + (0.25 * (step + 1 + 3 * nhist)) * sp.one() if step else x
            want = raw(ref_op(x.copy()))
            if not all(np.isfinite(w).all() for w in want):
                continue
            if kind_ == 'A':
                y = x.copy()
                inst(y, out=y)
                got = raw(y)
            else:
                z = junk_like(inst.range)
                x2 = x.copy()
                inst(x2, out=z)
                got = raw(z)
                if any((u != v).any() for u, v in zip(raw(x2), raw(x))):
                    why.append('history %s step %d: x modified by the non-aliased call' % ('-'.join(hist), step))
            d = _dev(got, want, rtol, atol)
            if d:
                why.append('history %s step %d (%s): differs from the out-of-place value: %s'
                           % ('-'.join(hist), step, 'P(y,out=y)' if kind_ == 'A' else 'P(x,out=z)', d))
            if step == len(hist) - 1 and nhist == 0:
                d2 = _dev(raw(fresh(x.copy())), want, rtol, atol)
                if d2:
                    why.append('out-of-place value of a used object differs from a fresh object: %s' % d2)
        nhist += 1
    return (not why), '; '.join(why[:3]) or None


def replay_history(seed, tier, index):
    key, desc, thunk = history_ops(seed, tier)[index]
    ok, detail = thunk()
    return ok, detail, None


def _probe_family(fam, seed, tier):
    """generic (key, desc, thunk) families -> Probes"""
    ops, rname, what = {'history': (history_ops, 'replay_history',
                                    'call histories on one operator object (aliased/separate calls with different inputs) '
                                    'equal the out-of-place value of an unused object: '),
                        'blas': (blas_ops, 'replay_blas',
                                 'BLAS size regime: P(x), P(y,out=y), P(x,out=z) equal the value computed without the BLAS '
                                 'regime (and the NumPy closed form): ')}[fam]
    out = []
    for idx, (key, desc, thunk) in enumerate(ops(seed, tier)):
        try:
            ok, note = thunk()
        except Exception as e:
            ok, note = False, 'raised %r' % (e,)
        rp = ("import sys\nsys.path.insert(0, %r)\nfrom harness import c10\n"
              "ok, observed, expected = c10.%s(%d, %r, %d)\n" % (C.VERIF, rname, seed, tier, idx))
        out.append(C.Probe(ok, key, what + desc, rp, note))
    return out


def search(rng, broken):
    """Called by the driver when a proof / the translator / the correspondence broke and no probe has an input yet:
    call histories first (state kept across calls is invisible to single-call oracles), then BLAS sizes, then the
    single-call oracle on more inputs."""
    seed = rng.randrange(2 ** 30)
    for fam in ('history', 'blas'):
        for p in _probe_family(fam, seed, 'thorough'):
            if not p.ok:
                return p
    for p in probes(rng, 'thorough'):
        if not p.ok and p.key != 'reify-unmodelled':
            return p
    return None


class _Unalias(object):
    """prox factory wrapper: the returned operator never sees x is out"""

    def __init__(self, f):
        self.f = f

    def proximal_factory(self):
        import odl
        inner = self.f.proximal

        def factory(sigma):
            P = inner(sigma)

            class Safe(odl.Operator):
                def __init__(self):
                    super(Safe, self).__init__(P.domain, P.range, linear=False)

                def _call(self, x, out):
                    out.assign(P(x.copy()))
            return Safe()
        return factory


def _unaliased(f):
    """functional with the same values/gradients whose proximal (and conjugate proximal) copy their input"""
    import odl

    class G(odl.solvers.Functional):
        def __init__(self, f):
            super(G, self).__init__(f.domain, linear=False, grad_lipschitz=f.grad_lipschitz)
            self.f = f

        def _call(self, x):
            return self.f(x)

        @property
        def gradient(self):
            return self.f.gradient

        @property
        def proximal(self):
            return _Unalias(self.f).proximal_factory()

        @property
        def convex_conj(self):
            return G(self.f.convex_conj)
    return G(f)


def solver_runs(seed, tier):
    """[(key, what, run)] with run(f_wrap) -> final iterates; each shipped solver that calls a proximal with
    out aliased to its argument, run once with the functionals as they are and once with copies-on-entry."""
    import random
    import odl
    S = odl.solvers
    rng = random.Random('C10-solver-%d' % seed)
    out = []
    sp = odl.rn(4)
    ps = odl.ProductSpace(odl.rn(3), 2)
    A = odl.MatrixOperator(np.array([[1, 2, 0, -1], [0, 1, 1, 0], [2, 0, -1, 1], [1, 1, 1, 1.]]) / 4.0)
    d = sp.element([1, -2, 3, 0.5])
    fs = {'L1': lambda s: S.L1Norm(s), 'L1-translated': lambda s: S.L1Norm(s).translated(rnd_el(rng, s)),
          'L2': lambda s: S.L2Norm(s), 'L2sq-translated': lambda s: S.L2NormSquared(s).translated(rnd_el(rng, s)),
          'Linf': lambda s: S.LpNorm(s, np.inf), 'box': lambda s: S.IndicatorBox(s, -1, 2),
          'L1-quadperturb': lambda s: S.FunctionalQuadraticPerturb(S.L1Norm(s), 0.5, rnd_el(rng, s)),
          'huber': lambda s: S.Huber(s, 0.5), 'ballL1': lambda s: S.IndicatorLpUnitBall(s, 1),
          'L1-scaled': lambda s: 2.0 * S.L1Norm(s) * 0.5, 'KL': lambda s: S.KullbackLeibler(s, prior=rnd_el(rng, s, pos=True))}
    niter = 4 if tier == 'quick' else 12
    for nm, mkf in sorted(fs.items()):
        f = mkf(sp)
        g = S.L2NormSquared(sp).translated(d)
        x0 = rnd_el(rng, sp, pos=True)

        def admm(w, f=f, g=g, x0=x0):
            x = x0.copy()
            S.admm_linearized(x, w(f), g, A, tau=0.5, sigma=1.0, niter=niter)
            return [x]
        out.append(('solver:admm_linearized-f=' + nm, 'admm_linearized prox_tau_f(x, out=x)', admm))

        def pdca(w, f=f, x0=x0):
            x = x0.copy()
            S.prox_dca(x, w(f), S.L2NormSquared(sp) * 0.5, niter=niter, gamma=0.5)
            return [x]
        out.append(('solver:prox_dca-f=' + nm, 'prox_dca f.proximal(gamma)(x.lincomb(...), out=x)', pdca))

        def dpdc(w, f=f, x0=x0):
            x = x0.copy()
            y = sp.zero()
            S.doubleprox_dc(x, y, w(f), S.L2NormSquared(sp) * 0.25, w(S.L1Norm(sp)), A, niter=niter, gamma=0.5, mu=0.5)
            return [x, y]
        out.append(('solver:doubleprox_dc-f=' + nm, 'doubleprox_dc both aliased proximal calls', dpdc))

        def drpd(w, f=f, g=g, x0=x0):
            x = x0.copy()
            S.douglas_rachford_pd(x, w(f), [w(S.L1Norm(sp)), w(g)], [A, odl.IdentityOperator(sp)], tau=0.5, sigma=[0.5, 0.5],
                                  niter=niter)
            return [x]
        out.append(('solver:douglas_rachford_pd-f=' + nm, 'douglas_rachford_pd prox_cc_g[i](sigma[i])(p2[i], out=p2[i])', drpd))
    for nm, mkf in (('groupL1', lambda s: S.GroupL1Norm(s)), ('groupL1-translated', lambda s: S.GroupL1Norm(s).translated(rnd_el(rng, s))),
                    ('sepsum', lambda s: S.SeparableSum(S.L1Norm(s[0]), S.L2Norm(s[1])))):
        f = mkf(ps)
        x0 = rnd_el(rng, ps)
        I = odl.IdentityOperator(ps)

        def admm2(w, f=f, x0=x0):
            x = x0.copy()
            S.admm_linearized(x, w(f), S.L2NormSquared(ps), I, tau=0.5, sigma=1.0, niter=niter)
            return [x]
        out.append(('solver:admm_linearized-f=' + nm, 'admm_linearized on a product space', admm2))

        def pdca2(w, f=f, x0=x0):
            x = x0.copy()
            S.prox_dca(x, w(f), S.L2NormSquared(ps) * 0.5, niter=niter, gamma=0.5)
            return [x]
        out.append(('solver:prox_dca-f=' + nm, 'prox_dca on a product space', pdca2))
    # dca: f_convex_conj.gradient(g.gradient(x), out=x)  vs. the same recursion written out of place
    for nm, fd, gd in (('L2sq/L2sq-translated', S.L2NormSquared(sp), S.L2NormSquared(sp).translated(d) * 0.5),
                     ('quadform/huber', S.QuadraticForm(operator=odl.ScalingOperator(sp, 2.0), vector=d), S.Huber(sp, 0.5)),
                     ('L2sq-sepsum/L2sq', S.SeparableSum(S.L2NormSquared(odl.rn(2)), S.L2NormSquared(odl.rn(2)) * 2.0),
                      S.L2NormSquared(odl.ProductSpace(odl.rn(2), 2)).translated(odl.ProductSpace(odl.rn(2), 2).one()))):
        x0 = rnd_el(rng, fd.domain)

        def dca_run(w, f=fd, g=gd, x0=x0):
            x = x0.copy()
            if w(f) is f:
                S.dca(x, f, g, niter=niter)
            else:
                for _ in range(niter):
                    x = f.convex_conj.gradient(g.gradient(x).copy())
            return [x]
        out.append(('solver:dca-' + nm, 'dca f*.gradient(g.gradient(x), out=x)', dca_run))
    return out


def replay_solver(seed, tier, index):
    key, what, run = solver_runs(seed, tier)[index]
    a = [v for el in run(lambda f: f) for v in vals(el)]
    b = [v for el in run(_unaliased) for v in vals(el)]
    return _close(a, b, 1e-9, 1e-11), a, b


def probes(rng, tier):
    out = []
    seed = rng.randrange(2 ** 30)
    # fail closed: every operator the builders produce must have been reified (none silently skipped)
    st = getattr(correspondence, 'stats', None)
    if st is not None:
        out.append(C.Probe(not st['unmodelled'] and not st['nonfinite'], 'reify-unmodelled',
                           'every built operator is inside the modelled classes and gives finite values: %r' % (st,),
                           None, st))
    for idx, (key, desc, P, x) in enumerate(probe_ops(seed, tier)):
        try:
            ok, note, observed, expected = eval_probe(P, x)
        except Exception as e:
            ok, note = False, 'raised %r' % (e,)
        rp = ("import sys\nsys.path.insert(0, %r)\nfrom harness import c10\n"
              "ok, observed, expected = c10.replay_probe(%d, %r, %d)\n" % (C.VERIF, seed, tier, idx))
        out.append(C.Probe(ok, key, 'P(y, out=y) and P(x, out=z) equal P(x), x untouched: %s' % desc, rp, note))
    out.extend(_probe_family('history', seed, tier))
    out.extend(_probe_family('blas', seed, tier))
    for idx, (key, what, run) in enumerate(solver_runs(seed, tier)):
        try:
            ok, a, b = replay_solver(seed, tier, idx)
        except Exception as e:
            ok = False
        rp = ("import sys\nsys.path.insert(0, %r)\nfrom harness import c10\n"
              "ok, observed, expected = c10.replay_solver(%d, %r, %d)\n" % (C.VERIF, seed, tier, idx))
        out.append(C.Probe(ok, key, 'same iterates with proximals that copy their input first: ' + what, rp))
    return out


def _FDCC():
    from odl.solvers.functional.functional import FunctionalDefaultConvexConjugate
    return FunctionalDefaultConvexConjugate
