"""C07 proximal operators: correspondence (functional trees + factories) and probes."""
import math

import numpy as np

from . import common as C

PID = 'C07'
SHARD_SIZE = 120

RULE = ('(a) functional trees built through the Functional API: 14 leaf classes (L1/L2/L2^2/Linf norms, constant, '
        'box/non-negativity, IndicatorZero, unit balls p=inf/2/1, Huber, simplex, group L1 (exp 1,2), group unit ball '
        '(exp inf,2)) under left/right scaling, scalar sum, translation, quadratic perturbation / Bregman distance and '
        'separable sums, depth <= 3 (quick) / 4 (thorough), on rn, constant- and array-weighted rn, 1-d/2-d '
        'uniform_discr with cell volume != 1, power and product spaces; steps scalar / per-point element / '
        'per-component list; inputs dyadic (k/4) incl. kink points; compared: f(x) and f.proximal(sigma)(x). '
        '(b) the factories of proximal_operators.py called directly with lam, g, all step kinds and the rules '
        'translation / arg_scaling / quadratic_perturbation / convex_conj / combine / composition. '
        'A case is non-trivial when x is not identically zero; distinct by (tree or factory, step, x).')
ASSUMPTIONS = [
    'exact real arithmetic: rounding, overflow, NaN and signed zeros are outside every theorem',
    'the (1 - 1e-14) / (1 + 1e-14) safety factors of proximal_convex_conj_l1*, proximal_l2 are modelled as 1 '
    '(absorbed by the 1e-9 tolerance of the correspondence)',
    'Q/R link: PROVED (C07/Transfer.v) for every sqrt-free tree and factory -- Q2R commutes with fval / fprox; for the '
    'leaves with a square root (L2 norm, 2-ball, pointwise 2-norms, Huber on vector fields, KL) and quadratic '
    'perturbation the Q-instance uses a floor square root with relative error < 2^-64 (exact on rational squares), '
    'the R-instance sqrt: assumed, covered by the 1e-9 tolerance',
    'NumPy ufuncs, sort, cumsum, broadcasting and ODL space arithmetic (lincomb, inner, ufuncs on product spaces) '
    'behave as modelled (validated by the correspondence, not proved)',
    'flat weighted-list model of spaces: <x,y> = sum w_i x_i y_i (checked per generated space against space.inner)']
TRUSTED = ['C07/Model.v hand-written value-level model of the closed-form factory bodies (tied by the correspondence); the '
           'class -> factory bindings, the rule wiring of functional.py and the operator expressions of the rule factories are '
           'REGENERATED (translate/prox_bindings.py -> Gen/ProxBindings.v) and proved equal to the model in C07/Bindings.v',
           'translate/prox_bindings.py (Python ast -> terms of C07/BindSyntax.v, fail-closed) and the value-level reading of '
           'ConstantOperator / IdentityOperator / MultiplyOperator / operator +,-,* in C07/Bindings.v',
           'harness/c07.py tree builder (same tree -> ODL object and Coq term; it applies the scalar merging of '
           'OperatorLeftScalarMult.__init__ to the Coq term)',
           'values of the KL functionals are not executable (ln): their theorems are stated over R-level definitions and only '
           'their proximal formulas are compared with the code']


def translate():
    from translate import prox_bindings as PB
    return {'Gen/ProxBindings.v': PB.translate()}


# ------------------------------------------------------------------ spaces
class Sp(object):
    """A space recipe: builds the ODL space, knows flat weights and (un)flattening."""

    def __init__(self, code):
        self.code = code          # python expression (uses odl, np)
        self._space = None

    @property
    def space(self):
        if self._space is None:
            import odl
            self._space = eval(self.code, {'odl': odl, 'np': np})
        return self._space

    @property
    def n(self):
        return len(self.weights)

    @property
    def weights(self):
        return flat_weights(self.space)

    def el(self, flat):
        return unflatten(self.space, [float(v) for v in flat])


def _is_pspace(space):
    import odl
    return isinstance(space, odl.ProductSpace)


def flatten(el):
    if _is_pspace(el.space):
        out = []
        for part in el:
            out.extend(flatten(part))
        return out
    return [float(v) for v in np.asarray(el).ravel()]


def space_size(space):
    if _is_pspace(space):
        return sum(space_size(s) for s in space)
    return int(np.prod(space.shape))


def unflatten(space, flat):
    if _is_pspace(space):
        parts, k = [], 0
        for s in space:
            m = space_size(s)
            parts.append(unflatten(s, flat[k:k + m]))
            k += m
        return space.element(parts)
    return space.element(np.array(flat, dtype=float).reshape(space.shape))


def flat_weights(space):
    """Weights w with <x,y> = sum w_i x_i y_i, read off by evaluating inner on unit vectors."""
    n = space_size(space)
    w = []
    for i in range(n):
        e = [0.0] * n
        e[i] = 1.0
        ei = unflatten(space, e)
        w.append(float(ei.inner(ei)))
    return w


def space_pool(rng, tier):
    """(recipe, tags) list; small dims incl. 1."""
    n = rng.choice([1, 2, 3, 3, 4])
    arr = [rng.choice([0.5, 1.0, 2.0, 4.0, 0.25]) for _ in range(n)]
    pool = [
        (Sp('odl.rn(%d)' % n), 'rn'),
        (Sp('odl.rn(%d, weighting=%r)' % (n, rng.choice([0.5, 2.0, 4.0]))), 'rn-const'),
        (Sp('odl.rn(%d, weighting=%r)' % (n, arr)), 'rn-array'),
        (Sp('odl.uniform_discr(0, %r, %d)' % (rng.choice([1.0, 2.0, 0.5 * n, 4.0 * n]), n)), 'discr'),
        (Sp('odl.uniform_discr([0, 0], [1, %r], [2, %d])' % (rng.choice([1.0, 3.0]), rng.choice([1, 2, 3]))), 'discr2d'),
        (Sp('odl.rn((2, 3)%s)' % rng.choice(['', ', weighting=0.5', ', weighting=2.0'])), 'rn2d'),
        (Sp('odl.uniform_discr([0, 0, 0], [1, 1, %r], [2, 1, 3])' % rng.choice([3.0, 1.5])), 'discr3d'),
        (Sp('odl.rn((3, 2), weighting=np.array([[1.0, 2.0], [0.5, 4.0], [0.25, 1.0]]))'), 'rn-array'),
    ]
    return pool


def rand_space(rng, tier, flat_only=False, power_only=False, pweights_ok=False):
    sp, tag = rng.choice(space_pool(rng, tier))
    if flat_only or rng.random() < 0.7:
        return sp, tag
    if power_only or rng.random() < 0.5:
        d = rng.choice([2, 2, 3])
        if pweights_ok and rng.random() < 0.4:      # component weights of the product space (const or per component)
            wt = rng.choice([2.0, 0.5, [rng.choice([0.5, 1.0, 2.0, 4.0]) for _ in range(d)]])
            return Sp('odl.ProductSpace(%s, %d, weighting=%r)' % (sp.code, d, wt)), 'wpow-' + tag
        return Sp('odl.ProductSpace(%s, %d)' % (sp.code, d)), 'pow-' + tag
    sp2, tag2 = rng.choice(space_pool(rng, tier))
    return Sp('odl.ProductSpace(%s, %s)' % (sp.code, sp2.code)), 'prod-%s-%s' % (tag, tag2)


def dy(rng, lo=-12, hi=12, den=4):
    return rng.randint(lo, hi) / float(den)


def pos(rng):
    return rng.choice([0.25, 0.5, 1.0, 1.5, 2.0, 3.0])


def vec(rng, n, **kw):
    return [dy(rng, **kw) for _ in range(n)]


# ------------------------------------------------------------ Coq printing
def coq_opt_vec(g):
    return 'None' if g is None else '(Some %s)' % C.qs(g)


def coq_bound(b):
    if b is None:
        return 'BNone'
    if isinstance(b, (int, float)):
        return '(BScal %s)' % C.q(b)
    return '(BVec %s)' % C.qs(b)


def coq_sig(s):
    k = s[0]
    if k == 'scal':
        return '(SScal %s)' % C.q(s[1])
    if k == 'vec':
        return '(SVec %s)' % C.qs(s[1])
    return '(SPair %s %s)' % (coq_sig(s[1]), coq_sig(s[2]))


def nat(n):
    return '%d%%nat' % n


# ------------------------------------------------------- functional trees
# tree := ('leaf', kind, params, Sp) | ('lscal', s, t) | ('rscal', s, t) | ('ssum', c, t)
#       | ('transl', flat, t) | ('qpert', a, u|None, c, t) | ('breg', point, subgrad, t) | ('sep', t1, t2)
LEAF_KINDS = ['l1', 'l2', 'l2sq', 'linf', 'const', 'zero', 'box', 'nonneg', 'indzero', 'ballinf', 'ball2',
              'ball1', 'huber', 'simplex', 'groupl1', 'groupball', 'huberg', 'sumc']


def tree_space(t):
    """ODL space of a tree (built lazily through the leaves)."""
    return build(t).domain


def rand_leaf(rng, tier, kind=None):
    kind = kind or rng.choice(LEAF_KINDS)
    if kind == 'huberg':
        base, tag = rand_space(rng, tier, flat_only=True)
        d = rng.choice([1, 2, 2, 3])
        sp = Sp('odl.ProductSpace(%s, %d)' % (base.code, d))
        return ('leaf', kind, {'m': base.n, 'd': d, 'gamma': rng.choice([0.25, 0.5, 1.0, 2.0, 0.0])}, sp)
    if kind in ('groupl1', 'groupball'):
        base, tag = rand_space(rng, tier, flat_only=True)
        while len(base.space.shape) != 1 and False:
            base, tag = rand_space(rng, tier, flat_only=True)
        d = rng.choice([1, 2, 2, 3])
        sp = Sp('odl.ProductSpace(%s, %d)' % (base.code, d))
        two = rng.random() < 0.6
        return ('leaf', kind, {'m': base.n, 'd': d, 'two': two}, sp)
    sp, tag = rand_space(rng, tier, flat_only=(kind == 'huber'), power_only=kind in ('simplex', 'linf', 'ball1', 'sumc'),
                         pweights_ok=kind in ('l1', 'l2', 'l2sq', 'const', 'zero', 'box', 'nonneg', 'indzero', 'ballinf',
                                              'ball2', 'simplex', 'linf', 'ball1'))
    n = sp.n
    p = {}
    if kind == 'const':
        p['c'] = dy(rng)
    elif kind == 'box':
        def bnd(lo):
            r = rng.random()
            if r < 0.25:
                return None
            if r < 0.6:
                return dy(rng, -8, 0) if lo else dy(rng, 0, 8)
            return [dy(rng, -8, 0) if lo else dy(rng, 0, 8) for _ in range(n)]
        p['lo'], p['hi'] = bnd(True), bnd(False)
    elif kind == 'indzero':
        p['c'] = rng.choice([0.0, 0.0, 1.5, -2.0])
    elif kind == 'huber':
        p['gamma'] = rng.choice([0.25, 0.5, 1.0, 2.0, 0.0])
    elif kind == 'simplex':
        p['diam'] = rng.choice([1.0, 2.0, 0.5, 3.0])
    elif kind == 'sumc':
        p['c'] = rng.choice([1.0, 2.0, -1.5, 0.5, 4.0])
    return ('leaf', kind, p, sp)


GRID_SPACES = [
    ('odl.rn(3)', 'rn'), ('odl.rn(1)', 'rn'), ('odl.rn(3, weighting=2.0)', 'rn-const'),
    ('odl.rn(3, weighting=[0.5, 1.0, 4.0])', 'rn-array'), ('odl.uniform_discr(0, 2.0, 4)', 'discr'),
    ('odl.rn((2, 3))', 'rn2d'), ('odl.rn((2, 3), weighting=0.5)', 'rn2d'),
    ('odl.uniform_discr([0, 0], [1, 3.0], [2, 3])', 'discr2d'),
    ('odl.uniform_discr([0, 0, 0], [1, 1, 3.0], [2, 1, 3])', 'discr3d'),
    ('odl.ProductSpace(odl.rn(2), 3)', 'pow-rn'), ('odl.ProductSpace(odl.rn((2, 2)), 2)', 'pow-rn2d'),
    ('odl.ProductSpace(odl.rn(2), 3, weighting=[1.0, 2.0, 0.5])', 'wpow-rn'),
    ('odl.ProductSpace(odl.rn(2), odl.rn(3))', 'prod-rn-rn'),
]
GRID_BASES = [('odl.rn(2)', 2), ('odl.rn(3, weighting=[0.5, 1.0, 4.0])', 3), ('odl.rn((2, 2))', 4),
              ('odl.uniform_discr([0, 0], [1, 3.0], [2, 3])', 6), ('odl.rn(1)', 1),
              ('odl.uniform_discr([0, 0], [1, 1], [3, 3])', 9), ('odl.rn((2, 2, 3))', 12),
              ('odl.uniform_discr([0, 0, 0], [1, 2, 1], [2, 3, 2])', 12)]
GRID_PARAMS = {
    'const': [{'c': -1.5}], 'indzero': [{'c': 0.0}, {'c': 2.0}],
    'box': [{'lo': -1.0, 'hi': 1.0}, {'lo': None, 'hi': 0.0}, {'lo': 0.5, 'hi': 0.5}],
    'huber': [{'gamma': 0.0}, {'gamma': 0.015625}, {'gamma': 64.0}, {'gamma': 1.0}],
    'simplex': [{'diam': 1.0}, {'diam': 0.015625}, {'diam': 64.0}],
    'sumc': [{'c': 1.0}, {'c': -3.0}, {'c': 64.0}],
}
GRID_STEPS = [0.015625, 1.0, 64.0]


def corner_grid(rng, all_steps=False):
    """Deterministic crossing: every leaf class x parameter corner values x every space kind (1-d, N-d tensor /
    discretized, constant / array weights, power / weighted power / non-power product spaces) x tiny / unit / huge step.
    Yields (tree, step, x)."""
    for kind in LEAF_KINDS:
        if kind in ('groupl1', 'groupball', 'huberg'):
            for bcode, m in GRID_BASES:
                for d in (1, 2, 3):
                    plist = [{'two': True}, {'two': False}] if kind != 'huberg' else \
                        [{'gamma': 0.0}, {'gamma': 0.015625}, {'gamma': 64.0}, {'gamma': 1.0}]
                    for p in plist:
                        q = dict(p, m=m, d=d)
                        t = ('leaf', kind, q, Sp('odl.ProductSpace(%s, %d)' % (bcode, d)))
                        sg = GRID_STEPS[(m + d + len(repr(p))) % 3]
                        # points whose pointwise norms lie on both sides of the step, with several non-zero components
                        x = [rng.choice([-1, 1]) * rng.choice([0.25, 0.5, 1.5, 3.0, 6.0]) for _ in range(m * d)]
                        yield t, ('scal', sg), x, True, 'pow'
            continue
        for si, (scode, tag) in enumerate(GRID_SPACES):
            sp = Sp(scode)
            for pi, p in enumerate(GRID_PARAMS.get(kind, [{}])):
                p = dict(p)
                if kind == 'box':
                    n = sp.n
                    if p['lo'] == 0.5:      # degenerate box as element-valued bounds
                        p = {'lo': [0.5] * n, 'hi': [0.5] * n}
                t = ('leaf', kind, p, sp)
                corr_ok = finding_key(kind, sp) not in ('proj-simplex-nonpower-product-space',
                                                        'huber-nonpower-product-space',
                                                        'indicator-sum-constraint-nonpower-product-space')
                if kind == 'huber' and 'ProductSpace' in scode:
                    # Huber on a product space is the vector-field Huber: modelled by FHuberG on unweighted power spaces
                    if tag in ('pow-rn', 'pow-rn2d'):
                        d = len(sp.space)
                        t = ('leaf', 'huberg', dict(p, m=sp.n // d, d=d), sp)
                    else:
                        corr_ok = False
                steps = GRID_STEPS if all_steps else [GRID_STEPS[(si + pi) % 3]]
                for sg in steps:
                    x = [rng.choice([-1, 1]) * rng.choice([0.25, 0.5, 1.5, 3.0, 6.0, 0.0]) for _ in range(sp.n)]
                    yield t, ('scal', sg), x, corr_ok, tag


def tree_dim(t):
    k = t[0]
    if k == 'leaf':
        return t[3].n
    if k == 'sep':
        return tree_dim(t[1]) + tree_dim(t[2])
    return tree_dim(t[-1])


def rand_tree(rng, tier, depth):
    if depth == 0 or rng.random() < 0.25:
        return rand_leaf(rng, tier)
    rule = rng.choice(['lscal', 'rscal', 'ssum', 'transl', 'qpert', 'breg', 'sep', 'lscal', 'transl'])
    if rule == 'sep':
        a = rand_tree(rng, tier, depth - 1)
        b = rand_tree(rng, tier, depth - 1)
        return ('sep', a, b)
    sub = rand_tree(rng, tier, depth - 1)
    n = tree_dim(sub)
    if rule == 'lscal':
        return ('lscal', rng.choice([0.5, 2.0, 3.0, 0.25, 1.0, 1.5, 0.5, 2.0, -1.0, 0.0]), sub)
    if rule == 'rscal':
        return ('rscal', rng.choice([0.5, 2.0, -1.0, -0.5, 4.0, 1.0]), sub)
    if rule == 'ssum':
        return ('ssum', dy(rng), sub)
    if rule == 'transl':
        return ('transl', vec(rng, n, lo=-6, hi=6), sub)
    if rule == 'qpert':
        a = rng.choice([0.0, 0.5, 1.5, 4.0, 0.375, 12.0, 0.5, 1.5, -0.5])
        u = None if rng.random() < 0.3 else vec(rng, n, lo=-6, hi=6)
        return ('qpert', a, u, dy(rng), sub)
    return ('breg', vec(rng, n, lo=-6, hi=6), vec(rng, n, lo=-6, hi=6), sub)


_BUILD_CACHE = {}


def build(t):
    """ODL functional of a tree."""
    import odl
    S = odl.solvers
    k = t[0]
    if k == 'leaf':
        _, kind, p, sp = t
        X = sp.space
        if kind == 'l1':
            return S.L1Norm(X)
        if kind == 'l2':
            return S.L2Norm(X)
        if kind == 'l2sq':
            return S.L2NormSquared(X)
        if kind == 'linf':
            return S.LpNorm(X, np.inf)
        if kind == 'const':
            return S.ConstantFunctional(X, p['c'])
        if kind == 'zero':
            return S.ZeroFunctional(X)
        if kind == 'box':
            lo, hi = p['lo'], p['hi']
            lo = sp.el(lo) if isinstance(lo, list) else lo
            hi = sp.el(hi) if isinstance(hi, list) else hi
            return S.IndicatorBox(X, lo, hi)
        if kind == 'nonneg':
            return S.IndicatorNonnegativity(X)
        if kind == 'indzero':
            return S.IndicatorZero(X, p['c'])
        if kind == 'ballinf':
            return S.IndicatorLpUnitBall(X, np.inf)
        if kind == 'ball2':
            return S.IndicatorLpUnitBall(X, 2)
        if kind == 'ball1':
            return S.IndicatorLpUnitBall(X, 1)
        if kind == 'huber':
            return S.Huber(X, p['gamma'])
        if kind == 'simplex':
            return S.IndicatorSimplex(X, p['diam'])
        if kind == 'groupl1':
            return S.GroupL1Norm(X, 2 if p['two'] else 1)
        if kind == 'groupball':
            return S.IndicatorGroupL1UnitBall(X, 2 if p['two'] else np.inf)
        if kind == 'huberg':
            return S.Huber(X, p['gamma'])
        if kind == 'sumc':
            return S.IndicatorSumConstraint(X, p['c'])
        raise ValueError(kind)
    if k == 'sep':
        return S.SeparableSum(build(t[1]), build(t[2]))
    f = build(t[-1])
    if k == 'lscal':
        return S.FunctionalLeftScalarMult(f, t[1]) if t[1] <= 0 else t[1] * f
    if k == 'rscal':
        return S.FunctionalRightScalarMult(f, t[1])
    if k == 'ssum':
        return f + t[1]
    if k == 'transl':
        return f.translated(unflatten(f.domain, t[1]))
    if k == 'qpert':
        u = None if t[2] is None else unflatten(f.domain, t[2])
        return S.FunctionalQuadraticPerturb(f, quadratic_coeff=t[1], linear_term=u, constant=t[3])
    if k == 'breg':
        return S.BregmanDistance(f, unflatten(f.domain, t[1]), unflatten(f.domain, t[2]))
    raise ValueError(k)


def tree_code(t):
    """Self-contained python expression (uses odl, np, S=odl.solvers, unflatten)."""
    k = t[0]
    if k == 'leaf':
        _, kind, p, sp = t
        X = sp.code
        if kind == 'box':
            def b(v):
                return 'unflatten(%s, %r)' % (X, v) if isinstance(v, list) else repr(v)
            return 'S.IndicatorBox(%s, %s, %s)' % (X, b(p['lo']), b(p['hi']))
        return {
            'l1': 'S.L1Norm(%s)', 'l2': 'S.L2Norm(%s)', 'l2sq': 'S.L2NormSquared(%s)',
            'linf': 'S.LpNorm(%s, np.inf)', 'const': 'S.ConstantFunctional(%%s, %r)' % p.get('c'),
            'zero': 'S.ZeroFunctional(%s)', 'nonneg': 'S.IndicatorNonnegativity(%s)',
            'indzero': 'S.IndicatorZero(%%s, %r)' % p.get('c'),
            'ballinf': 'S.IndicatorLpUnitBall(%s, np.inf)', 'ball2': 'S.IndicatorLpUnitBall(%s, 2)',
            'ball1': 'S.IndicatorLpUnitBall(%s, 1)', 'huber': 'S.Huber(%%s, %r)' % p.get('gamma'),
            'simplex': 'S.IndicatorSimplex(%%s, %r)' % p.get('diam'),
            'groupl1': 'S.GroupL1Norm(%%s, %s)' % ('2' if p.get('two') else '1'),
            'groupball': 'S.IndicatorGroupL1UnitBall(%%s, %s)' % ('2' if p.get('two') else 'np.inf'),
            'huberg': 'S.Huber(%%s, %r)' % p.get('gamma'),
            'sumc': 'S.IndicatorSumConstraint(%%s, %r)' % p.get('c'),
        }[kind] % X
    if k == 'sep':
        return 'S.SeparableSum(%s, %s)' % (tree_code(t[1]), tree_code(t[2]))
    f = tree_code(t[-1])
    if k == 'lscal':
        return ('S.FunctionalLeftScalarMult(%s, %r)' % (f, t[1])) if t[1] <= 0 else '(%r * %s)' % (t[1], f)
    if k == 'rscal':
        return 'S.FunctionalRightScalarMult(%s, %r)' % (f, t[1])
    if k == 'ssum':
        return '(%s + %r)' % (f, t[1])
    if k == 'transl':
        return '(lambda f: f.translated(unflatten(f.domain, %r)))(%s)' % (t[1], f)
    if k == 'qpert':
        return ('(lambda f: S.FunctionalQuadraticPerturb(f, quadratic_coeff=%r, linear_term=%s, constant=%r))(%s)'
                % (t[1], 'None' if t[2] is None else 'unflatten(f.domain, %r)' % (t[2],), t[3], f))
    if k == 'breg':
        return ('(lambda f: S.BregmanDistance(f, unflatten(f.domain, %r), unflatten(f.domain, %r)))(%s)'
                % (t[1], t[2], f))
    raise ValueError(k)


def coq_tree(t):
    k = t[0]
    if k == 'leaf':
        _, kind, p, sp = t
        w = C.qs(sp.weights)
        lk = {
            'l1': 'FL1', 'l2': 'FL2', 'l2sq': 'FL2Sq', 'linf': 'FLInf',
            'const': '(FConst %s)' % C.q(p.get('c', 0)), 'zero': '(FConst 0)',
            'box': '(FBox %s %s)' % (coq_bound(p.get('lo')), coq_bound(p.get('hi'))),
            'nonneg': '(FBox (BScal 0) BNone)',
            'indzero': '(FIndZero %s)' % C.q(p.get('c', 0)),
            'ballinf': 'FBallInf', 'ball2': 'FBall2', 'ball1': 'FBall1',
            'huber': '(FHuber %s)' % C.q(p.get('gamma', 0)),
            'simplex': '(FSimplex %s)' % C.q(p.get('diam', 1)),
            'groupl1': '(FGroupL1 %s %s %s)' % (nat(p.get('m', 0)), nat(p.get('d', 0)), C.b(p.get('two'))),
            'groupball': '(FGroupBall %s %s %s)' % (nat(p.get('m', 0)), nat(p.get('d', 0)), C.b(p.get('two'))),
            'huberg': '(FHuberG %s %s %s)' % (nat(p.get('m', 0)), nat(p.get('d', 0)), C.q(p.get('gamma', 0))),
            'sumc': '(FSumC %s)' % C.q(p.get('c', 1)),
        }[kind]
        return '(Leaf %s %s)' % (lk, w)
    if k == 'sep':
        return '(Sep %s %s)' % (coq_tree(t[1]), coq_tree(t[2]))
    if k == 'lscal':
        # OperatorLeftScalarMult.__init__ merges a chain s1*(s2*f) into (s1*s2)*f; the model tree is the merged one
        sc, inner = merged_lscal(t)
        return '(LScal %s %s)' % (C.q(sc), coq_tree(inner))
    e = coq_tree(t[-1])
    if k == 'rscal':
        return '(RScal %s %s)' % (C.q(t[1]), e)
    if k == 'ssum':
        return '(SSum %s %s)' % (C.q(t[1]), e)
    if k == 'transl':
        return '(Transl %s %s)' % (C.qs(t[1]), e)
    if k == 'qpert':
        return '(QPert %s %s %s %s)' % (C.q(t[1]), coq_opt_vec(t[2]), C.q(t[3]), e)
    if k == 'breg':
        # BregmanDistance(f, point, subgrad) = QuadraticPerturb(f, linear_term=-subgrad,
        #                                      constant=-f(point) + <subgrad, point>)
        f = build(t[-1])
        pt = unflatten(f.domain, t[1])
        sg = unflatten(f.domain, t[2])
        const = -f(pt) + sg.inner(pt)
        if not math.isfinite(const):
            raise Skip('Bregman constant not finite')
        return '(QPert 0 (Some %s) %s %s)' % (C.qs([-v for v in t[2]]), C.q(const), e)
    raise ValueError(k)


class Skip(Exception):
    pass


def tree_desc(t):
    k = t[0]
    if k == 'leaf':
        return '%s%s@%s' % (t[1], {kk: vv for kk, vv in t[2].items()} or '', t[3].code)
    if k == 'sep':
        return 'sep(%s, %s)' % (tree_desc(t[1]), tree_desc(t[2]))
    return '%s%r(%s)' % (k, tuple(t[1:-1]), tree_desc(t[-1]))


def leaf_kinds(t):
    if t[0] == 'leaf':
        return [t[1]]
    if t[0] == 'sep':
        return leaf_kinds(t[1]) + leaf_kinds(t[2])
    return leaf_kinds(t[-1])


def vec_step_ok(t):
    """Can the tree's proximal take a per-point (space element) step?"""
    k = t[0]
    if k == 'leaf':
        return t[1] in ('l1', 'l2sq', 'const', 'zero', 'box', 'nonneg', 'indzero', 'ball1', 'simplex', 'sumc') or \
            (t[1] == 'groupl1' and not t[2]['two'])
    if k == 'sep':
        return vec_step_ok(t[1]) and vec_step_ok(t[2])
    if k in ('lscal', 'ssum', 'transl', 'rscal'):
        return vec_step_ok(t[-1])
    if k in ('qpert', 'breg'):
        # element-valued steps go through np.asarray(sigma): tensor-space domains only
        return vec_step_ok(t[-1]) and tree_is_flat(t[-1]) and not (k == 'qpert' and t[1] < 0)
    return False


def tree_is_flat(t):
    if t[0] == 'leaf':
        return 'ProductSpace' not in t[3].code
    if t[0] == 'sep':
        return False
    return tree_is_flat(t[-1])


def rand_step(rng, t, allow_struct=True):
    """A step specification admissible for the tree: scalar, per-point element, per-component list."""
    r = rng.random()
    if t[0] == 'sep' and allow_struct and r < 0.45:
        return ('pair', rand_step(rng, t[1]), rand_step(rng, t[2]))
    if allow_struct and r < 0.6 and vec_step_ok(t):
        return ('vec', [pos(rng) for _ in range(tree_dim(t))])
    return ('scal', pos(rng))


def impl_step(s, space):
    if s[0] == 'scal':
        return s[1]
    if s[0] == 'vec':
        return unflatten(space, s[1])
    return [impl_step(s[1], space[0]), impl_step(s[2], space[1])]


def step_code(s, space_expr):
    if s[0] == 'scal':
        return repr(s[1])
    if s[0] == 'vec':
        return 'unflatten(%s, %r)' % (space_expr, s[1])
    return '[%s, %s]' % (step_code(s[1], space_expr + '[0]'), step_code(s[2], space_expr + '[1]'))


def err_enum(e):
    if isinstance(e, ValueError):
        return 'EValue'
    if isinstance(e, TypeError):
        return 'EType'
    if isinstance(e, AttributeError):
        return 'EAttr'
    return 'EOther'


def merged_lscal(t):
    sc = 1.0
    while t[0] == 'lscal':
        sc *= t[1]
        t = t[2]
    return sc, t


def has_bad_scalar(t):
    """Trees whose .proximal raises by design (negative left scalar / quadratic coefficient) or is degenerate (0)."""
    if t[0] == 'leaf':
        return False
    if t[0] == 'sep':
        return has_bad_scalar(t[1]) or has_bad_scalar(t[2])
    if t[0] == 'lscal':
        sc, inner = merged_lscal(t)
        return sc <= 0 or has_bad_scalar(inner)
    if t[0] == 'qpert' and t[1] < 0:
        return True
    return has_bad_scalar(t[-1])


def run_prox(fn):
    try:
        r = fn()
        flat = flatten(r)
        if not all(math.isfinite(v) for v in flat):
            return 'IErr EOther', None
        return 'IOk %s' % C.qs(flat), flat
    except Exception as e:   # noqa
        return 'IErr %s' % err_enum(e), None


def kink_points(rng, n, step):
    """Inputs that hit branch boundaries: 0, +-sigma, +-1, +-(1+sigma)."""
    s = step[1] if step[0] == 'scal' else 1.0
    pool = [0.0, s, -s, 1.0, -1.0, 1.0 + s, -(1.0 + s), 2 * s, 0.5]
    return [rng.choice(pool) for _ in range(n)]


def tree_cases(rng, tier):
    import odl
    cs = C.CaseSet('trees', ['C07.Model', 'C07.Corr'], 'check_tree', 'tcase')
    ntrees = 140 if tier == 'quick' else 1400
    maxdepth = 3 if tier == 'quick' else 4
    made = 0
    # every leaf kind at depth 0 first, then random trees
    todo = [('leafonly', k) for k in LEAF_KINDS for _ in range(2 if tier == 'quick' else 6)]
    grid = [g for g in corner_grid(rng, all_steps=(tier != 'quick')) if g[3]]
    while made < ntrees or grid:
        forced = None
        try:
            if grid:
                t, gstep, gx, _, _ = grid.pop()
                forced = (gstep, gx)
            elif todo:
                _, kind = todo.pop()
                t = rand_leaf(rng, tier, kind)
            else:
                t = rand_tree(rng, tier, rng.randint(1, maxdepth))
            f = build(t)
            term_e = coq_tree(t)
        except Skip:
            continue
        n = tree_dim(t)
        for rep in range(3 if forced is None else 1):
            conj = (rep == 2)          # third variant: FunctionalDefaultConvexConjugate(f).proximal (Moreau rule)
            step = rand_step(rng, t, allow_struct=(rep == 1))
            if conj:
                step = ('scal', pos(rng))
                if vec_step_ok(t) and tree_is_flat(t) and rng.random() < 0.5:
                    step = ('vec', [pos(rng) for _ in range(n)])
            r = rng.random()
            x = kink_points(rng, n, step) if r < 0.3 else ([0.0] * n if r < 0.36 else vec(rng, n))
            if forced is not None:
                step, x = forced
            X = f.domain
            xe = unflatten(X, x)
            val = 'IVSkip'
            if not conj:
                try:
                    v = float(f(xe))
                    val = 'IVal %s' % C.oq(v) if not math.isnan(v) else 'IVSkip'
                    # a point exactly on the boundary of an indicator's set: the 0/inf value is decided by rounding
                    # (weights such as 1/3 are not dyadic) -- not compared
                    near = [float(f(xe * (1 + 1e-9))), float(f(xe * (1 - 1e-9)))]
                    if any(math.isfinite(u) != math.isfinite(v) for u in near):
                        val = 'IVSkip'
                except Exception:
                    val = 'IVSkip'
            alias = rng.random() < 0.25 and t[0] == 'leaf'   # in-place call with out aliased to x must give the same point

            def call():
                ff = odl.solvers.functional.functional.FunctionalDefaultConvexConjugate(f) if conj else f
                op = ff.proximal(impl_step(step, X))
                if alias:
                    y = xe.copy()
                    op(y, out=y)
                    return y
                return op(xe)
            out, _ = run_prox(call)
            term = ('{| t_e := %s; t_s := %s; t_x := %s; t_conj := %s; t_val := %s; t_prox := %s |}'
                    % (term_e, coq_sig(step), C.qs(x), C.b(conj), val, out))
            desc = {'tree': tree_desc(t), 'step': step, 'x': x, 'default_convex_conj': conj, 'aliased': alias,
                    'python': 'f = %s; f.proximal(%s)(unflatten(f.domain, %r))'
                              % (tree_code(t), step_code(step, 'f.domain'), x)}
            cs.add(term, desc, (tree_desc(t), repr(step), tuple(x), conj) if any(x) else None)
        if forced is None:
            made += 1
    return cs


# ------------------------------------------------------------ factories
def rand_factory(rng, tier, depth, sp=None, top=True, force_kind=None, force_g=None):
    """Returns (python_builder(space)->factory, coq_term, desc, Sp, vec_ok)."""
    import odl
    P = odl.solvers.nonsmooth.proximal_operators
    forced = sp is not None
    if sp is None:
        sp, _ = rand_space(rng, tier, flat_only=True)
    if depth > 0 and rng.random() < 0.6:
        rule = rng.choice(['transl', 'argscal', 'quad', 'conj'] + ([] if forced else ['combine', 'compose']))
        if rule == 'combine':
            b1, c1, d1, sp1, v1 = rand_factory(rng, tier, depth - 1, top=False)
            b2, c2, d2, sp2, v2 = rand_factory(rng, tier, depth - 1, top=False)
            spc = Sp('odl.ProductSpace(%s, %s)' % (sp1.code, sp2.code))
            return ((lambda: P.combine_proximals(b1(), b2())),
                    '(KCombine %s %s %s)' % (nat(sp1.n), c1, c2), 'combine(%s, %s)' % (d1, d2), spc, v1 and v2)
        if rule == 'compose':
            # A : rn(n) -> rn(k) with A A^T = mu I  (scaled signed selection / Hadamard-like rows)
            k = rng.choice([1, 2])
            base = Sp('odl.rn(%d)' % k)
            b, c, d, _, v = rand_factory(rng, tier, depth - 1, sp=base, top=False)
            ncols = rng.choice([2, 3, 4]) if k == 1 else rng.choice([2, 4])
            if k == 1:
                row = [rng.choice([-1.0, 1.0, 2.0, 0.5]) for _ in range(ncols)]
                A = [row]
                mu = sum(a * a for a in row)
            else:
                a_, b_ = rng.choice([(1.0, 1.0), (2.0, 1.0), (0.5, 1.5)])
                if ncols == 2:
                    A = [[a_, b_], [-b_, a_]]
                else:
                    A = [[a_, b_, 0.0, 0.0], [0.0, 0.0, -b_, a_]]
                mu = a_ * a_ + b_ * b_
            dom = Sp('odl.rn(%d)' % ncols)

            def mk():
                op = odl.MatrixOperator(np.array(A), domain=dom.space, range=base.space)
                return P.proximal_composition(b(), op, mu)
            return (mk, '(KCompose %s %s %s %s)' % (nat(ncols), C.qss(A), C.q(mu), c),
                    'compose(A=%r, mu=%r, %s)' % (A, mu, d), dom, False)
        b, c, d, sp, v = rand_factory(rng, tier, depth - 1, sp=sp, top=False)
        n = sp.n
        if rule == 'transl':
            y = vec(rng, n, lo=-6, hi=6)
            return ((lambda: P.proximal_translation(b(), sp.el(y))), '(KTransl %s %s)' % (C.qs(y), c),
                    'transl(%r, %s)' % (y, d), sp, v)
        if rule == 'argscal':
            s = rng.choice([0.5, 2.0, -1.0, -2.0, 0.25, 0.0, 3.0])
            return ((lambda: P.proximal_arg_scaling(b(), s)), '(KArgScal %s %s)' % (C.q(s), c),
                    'argscal(%r, %s)' % (s, d), sp, v and s != 0 or s == 0)
        if rule == 'quad':
            a = rng.choice([0.0, 0.5, 1.5, 4.0, 12.0, 0.375] + ([-1.0] if top else []))   # a < 0 raises at construction
            u = None if rng.random() < 0.4 else vec(rng, n, lo=-6, hi=6)
            return ((lambda: P.proximal_quadratic_perturbation(b(), a, None if u is None else sp.el(u))),
                    '(KQuad %s %s %s)' % (C.q(a), coq_opt_vec(u), c), 'quad(%r, %r, %s)' % (a, u, d), sp, False)
        if rule == 'conj':
            return ((lambda: P.proximal_convex_conj(b())), '(KConj %s)' % c, 'conj(%s)' % d, sp, False)
    n = sp.n
    X = sp.space
    kinds = ['l1', 'ccl1', 'l2', 'ccl2', 'l2sq', 'ccl2sq', 'linf', 'cclinf', 'box', 'const', 'cckl',
             'nonneg', 'kl', 'klcc']
    if top:
        kinds += ['projsimplex', 'projl1']        # plain functions, not operators: only called directly
    kinds.append('huber')
    if not forced:
        kinds += ['l1l2', 'ccl1l2']
    kind = force_kind or rng.choice(kinds)
    lam = rng.choice([1.0, 0.5, 2.0, 3.0, 0.25])
    g = None if (rng.random() < 0.4 if force_g is None else not force_g) else vec(rng, n, lo=-6, hi=6)
    ge = (lambda: None) if g is None else (lambda: sp.el(g))
    w = C.qs(sp.weights)
    if kind == 'l1':
        return ((lambda: P.proximal_l1(X, lam, ge())), '(KL1 %s %s)' % (C.q(lam), coq_opt_vec(g)),
                'l1(lam=%r,g=%r)@%s' % (lam, g, sp.code), sp, True)
    if kind == 'ccl1':
        return ((lambda: P.proximal_convex_conj_l1(X, lam, ge())), '(KCCL1 %s %s)' % (C.q(lam), coq_opt_vec(g)),
                'ccl1(lam=%r,g=%r)@%s' % (lam, g, sp.code), sp, True)
    if kind == 'l2':
        return ((lambda: P.proximal_l2(X, lam, ge())), '(KL2 %s %s %s)' % (w, C.q(lam), coq_opt_vec(g)),
                'l2(lam=%r,g=%r)@%s' % (lam, g, sp.code), sp, False)
    if kind == 'ccl2':
        return ((lambda: P.proximal_convex_conj_l2(X, lam, ge())), '(KCCL2 %s %s %s)' % (w, C.q(lam), coq_opt_vec(g)),
                'ccl2(lam=%r,g=%r)@%s' % (lam, g, sp.code), sp, False)
    if kind == 'l2sq':
        return ((lambda: P.proximal_l2_squared(X, lam, ge())), '(KL2Sq %s %s)' % (C.q(lam), coq_opt_vec(g)),
                'l2sq(lam=%r,g=%r)@%s' % (lam, g, sp.code), sp, True)
    if kind == 'ccl2sq':
        return ((lambda: P.proximal_convex_conj_l2_squared(X, lam, ge())),
                '(KCCL2Sq %s %s)' % (C.q(lam), coq_opt_vec(g)),
                'ccl2sq(lam=%r,g=%r)@%s' % (lam, g, sp.code), sp, True)
    if kind == 'linf':
        return ((lambda: P.proximal_linfty(X)), 'KLinf', 'linf@%s' % sp.code, sp, False)
    if kind == 'cclinf':
        return ((lambda: P.proximal_convex_conj_linfty(X)), 'KCCLinf', 'cclinf@%s' % sp.code, sp, False)
    if kind == 'box':
        lo = rng.choice([None, dy(rng, -8, 0), [dy(rng, -8, 0) for _ in range(n)]])
        hi = rng.choice([None, dy(rng, 0, 8), [dy(rng, 0, 8) for _ in range(n)]])
        if isinstance(lo, float) and isinstance(hi, float) and rng.random() < 0.15:
            lo, hi = hi + 1.0, lo            # inverted scalar bounds: ValueError at construction
        aslist = rng.random() < 0.3 and len(sp.space.shape) == 1   # array-like bounds are converted by the factory

        def bnd(v):
            if isinstance(v, list):
                return v if aslist else sp.el(v)
            return v
        return ((lambda: P.proximal_box_constraint(X, bnd(lo), bnd(hi))),
                '(KBox %s %s)' % (coq_bound(lo), coq_bound(hi)), 'box(%r,%r)@%s' % (lo, hi, sp.code), sp, False)
    if kind == 'nonneg':
        return ((lambda: P.proximal_nonnegativity(X)), '(KBox (BScal 0) BNone)', 'nonneg@%s' % sp.code, sp, False)
    if kind == 'projsimplex':
        d = rng.choice([1.0, 2.0, 0.5, 3.0])
        return ((lambda: (lambda sigma: (lambda x: P.proj_simplex(x, d)))), '(KProjSimplex %s)' % C.q(d),
                'proj_simplex(d=%r)@%s' % (d, sp.code), sp, False)
    if kind == 'projl1':
        r = rng.choice([1.0, 2.0, 0.5, 3.0])
        return ((lambda: (lambda sigma: (lambda x: P.proj_l1(x, r)))), '(KProjL1 %s)' % C.q(r),
                'proj_l1(r=%r)@%s' % (r, sp.code), sp, False)
    if kind in ('kl', 'klcc'):
        g = None if g is None else [abs(v) + 0.25 for v in g]
        ge = (lambda: None) if g is None else (lambda: sp.el(g))
        if kind == 'kl':       # KullbackLeibler.proximal = proximal_convex_conj(proximal_convex_conj_kl(g=prior))
            return ((lambda: odl.solvers.KullbackLeibler(X, ge()).proximal),
                    '(KConj (KCCKL 1 %s))' % coq_opt_vec(g), 'KullbackLeibler(prior=%r).proximal@%s' % (g, sp.code), sp, False)
        return ((lambda: odl.solvers.KullbackLeibler(X, ge()).convex_conj.proximal),
                '(KCCKL 1 %s)' % coq_opt_vec(g), 'KullbackLeibler(prior=%r).convex_conj.proximal@%s' % (g, sp.code),
                sp, False)
    if kind == 'const':
        return ((lambda: P.proximal_const_func(X)), 'KConstF', 'const@%s' % sp.code, sp, False)
    if kind == 'huber':
        gamma = rng.choice([0.25, 0.5, 1.0, 2.0, 0.0])
        return ((lambda: P.proximal_huber(X, gamma)), '(KHuber %s)' % C.q(gamma),
                'huber(%r)@%s' % (gamma, sp.code), sp, False)
    if kind in ('l1l2', 'ccl1l2'):
        d = rng.choice([1, 2, 3])
        psp = Sp('odl.ProductSpace(%s, %d)' % (sp.code, d))
        g = None if g is None else vec(rng, n * d, lo=-6, hi=6)
        ge = (lambda: None) if g is None else (lambda: psp.el(g))
        if kind == 'l1l2':
            return ((lambda: P.proximal_l1_l2(psp.space, lam, ge())),
                    '(KL1L2 %s %s %s %s)' % (nat(n), nat(d), C.q(lam), coq_opt_vec(g)),
                    'l1l2(lam=%r,g=%r)@%s' % (lam, g, psp.code), psp, False)
        return ((lambda: P.proximal_convex_conj_l1_l2(psp.space, lam, ge())),
                '(KCCL1L2 %s %s %s %s)' % (nat(n), nat(d), C.q(lam), coq_opt_vec(g)),
                'ccl1l2(lam=%r,g=%r)@%s' % (lam, g, psp.code), psp, False)
    # cckl: prior must be non-negative
    g = None if g is None else [abs(v) for v in g]
    ge = (lambda: None) if g is None else (lambda: sp.el(g))
    return ((lambda: P.proximal_convex_conj_kl(X, lam, ge())), '(KCCKL %s %s)' % (C.q(lam), coq_opt_vec(g)),
            'cckl(lam=%r,g=%r)@%s' % (lam, g, sp.code), sp, False)


ATOMIC = ('l1', 'ccl1', 'l2', 'ccl2', 'l2sq', 'ccl2sq', 'linf', 'cclinf', 'box', 'const', 'cckl', 'huber', 'l1l2', 'ccl1l2',
          'nonneg@odl.rn', 'nonneg@odl.uniform_discr')


def factory_cases(rng, tier):
    cs = C.CaseSet('factories', ['C07.Model', 'C07.Corr'], 'check_fac', 'fcase')
    n_f = 160 if tier == 'quick' else 1600
    # branch grid first: every atomic factory x (g None | given) x (scalar | element step) x (plain | aliased call)
    grid = []
    for kind in ('l1', 'ccl1', 'l2', 'ccl2', 'l2sq', 'ccl2sq', 'linf', 'cclinf', 'box', 'const', 'cckl', 'huber',
                 'l1l2', 'ccl1l2'):
        for fg in (False, True):
            for fv in (False, True):
                for fa in (False, True):
                    grid.append((kind, fg, fv, fa))
    for i in range(len(grid) + n_f):
        if i < len(grid):
            kind, fg, fv, fa = grid[i]
            mk, term_f, desc_f, sp, vec_ok = rand_factory(rng, tier, 0, force_kind=kind, force_g=fg)
            if fv and not vec_ok:
                continue
        else:
            fv = fa = None
            mk, term_f, desc_f, sp, vec_ok = rand_factory(rng, tier, rng.choice([0, 0, 1, 1, 2]))
        n = sp.n
        for rep in range(2 if fv is None else 1):
            if (vec_ok and rng.random() < 0.4) if fv is None else fv:
                step = ('vec', [pos(rng) for _ in range(n)])
            else:
                step = ('scal', pos(rng))
            r = rng.random()
            x = kink_points(rng, n, step) if r < 0.3 else ([0.0] * n if r < 0.36 else vec(rng, n))
            xe = sp.el(x)
            alias = (rng.random() < 0.25 if fa is None else fa) and 'proj_' not in desc_f and desc_f.split('(')[0].split('@')[0] in ATOMIC

            def call():
                op = mk()(impl_step(step, sp.space))     # construction errors (a < 0, lower > upper) count as the outcome
                if alias:
                    y = xe.copy()
                    op(y, out=y)
                    return y
                return op(xe)
            out, _ = run_prox(call)
            term = '{| f_f := %s; f_s := %s; f_x := %s; f_out := %s |}' % (term_f, coq_sig(step), C.qs(x), out)
            cs.add(term, {'factory': desc_f, 'step': step, 'x': x},
                   (desc_f, repr(step), tuple(x)) if any(x) else None)
    return cs


def correspondence(rng, tier):
    return [tree_cases(rng, tier), factory_cases(rng, tier)]


# ------------------------------------------------------------------ probes
PROBE_PRELUDE = ("import numpy as np, odl, sys\nsys.path.insert(0, %r)\n"
                 "from harness.c07 import unflatten, flatten, objective, step_of\nS = odl.solvers\n" % C.VERIF)


def step_of(spec, space):
    """('scal', s) | ('vec', flat) | ('pair', a, b)  ->  what f.proximal accepts."""
    return impl_step(spec, space)


def objective(f, spec, x, z):
    """f(z) + ||z-x||^2/(2 sigma) in the norm of f.domain; per-point / per-component steps enter as a metric."""
    fz = float(f(z))
    if not math.isfinite(fz):
        return fz

    def q(spec, d):
        if spec[0] == 'scal':
            return float(d.norm()) ** 2 / (2.0 * spec[1])
        if spec[0] == 'vec':
            sv = unflatten(d.space, spec[1])
            return float((d / sv).inner(d)) / 2.0
        return q(spec[1], d[0]) + q(spec[2], d[1])
    return fz + q(spec, z - x)


def _probe_points(f, spec, x, p, rng, feasible_fn=None):
    """Candidate competitors z."""
    X = f.domain
    n = space_size(X)
    pf = np.array(flatten(p))
    out = []
    for scale in (1e-3, 1e-2, 0.1, 0.5, 2.0):
        out.append(unflatten(X, list(pf + scale * np.array([rng.uniform(-1, 1) for _ in range(n)]))))
    for i in range(min(n, 6)):
        for h in (1e-3, -1e-3, 0.1, -0.1):
            e = pf.copy()
            e[i] += h
            out.append(unflatten(X, list(e)))
    # feasible points (for indicators / restricted domains): images of the proximal itself, and segments to them
    try:
        prox = f.proximal(step_of(spec, X))
        for _ in range(4):
            y = unflatten(X, list(pf + np.array([rng.uniform(-2, 2) for _ in range(n)])))
            zf = prox(y)
            for t in (1.0, 0.5, 0.1, 0.01):
                out.append(p + t * (zf - p))
    except Exception:
        pass
    out.append(x)
    out.append(0 * x)
    return out


def check_optimal(f, spec, xflat, rng, minimise=True, factory=None):
    """Evaluate the property for one (f, step, x).  Returns (ok, detail, witness_flat_or_None).
    factory: a proximal factory claimed to be that of f (default f.proximal)."""
    X = f.domain
    x = unflatten(X, xflat)
    p = (factory or f.proximal)(step_of(spec, X))(x)
    fp = float(f(p))
    if not math.isfinite(fp):
        return False, 'f(p) = %r is not finite' % fp, None
    Fp = objective(f, spec, x, p)
    tol = 1e-9 * (1.0 + abs(Fp))
    worst, wz = 0.0, None
    cands = _probe_points(f, spec, x, p, rng)
    n = space_size(X)
    if minimise and n <= 4:
        try:
            from scipy.optimize import minimize
            for start in (flatten(p), xflat):
                r = minimize(lambda v: min(objective(f, spec, x, unflatten(X, list(v))), 1e30),
                             np.array(start) + 1e-3, method='Nelder-Mead',
                             options={'xatol': 1e-10, 'fatol': 1e-14, 'maxiter': 600})
                cands.append(unflatten(X, list(r.x)))
        except Exception:
            pass
    for z in cands:
        Fz = objective(f, spec, x, z)
        if Fp - Fz > worst:
            worst, wz = Fp - Fz, z
    if worst > tol:
        return False, 'objective at p exceeds objective at z by %.3g' % worst, flatten(wz)
    return True, None, None


def optimal_replay(fcode, spec, xflat, zflat, faccode=None):
    return (PROBE_PRELUDE +
            "f = %s\nX = f.domain\nspec = %r\nx = unflatten(X, %r)\n" % (fcode, spec, xflat) +
            ("p = f.proximal(step_of(spec, X))(x)\n" if faccode is None else
             "p = (%s)(step_of(spec, X))(x)\n" % faccode) +
            "observed = {'p': flatten(p), 'f(p)': float(f(p)), 'F(p)': objective(f, spec, x, p)}\n" +
            ("z = unflatten(X, %r)\nexpected = {'F(z) (a competitor with a smaller value)': objective(f, spec, x, z)}\n"
             "ok = np.isfinite(float(f(p))) and objective(f, spec, x, p) <= objective(f, spec, x, z) + 1e-9*(1+abs(objective(f, spec, x, p)))\n"
             % (zflat,) if zflat is not None else
             "expected = 'f(p) finite'\nok = bool(np.isfinite(float(f(p))))\n"))


def _optimal_replay_old(fcode, spec, xflat, zflat):
    return (PROBE_PRELUDE +
            "f = %s\nX = f.domain\nspec = %r\nx = unflatten(X, %r)\n"
            "p = f.proximal(step_of(spec, X))(x)\n"
            "observed = {'p': flatten(p), 'f(p)': float(f(p)), 'F(p)': objective(f, spec, x, p)}\n"
            % (fcode, spec, xflat) +
            ("z = unflatten(X, %r)\nexpected = {'F(z) (a competitor with a smaller value)': objective(f, spec, x, z)}\n"
             "ok = np.isfinite(float(f(p))) and objective(f, spec, x, p) <= objective(f, spec, x, z) + 1e-9*(1+abs(objective(f, spec, x, p)))\n"
             % (zflat,) if zflat is not None else
             "expected = 'f(p) finite'\nok = bool(np.isfinite(float(f(p))))\n"))


def _space_kind(code):
    if 'ProductSpace' in code:
        inner = 'weighted' if ('weighting' in code or 'uniform_discr' in code) else 'plain'
        return 'pspace-' + inner
    if 'uniform_discr' in code:
        return 'discr'
    if 'weighting=[' in code:
        return 'rn-array'
    if 'weighting=' in code:
        return 'rn-const'
    return 'rn'


def _nonunit_weights(sp):
    return any(abs(w - 1.0) > 1e-12 for w in sp.weights)


def _nonconst_weights(sp):
    w = sp.weights
    return any(abs(v - w[0]) > 1e-12 for v in w)


def finding_key(kind, sp):
    """Map (functional kind, space) to the key of a recorded finding, or None."""
    code = sp.code
    power = True
    try:
        power = (not _is_pspace(sp.space)) or sp.space.is_power_space
    except Exception:
        pass
    if kind == 'huber' and not power:
        return 'huber-nonpower-product-space'
    if kind in ('simplex', 'linf', 'ball1') and not power:
        return 'proj-simplex-nonpower-product-space'
    if kind == 'linf' and _nonunit_weights(sp):
        return 'linfty-weighted-space'
    if kind == 'ball1' and _nonunit_weights(sp):
        return 'indicator-l1-ball-weighted-space'
    if kind == 'simplex' and _nonconst_weights(sp):
        return 'indicator-simplex-nonuniform-weights'
    if kind in ('sumconstr', 'sumc') and not power:
        return 'indicator-sum-constraint-nonpower-product-space'
    if kind in ('sumconstr', 'sumc') and _nonconst_weights(sp):
        return 'indicator-sum-constraint-nonuniform-weights'
    if kind in ('nuclear-np.inf',):
        return 'nuclear-norm-exp-inf-proximal'
    if kind == 'nuclear-ball':
        return 'nuclear-ball-proximal-outside'
    if kind == 'wps-groupball-inf':
        return 'group-ball-inf-weighted-product-space'
    return None


def _extra_functionals(rng, tier):
    """Classes outside the Coq model: (kind, code, Sp, positive_domain)."""
    out = []
    n = rng.choice([2, 3])
    base = rng.choice(['odl.rn(%d)' % n, 'odl.rn(%d, weighting=2.0)' % n, 'odl.uniform_discr(0, 1, %d)' % n,
                       'odl.rn(%d, weighting=%r)' % (n, [rng.choice([0.5, 1.0, 2.0]) for _ in range(n)])])
    sp = Sp(base)
    prior = [rng.choice([0.5, 1.0, 2.0, 3.0]) for _ in range(n)]
    out.append(('kl', 'S.KullbackLeibler(%s)' % base, sp, True))
    out.append(('kl-prior', '(lambda X: S.KullbackLeibler(X, unflatten(X, %r)))(%s)' % (prior, base), sp, True))
    out.append(('klcc', 'S.KullbackLeibler(%s).convex_conj' % base, sp, False))
    out.append(('klcc-prior', '(lambda X: S.KullbackLeibler(X, unflatten(X, %r)).convex_conj)(%s)' % (prior, base), sp, False))
    out.append(('klce', 'S.KullbackLeiblerCrossEntropy(%s)' % base, sp, True))
    out.append(('klce-prior', '(lambda X: S.KullbackLeiblerCrossEntropy(X, unflatten(X, %r)))(%s)' % (prior, base), sp, True))
    out.append(('klcecc', 'S.KullbackLeiblerCrossEntropy(%s).convex_conj' % base, sp, False))
    out.append(('sumconstr', 'S.IndicatorSumConstraint(%s)' % base, sp, False))
    m = rng.choice([1, 2])
    nb = 'odl.ProductSpace(odl.ProductSpace(odl.rn(%d), 2), %d)' % (m, rng.choice([2, 3]))
    for e in ('1', '2', 'np.inf'):
        out.append(('nuclear-%s' % e, 'S.NuclearNorm(%s, 1, %s)' % (nb, e), Sp(nb), False))
    out.append(('nuclear-ball', 'S.IndicatorNuclearNormUnitBall(%s, np.inf, 2)' % nb, Sp(nb), False))
    out.append(('huber', 'S.Huber(odl.ProductSpace(%s, 2), %r)' % (base, rng.choice([0.5, 1.0])),
                Sp('odl.ProductSpace(%s, 2)' % base), False))
    # power spaces with component weights: consistent for the 2-norm group functionals, not for exponent inf
    wps = 'odl.ProductSpace(odl.rn(%d), 3, weighting=%r)' % (n, [1.0, 2.0, 0.5])
    out.append(('wps-groupl1-2', 'S.GroupL1Norm(%s, 2)' % wps, Sp(wps), False))
    out.append(('wps-groupl1-1', 'S.GroupL1Norm(%s, 1)' % wps, Sp(wps), False))
    out.append(('wps-groupball-2', 'S.IndicatorGroupL1UnitBall(%s, 2)' % wps, Sp(wps), False))
    out.append(('wps-groupball-inf', 'S.IndicatorGroupL1UnitBall(%s, np.inf)' % wps, Sp(wps), False))
    out.append(('wps-l2', 'S.L2Norm(%s)' % wps, Sp(wps), False))
    out.append(('wps-ball2', 'S.IndicatorLpUnitBall(%s, 2)' % wps, Sp(wps), False))
    return out


def probes(rng, tier):
    import odl
    S = odl.solvers
    env = {'odl': odl, 'np': np, 'S': S, 'unflatten': unflatten}
    out = []
    reps = 2 if tier == 'quick' else 8

    def run_case(kind, fcode, sp, spec, xflat, key):
        what = '%s: f.proximal(%s)(x) minimises f(z)+||z-x||^2/(2 sigma) and f(p) is finite' % (fcode, spec[0])
        try:
            f = eval(fcode, env)
            ok, detail, wz = check_optimal(f, spec, xflat, rng)
        except Exception as e:   # noqa
            ok, detail, wz = False, 'raised %s: %s' % (type(e).__name__, str(e)[:120]), None
        if not ok and detail and detail.startswith('f(p) =') and 'IndicatorLpUnitBall' in fcode and ', 1)' in fcode \
                and key.startswith(('opt-', 'grid-')):
            key = 'indicator-l1-ball-rounding-outside'     # recorded: proj_l1 has no safety margin
        out.append(C.Probe(ok, key, what, optimal_replay(fcode, spec, xflat, wz), detail))
        return ok

    # 1. every leaf class x space kind x step kind
    for kind in LEAF_KINDS + ['huber-any', 'linf-any', 'ball1-any', 'simplex-any']:
        for _ in range(reps):
            if kind.endswith('-any'):       # any space, incl. the ones excluded from the correspondence
                k0 = kind[:-4]
                sp, _tag = rand_space(rng, tier)
                t = ('leaf', k0, {'gamma': rng.choice([0.5, 1.0, 0.0]), 'diam': rng.choice([1.0, 2.0])}, sp)
            else:
                k0 = kind
                t = rand_leaf(rng, tier, kind)
            sp = t[3]
            spec = rand_step(rng, t)
            if k0 in ('box', 'nonneg', 'const', 'zero', 'indzero', 'ball1', 'simplex', 'sumc') and spec[0] == 'vec':
                spec = ('scal', pos(rng))        # step unused by these proximals: probe with a scalar metric
            x = vec(rng, sp.n)
            fk = finding_key(k0, sp)
            key = fk or 'opt-%s-%s-%s' % (k0, _space_kind(sp.code), spec[0])
            run_case(k0, tree_code(t), sp, spec, x, key)
    # 1b. deterministic corner grid: parameter corners x every space kind (N-d, weighted, power / non-power products)
    INDICATORS = ('box', 'nonneg', 'indzero', 'ballinf', 'ball2', 'ball1', 'simplex', 'groupball', 'sumc')
    for t, spec, x, corr_ok, tag in corner_grid(rng, all_steps=(tier != 'quick')):
        k0, sp = t[1], t[3]
        fk = finding_key('huber' if k0 == 'huberg' else k0, sp)
        key = fk or 'grid-%s-%s' % (k0, tag)
        ok = run_case(k0, tree_code(t), sp, spec, x, key)
        if ok and k0 in INDICATORS:
            code = tree_code(t)
            rp = (PROBE_PRELUDE + "f = %s\nX = f.domain\nx = unflatten(X, %r)\nP = f.proximal(%r); p = P(x); pp = P(p)\n"
                  "observed = {'f(p)': float(f(p)), 'dist(P(p), p)': float((pp - p).norm())}\n"
                  "ok = bool(np.isfinite(float(f(p)))) and float((pp - p).norm()) <= 1e-9*(1+float(p.norm()))\n"
                  % (code, x, spec[1]))
            e2 = {}
            try:
                exec(rp, e2)
                ok2 = bool(e2['ok'])
            except Exception:
                ok2 = False
            if not ok2 and k0 == 'ball1' and e2.get('observed', {}).get('dist(P(p), p)', 1) <= 1e-9:
                fk = fk or 'indicator-l1-ball-rounding-outside'
            out.append(C.Probe(ok2, fk or 'grid-idempotent-%s-%s' % (k0, tag),
                               '%s: proximal lands in the set and is idempotent' % code, rp))
    # 1c. matrix-valued functionals on multi-axis base spaces
    out.extend(matrix_probes(rng, tier))
    # 1d. dtype-dependent defaults: indicator functionals on float32 spaces
    out.extend(dtype_probes(rng, tier))
    # 2. derived functionals (random trees)
    ntrees = 40 if tier == 'quick' else 300
    made = 0
    while made < ntrees:
        t = rand_tree(rng, tier, rng.randint(1, 3))
        if has_bad_scalar(t):
            continue
        try:
            build(t)
            coq_tree(t)
        except Skip:
            continue
        made += 1
        spec = rand_step(rng, t)
        if spec[0] != 'scal' and any(k in ('box', 'nonneg', 'const', 'zero', 'indzero', 'ball1', 'simplex', 'sumc')
                                     for k in leaf_kinds(t)):
            spec = ('scal', pos(rng))
        x = vec(rng, tree_dim(t))
        fks = [finding_key(l[1], l[3]) for l in _leaves(t)]
        fks = [k for k in fks if k]
        top = t[0]
        key = fks[0] if fks else 'opt-tree-%s-%s' % (top, spec[0])
        run_case('tree', tree_code(t), None, spec, x, key)
    # 3. classes outside the model
    for _ in range(reps):
        for kind, fcode, sp, positive in _extra_functionals(rng, tier):
            x = [abs(v) + 0.25 for v in vec(rng, sp.n)] if positive else vec(rng, sp.n, lo=-6, hi=6, den=4)
            if kind.startswith('klcc'):
                x = [min(v, 0.75) for v in x]
            spec = ('scal', pos(rng))
            key = finding_key(kind.split('-')[0] if kind.startswith('huber') else kind, sp) or \
                'opt-%s-%s' % (kind, _space_kind(sp.code))
            run_case(kind, fcode, sp, spec, x, key)
    # 4. factories with element-valued step and g (documented step kind)
    for _ in range(reps):
        n = rng.choice([2, 3])
        g, sv, x = vec(rng, n), [pos(rng) for _ in range(n)], vec(rng, n)
        code = ("(lambda X: S.proximal_convex_conj_l1(X, g=X.element(%r))(X.element(%r))(X.element(%r)))(odl.rn(%d))"
                % (g, sv, x, n))
        rp = PROBE_PRELUDE + "p = %s\nok = bool(np.all(np.isfinite(p)))\n" % code
        try:
            eval(code, env)
            ok, detail = True, None
        except Exception as e:   # noqa
            ok, detail = False, 'raised %s' % type(e).__name__
        out.append(C.Probe(ok, 'conj-l1-g-element-sigma',
                           'proximal_convex_conj_l1(space, g=g)(sigma element)(x) returns a point', rp, detail))
    # 4b. factories called directly with lam, g and every documented step kind, against the functional they claim
    P = 'odl.solvers.nonsmooth.proximal_operators'
    for kind in ('l1', 'l2', 'l2sq', 'ccl1', 'ccl2', 'ccl2sq', 'l1l2', 'ccl1l2', 'huber', 'box', 'linf', 'cclinf'):
        for _ in range(reps):
            sp, _tag = rand_space(rng, tier, flat_only=True)
            if kind in ('linf', 'cclinf') and _nonunit_weights(sp):
                continue
            n = sp.n
            lam = rng.choice([0.5, 1.0, 2.0, 3.0])
            g = vec(rng, n, lo=-6, hi=6)
            Xc = sp.code
            vec_ok = kind in ('l1', 'l2sq', 'ccl2sq', 'ccl1')
            nog = rng.random() < 0.35          # the g=None branches of the factories
            garg = 'None' if nog else 'unflatten(X, %r)' % (g,)
            tr = (lambda f: f) if nog else (lambda f: '(%s).translated(unflatten(X, %r))' % (f, g))
            lt = 'None' if nog else 'unflatten(X, %r)' % (g,)
            if kind in ('l1l2', 'ccl1l2'):
                d = rng.choice([2, 3])
                Xc = 'odl.ProductSpace(%s, %d)' % (sp.code, d)
                g = vec(rng, n * d, lo=-6, hi=6)
                n = n * d
                garg = 'None' if nog else 'unflatten(X, %r)' % (g,)
                tr = (lambda f: f) if nog else (lambda f: '(%s).translated(unflatten(X, %r))' % (f, g))
                lt = 'None' if nog else 'unflatten(X, %r)' % (g,)
            if kind == 'l1':
                fc = '(lambda X: %s)(%s)' % (tr('%r * S.L1Norm(X)' % lam), Xc)
                pc = '(lambda X: %s.proximal_l1(X, %r, %s))(X)' % (P, lam, garg)
            elif kind == 'l2':
                fc = '(lambda X: %s)(%s)' % (tr('%r * S.L2Norm(X)' % lam), Xc)
                pc = '(lambda X: %s.proximal_l2(X, %r, %s))(X)' % (P, lam, garg)
            elif kind == 'l2sq':
                fc = '(lambda X: %s)(%s)' % (tr('%r * S.L2NormSquared(X)' % lam), Xc)
                pc = '(lambda X: %s.proximal_l2_squared(X, %r, %s))(X)' % (P, lam, garg)
            elif kind == 'ccl1':
                fc = ('(lambda X: S.FunctionalQuadraticPerturb(S.IndicatorBox(X, %r, %r), linear_term=%s))(%s)'
                      % (-lam, lam, lt, Xc))
                pc = '(lambda X: %s.proximal_convex_conj_l1(X, %r, %s))(X)' % (P, lam, garg)
            elif kind == 'ccl2':
                fc = ('(lambda X: S.FunctionalQuadraticPerturb(S.FunctionalRightScalarMult(S.IndicatorLpUnitBall(X, 2), %r), '
                      'linear_term=%s))(%s)' % (1.0 / lam, lt, Xc))
                pc = '(lambda X: %s.proximal_convex_conj_l2(X, %r, %s))(X)' % (P, lam, garg)
            elif kind == 'ccl2sq':
                fc = ('(lambda X: S.FunctionalQuadraticPerturb(%r * S.L2NormSquared(X), linear_term=%s))(%s)'
                      % (0.25 / lam, lt, Xc))
                pc = '(lambda X: %s.proximal_convex_conj_l2_squared(X, %r, %s))(X)' % (P, lam, garg)
            elif kind == 'l1l2':
                fc = '(lambda X: %s)(%s)' % (tr('%r * S.GroupL1Norm(X, 2)' % lam), Xc)
                pc = '(lambda X: %s.proximal_l1_l2(X, %r, %s))(X)' % (P, lam, garg)
            elif kind == 'ccl1l2':
                fc = ('(lambda X: S.FunctionalQuadraticPerturb(S.FunctionalRightScalarMult('
                      'S.IndicatorGroupL1UnitBall(X, 2), %r), linear_term=%s))(%s)' % (1.0 / lam, lt, Xc))
                pc = '(lambda X: %s.proximal_convex_conj_l1_l2(X, %r, %s))(X)' % (P, lam, garg)
            elif kind == 'huber':
                gam = rng.choice([0.5, 1.0, 2.0])
                fc = 'S.Huber(%s, %r)' % (Xc, gam)
                pc = '%s.proximal_huber(X, %r)' % (P, gam)
            elif kind == 'box':
                lo, hi = dy(rng, -8, 0), dy(rng, 0, 8)
                fc = 'S.IndicatorBox(%s, %r, %r)' % (Xc, lo, hi)
                pc = '%s.proximal_box_constraint(X, %r, %r)' % (P, lo, hi)
            elif kind == 'linf':
                fc = 'S.LpNorm(%s, np.inf)' % Xc
                pc = '%s.proximal_linfty(X)' % P
            else:
                fc = 'S.IndicatorLpUnitBall(%s, 1)' % Xc
                pc = '%s.proximal_convex_conj_linfty(X)' % P
            spec = ('vec', [pos(rng) for _ in range(n)]) if (vec_ok and rng.random() < 0.5) else ('scal', pos(rng))
            x = vec(rng, n)
            key = 'factory-%s-%s-%s' % (kind, _space_kind(Xc), spec[0])
            what = '%s is the proximal factory of %s' % (pc, fc)
            try:
                f = eval(fc, env)
                fac = eval(pc, dict(env, X=f.domain))
                ok, detail, wz = check_optimal(f, spec, x, rng, factory=fac)
            except Exception as e:   # noqa
                ok, detail, wz = False, 'raised %s: %s' % (type(e).__name__, str(e)[:120]), None
            if not ok and kind == 'cclinf' and detail and detail.startswith('f(p) ='):
                key = 'indicator-l1-ball-rounding-outside'
            out.append(C.Probe(ok, key, what, optimal_replay(fc, spec, x, wz, faccode=pc), detail))
    # 5. consequences: firm non-expansiveness; indicator proximals land in the set and are idempotent
    for _ in range(ntrees // 2):
        t = rand_tree(rng, tier, rng.randint(0, 2))
        if has_bad_scalar(t):
            continue
        try:
            f = build(t)
            coq_tree(t)
        except Skip:
            continue
        if any(finding_key(l[1], l[3]) for l in _leaves(t)):
            continue
        sg = pos(rng)
        n = tree_dim(t)
        x1, x2 = vec(rng, n), vec(rng, n)
        code = tree_code(t)
        rp = (PROBE_PRELUDE + "f = %s\nX = f.domain\nx1 = unflatten(X, %r); x2 = unflatten(X, %r)\n"
              "P = f.proximal(%r); p1 = P(x1); p2 = P(x2)\n"
              "observed = float((p1-p2).norm()**2); expected = float((p1-p2).inner(x1-x2))\n"
              "ok = observed <= expected + 1e-9*(1+abs(expected))\n" % (code, x1, x2, sg))
        e2 = {}
        try:
            exec(rp, e2)
            ok = bool(e2['ok'])
        except Exception:
            ok = False
        out.append(C.Probe(ok, 'firm-nonexpansive-%s' % t[0], '%s: ||p1-p2||^2 <= <p1-p2, x1-x2>' % code, rp))
    for kind in ('box', 'nonneg', 'indzero', 'ballinf', 'ball2', 'ball1', 'simplex', 'groupball', 'sumc'):
        for _ in range(reps):
            t = rand_leaf(rng, tier, kind)
            sp = t[3]
            if finding_key(kind, sp):
                continue
            x = vec(rng, sp.n)
            sg = pos(rng)
            code = tree_code(t)
            rp = (PROBE_PRELUDE + "f = %s\nX = f.domain\nx = unflatten(X, %r)\nP = f.proximal(%r); p = P(x); pp = P(p)\n"
                  "observed = {'f(p)': float(f(p)), 'dist(P(p), p)': float((pp - p).norm())}\n"
                  "ok = bool(np.isfinite(float(f(p)))) and float((pp - p).norm()) <= 1e-9*(1+float(p.norm()))\n"
                  % (code, x, sg))
            e2 = {}
            try:
                exec(rp, e2)
                ok = bool(e2['ok'])
            except Exception:
                ok = False
            if not ok and kind == 'ball1' and e2.get('observed', {}).get('dist(P(p), p)', 1) <= 1e-9:
                out.append(C.Probe(False, 'indicator-l1-ball-rounding-outside',
                                   '%s: f(p) finite' % code, rp))
                continue
            out.append(C.Probe(ok, 'indicator-idempotent-%s-%s' % (kind, _space_kind(sp.code)),
                               '%s: proximal lands in the set and is idempotent' % code, rp))
    return out


MATRIX_BASES = [('odl.rn(3)', '1d'), ('odl.uniform_discr([0, 0], [1, 1], [3, 3])', '2d-square'),
                ('odl.rn((2, 2))', '2d-square'), ('odl.uniform_discr([0, 0], [1, 3.0], [2, 3])', '2d-nonsquare'),
                ('odl.rn((2, 3, 2))', '3d'), ('odl.uniform_discr([0, 0, 0], [1, 1, 1], [2, 2, 2])', '3d-cube')]


def matrix_field_reference(x, sigma, kind, sv):
    """Independent point-by-point reference for the matrix-valued functionals on X^(n x m): x is an element of
    ProductSpace(ProductSpace(X, m), n); at every grid point the n x m matrix is treated with its own SVD.
    kind 'prox': proximal of NuclearNorm(outer 1, singular-vector exponent sv in {1, 2});
    kind 'ball': projection onto {max over points of the sv-norm of the singular values <= 1}, sv in {2, inf}."""
    n, m = len(x), len(x[0])
    comp = [[np.asarray(x[i][j].asarray(), dtype=float) for j in range(m)] for i in range(n)]
    grid = comp[0][0].shape
    out = [[np.zeros(grid) for _ in range(m)] for _ in range(n)]
    for idx in np.ndindex(*grid):
        A = np.array([[comp[i][j][idx] for j in range(m)] for i in range(n)])
        U, sval, Vt = np.linalg.svd(A, full_matrices=False)
        if kind == 'prox' and sv == 1:
            snew = np.maximum(sval - sigma, 0)
        elif kind == 'prox' and sv == 2:
            nrm = np.sqrt(np.sum(sval ** 2))
            snew = sval * max(1 - sigma / nrm, 0) if nrm > 0 else sval
        elif kind == 'ball' and sv == 2:
            nrm = np.sqrt(np.sum(sval ** 2))
            snew = sval / max(nrm, 1.0)
        elif kind == 'ball' and sv == np.inf:
            snew = np.minimum(sval, 1.0)
        else:
            raise ValueError((kind, sv))
        B = (U * snew) @ Vt
        for i in range(n):
            for j in range(m):
                out[i][j][idx] = B[i, j]
    return x.space.element(out)


def matrix_probes(rng, tier):
    """NuclearNorm / IndicatorNuclearNormUnitBall (through the Moreau rule) on X^(n x m) with 1-, 2- (square and
    non-square) and 3-axis base spaces X, non-symmetric random fields, every exponent combination with a proximal."""
    import odl
    S = odl.solvers
    out = []
    reps = 1 if tier == 'quick' else 3
    for bcode, btag in MATRIX_BASES:
        for (n, m) in ((2, 2), (2, 3), (3, 2)):
            scode = 'odl.ProductSpace(odl.ProductSpace(%s, %d), %d)' % (bcode, m, n)
            for _ in range(reps):
                sp = Sp(scode)
                x = [rng.randint(-12, 12) / 4.0 for _ in range(sp.n)]
                sg = rng.choice([0.25, 0.5, 1.0, 2.0])
                cases = [('nuclear', 'S.NuclearNorm(%s, 1, 1)' % scode, 'prox', 1),
                         ('nuclear', 'S.NuclearNorm(%s, 1, 2)' % scode, 'prox', 2),
                         ('nuclear-inf', 'S.NuclearNorm(%s, 1, np.inf)' % scode, None, np.inf),
                         ('nuclear-ball', 'S.IndicatorNuclearNormUnitBall(%s, np.inf, 2)' % scode, 'ball', 2),
                         ('nuclear-ball', 'S.IndicatorNuclearNormUnitBall(%s, np.inf, np.inf)' % scode, 'ball', np.inf)]
                wide = n < m          # recorded finding nuclear-norm-wide-matrix-field: every evaluation raises
                for fam, fcode, kind, sv in cases:
                    if wide:
                        try:
                            f = eval(fcode, {'S': S, 'odl': odl, 'np': np})
                            f.proximal(sg)(unflatten(f.domain, x))
                            float(f.convex_conj(f.domain.one()) if fam == 'nuclear-ball' else f(f.domain.one()))
                            ok = True
                        except Exception:
                            ok = False
                        out.append(C.Probe(ok, 'nuclear-norm-wide-matrix-field', '%s can be evaluated' % fcode,
                                           PROBE_PRELUDE + "f = %s\nok = True\nf(f.domain.one())\n" % fcode))
                        continue
                    # (a) against the point-by-point reference (axis order, reshaping, SVD bookkeeping)
                    if kind is not None:
                        rp = (PROBE_PRELUDE + "from harness.c07 import matrix_field_reference\n"
                              "f = %s\nX = f.domain\nx = unflatten(X, %r)\np = f.proximal(%r)(x)\n"
                              "ref = matrix_field_reference(x, %r, %r, %s)\n"
                              "observed = flatten(p); expected = flatten(ref)\n"
                              "ok = float((p - ref).norm()) <= 1e-9 * (1 + float(ref.norm()))\n"
                              % (fcode, x, sg, sg, kind, 'np.inf' if sv == np.inf else repr(sv)))
                        e2 = {}
                        try:
                            exec(rp, e2)
                            ok, detail = bool(e2['ok']), None
                        except Exception as e:   # noqa
                            ok, detail = False, 'raised %s: %s' % (type(e).__name__, str(e)[:100])
                        out.append(C.Probe(ok, 'matrix-reference-%s-%s-%s' % (fam, sv, btag),
                                           '%s: proximal equals the point-by-point SVD reference' % fcode, rp, detail))
                    # (b) the minimisation oracle itself
                    if fam == 'nuclear-ball':
                        continue        # f(p) = inf by the recorded rounding finding; (a) decides
                    try:
                        f = eval(fcode, {'S': S, 'odl': odl, 'np': np})
                        ok, detail, wz = check_optimal(f, ('scal', sg), x, rng, minimise=False)
                    except Exception as e:   # noqa
                        ok, detail, wz = False, 'raised %s: %s' % (type(e).__name__, str(e)[:100]), None
                    key = 'nuclear-norm-exp-inf-proximal' if fam == 'nuclear-inf' else 'matrix-opt-%s-%s-%s' % (fam, sv, btag)
                    out.append(C.Probe(ok, key, '%s: minimises f(z)+||z-x||^2/(2 sigma)' % fcode,
                                       optimal_replay(fcode, ('scal', sg), x, wz), detail))
    return out


def dtype_probes(rng, tier):
    """Indicator-type functionals with DEFAULT constructor arguments on float32 spaces: the proximal must land in the
    functional's own constraint set (f(prox(x)) finite) and be idempotent at float32 accuracy.  Default tolerances
    (sum_rtol of IndicatorSimplex / IndicatorSumConstraint) depend on the dtype."""
    out = []
    reps = 6 if tier == 'quick' else 25
    spaces = [('rn', "odl.rn(5, dtype='float32')"), ('discr', "odl.uniform_discr(0, 1, 6, dtype='float32')"),
              ('rn2d', "odl.rn((2, 3), dtype='float32')"), ('discr2d', "odl.uniform_discr([0, 0], [1, 2], [3, 2], dtype='float32')"),
              ('pow', "odl.ProductSpace(odl.rn(3, dtype='float32'), 2)")]
    funcs = [('simplex', 'S.IndicatorSimplex(X)'), ('simplex-d3', 'S.IndicatorSimplex(X, 3)'),
             ('sumc', 'S.IndicatorSumConstraint(X)'), ('sumc-v5', 'S.IndicatorSumConstraint(X, 5)'),
             ('box', 'S.IndicatorBox(X, -1, 1)'), ('nonneg', 'S.IndicatorNonnegativity(X)'),
             ('ball1', 'S.IndicatorLpUnitBall(X, 1)'), ('ball2', 'S.IndicatorLpUnitBall(X, 2)'),
             ('ballinf', 'S.IndicatorLpUnitBall(X, np.inf)'), ('zero', 'S.IndicatorZero(X)'),
             ('gball2', 'S.IndicatorGroupL1UnitBall(X, 2)'), ('gballinf', 'S.IndicatorGroupL1UnitBall(X, np.inf)')]
    for tag, scode in spaces:
        for nm, fcode in funcs:
            if nm.startswith('gball') and tag != 'pow':
                continue
            n = Sp(scode).n
            xs = [[rng.uniform(-3, 3) for _ in range(n)] for _ in range(reps)]
            rp = (PROBE_PRELUDE + "X = %s\nf = %s\nbad = []\nfor xf in %r:\n"
                  "    x = unflatten(X, xf); P = f.proximal(0.5); p = P(x)\n"
                  "    if not np.isfinite(float(f(p))) or float((P(p) - p).norm()) > 1e-4 * (1 + float(p.norm())):\n"
                  "        bad.append(xf)\n"
                  "observed = {'inputs with f(prox(x)) = inf or prox not idempotent': bad}\nok = not bad\n"
                  % (scode, fcode, xs))
            e2 = {}
            try:
                exec(rp, e2)
                ok, detail = bool(e2['ok']), None
            except Exception as e:   # noqa
                ok, detail = False, 'raised %s: %s' % (type(e).__name__, str(e)[:100])
            key = 'indicator-l1-ball-rounding-outside' if nm == 'ball1' else 'float32-feasible-%s-%s' % (nm, tag)
            out.append(C.Probe(ok, key, '%s on %s: f(prox(x)) finite and prox idempotent (float32, default arguments)'
                               % (fcode, scode), rp, detail))
    return out


def _leaves(t):
    if t[0] == 'leaf':
        return [t]
    if t[0] == 'sep':
        return _leaves(t[1]) + _leaves(t[2])
    return _leaves(t[-1])


LEVEL_TEXT = ('Proof: for the value-level model of proximal_operators.py / default_functionals.py / functional.py, Coq proves for '
              'EVERY functional expression tree (any depth: left/right scaling, scalar sum, translation, quadratic perturbation / '
              'Bregman distance, separable sums) over ALL 14 modelled leaf classes (L1, L2, L2^2, L-infinity norms, constant, '
              'box/non-negativity, {0}, unit balls p=inf/2/1, Huber, simplex, group-L1 and group unit ball with pointwise '
              'exponent 1/2/inf), every size, every admissible weight vector (any positive weights; uniform resp. unit weights for '
              'the sort-based simplex / l1-ball / L-infinity leaves, where the code is proved WRONG otherwise) and every admissible '
              'step (scalar, per-point, per-component) that f.proximal(sigma)(x) returns a point p with f(p) finite satisfying '
              'f(z) >= f(p) + <x-p, z-p>/sigma for all z -- hence p is the unique minimiser of f(z)+||z-x||^2/(2 sigma) in the '
              "functional's own norm, the map is firmly non-expansive, indicator proximals land in the set and are idempotent. "
              'The rules translation / left scaling / argument scaling / quadratic perturbation / separable sum / convex '
              'conjugation (Moreau, conjugates as least upper bounds) / composition with A A^T = mu I are proved for ARBITRARY '
              'functionals (no convexity assumption); the factories with lam and g, the insertion-sort simplex projection, '
              'the block soft thresholds and the KL closed forms (with ln) are proved for all sizes. Nuclear norm and KL cross '
              'entropy (Lambert W) are probe-only.')
LEVEL_NOTE = ('The model is hand-written and tied to /repo on every run by an in-Coq correspondence (f(x) and f.proximal(s)(x) '
              'on random trees built through the Functional API, plus the factories with lam/g/step kinds/rules), tolerance '
              '1e-9; theorems are about exact real arithmetic (the 1e-14 safety factors are modelled as 1; rounding is out '
              'of scope). 13 recorded findings (findings/C07.json) are outside the proved domain and are reported as '
              'KNOWN-FINDING by probes that evaluate the optimality inequality on the real code. Axioms: classical reals + '
              'functional extensionality as printed.')
TECHNIQUE = ('Coq: variational-inequality invariant proved by structural induction over functional trees and list induction '
             'over sizes (weighted list spaces), one-dimensional lemmas by case analysis + nra; in-Coq differential '
             'correspondence against the implementation; optimality-oracle probes')
