"""C01 vector arithmetic under aliasing: translator + correspondence + probes."""
import itertools
from fractions import Fraction

import numpy as np

from . import common as C
from translate import lincomb as TL
from translate import space_ops as TS

PID = 'C01'
SHARD_SIZE = 120

# ------------------------------------------------------------------ dtype table
# name -> (carrier, is_floating, in _BLAS_DTYPES, tolerance)
DT = {
    'float64': ('real', True, True, Fraction(1, 10 ** 12)),
    'float32': ('real', True, True, Fraction(1, 10 ** 5)),
    'float16': ('real', True, False, Fraction(1, 100)),
    'float128': ('real', True, False, Fraction(1, 10 ** 12)),
    # non-native byte order: legal dtypes of tensor spaces, NOT in _BLAS_DTYPES (complex ones cannot be built)
    '>f8': ('real', True, False, Fraction(1, 10 ** 12)),
    '>f4': ('real', True, False, Fraction(1, 10 ** 5)),
    '>f2': ('real', True, False, Fraction(1, 100)),
    '>i4': ('int', False, False, Fraction(0)),
    '>i8': ('int', False, False, Fraction(0)),
    'complex128': ('cx', True, True, Fraction(1, 10 ** 12)),
    'complex64': ('cx', True, True, Fraction(1, 10 ** 5)),
    'int64': ('int', False, False, Fraction(0)),
    'int32': ('int', False, False, Fraction(0)),
}

# (a, b) pairs covering every test of the decision tree: 0 / 1 / -1 / generic, a+b == 0 with b != 0
REAL_PAIRS = [(0, 0), (0, 1), (1, 0), (1, 1), (1, -1), (-1, 1), (2, -2), (0, 2), (2, 0), (1, 2), (2, 1),
              (2, 3), (-0.5, 0.25), (1.5, -1.5), (-1, -1), (0, -1), (-1, 0), (3, 1), (1, 3), (0.5, 2)]
CX_PAIRS = REAL_PAIRS[:12] + [(1j, 1), (1, 1j), (1j, -1j), (1 + 2j, 0), (0, 1 - 1j), (0.5 - 0.5j, 2j),
                              (-1, 1j), (1j, 0), (2 + 1j, -2 - 1j), (1, -0.5j)]
INT_PAIRS = [(0, 0), (0, 1), (1, 0), (1, 1), (1, -1), (2, -2), (0, 2), (3, 0), (1, 2), (2, 3), (-1, -1),
             (2.5, 0), (0.5, 1), (-0.5, 0.25), (1.5, -1.5)]

ALIAS = {            # (x1, x2, out) as indices into the three allocated elements
    'distinct': (0, 1, 2),
    'x1_is_x2': (0, 0, 2),
    'out_is_x1': (0, 1, 0),
    'out_is_x2': (0, 1, 1),
    'all_same': (0, 0, 0),
}


# ------------------------------------------------------------------ literals per carrier
EXOTIC = ('float16', 'float128', '>f8', '>f4', '>f2')      # floating, legal, never BLAS


def dtinfo(dtype, shape):
    """Coq literal of what the dispatch can see of an array besides contiguity: character code of dtype.char,
    native byte order, len() = length of axis 0."""
    d = np.dtype(dtype)
    return '(mkdt %d %s %d)' % (ord(d.char), C.b(bool(d.isnative)), int(shape[0]) if len(shape) else 1)


def lit(carrier, v):
    """Coq literal of one entry; NaN -> None in the poisoned carriers."""
    if carrier in ('real', 'int'):
        return _q(v)
    if carrier == 'cx':
        v = complex(v)
        return '(%s, %s)' % (_q(v.real), _q(v.imag))
    if carrier == 'nan':
        v = float(v)
        return 'None' if (v != v or v in (float('inf'), float('-inf'))) else '(Some %s)' % C.q(v)
    if carrier == 'cxnan':
        v = complex(v)
        if not (np.isfinite(v.real) and np.isfinite(v.imag)):
            return 'None'
        return '(Some (%s, %s))' % (C.q(v.real), C.q(v.imag))
    raise ValueError(carrier)


SENTINEL = 999999937      # stands for a non-finite entry where the carrier has no NaN: never matches the model


def _q(v):
    try:
        return C.q(v)
    except (ValueError, OverflowError):
        return C.q(SENTINEL)


def lits(carrier, arr):
    vals = np.asarray(arr).ravel().tolist()
    if len(vals) > 3000:       # long literals (non-periodic output of a broken implementation): avoid deep parse trees
        return '(' + ' ++ '.join('[' + '; '.join(lit(carrier, v) for v in vals[k:k + 1500]) + ']'
                                 for k in range(0, len(vals), 1500)) + ')'
    return '[' + '; '.join(lit(carrier, v) for v in vals) + ']'


def pyscalar(carrier, v):
    """Scalar as Python would pass it."""
    if carrier in ('cx', 'cxnan'):
        return complex(v) if isinstance(v, complex) else v
    return v


CHECK = {'real': 'checkL_real (%s)', 'cx': 'checkL_cx (%s)', 'nan': 'checkL_nan (%s)',
         'cxnan': 'checkL_cxnan (%s)', 'int': 'checkL_int'}
CTYPE = {'real': 'Q', 'int': 'Q', 'cx': '(Q * Q)', 'nan': '(option Q)', 'cxnan': '(option (Q * Q))'}


# ------------------------------------------------------------------ arrays with a given layout
def with_layout(vals, dtype, layout):
    """ndarray of the logical values `vals` whose memory layout is C / F / S(trided, non-contiguous)."""
    vals = np.asarray(vals)
    if layout == 'C':
        arr = np.ascontiguousarray(vals.astype(dtype))
    elif layout == 'F':
        arr = np.asfortranarray(vals.astype(dtype))
    else:
        big = np.zeros(vals.shape[:-1] + (2 * vals.shape[-1],), dtype=dtype)
        arr = big[..., ::2]
        arr[...] = vals
    return arr


def flags_of(arr):
    return (bool(arr.flags.c_contiguous), bool(arr.flags.f_contiguous))


def predicted_regime(size, fl, bdt, flags):
    """Python copy of the regime rule, used only for distinctness keys / statistics."""
    if size < 100 or not fl:
        return 'direct'
    ok = bdt and (all(f[1] for f in flags) or all(f[0] for f in flags))
    return 'fallback' if (size < 50000 or not ok) else 'blas'


def closed_form(n, m, c, p, h):
    i = np.arange(n, dtype=np.int64)
    return ((m * i + c) % p) - h


def rand_vals(rng, shape, lo=-6, hi=6):
    n = int(np.prod(shape))
    return np.array([rng.randint(lo, hi) for _ in range(n)], dtype=float).reshape(shape)


# ------------------------------------------------------------------ tensor-level lincomb cases
BIG = 2000      # from this size on a case costs seconds of vm_compute: such cases get their own small shards
PERIODIC = 100  # from this size on arrays are periodic (closed form) and are passed to Coq as one period


def lincomb_case(rng, dtype, shape, layouts, alias, a, b, poison, full=False):
    """Run space.lincomb on the real implementation; returns (coq term, description, key, carrier)."""
    import odl
    base, fl, bdt, tol = DT[dtype]
    carrier = base
    if poison:
        carrier = {'real': 'nan', 'cx': 'cxnan'}[base]
    space = odl.tensor_space(shape, dtype=dtype)
    n = int(np.prod(shape))
    ix1, ix2, iout = ALIAS[alias]
    big = n >= PERIODIC
    gens = []
    vals = []
    for k in range(3):
        if big:
            small = n < BIG
            g = (rng.choice([1, 2, 3, 5]), rng.randint(0, 6), rng.choice([3, 4] if small else [7, 5]), rng.randint(1, 3))
            v = closed_form(n, *g).astype(float).reshape(shape)
            if base == 'cx':
                g2 = (rng.choice([1, 2, 3]), rng.randint(0, 4), rng.choice([2, 3] if small else [7, 5]), 1)
                v = v + 1j * closed_form(n, *g2).reshape(shape)
                g = (g, g2)
            gens.append(g)
        else:
            v = rand_vals(rng, shape)
            if base == 'cx':
                v = v + 1j * rand_vals(rng, shape, -3, 3)
        vals.append(v)
    poisoned = set()
    if poison == 'out' and iout not in (ix1, ix2):
        poisoned = {iout}
    elif poison == 'unused':          # an operand that is never read: every buffer not used by the call
        poisoned = {0, 1, 2} - {ix1, ix2, iout}
        if iout not in (ix1, ix2):
            poisoned |= {iout}
    elif poison == 'operand':         # NaN inside an operand (strict propagation vs. skipped reads)
        poisoned = {rng.choice([ix1, ix2])}
    els = []
    for k in range(3):
        arr = with_layout(vals[k], dtype, layouts[k])
        if k in poisoned:
            arr[...] = np.nan
        el = space.element(arr)
        # (NumPy copies when the dtype is not native-endian: the element then owns a contiguous copy)
        assert el.data is arr or not np.dtype(dtype).isnative, 'element() copied the array'
        els.append(el)
    flags = [flags_of(els[i].data) for i in (ix1, ix2, iout)]
    before = [np.array(e.data, copy=True) for e in els]
    pa, pb = pyscalar(carrier, a), pyscalar(carrier, b)
    with np.errstate(all='ignore'):
        res = space.lincomb(pa, els[ix1], pb, els[ix2], out=els[iout])
    assert res is els[iout]
    after = [np.asarray(e.data) for e in els]

    PAT = 35
    sized = n >= BIG and full is False
    if sized:       # one period suffices if every array (before and after) is periodic
        for arr in before + after:
            fl_ = np.asarray(arr).ravel()
            if not np.array_equal(np.resize(fl_[:PAT], n), fl_, equal_nan=True):
                sized = False

    def buf_term(k, arr, is_before):
        flat = np.asarray(arr).ravel()        # logical (C-order) flattening
        if sized:
            return lits(carrier, flat[:PAT])
        if not big:
            return lits(carrier, flat)
        if is_before and k in poisoned:
            return '(cyc %d [None])' % n
        # after: one period if the array is periodic, the full literal otherwise
        for period in (12, 35, 455, 455 * 4):
            pat = flat[:period]
            if np.array_equal(np.resize(pat, n), flat, equal_nan=True):
                return '(cyc %d %s)' % (n, lits(carrier, pat))
        return lits(carrier, flat)

    term = ('mkL %s %s %s (%d, %d, %d)%%nat %d %s %s [%s] [%s]'
            % (C.b(fl), dtinfo(dtype, shape),
               '[' + '; '.join('(%s, %s)' % (C.b(c), C.b(f)) for c, f in flags) + ']',
               ix1, ix2, iout, n if sized else 0, lit(carrier, pa), lit(carrier, pb),
               '; '.join(buf_term(k, before[k], True) for k in range(3)),
               '; '.join(buf_term(k, after[k], False) for k in range(3))))
    reg = predicted_regime(n, fl, bdt, flags)
    desc = {'op': 'lincomb', 'dtype': dtype, 'shape': list(shape), 'layouts': ''.join(layouts), 'alias': alias,
            'a': str(a), 'b': str(b), 'poison': poison or '', 'regime': reg, 'whole_array_in_coq': not sized}
    key = (dtype, tuple(shape), ''.join(layouts), alias, str(a), str(b), poison or '', reg)
    return term, desc, key, carrier, tol


def layout_choice(rng, ndim, want_blas=False):
    """Layout triple for (e0, e1, e2): all-C, all-F, mixed, strided."""
    if want_blas:
        return 'CCC' if ndim == 1 else rng.choice(['CCC', 'FFF'])
    if ndim == 1:
        return rng.choice(['CCC', 'CCC', 'SCC', 'CSC', 'CCS', 'SSS'])
    return rng.choice(['CCC', 'FFF', 'CFC', 'FCF', 'CCF', 'SCC', 'CCS', 'FSF', 'SSS'])


IMPORTS = ['C01.Syntax', 'Gen.Lincomb', 'Gen.SpaceOps', 'C01.Carriers', 'C01.Model', 'C01.ModelSpace', 'C01.Corr']
BIG_CHUNK = 5       # big cases per shard (each costs ~1.5 s of vm_compute)


class Sets(object):
    def __init__(self):
        self.sets, self.order, self.nbig = {}, [], {}

    def put(self, prefix, dtype, res, check_fmt=CHECK, ctype_fmt='caseL %s'):
        term, desc, key, carrier, tol = res
        n = int(np.prod(desc['shape']))
        name = '%s_%s_%s' % (prefix, dtype.replace('>', 'be_').replace('<', 'le_'), carrier)
        if prefix == 'sp':          # one check term (tolerance) per set
            name += '_e%d' % len(str(tol.denominator))
        if n >= BIG and desc.get('whole_array_in_coq', True):
            k = self.nbig.get(name, 0)
            self.nbig[name] = k + 1
            name = '%s_big%d' % (name, k // BIG_CHUNK)
        if name not in self.sets:
            chk = check_fmt[carrier] % C.q(tol) if '%s' in check_fmt[carrier] else check_fmt[carrier]
            self.sets[name] = C.CaseSet(name, IMPORTS, chk, ctype_fmt % CTYPE[carrier])
            self.order.append(name)
        self.sets[name].add(term, desc, key)

    def all(self):
        # big sets first so that the slow shards start early
        names = sorted(self.order, key=lambda nm: (0 if '_big' in nm else 1))
        return [self.sets[nm] for nm in names]


def lincomb_cases(rng, tier, S):
    quick = tier == 'quick'
    small = [(1,), (2,), (3,), (99,), (3, 4), (2, 3, 2)]
    med = [(100,), (101,), (10, 10), (4, 5, 5), (20, 6), (1000,)]
    edge = [(49999,), (50001,), (250, 200), (4999,), (60000, 2), (2, 60000), (50000, 1)]
    if not quick:
        small += [(7, 14), (98,), (5,)]
        med += [(128,), (30, 40), (2, 50)]
        edge += [(100, 500), (60000,), (40, 25, 50)]
    for dtype, (base, fl, bdt, tol) in DT.items():
        pairs = {'real': REAL_PAIRS, 'cx': CX_PAIRS, 'int': INT_PAIRS}[base]
        main = dtype in ('float64', 'complex128')

        def run(shape, alias, a, b, poison=None, want_blas=False, full=False):
            lay = layout_choice(rng, len(shape), want_blas)
            S.put('lin', dtype, lincomb_case(rng, dtype, shape, lay, alias, a, b, poison, full))

        # A. every (alias, scalar pair) combination in the direct and the fallback regime
        for shape in ([(3,), (120,)] if base == 'int' else [(3,), (100,)]):
            for alias in ALIAS:
                # (the non-main floating dtypes share the code path of float64 / complex128 below 50000 entries: a sample in quick)
                for a, b in (pairs if (not quick or main or dtype in ('int64', 'int32')) else rng.sample(pairs, 6)):
                    run(shape, alias, a, b)
        # B. the BLAS regime (and its borders).  The decision tree is shared with the fallback
        #    regime (covered exhaustively in A); here the three BLAS primitives, the regime rule and
        #    the ravel order are exercised.  Each case costs ~2 s of vm_compute, hence the small numbers.
        if bdt:
            nb = (8 if main else 3) if quick else (len(pairs) if main else 8)
            for alias in ALIAS:
                for j, (a, b) in enumerate(rng.sample(pairs, nb)):
                    # the whole 50000-entry arrays are evaluated inside Coq for one case per alias pattern
                    run((50000,), alias, a, b, want_blas=True,
                        full=(j == 0 and main and (not quick or alias in ('distinct', 'out_is_x1'))))
            if main or not quick:
                for shape in edge:
                    for alias in ALIAS:
                        for a, b in rng.sample(pairs, 2 if quick else 4):
                            run(shape, alias, a, b, want_blas=rng.random() < 0.7)
        # B2. >= 50000 entries where BLAS must NOT be used: strided / mixed-order arrays, non-BLAS dtypes
        #     (a wrong dispatch leaves `out` unchanged or pairs entries in different orders)
        if dtype in ('float64', 'complex128') + EXOTIC or (bdt and not quick):
            plan = []
            if dtype == 'float64':
                plan += [((50000,), lay, al) for lay in ('SSS', 'SCC', 'CSC', 'CCS') for al in ALIAS]
                plan += [((250, 200), lay, al) for lay in ('CFC', 'FCF', 'FFF', 'SFF', 'CCF')
                         for al in (ALIAS if not quick else ('distinct', 'out_is_x1', 'out_is_x2'))]
            elif dtype == 'complex128':
                plan += [((50000,), lay, al) for lay in ('SSS', 'CCS') for al in ALIAS]
            elif dtype in EXOTIC:
                plan += [((50000,), 'CCC', al) for al in ALIAS]
                if not quick:
                    plan += [((250, 200), 'FFF', al) for al in ALIAS]
            else:
                plan += [((50000,), lay, al) for lay in ('SSS', 'CCS') for al in ALIAS]
            for shape, lay, alias in plan:
                a, b = rng.choice([pr for pr in pairs if pr[0] != 0 and pr[1] != 0])
                S.put('lin', dtype, lincomb_case(rng, dtype, shape, lay, alias, a, b,
                                                 'unused' if (base != 'int' and rng.random() < 0.4 and dtype not in EXOTIC) else None))
        # C. shape sweep
        for shape in ([(3,), (3, 4), (100,), (1000,)] if (quick and dtype.startswith('>')) else small + med):
            for alias in ALIAS:
                for a, b in rng.sample(pairs, (2 if main else 1) if quick else (6 if main else 3)):
                    run(shape, alias, a, b)
        # D. poisoned runs (floating dtypes): NaN in every buffer the call must not read
        #    (`out` when it is not an operand, the unused third buffer), and NaN inside an operand
        if base in ('real', 'cx') and dtype not in EXOTIC:
            for shape in [(3,), (100,)] + ([(3, 4), (10, 10)] if not quick else []):
                for alias in ALIAS:
                    for a, b in (pairs if main else rng.sample(pairs, 6)):
                        run(shape, alias, a, b, 'unused')
                    for a, b in rng.sample(pairs, 6 if main else 3):
                        run(shape, alias, a, b, 'operand')
            if bdt and (main or not quick):
                for alias in ALIAS:
                    for a, b in rng.sample(pairs, 1 if quick else (6 if main else 2)):
                        run((50000,), alias, a, b, 'unused', want_blas=True)


# ------------------------------------------------------------------ space-level arithmetic
# space recipes: ('T', dtype, shape) tensor space | ('D', dtype, shape) uniform_discr | ('P', [recipes])
CHECKW = {'real': 'checkW_real (%s)', 'cx': 'checkW_cx (%s)', 'nan': 'checkW_nan (%s)',
          'cxnan': 'checkW_cxnan (%s)'}


def mk_space(r):
    import odl
    if r[0] == 'T':
        return odl.tensor_space(r[2], dtype=r[1])
    if r[0] == 'D':
        shape = r[2]
        return odl.uniform_discr([0.0] * len(shape), [1.0] * len(shape), shape, dtype=r[1])
    return odl.ProductSpace(*[mk_space(c) for c in r[1]])


def coq_space(r):
    if r[0] in ('T', 'D'):
        return '(SLeaf %s)' % C.b(DT[r[1]][1])
    out = 'SNil'
    for c in reversed(r[1]):
        out = '(SCons %s %s)' % (coq_space(c), out)
    return '(SNode %s)' % out


def leaf_recipes(r):
    if r[0] in ('T', 'D'):
        return [r]
    return [l for c in r[1] for l in leaf_recipes(c)]


def rand_leaf_vals(rng, r, kind):
    """Values of one leaf; kind: 'any' | 'div' (safe divisors) | 'pow' (tiny integers)."""
    dtype, shape = r[1], r[2]
    n = int(np.prod(shape))
    base = DT[dtype][0]
    if n >= PERIODIC:
        g = (rng.choice([1, 2, 3, 5]), rng.randint(0, 6), rng.choice([3, 4] if n < BIG else [7, 5]), rng.randint(1, 3))
        v = closed_form(n, *g).astype(float)
        if kind == 'div':
            v = np.where(v == 0, 2.0, v)
    elif kind == 'div':
        v = np.array([rng.choice([1, 2, 4, -1, -2, 8] + ([0.5, -0.25] if base != 'int' else [])) for _ in range(n)])
    elif kind == 'pow':
        v = np.array([float(rng.randint(-2, 2)) for _ in range(n)])
    else:
        v = np.array([float(rng.randint(-6, 6)) for _ in range(n)])
    v = v.reshape(shape)
    if base == 'cx' and kind != 'div':
        w = np.array([float(rng.randint(-2, 2)) for _ in range(n if n < PERIODIC else (12 if n < BIG else 35))])
        v = v + 1j * np.resize(w, n).reshape(shape)
    return v


def mk_element(rng, r, kind='any', layout=None, share=None):
    """odl element of the space of recipe r; `share`: an element whose leaves are reused with
    probability 1/3 each (same position => positional aliasing between distinct elements)."""
    space = mk_space(r)
    if r[0] in ('T', 'D'):
        if share is not None and rng.random() < 0.34:
            return share
        lay = layout or ('C' if len(r[2]) == 1 else rng.choice(['C', 'C', 'F']))
        arr = with_layout(rand_leaf_vals(rng, r, kind), r[1], lay)
        return space.element(arr)
    parts = [mk_element(rng, c, kind, layout, None if share is None else share[i]) for i, c in enumerate(r[1])]
    return space.element(parts)


def _is_pse(el):
    from odl.space.pspace import ProductSpaceElement
    return isinstance(el, ProductSpaceElement)


def _is_dse(el):
    from odl.discr.discr_space import DiscretizedSpaceElement
    return isinstance(el, DiscretizedSpaceElement)


def leaf_tensors(el):
    import odl
    if _is_pse(el):
        return [t for p in el.parts for t in leaf_tensors(p)]
    if _is_dse(el):
        return [el.tensor]
    return [el]


class Ctx(object):
    """Buffers of one case: real tensor objects (by identity) and model-only temporaries."""

    def __init__(self, poison):
        self.objs, self.init, self.flags, self.bdt, self.poison = [], [], [], [], poison

    def id_of(self, t, fresh=False):
        for k, o in enumerate(self.objs):
            if o is t:
                return k
        self.objs.append(t)
        arr = np.array(t.data, copy=True)
        if fresh:      # a temporary allocated by the implementation: the model starts it with garbage
            arr = np.full(arr.shape, np.nan if self.poison else 0, dtype=complex if arr.dtype.kind == 'c' else float)
        self.init.append(arr)
        self.flags.append(flags_of(t.data))
        self.bdt.append(dtinfo(t.data.dtype, t.data.shape))
        return len(self.objs) - 1

    def term(self, el, fresh=False):
        import odl
        if _is_pse(el):
            return '(Node %s)' % self.terms(el.parts, fresh)
        t = el.tensor if _is_dse(el) else el
        return '(Leaf %d)' % self.id_of(t, fresh)

    def terms(self, parts, fresh=False):
        ts = [self.term(p, fresh) for p in parts]       # left to right, so ids follow the traversal
        out = 'ENil'
        for t in reversed(ts):
            out = '(ECons %s %s)' % (t, out)
        return out

    def hidden_like(self, el, values=None):
        """Model-only element with the structure of el: a temporary (e.g. the element returned by one()),
        or, with `values` (list of leaf arrays, consumed in order), the element the implementation
        builds from an array-like operand."""
        import odl
        if _is_pse(el):
            ts = [self.hidden_like(p, values) for p in el.parts]
            out = 'ENil'
            for t in reversed(ts):
                out = '(ECons %s %s)' % (t, out)
            return '(Node %s)' % out
        t = el.tensor if _is_dse(el) else el
        self.objs.append(None)
        kind = complex if t.data.dtype.kind == 'c' else float
        if values is not None:
            self.init.append(np.array(values.pop(0), dtype=kind).reshape(t.data.shape))
        else:
            self.init.append(np.full(t.data.shape, np.nan if self.poison else 0, dtype=kind))
        self.flags.append((True, t.data.ndim <= 1))
        self.bdt.append(dtinfo(t.data.dtype, t.data.shape))
        return '(Leaf %d)' % (len(self.objs) - 1)


def compress(carrier, flat):
    flat = np.asarray(flat).ravel()
    n = flat.size
    if n >= PERIODIC:
        for period in (1, 12, 35, 455, 1820):
            if np.array_equal(np.resize(flat[:period], n), flat, equal_nan=True):
                return '(cyc %d %s)' % (n, lits(carrier, flat[:period]))
    return lits(carrier, flat)


REAL_SC = [0, 1, -1, 2, 0.5, -0.25, 3]
CX_SC = [0, 1, -1, 2, 0.5, 1j, 1 - 1j, -2j]
DIV_SC = [2, -4, 0.5, 1, -1, 3]


SPECIAL_OPS = ['multiply', 'divide', 'mul', 'imul', 'truediv', 'itruediv', 'rtruediv', 'rtruediv_s', 'mul_s', 'add', 'isub']


def inject(rng, el, values):
    """Overwrite about a third (at least one) of the entries of every leaf with special values."""
    for t in leaf_tensors(el):
        flat = t.data.reshape(-1) if t.data.flags.c_contiguous else None
        n = t.data.size
        idx = [k for k in range(min(n, 400)) if rng.random() < 0.34] or [0]
        for k in idx:
            t.data[np.unravel_index(k, t.data.shape)] = rng.choice(values)


def space_case(rng, recipe, op, poison=False, special=False):
    """Run one public operation on the implementation; returns the tuple for Sets.put."""
    import odl
    leaves = leaf_recipes(recipe)
    bases = set(DT[l[1]][0] for l in leaves)
    cxs = 'cx' in bases
    carrier = ('cxnan' if cxs else 'nan') if poison else ('cx' if cxs else 'real')
    tol = max(DT[l[1]][3] for l in leaves)
    tol = max(tol, Fraction(1, 10 ** 9)) if any(b != 'int' for b in bases) else tol
    space = mk_space(recipe)
    ctx = Ctx(poison)
    scs = CX_SC if cxs else REAL_SC
    if bases == {'int'}:
        scs = [0, 1, -1, 2, 3, 0.5, 2.5]
    kind = 'div' if 'div' in op else ('pow' if op == 'ipow' else 'any')
    x = mk_element(rng, recipe, 'pow' if op in ('ipow', 'pow') else ('div' if op in ('divide', 'ipow_neg') else 'any'))
    same = rng.random() < 0.2
    y = x if same else mk_element(rng, recipe, kind, share=(x if (kind == 'any' and rng.random() < 0.25) else None))
    if op in ('itruediv', 'truediv', 'divide', 'el_divide', 'truediv_arr', 'divide_noout') and same:
        x = y = mk_element(rng, recipe, 'div')
    if op == 'rtruediv':
        x = mk_element(rng, recipe, 'div')
        if same:
            y = x
    if op.startswith('data:'):
        same = False
        dn = op.split(':')[1]
        x = mk_element(rng, recipe, 'div' if dn == '__rtruediv__' else 'any')
        y = mk_element(rng, recipe, 'div' if dn in ('__truediv__', '__itruediv__') else 'any')
    c = rng.choice(DIV_SC if op in ('itruediv_s', 'truediv_s') else scs)
    if op == 'rtruediv_s':
        x = mk_element(rng, recipe, 'div')
    def nanfill(el):
        for t in leaf_tensors(el):
            t.data[...] = np.nan
    if special:
        # exact zeros in divisors (x/0 = inf, 0/0 = nan: non-finite = None in the model), zeros / inf / nan in
        # numerators and factors; no inf in divisors (1/inf = 0 is finite, the model conflates inf and nan)
        num, den = [0.0, np.inf, -np.inf, np.nan, 0.0], [0.0]
        if op in ('truediv', 'itruediv'):
            inject(rng, x, num)
            if y is not x:
                inject(rng, y, den)
        elif op == 'rtruediv':
            inject(rng, x, den)
            if y is not x:
                inject(rng, y, num)
        elif op == 'rtruediv_s':
            inject(rng, x, den)
        elif op == 'divide':
            inject(rng, x, den); inject(rng, y, den)
        else:
            inject(rng, x, num)
            if y is not x:
                inject(rng, y, num)
    z = None
    lc1_out = None
    if op in ('lincomb2', 'multiply', 'divide'):
        z = mk_element(rng, recipe, kind)
        if special:
            inject(rng, z, [0.0])
        alias = rng.choice(sorted(ALIAS))
        if poison and bases.isdisjoint({'int'}) and ALIAS[alias][2] not in ALIAS[alias][:2] \
                and (not special or rng.random() < 0.5):     # (special: also finite old contents)
            nanfill([x, y, z][ALIAS[alias][2]])       # old contents of a non-operand out: garbage
    if poison and op == 'assign' and not same and y is not x \
            and not any(a_ is b_ for a_ in leaf_tensors(x) for b_ in leaf_tensors(y)):
        nanfill(x)
    if op == 'lincomb1':
        lc1_out = x if rng.random() < 0.4 else y
        if poison and lc1_out is not x and not any(a_ is b_ for a_ in leaf_tensors(x) for b_ in leaf_tensors(y)):
            nanfill(y)
    tx = ctx.term(x)
    ty = ctx.term(y)
    desc = {'op': op, 'space': repr(recipe), 'same': same, 'poison': poison, 'special': special}
    err = 0
    res = None
    cl = lambda v: lit(carrier, v)
    extra = ''
    with np.errstate(all='ignore'):
        try:
            if op in ('lincomb2', 'multiply', 'divide'):
                tz = ctx.term(z)
                els, tms = [x, y, z], [tx, ty, tz]
                i1, i2, io = ALIAS[alias]
                desc['alias'] = alias
                if op == 'lincomb2':
                    a, b = rng.choice(CX_PAIRS if cxs else (INT_PAIRS if bases == {'int'} else REAL_PAIRS))
                    desc['a'], desc['b'] = str(a), str(b)
                    res = space.lincomb(a, els[i1], b, els[i2], out=els[io])
                    wop = 'WLincomb2 %s %s %s %s %s' % (cl(a), tms[i1], cl(b), tms[i2], tms[io])
                elif op == 'multiply':
                    res = space.multiply(els[i1], els[i2], out=els[io])
                    wop = 'WMultiply %s %s %s' % (tms[i1], tms[i2], tms[io])
                else:
                    res = space.divide(els[i1], els[i2], out=els[io])
                    wop = 'WDivide %s %s %s' % (tms[i1], tms[i2], tms[io])
            elif op == 'lincomb1':
                out = lc1_out
                desc['a'] = str(c)
                res = space.lincomb(c, x, out=out)
                wop = 'WLincomb1 %s %s %s' % (cl(c), tx, ctx.term(out))
            elif op == 'assign':
                x.assign(y); wop = 'WAssign %s %s' % (tx, ty)
            elif op == 'set_zero':
                x.set_zero(); wop = 'WSetZero %s' % tx
            elif op == 'copy':
                res = x.copy()
                if _is_pse(x):
                    wop = 'WCopy %s %s' % (tx, ctx.term(res, True))
                else:
                    wop = 'WCopyLeaf %s %s' % (tx.split()[1].rstrip(')'), ctx.term(res, True).split()[1].rstrip(')'))
            elif op in ('iadd', 'isub', 'imul', 'itruediv'):
                res = {'iadd': x.__iadd__, 'isub': x.__isub__, 'imul': x.__imul__, 'itruediv': x.__itruediv__}[op](y)
                assert res is x
                wop = '%s %s %s' % ({'iadd': 'WIAdd', 'isub': 'WISub', 'imul': 'WIMul', 'itruediv': 'WITrueDiv'}[op], tx, ty)
            elif op in ('add', 'sub', 'mul', 'truediv', 'rsub', 'rtruediv'):
                f = {'add': lambda: x + y, 'sub': lambda: x - y, 'mul': lambda: x * y, 'truediv': lambda: x / y,
                     'rsub': lambda: x.__rsub__(y), 'rtruediv': lambda: x.__rtruediv__(y)}[op]
                res = f()
                wop = '%s %s %s %s' % ({'add': 'WAdd', 'sub': 'WSub', 'mul': 'WMul', 'truediv': 'WTrueDiv',
                                        'rsub': 'WRSub', 'rtruediv': 'WRTrueDiv'}[op], tx, ty, ctx.term(res, True))
            elif op in ('iadd_s', 'isub_s'):
                res = (x.__iadd__ if op == 'iadd_s' else x.__isub__)(c)
                desc['c'] = str(c)
                wop = '%s %s %s %s' % ('WIAddS' if op == 'iadd_s' else 'WISubS', tx, cl(c), ctx.hidden_like(x))
            elif op in ('imul_s', 'itruediv_s'):
                res = (x.__imul__ if op == 'imul_s' else x.__itruediv__)(c)
                desc['c'] = str(c)
                wop = '%s %s %s' % ('WIMulS' if op == 'imul_s' else 'WITrueDivS', tx, cl(c))
            elif op in ('add_s', 'radd_s', 'sub_s', 'rsub_s', 'mul_s', 'rmul_s', 'truediv_s', 'rtruediv_s'):
                f = {'add_s': lambda: x + c, 'radd_s': lambda: c + x, 'sub_s': lambda: x - c, 'rsub_s': lambda: c - x,
                     'mul_s': lambda: x * c, 'rmul_s': lambda: c * x, 'truediv_s': lambda: x / c,
                     'rtruediv_s': lambda: c / x}[op]
                res = f()
                desc['c'] = str(c)
                nm = {'add_s': 'WAddS', 'radd_s': 'WAddS', 'sub_s': 'WSubS', 'rsub_s': 'WRSubS', 'mul_s': 'WMulS',
                      'rmul_s': 'WMulS', 'truediv_s': 'WTrueDivS', 'rtruediv_s': 'WRTrueDivS'}[op]
                wop = '%s %s %s %s' % (nm, tx, cl(c), ctx.term(res, True))
            elif op in ('neg', 'pos'):
                res = -x if op == 'neg' else +x
                if op == 'pos' and not _is_pse(x):
                    wop = 'WCopyLeaf %s %s' % (tx.split()[1].rstrip(')'), ctx.term(res, True).split()[1].rstrip(')'))
                else:
                    wop = '%s %s %s' % ('WNeg' if op == 'neg' else 'WPos', tx, ctx.term(res, True))
            elif op.startswith('data:'):
                # the other operand is plain data: nested list / tuple, ndarray (list of ndarrays for a product
                # space).  The operator wraps it with self.space.element(data) and re-dispatches.
                import operator as _o
                _, dn, dk = op.split(':')

                def as_data(el):
                    if _is_pse(el):
                        parts = [as_data(pp) for pp in el.parts]
                        return tuple(parts) if dk == 'tuple' else parts
                    arr_ = np.array(np.asarray(el), copy=True)
                    if dk == 'ndarray':
                        return arr_
                    return tuple(map(tuple, arr_.reshape(arr_.shape[0], -1).tolist())) if (dk == 'tuple' and arr_.ndim == 2) \
                        else (tuple(arr_.tolist()) if (dk == 'tuple' and arr_.ndim == 1) else arr_.tolist())
                data = as_data(y)
                leaves_y = [np.array(t.data, copy=True) for t in leaf_tensors(y)]
                th = ctx.hidden_like(y, leaves_y)
                natural = dk != 'ndarray'      # `ndarray <op> x` is NumPy's ufunc protocol (C17), not the dunder
                call = {'__add__': lambda: x + data, '__sub__': lambda: x - data, '__mul__': lambda: x * data,
                        '__truediv__': lambda: x / data,
                        '__iadd__': lambda: _o.iadd(x, data), '__isub__': lambda: _o.isub(x, data),
                        '__imul__': lambda: _o.imul(x, data), '__itruediv__': lambda: _o.itruediv(x, data),
                        '__radd__': (lambda: data + x) if natural else (lambda: x.__radd__(data)),
                        '__rsub__': (lambda: data - x) if natural else (lambda: x.__rsub__(data)),
                        '__rmul__': (lambda: data * x) if natural else (lambda: x.__rmul__(data)),
                        '__rtruediv__': (lambda: data / x) if natural else (lambda: x.__rtruediv__(data))}[dn]
                res = call()
                opn = {'__add__': 'OAdd', '__radd__': 'OAdd', '__iadd__': 'OIAdd', '__sub__': 'OSub', '__isub__': 'OISub',
                       '__rsub__': 'ORSub', '__mul__': 'OMul', '__rmul__': 'OMul', '__imul__': 'OIMul',
                       '__truediv__': 'OTrueDiv', '__itruediv__': 'OITrueDiv', '__rtruediv__': 'ORTrueDiv'}[dn]
                if dn.startswith('__i'):
                    assert res is x
                    wop = 'WData %s %s %s %s' % (opn, tx, th, tx)
                else:
                    assert res is not x
                    wop = 'WData %s %s %s %s' % (opn, tx, th, ctx.term(res, True))
            elif op in ('add_arr', 'iadd_arr', 'sub_arr', 'rsub_arr', 'mul_arr', 'imul_arr', 'truediv_arr'):
                # array-like operand: the operator builds space.element(other) and calls itself again
                def nested(el):
                    if _is_pse(el):
                        return [nested(pp) for pp in el.parts]
                    return np.asarray(el).tolist()
                arr = nested(y)
                leaves_y = [np.array(t.data, copy=True) for t in leaf_tensors(y)]
                th = ctx.hidden_like(y, leaves_y)
                f = {'add_arr': lambda: x + arr, 'iadd_arr': lambda: x.__iadd__(arr), 'sub_arr': lambda: x - arr,
                     'rsub_arr': lambda: arr - x, 'mul_arr': lambda: x * arr, 'imul_arr': lambda: x.__imul__(arr),
                     'truediv_arr': lambda: x / arr}[op]
                res = f()
                nm = {'add_arr': 'WAdd', 'iadd_arr': 'WIAdd', 'sub_arr': 'WSub', 'rsub_arr': 'WRSub', 'mul_arr': 'WMul',
                      'imul_arr': 'WIMul', 'truediv_arr': 'WTrueDiv'}[op]
                if op.startswith('i'):
                    assert res is x
                    wop = '%s %s %s' % (nm, tx, th)
                else:
                    wop = '%s %s %s %s' % (nm, tx, th, ctx.term(res, True))
            elif op in ('el_lincomb', 'multiply_noout', 'divide_noout', 'el_multiply', 'el_divide'):
                if op == 'el_lincomb':          # x.lincomb(a, y, b, z): out = self
                    a, b = rng.choice(CX_PAIRS if cxs else (INT_PAIRS[:11] if bases == {'int'} else REAL_PAIRS))
                    z2 = mk_element(rng, recipe, 'any')
                    tz2 = ctx.term(z2)
                    res = x.lincomb(a, y, b, z2)
                    assert res is x
                    wop = 'WLincomb2 %s %s %s %s %s' % (cl(a), ty, cl(b), tz2, tx)
                elif op in ('multiply_noout', 'el_multiply'):
                    res = space.multiply(x, y) if op == 'multiply_noout' else x.multiply(y)
                    wop = 'WMultiply %s %s %s' % (tx, ty, ctx.term(res, True))
                else:
                    res = space.divide(x, y) if op == 'divide_noout' else x.divide(y)
                    wop = 'WDivide %s %s %s' % (tx, ty, ctx.term(res, True))
            elif op == 'pow':
                pw = rng.randint(0, 5)
                desc['p'] = pw
                res = x ** pw
                assert res is not x
                wop = 'WPow %s %s %d %s %s %s' % (C.b(_is_pse(x)), tx, pw, ctx.term(res, True), ctx.hidden_like(x),
                                                 ctx.hidden_like(x))
            elif op == 'lincomb_noout':
                a, b = rng.choice(CX_PAIRS if cxs else (INT_PAIRS[:11] if bases == {'int'} else REAL_PAIRS))
                res = space.lincomb(a, x, b, y)
                wop = 'WLincomb2 %s %s %s %s %s' % (cl(a), tx, cl(b), ty, ctx.term(res, True))
            elif op == 'ipow_neg':
                pw = rng.randint(1, 3)
                desc['p'] = -pw
                res = x.__ipow__(-pw)
                assert res is x
                wop = 'WIPowNeg %s %s %d %s %s %s' % (C.b(_is_pse(x)), tx, pw, ctx.hidden_like(x), ctx.hidden_like(x),
                                                      ctx.hidden_like(x))
            elif op == 'ipow':
                pw = rng.randint(0, 6)
                desc['p'] = pw
                res = x.__ipow__(pw)
                assert res is x
                generic = _is_pse(x)
                wop = 'WIPow %s %s %d %s %s' % (C.b(generic), tx, pw, ctx.hidden_like(x), ctx.hidden_like(x))
            else:
                raise ValueError(op)
        except TypeError as e:
            if 'Cannot cast ufunc' not in str(e):
                raise
            err = 1
            if 'wop' not in dir():
                wop = None
    if err and op.startswith('data:'):
        wop = 'WData %s %s %s %s' % ('OTrueDiv', tx, ty, ctx.hidden_like(x))
    elif err:
        # the operation raised a casting error (true division into an integer array)
        nm = {'itruediv': 'WITrueDiv %s %s' % (tx, ty), 'truediv': 'WTrueDiv %s %s %s' % (tx, ty, ctx.hidden_like(x)),
              'rtruediv': 'WRTrueDiv %s %s %s' % (tx, ty, ctx.hidden_like(x)),
              'rtruediv_s': 'WRTrueDivS %s %s %s' % (tx, cl(c), ctx.hidden_like(x)),
              'truediv_arr': 'WTrueDiv %s %s %s' % (tx, ty, ctx.hidden_like(x)),
              'divide_noout': 'WDivide %s %s %s' % (tx, ty, ctx.hidden_like(x)),
              'el_divide': 'WDivide %s %s %s' % (tx, ty, ctx.hidden_like(x)),
              'ipow_neg': 'WDivide %s %s %s' % (tx, tx, tx),
              'divide': 'WDivide %s %s %s' % (tx, ty, tx)}
        if op not in nm:
            raise AssertionError('unexpected casting error in %s' % op)
        wop = nm[op]
    real_ids = [k for k, o in enumerate(ctx.objs) if o is not None]
    final = [(np.asarray(o.data) if o is not None else ctx.init[k]) for k, o in enumerate(ctx.objs)]
    term = ('mkW %s %s %s (%s) [%s] %s [%s] %d'
            % (coq_space(recipe), '[' + '; '.join(ctx.bdt) + ']',
               '[' + '; '.join('(%s, %s)' % (C.b(cf), C.b(ff)) for cf, ff in ctx.flags) + ']',
               wop, '; '.join(compress(carrier, a) for a in ctx.init),
               '[' + '; '.join('%d' % k for k in real_ids) + ']%nat',
               '; '.join(compress(carrier, a) for a in final), err))
    desc['err'] = err
    desc['shape'] = [max(int(np.prod(l[2])) for l in leaves)]
    key = (op, repr(recipe), same, poison, special, desc.get('alias'), desc.get('a'), desc.get('b'), desc.get('c'),
           desc.get('p'), err)
    return term, desc, key, carrier, tol


BK = {'add': 'BAdd', 'sub': 'BSub', 'mul': 'BMul', 'truediv': 'BDiv',
      'radd': 'BRAdd', 'rsub': 'BRSub', 'rmul': 'BRMul', 'rtruediv': 'BRDiv'}


def bcast_case(rng, child, n, k, inplace, poison=False):
    """Power-space broadcasting  x <op> y0  with y0 in space[0] (pspace._broadcast_arithmetic)."""
    recipe = ('P', [child] * n)
    leaves = leaf_recipes(recipe)
    bases = set(DT[l[1]][0] for l in leaves)
    cxs = 'cx' in bases
    carrier = ('cxnan' if cxs else 'nan') if poison else ('cx' if cxs else 'real')
    tol = max(max(DT[l[1]][3] for l in leaves), Fraction(1, 10 ** 9))
    ctx = Ctx(poison)
    divk = 'div' if k in ('truediv', 'rtruediv') else 'any'
    x = mk_element(rng, recipe, 'div' if k == 'rtruediv' else 'any')
    y0 = mk_element(rng, child, 'div' if k == 'truediv' else 'any')
    tparts = ctx.terms(x.parts)
    ty = ctx.term(y0)
    with np.errstate(all='ignore'):
        if inplace:
            res = getattr(x, '__i%s__' % k)(y0)
        elif k.startswith('r'):
            import operator
            f = {'radd': operator.add, 'rsub': operator.sub, 'rmul': operator.mul, 'rtruediv': operator.truediv}[k]
            # `y0 + x` with y0 itself a product element never reaches x.__radd__ (same Python type):
            # call the reflected method directly in that case
            res = getattr(x, '__%s__' % k)(y0) if child[0] == 'P' else f(y0, x)
        else:
            res = getattr(x, '__%s__' % k)(y0)
    ttmps = 'ENil' if inplace else ctx.terms(res.parts, True)
    if inplace:
        assert all(a is b for a, b in zip(leaf_tensors(res), leaf_tensors(x)))
    real_ids = [j for j, o in enumerate(ctx.objs) if o is not None]
    final = [(np.asarray(o.data) if o is not None else ctx.init[j]) for j, o in enumerate(ctx.objs)]
    term = ('mkW %s %s %s (WBcast %s %s %s %s %s %s) [%s] %s [%s] 0'
            % (coq_space(recipe), '[' + '; '.join(ctx.bdt) + ']',
               '[' + '; '.join('(%s, %s)' % (C.b(cf), C.b(ff)) for cf, ff in ctx.flags) + ']',
               C.b(inplace), BK[k], coq_space(child), tparts, ty, ttmps,
               '; '.join(compress(carrier, a) for a in ctx.init),
               '[' + '; '.join('%d' % j for j in real_ids) + ']%nat',
               '; '.join(compress(carrier, a) for a in final)))
    desc = {'op': 'bcast_' + ('i' if inplace else '') + k, 'space': repr(recipe), 'poison': poison,
            'shape': [max(int(np.prod(l[2])) for l in leaves)]}
    return term, desc, ('bcast', k, inplace, repr(child), n, poison), carrier, tol


OPS = ['lincomb2', 'lincomb1', 'multiply', 'divide', 'assign', 'set_zero', 'copy',
       'iadd', 'isub', 'imul', 'itruediv', 'add', 'sub', 'mul', 'truediv', 'rsub', 'rtruediv',
       'iadd_s', 'isub_s', 'imul_s', 'itruediv_s', 'add_s', 'radd_s', 'sub_s', 'rsub_s', 'mul_s', 'rmul_s',
       'truediv_s', 'rtruediv_s', 'neg', 'pos', 'ipow', 'ipow_neg',
       'add_arr', 'iadd_arr', 'sub_arr', 'rsub_arr', 'mul_arr', 'imul_arr', 'truediv_arr',
       'el_lincomb', 'multiply_noout', 'divide_noout', 'el_multiply', 'el_divide', 'pow', 'lincomb_noout']
DATA_DUNDERS = ['__add__', '__radd__', '__iadd__', '__sub__', '__rsub__', '__isub__', '__mul__', '__rmul__', '__imul__',
                '__truediv__', '__rtruediv__', '__itruediv__']
DATA_OPS = ['data:%s:%s' % (d, k) for d in DATA_DUNDERS for k in ('list', 'tuple', 'ndarray')]


def rand_recipe(rng, base, depth):
    dts = {'real': ['float64', 'float64', 'float32'], 'cx': ['complex128', 'complex64'],
           'int': ['int64', 'int32'], 'mixed': ['float64', 'int64']}[base]
    if depth == 0 or rng.random() < 0.3:
        kind = rng.choice(['T', 'T', 'D'])
        shape = rng.choice([(1,), (2,), (3,), (5,), (2, 3), (100,), (10, 12), (3, 4, 2)])
        return (kind, rng.choice(dts), shape)
    n = rng.randint(1, 3)
    if rng.random() < 0.4:       # power space
        c = rand_recipe(rng, base, depth - 1)
        return ('P', [c] * n)
    return ('P', [rand_recipe(rng, base, depth - 1) for _ in range(n)])


def space_cases(rng, tier, S):
    quick = tier == 'quick'
    fixed = [('T', 'float64', (3,)), ('T', 'float64', (100,)), ('D', 'float64', (4, 5)), ('D', 'float64', (10, 10)),
             ('T', 'complex128', (3,)), ('D', 'complex128', (101,)), ('T', 'int64', (4,)), ('T', 'int32', (150,)),
             ('T', 'float32', (6,)), ('T', '>f8', (5,)), ('D', '>f8', (101,)), ('T', '>i4', (4,)),
             ('P', [('T', '>f8', (3,)), ('T', 'float64', (2,))]),
             ('P', [('T', 'float64', (3,)), ('T', 'float64', (2,))]),
             ('P', [('T', 'float64', (3,))] * 3),
             ('P', [('P', [('D', 'float64', (2, 2)), ('T', 'float64', (100,))]), ('T', 'float64', (4,))]),
             ('P', [('P', [('T', 'complex128', (2,))] * 2)] * 2),
             ('P', [('T', 'float64', (3,)), ('T', 'int64', (3,))]),
             ('P', [('T', 'int64', (3,))] * 2),
             ('P', [('T', 'float64', (1,))])]
    nrand = 4 if quick else 36
    recipes = list(fixed)
    for _ in range(nrand):
        recipes.append(rand_recipe(rng, rng.choice(['real', 'real', 'cx', 'int', 'mixed']), rng.randint(1, 3)))
    reps = 1 if quick else 3
    for r in recipes:
        bases = set(DT[l[1]][0] for l in leaf_recipes(r))
        for op in OPS:
            if op == 'ipow_neg' and 'int' in bases:
                continue            # integers to negative powers raise (not an arithmetic result)
            for _ in range(reps):
                S.put('sp', 'x', space_case(rng, r, op), CHECKW, 'caseW %s')
        if 'int' not in bases:
            for op in (OPS if not quick else rng.sample(OPS, 14)):
                S.put('sp', 'x', space_case(rng, r, op, poison=True), CHECKW, 'caseW %s')
    # every binary operator (out-of-place, reflected, in-place) with the other operand given as plain data:
    # nested list, nested tuple, ndarray (list of ndarrays for product spaces) -- the array-like fallback
    # branches of the overloads (wrap with space.element, re-dispatch)
    data_recipes = [('T', 'float64', (3,)), ('T', 'float64', (2, 3)), ('D', 'float64', (4,)), ('D', 'float64', (3, 2)),
                    ('T', 'complex128', (3,)), ('T', 'int64', (3,)), ('T', 'float64', (100,)),
                    ('P', [('T', 'float64', (3,)), ('D', 'float64', (2,))]),
                    ('P', [('T', 'float64', (2,))] * 3),
                    ('P', [('P', [('T', 'float64', (2,)), ('D', 'float64', (2, 2))]), ('T', 'float64', (3,))])]
    if not quick:
        data_recipes += [rand_recipe(rng, rng.choice(['real', 'cx', 'mixed']), rng.randint(1, 3)) for _ in range(12)]
    for r in data_recipes:
        for op in DATA_OPS:
            S.put('sp', 'x', space_case(rng, r, op), CHECKW, 'caseW %s')
    for r in data_recipes[:5] + data_recipes[7:10]:
        for op in rng.sample(DATA_OPS, 8 if quick else 24):
            S.put('sp', 'x', space_case(rng, r, op, poison=True), CHECKW, 'caseW %s')
    # zeros / inf / nan in operands of the multiply / divide family (IEEE result at every entry,
    # non-finite = None at the poisoned carrier), old contents of explicit outputs NaN or finite
    for r in [rc for rc in recipes if 'int' not in set(DT[l[1]][0] for l in leaf_recipes(rc))][:(14 if quick else 40)]:
        for op in SPECIAL_OPS:
            for _ in range(1 if quick else 2):
                S.put('sp', 'x', space_case(rng, r, op, poison=True, special=True), CHECKW, 'caseW %s')
    # power-space broadcasting
    children = [('T', 'float64', (3,)), ('D', 'float64', (2, 3)), ('T', 'complex128', (2,)), ('T', 'float64', (100,)),
                ('P', [('T', 'float64', (2,)), ('D', 'float64', (3,))])]
    for child in children:
        for n in ([1, 3] if quick else [1, 2, 3, 4]):
            for k in BK:
                S.put('sp', 'x', bcast_case(rng, child, n, k, False), CHECKW, 'caseW %s')
                if not k.startswith('r'):
                    S.put('sp', 'x', bcast_case(rng, child, n, k, True), CHECKW, 'caseW %s')
            S.put('sp', 'x', bcast_case(rng, child, n, rng.choice(sorted(BK)), False, poison=True), CHECKW, 'caseW %s')
    # a few large leaves (BLAS regime through the public API)
    for r in [('D', 'float64', (50000,)), ('P', [('T', 'float64', (50001,)), ('T', 'float64', (3,))])]:
        for op in (['lincomb2', 'iadd', 'add_s', 'rsub_s', 'imul_s', 'assign'] if quick else OPS):
            S.put('sp', 'x', space_case(rng, r, op), CHECKW, 'caseW %s')


# ------------------------------------------------------------------ framework entry points
def translate():
    return {'Gen/Lincomb.v': TL.translate(), 'Gen/SpaceOps.v': TS.translate()}


_COV = {}


def extra_coverage():
    return {'operator_line_coverage_during_correspondence': dict(_COV)}


def _traced_functions():
    from odl.set.space import LinearSpace, LinearSpaceElement as E
    from odl.space import pspace, npy_tensors
    fs = [LinearSpace.lincomb, LinearSpace.multiply, LinearSpace.divide, npy_tensors._lincomb_impl,
          npy_tensors._blas_is_applicable, pspace.ProductSpaceElement.__add__]
    for nm in ('assign', 'copy', 'set_zero', 'lincomb', 'multiply', 'divide', '__iadd__', '__add__', '__radd__', '__isub__',
               '__sub__', '__rsub__', '__imul__', '__mul__', '__rmul__', '__itruediv__', '__truediv__', '__rtruediv__',
               '__ipow__', '__pow__', '__neg__', '__pos__'):
        fs.append(getattr(E, nm))
    return fs


def correspondence(rng, tier):
    with C.LineTrace(_traced_functions()) as lt:
        res = _correspondence(rng, tier)
    _COV.clear()
    _COV.update(lt.report())
    return res


def _correspondence(rng, tier):
    S = Sets()
    lincomb_cases(rng, tier, S)
    space_cases(rng, tier, S)
    return S.all()


# ------------------------------------------------------------------ probes: the property itself
def _np_rng(seed):
    return np.random.RandomState(seed)


def _vals(rs, shape, dtype, lo=-6, hi=6, nonzero=False):
    v = rs.randint(lo, hi + 1, size=shape).astype(float)
    if nonzero:
        v = np.where(v == 0, 2.0, v)
    if np.dtype(dtype).kind == 'c':
        v = v + 1j * rs.randint(-3, 4, size=shape)
    return v


def _close(got, want, dtype):
    k = np.dtype(dtype)
    if k.kind in 'iu':
        return bool(np.array_equal(got, want))
    rtol = {2: 1e-2, 4: 1e-5, 8: 1e-12, 16: 1e-12}[k.itemsize if k.kind == 'f' else k.itemsize // 2]
    return bool(np.allclose(got, want, rtol=rtol, atol=rtol, equal_nan=False)) and bool(np.all(np.isfinite(got)))


def oracle(kind, **p):
    """Evaluate the property on the real implementation; returns (ok, observed, expected).
    Self-contained and deterministic in its parameters (used by the replay snippets)."""
    import odl
    rs = _np_rng(p.get('seed', 0))
    with np.errstate(all='ignore'):
        if kind == 'lincomb':
            dtype, shape = p['dtype'], tuple(p['shape'])
            space = odl.tensor_space(shape, dtype=dtype)
            ix1, ix2, iout = ALIAS[p['alias']]
            els = []
            for k in range(3):
                arr = with_layout(_vals(rs, shape, dtype), dtype, p['layouts'][k])
                if p.get('nan_out') and k == iout and iout not in (ix1, ix2):
                    arr[...] = np.nan
                els.append(space.element(arr))
            before = [np.array(e.data, copy=True) for e in els]
            a, b = p['a'], p['b']
            wide = complex if np.dtype(dtype).kind == 'c' else float
            want = a * before[ix1].astype(wide) + b * before[ix2].astype(wide)     # independent, entry-wise
            res = space.lincomb(a, els[ix1], b, els[ix2], out=els[iout])
            got = np.asarray(els[iout].data)
            ok = res is els[iout] and _close(got, want.astype(dtype) if np.dtype(dtype).kind in 'iu' else want, dtype)
            for k in range(3):
                if k != iout and els[k].data.tobytes() != before[k].tobytes():
                    ok = False
            return ok, got.ravel()[:8].tolist(), want.ravel()[:8].tolist()
        if kind == 'lincomb_sp':
            import random as _r
            prng = _r.Random(p['seed'])
            recipe = p['recipe']
            space = mk_space(recipe)
            els = [mk_element(prng, recipe, 'any', layout=p['layouts'][k]) for k in range(3)]
            ix1, ix2, iout = ALIAS[p['alias']]
            if p.get('nan_out') and iout not in (ix1, ix2):
                for t in leaf_tensors(els[iout]):
                    t.data[...] = np.nan
            before = [[np.array(t.data, copy=True) for t in leaf_tensors(e)] for e in els]
            a, b = p['a'], p['b']
            res = space.lincomb(a, els[ix1], b, els[ix2], out=els[iout])
            ok = res is els[iout]
            obs = exp = None
            for k, t in enumerate(leaf_tensors(els[iout])):
                want = a * before[ix1][k] + b * before[ix2][k]
                got = np.asarray(t.data)
                if not _close(got, want, got.dtype):
                    ok = False
                    obs, exp = got.ravel()[:6].tolist(), np.asarray(want).ravel()[:6].tolist()
            for j in range(3):
                if j != iout:
                    for t, u in zip(leaf_tensors(els[j]), before[j]):
                        if not np.array_equal(np.asarray(t.data), u):
                            ok = False
            return ok, obs, exp
        if kind == 'special':
            # multiply / divide family with exact zeros, inf, nan: IEEE result at EVERY entry (inf and nan
            # positions included); explicit outputs pre-filled with NaN or a finite sentinel
            import random as _r
            prng = _r.Random(p['seed'])
            recipe, op = p['recipe'], p['op']
            space = mk_space(recipe)
            x = mk_element(prng, recipe, 'any'); y = x if p.get('same') else mk_element(prng, recipe, 'any')
            z = mk_element(prng, recipe, 'any')
            inject(prng, x, [0.0, np.inf, -np.inf, np.nan, 0.0, 1.0])
            if y is not x:
                inject(prng, y, [0.0, 0.0, np.inf, np.nan, 2.0])
            for t in leaf_tensors(z):
                t.data[...] = np.nan if p['fill'] == 'nan' else 7.0
            lx = [np.array(t.data, copy=True) for t in leaf_tensors(x)]
            ly = [np.array(t.data, copy=True) for t in leaf_tensors(y)]
            c = p.get('c', 2.0)
            f = {'truediv': lambda u, v: u / v, 'itruediv': lambda u, v: u / v, 'rtruediv_s': lambda u, v: c / u,
                 'mul': lambda u, v: v * u, 'imul': lambda u, v: v * u, 'divide_out': lambda u, v: u / v,
                 'multiply_out': lambda u, v: u * v, 'divide_out_x2': lambda u, v: u / v,
                 'divide_out_x1': lambda u, v: u / v, 'truediv_s': lambda u, v: u / c}[op]
            want = [f(u, v) for u, v in zip(lx, ly)]
            g = {'truediv': lambda: x / y, 'itruediv': lambda: x.__itruediv__(y), 'rtruediv_s': lambda: c / x,
                 'mul': lambda: x * y, 'imul': lambda: x.__imul__(y),
                 'divide_out': lambda: space.divide(x, y, out=z), 'multiply_out': lambda: space.multiply(x, y, out=z),
                 'divide_out_x2': lambda: space.divide(x, y, out=y), 'divide_out_x1': lambda: space.divide(x, y, out=x),
                 'truediv_s': lambda: x / c}[op]
            res = g()
            got = [np.asarray(t.data) for t in leaf_tensors(res)]
            ok = len(got) == len(want) and all(
                np.allclose(gv, wv, rtol=1e-6, atol=0, equal_nan=True) and np.array_equal(np.isnan(gv), np.isnan(wv))
                and np.array_equal(np.isinf(gv), np.isinf(wv)) for gv, wv in zip(got, want))
            if res is not x and op not in ('itruediv', 'imul', 'divide_out_x1'):
                ok = ok and all(np.array_equal(t.data, u, equal_nan=True) for t, u in zip(leaf_tensors(x), lx))
            if res is not y and y is not x and op != 'divide_out_x2':
                ok = ok and all(np.array_equal(t.data, v, equal_nan=True) for t, v in zip(leaf_tensors(y), ly))
            return ok, [gv.ravel()[:5].tolist() for gv in got][:2], [np.asarray(wv).ravel()[:5].tolist() for wv in want][:2]
        if kind == 'int_exact':
            # integer spaces with magnitudes beyond 2**53: compared exactly with Python integers
            import random as _r
            prng = _r.Random(p['seed'])
            dtype, n, op = p['dtype'], p['n'], p['op']
            lo = 0 if dtype.startswith('u') else -(2 ** 60)

            def big():
                return [prng.choice([prng.randint(lo, 2 ** 60), 2 ** 53 + prng.randint(1, 99), 2 ** 60 + 1,
                                     prng.randint(lo // 2 ** 6, 2 ** 54), prng.randint(0, 9)]) for _ in range(n)]
            sk = p.get('space', 'tensor')
            if sk == 'tensor':
                space = odl.tensor_space(n, dtype=dtype); mk = lambda v: space.element(np.array(v, dtype=dtype))
                val = lambda e: [int(t) for t in e.data]
            elif sk == 'discr':
                space = odl.uniform_discr(0, 1, n, dtype=dtype); mk = lambda v: space.element(np.array(v, dtype=dtype))
                val = lambda e: [int(t) for t in e.tensor.data]
            else:
                base_ = odl.tensor_space(n, dtype=dtype); space = odl.ProductSpace(base_, 2)
                mk = lambda v: space.element([np.array(v, dtype=dtype), np.array(v[::-1], dtype=dtype)])
                val = lambda e: [int(t) for part in e for t in part.data]
            vx, vy, vz = big(), big(), big()
            els = [mk(vx), mk(vy), mk(vz)]
            pv = [val(e) for e in els]
            k = p.get('c', 2)
            md = 2 ** 64 if dtype.startswith('u') else 0      # unsigned arithmetic is modulo 2**64
            if op == 'lincomb':
                ix1, ix2, iout = ALIAS[p['alias']]
                a, b = p['a'], p['b']
                want = [(a * u + b * v) % md if md else a * u + b * v for u, v in zip(pv[ix1], pv[ix2])]
                res = space.lincomb(a, els[ix1], b, els[ix2], out=els[iout])
                ok = val(res) == want
                for j in range(3):
                    if j != iout:
                        ok = ok and val(els[j]) == pv[j]
                return ok, val(res)[:4], want[:4]
            x, y = els[0], (els[0] if p.get('same') else els[1])
            px, py = pv[0], (pv[0] if p.get('same') else pv[1])
            table = {
                'add': (lambda: x + y, lambda u, v: u + v), 'sub': (lambda: x - y, lambda u, v: u - v),
                'iadd': (lambda: x.__iadd__(y), lambda u, v: u + v), 'isub': (lambda: x.__isub__(y), lambda u, v: u - v),
                'neg': (lambda: -x, lambda u, v: -u), 'pos': (lambda: +x, lambda u, v: u),
                'copy': (lambda: x.copy(), lambda u, v: u), 'assign': (lambda: x.assign(y), lambda u, v: v),
                'mul_s': (lambda: x * k, lambda u, v: u * k), 'rmul_s': (lambda: k * x, lambda u, v: u * k),
                'imul_s': (lambda: x.__imul__(k), lambda u, v: u * k),
                'add_s': (lambda: x + k, lambda u, v: u + k), 'rsub_s': (lambda: k - x, lambda u, v: k - u),
                'sub_s': (lambda: x - k, lambda u, v: u - k), 'iadd_s': (lambda: x.__iadd__(k), lambda u, v: u + k),
                'rsub': (lambda: x.__rsub__(y), lambda u, v: v - u), 'lincomb1': (lambda: space.lincomb(k, x), lambda u, v: k * u),
            }
            run, fn = table[op]
            want = [fn(u, v) % md if md else fn(u, v) for u, v in zip(px, py)]
            res = run()
            got = val(res)
            ok = got == want
            if y is not x and op != 'assign':
                ok = ok and val(y) == py
            return ok, got[:4], want[:4]
        if kind == 'data_op':
            # binary operator with the other operand given as plain data (nested list / tuple / ndarray):
            # entry-wise NumPy result on copies; in-place returns self; the data object is not modified
            import random as _r, operator as _o, copy as _c
            prng = _r.Random(p['seed'])
            recipe, dn, dk = p['recipe'], p['dunder'], p['data']
            x = mk_element(prng, recipe, 'div' if dn == '__rtruediv__' else 'any')
            y = mk_element(prng, recipe, 'div' if dn in ('__truediv__', '__itruediv__') else 'any')

            def as_data(el):
                if _is_pse(el):
                    parts = [as_data(pp) for pp in el.parts]
                    return tuple(parts) if dk == 'tuple' else parts
                arr_ = np.array(np.asarray(el), copy=True)
                if dk == 'ndarray':
                    return arr_
                if dk == 'tuple':
                    return tuple(arr_.tolist()) if arr_.ndim == 1 else tuple(map(tuple, arr_.reshape(arr_.shape[0], -1).tolist())) \
                        if arr_.ndim == 2 else arr_.tolist()
                return arr_.tolist()
            data = as_data(y)
            keep = _c.deepcopy(data)
            lx = [np.array(t.data, copy=True) for t in leaf_tensors(x)]
            ly = [np.array(t.data, copy=True) for t in leaf_tensors(y)]
            f = {'add': lambda u, v: u + v, 'sub': lambda u, v: u - v, 'rsub': lambda u, v: v - u, 'mul': lambda u, v: u * v,
                 'truediv': lambda u, v: u / v, 'rtruediv': lambda u, v: v / u}[dn.strip('_').lstrip('i') if dn not in ('__radd__', '__rmul__', '__rsub__', '__rtruediv__', '__isub__', '__imul__', '__iadd__', '__itruediv__') else
                                                                                {'__radd__': 'add', '__rmul__': 'mul', '__rsub__': 'rsub', '__rtruediv__': 'rtruediv', '__isub__': 'sub', '__imul__': 'mul', '__iadd__': 'add', '__itruediv__': 'truediv'}[dn]]
            want = [f(u, v) for u, v in zip(lx, ly)]
            natural = dk != 'ndarray'
            call = {'__add__': lambda: x + data, '__sub__': lambda: x - data, '__mul__': lambda: x * data,
                    '__truediv__': lambda: x / data, '__iadd__': lambda: _o.iadd(x, data), '__isub__': lambda: _o.isub(x, data),
                    '__imul__': lambda: _o.imul(x, data), '__itruediv__': lambda: _o.itruediv(x, data),
                    '__radd__': (lambda: data + x) if natural else (lambda: x.__radd__(data)),
                    '__rsub__': (lambda: data - x) if natural else (lambda: x.__rsub__(data)),
                    '__rmul__': (lambda: data * x) if natural else (lambda: x.__rmul__(data)),
                    '__rtruediv__': (lambda: data / x) if natural else (lambda: x.__rtruediv__(data))}[dn]
            res = call()
            got = [np.asarray(t.data) for t in leaf_tensors(res)]
            ok = len(got) == len(want) and all(_close(gv, wv, gv.dtype) for gv, wv in zip(got, want))
            if dn.startswith('__i'):
                ok = ok and res is x
            else:
                ok = ok and res is not x and all(np.array_equal(t.data, u) for t, u in zip(leaf_tensors(x), lx))

            def same_data(a_, b_):
                if isinstance(a_, np.ndarray):
                    return np.array_equal(a_, b_)
                if isinstance(a_, (list, tuple)):
                    return type(a_) is type(b_) and len(a_) == len(b_) and all(same_data(u, v) for u, v in zip(a_, b_))
                return a_ == b_
            ok = ok and same_data(data, keep)
            return ok, [gv.ravel()[:4].tolist() for gv in got][:3], [np.asarray(wv).ravel()[:4].tolist() for wv in want][:3]
        if kind == 'reject':
            # operands from another space are rejected with an exception and nothing is modified
            import random as _r
            prng = _r.Random(p['seed'])
            r1, r2, op = p['recipe'], p['other'], p['op']
            x = mk_element(prng, r1, 'any'); y = mk_element(prng, r2, 'any'); z = mk_element(prng, r1, 'any')
            lx = [np.array(t.data, copy=True) for t in leaf_tensors(x)]
            ly = [np.array(t.data, copy=True) for t in leaf_tensors(y)]
            lz = [np.array(t.data, copy=True) for t in leaf_tensors(z)]
            space = x.space
            g = {'add': lambda: x + y, 'iadd': lambda: x.__iadd__(y), 'sub': lambda: x - y, 'mul': lambda: x * y,
                 'imul': lambda: x.__imul__(y), 'truediv': lambda: x / y, 'assign': lambda: x.assign(y),
                 'lincomb_x2': lambda: space.lincomb(1, x, 2, y, out=z), 'lincomb_out': lambda: space.lincomb(1, x, 2, z, out=y),
                 'lincomb_x1': lambda: space.lincomb(1, y, 2, x, out=z), 'multiply': lambda: space.multiply(x, y, out=z),
                 'divide_out': lambda: space.divide(x, z, out=y)}[op]
            try:
                g()
                ok, obs = False, 'returned'
            except (TypeError, ValueError) as e:
                ok, obs = True, type(e).__name__
            same = all(np.array_equal(t.data, u) for e_, l_ in ((x, lx), (y, ly), (z, lz)) for t, u in zip(leaf_tensors(e_), l_))
            return ok and same, obs, 'TypeError/LinearSpaceTypeError, operands untouched'
        if kind == 'set_zero':
            space = odl.tensor_space(p['n'], dtype=p['dtype']) if p.get('space', 'tensor') == 'tensor' else \
                odl.uniform_discr(0, 1, p['n'], dtype=p['dtype'])
            y = space.element(np.full(p['n'], {'nan': np.nan, 'inf': np.inf}[p['fill']]))
            y.set_zero()
            got = np.asarray(y)
            return bool(np.all(got == 0)), got[:4].tolist(), [0.0] * min(4, p['n'])
        if kind == 'inf':
            n, op = p['n'], p['op']
            if op == 'pspace_copy':
                space = odl.ProductSpace(odl.rn(n), 2)
                x = space.element([np.r_[np.inf, np.ones(n - 1)], np.ones(n)])
                got = np.asarray(x.copy()[0])
                want = np.asarray(x[0])
            else:
                space = odl.rn(n)
                x = space.element(np.r_[np.inf, -np.inf, np.ones(n - 2)])
                want = np.array(x.data, copy=True)
                if op == 'assign':
                    y = space.zero(); y.assign(x); got = np.asarray(y)
                elif op == 'mul_scalar':
                    got = np.asarray(x * 2.0); want = want * 2.0
                elif op == 'imul_scalar':
                    x *= 2.0; got = np.asarray(x); want = want * 2.0
                elif op == 'lincomb_b0':
                    y = space.one(); z = space.element()
                    space.lincomb(1.0, x, 0.0, y, out=z); got = np.asarray(z)
                elif op == 'neg':
                    got = np.asarray(-x); want = -want
                else:
                    raise ValueError(op)
            return bool(np.array_equal(got, want)), got[:4].tolist(), want[:4].tolist()
        if kind == 'int_scalar':
            space = odl.tensor_space(p['n'], dtype=p['dtype'])
            arr = rs.randint(-6, 7, size=p['n'])
            x = space.element(arr)
            got = np.asarray(x * p['c']) if p['op'] == 'mul' else np.asarray(x / p['c'])
            want = arr * p['c'] if p['op'] == 'mul' else arr / p['c']
            return bool(np.array_equal(got, want)), got[:6].tolist(), want[:6].tolist()
        if kind == 'int_truediv':
            space = odl.tensor_space(p['n'], dtype=p['dtype'])
            x = space.element(rs.randint(1, 7, size=p['n']) * 4)
            y = space.element(np.full(p['n'], 2))
            try:
                got = np.asarray(x / y)
            except TypeError as e:
                return False, 'raises ' + type(e).__name__, (np.asarray(x) / 2).tolist()[:6]
            want = np.asarray(x) / 2
            return bool(np.array_equal(got, want)), got[:6].tolist(), want[:6].tolist()
        if kind == 'op':
            recipe, op = p['recipe'], p['op']
            import random as _r
            prng = _r.Random(p['seed'])
            space = mk_space(recipe)
            divk = 'div' if op in ('truediv', 'itruediv', 'rtruediv_s') else ('pow' if op in ('ipow', 'pow') else 'any')
            lays = p.get('layouts') or (None, None)
            x = mk_element(prng, recipe, 'div' if op == 'rtruediv_s' else ('pow' if divk == 'pow' else 'any'), layout=lays[0])
            y = x if p.get('same') else mk_element(prng, recipe, divk, layout=lays[1])
            if p.get('same') and divk == 'div':
                x = y = mk_element(prng, recipe, 'div')
            c = p.get('c', 2)
            lx = [np.array(t.data, copy=True) for t in leaf_tensors(x)]
            ly = [np.array(t.data, copy=True) for t in leaf_tensors(y)]
            f = {'add': lambda u, v: u + v, 'sub': lambda u, v: u - v, 'mul': lambda u, v: u * v,
                 'truediv': lambda u, v: u / v, 'iadd': lambda u, v: u + v, 'isub': lambda u, v: u - v,
                 'imul': lambda u, v: u * v, 'itruediv': lambda u, v: u / v,
                 'add_s': lambda u, v: u + c, 'radd_s': lambda u, v: c + u, 'sub_s': lambda u, v: u - c,
                 'rsub_s': lambda u, v: c - u, 'mul_s': lambda u, v: u * c, 'rmul_s': lambda u, v: c * u,
                 'truediv_s': lambda u, v: u / c, 'rtruediv_s': lambda u, v: c / u,
                 'iadd_s': lambda u, v: u + c, 'isub_s': lambda u, v: u - c, 'imul_s': lambda u, v: u * c,
                 'itruediv_s': lambda u, v: u / c, 'neg': lambda u, v: -u, 'pos': lambda u, v: +u,
                 'copy': lambda u, v: u, 'assign': lambda u, v: v, 'ipow': lambda u, v: u ** c,
                 'pow': lambda u, v: u ** c, 'zero': lambda u, v: 0 * u, 'one': lambda u, v: 0 * u + 1}[op]
            want = [f(u, v) for u, v in zip(lx, ly)]
            inplace = op.startswith('i') or op == 'assign'
            g = {'add': lambda: x + y, 'sub': lambda: x - y, 'mul': lambda: x * y, 'truediv': lambda: x / y,
                 'iadd': lambda: x.__iadd__(y), 'isub': lambda: x.__isub__(y), 'imul': lambda: x.__imul__(y),
                 'itruediv': lambda: x.__itruediv__(y), 'add_s': lambda: x + c, 'radd_s': lambda: c + x,
                 'sub_s': lambda: x - c, 'rsub_s': lambda: c - x, 'mul_s': lambda: x * c, 'rmul_s': lambda: c * x,
                 'truediv_s': lambda: x / c, 'rtruediv_s': lambda: c / x, 'iadd_s': lambda: x.__iadd__(c),
                 'isub_s': lambda: x.__isub__(c), 'imul_s': lambda: x.__imul__(c), 'itruediv_s': lambda: x.__itruediv__(c),
                 'neg': lambda: -x, 'pos': lambda: +x, 'copy': lambda: x.copy(), 'assign': lambda: x.assign(y),
                 'ipow': lambda: x.__ipow__(c), 'pow': lambda: x ** c, 'zero': lambda: space.zero(),
                 'one': lambda: space.one()}[op]
            res = g()
            got = [np.asarray(t.data) for t in leaf_tensors(res)]
            ok = all(_close(gv, wv, gv.dtype) for gv, wv in zip(got, want)) and len(got) == len(want)
            if inplace and not all(a_ is b_ for a_, b_ in zip(leaf_tensors(res), leaf_tensors(x))):
                ok = False
            if not inplace:      # operands untouched (bit patterns)
                ok = ok and all(t.data.tobytes() == u.tobytes() for t, u in zip(leaf_tensors(x), lx))
                if res is x or any(a_ is b_ for a_, b_ in zip(leaf_tensors(res), leaf_tensors(x))):
                    ok = False
            if y is not x:
                ok = ok and all(t.data.tobytes() == v.tobytes() for t, v in zip(leaf_tensors(y), ly))
            return ok, [gv.ravel()[:4].tolist() for gv in got][:3], [np.asarray(wv).ravel()[:4].tolist() for wv in want][:3]
    raise ValueError(kind)


def _probe(out, key, what, kind, **params):
    try:
        ok, obs, exp = oracle(kind, **params)
        detail = {'observed': obs, 'expected': exp}
    except Exception as e:           # an exception where a result is due is a failure of the property
        ok, detail = False, {'raised': '%s: %s' % (type(e).__name__, str(e)[:200])}
    replay = ("import sys\nsys.path.insert(0, %r)\nfrom harness.c01 import oracle\n"
              "ok, observed, expected = oracle(%r, **%r)\n" % (C.VERIF, kind, params))
    out.append(C.Probe(bool(ok), key, what, replay, detail))


LARGE_DTYPES = ['float64', 'float32', 'float16', 'float128', 'complex128', 'complex64', '>f8', '>f4', '>f2', '<f8']


def _spacekind(recipe):
    if recipe[0] == 'T':
        return 'tensor-' + DT[recipe[1]][0]
    if recipe[0] == 'D':
        return 'discr-' + DT[recipe[1]][0]
    nested = any(c[0] == 'P' for c in recipe[1])
    return 'pspace-nested' if nested else 'pspace'


def _large_family(out, rng, quick, full=False):
    """>= 50000 entries with every layout / dtype for which BLAS is or is not applicable (whole array compared
    against a*x1+b*x2 on copies; old out NaN-filled when it is not an operand).  The dtype list includes the
    legal exotic ones: float16, longdouble, non-native byte order ('>f8', '>f4', '>f2'), explicit '<f8'."""
    big_shapes = [((50000,), ['CCC', 'SSS', 'SCC', 'CSC', 'CCS']), ((50001,), ['CCC', 'CCS']),
                  ((250, 200), ['CCC', 'FFF', 'CFC', 'FCF', 'CCF', 'FFC', 'SFF', 'CCS', 'FFS'])]
    for dtype in LARGE_DTYPES:
        base, fl, bdt, tol = DT[str(np.dtype(dtype))]
        pairs = [pr for pr in (CX_PAIRS if base == 'cx' else REAL_PAIRS)]
        swapped = dtype in ('>f8', '>f4', '>f2', '<f8', 'float16', 'float128')
        for shape, lays in big_shapes:
            if swapped and quick and not full:
                lays = lays[:1] + lays[-1:]
            for lay in lays:
                for alias in ALIAS:
                    for nan_out in ((False, True) if alias in ('distinct', 'x1_is_x2') else (False,)):
                        a, b = rng.choice([pr for pr in pairs if pr[0] != 0 and pr[1] != 0] if swapped else pairs)
                        kind = 'blas-ok' if (bdt and set(lay) in ({'C'}, {'F'})) else 'blas-not-applicable'
                        _probe(out, 'lincomb-large-%s-%s-%s-%s%s' % (kind, lay, alias, dtype, '-nan-out' if nan_out else ''),
                               'space.lincomb(%r, x1, %r, x2, out) on %s%r layouts %s, alias %s (whole array vs a*x1+b*x2 on copies)'
                               % (a, b, dtype, shape, lay, alias),
                               'lincomb', dtype=dtype, shape=list(shape), layouts=lay, alias=alias, a=a, b=b,
                               seed=rng.randint(0, 10 ** 6), nan_out=nan_out)
    # big-endian integers go through the direct regime at every size
    for dtype in ('>i4', '>i8'):
        for shape in ((50000,), (120,)):
            for alias in ALIAS:
                a, b = rng.choice([(1, 1), (2, -1), (-1, 3)])
                _probe(out, 'lincomb-large-int-%s-%s' % (alias, dtype),
                       'space.lincomb(%r, x1, %r, x2, out) on %s%r, alias %s' % (a, b, dtype, shape, alias),
                       'lincomb', dtype=dtype, shape=list(shape), layouts='CCC', alias=alias, a=a, b=b,
                       seed=rng.randint(0, 10 ** 6), nan_out=False)


def _nd_family(out, rng, quick):
    """N-d shapes with every combination of {long, short} first / last axis around the two thresholds: `size`
    must be the number of entries (not len() = the first axis) for the dispatch and for the BLAS vector length."""
    shapes = [(60000, 2), (2, 60000), (50000, 1), (1, 50000), (250, 200), (200, 250), (100, 1), (1, 100), (99, 2), (2, 99),
              (50, 2), (49999, 2), (25000, 2, 1)]
    dts = ['float64', 'complex128', 'float32'] if quick else ['float64', 'float32', 'complex128', 'complex64', 'float16', '>f8']
    for dtype in dts:
        base = DT[str(np.dtype(dtype))][0]
        pairs = [pr for pr in (CX_PAIRS if base == 'cx' else REAL_PAIRS) if pr[0] != 0 and pr[1] != 0]
        for shape in shapes:
            for lay in (('CCC', 'FFF') if (quick and dtype != 'float64') else ('CCC', 'FFF', 'CFC', 'FCF')):
                for alias in ALIAS:
                    nan_out = alias in ('distinct', 'x1_is_x2')
                    a, b = rng.choice(pairs)
                    _probe(out, 'lincomb-nd-%s-%s-%s-%s' % ('x'.join(map(str, shape)), lay, alias, dtype),
                           'space.lincomb(%r, x1, %r, x2, out) on %s%r layouts %s, alias %s%s (whole array vs a*x1+b*x2 on copies)'
                           % (a, b, dtype, shape, lay, alias, ', out NaN-filled' if nan_out else ''),
                           'lincomb', dtype=dtype, shape=list(shape), layouts=lay, alias=alias, a=a, b=b,
                           seed=rng.randint(0, 10 ** 6), nan_out=nan_out)


def search(rng, broken):
    """The translator or a proof broke: run the large-array family over the full dtype / layout / alias
    list (and the integer and data-operand families through the thorough probes of the driver) to obtain a
    concrete input on which the property itself fails."""
    known = C.load_findings(PID)
    found = []
    _nd_family(found, rng, quick=False)
    _large_family(found, rng, quick=False, full=True)
    for pr in found:
        if not pr.ok and pr.key not in known:
            return pr
    return None


def probes(rng, tier):
    out = []
    quick = tier == 'quick'
    # 1. lincomb against the entry-wise NumPy result on copies, every regime x alias x scalar class x layout
    shapes = [(3,), (99,), (100,), (3, 40), (4999,), (50000,), (50001,), (250, 200)]
    if not quick:
        shapes += [(1,), (2, 2), (101,), (49999,), (100, 500), (7, 14)]
    for dtype in ['float64', 'float32', 'complex128', 'complex64', 'int64', 'int32']:
        base, fl, bdt, tol = DT[dtype]
        pairs = {'real': REAL_PAIRS, 'cx': CX_PAIRS, 'int': [pr for pr in INT_PAIRS if all(float(v).is_integer() for v in pr)]}[base]
        for shape in shapes:
            n = int(np.prod(shape))
            if n >= 49999 and dtype not in ('float64', 'complex128') and quick:
                continue
            for alias in ALIAS:
                for a, b in rng.sample(pairs, 2 if quick else 5):
                    lay = layout_choice(rng, len(shape), want_blas=(n >= 50000 and rng.random() < 0.6))
                    flags = None
                    reg = 'direct' if (n < 100 or not fl) else ('fallback' if n < 50000 else 'large')
                    nan_out = fl and rng.random() < 0.5
                    _probe(out, 'lincomb-%s-%s-%s%s' % (reg, alias, base, '-nan-out' if nan_out else ''),
                           'space.lincomb(%r, x1, %r, x2, out) on %s%r layouts %s, alias %s vs a*x1+b*x2 on copies; '
                           'other operands bit-identical' % (a, b, dtype, shape, lay, alias),
                           'lincomb', dtype=dtype, shape=list(shape), layouts=lay, alias=alias, a=a, b=b,
                           seed=rng.randint(0, 10 ** 6), nan_out=bool(nan_out))
    _nd_family(out, rng, quick)
    _large_family(out, rng, quick)
    # 1c. integer dtypes around the 100-entry switch, all alias patterns, scalars that use both operands
    for dtype in ('int64', 'int32'):
        for n in (99, 100, 101, 200):
            for alias in ALIAS:
                for a, b in [(1, 1), (2, 3), (1, -1), (-1, 2), (0, 2), (3, 0)]:
                    _probe(out, 'lincomb-int-%d-%s' % (n, alias),
                           'space.lincomb(%r, x1, %r, x2, out) on %s(%d), alias %s' % (a, b, dtype, n, alias),
                           'lincomb', dtype=dtype, shape=[n], layouts='CCC', alias=alias, a=a, b=b,
                           seed=rng.randint(0, 10 ** 6), nan_out=False)
            for op in ('add_s', 'radd_s', 'sub_s', 'rsub_s', 'mul_s', 'iadd_s', 'isub_s', 'add', 'sub', 'iadd', 'isub',
                       'mul', 'imul', 'neg', 'copy', 'assign'):
                _probe(out, 'op-%s-tensor-int-%d' % (op, n), '%s on tensor_space(%d, %s)' % (op, n, dtype),
                       'op', recipe=('T', dtype, (n,)), op=op, same=False, c=rng.choice([2, -3, 1, 5]),
                       seed=rng.randint(0, 10 ** 6))
    # 1d. >= 50000 entries in >= 2 dimensions with elements of different memory order, through
    #     uniform_discr and product-space components
    nd = [('D', 'float64', (250, 200)), ('T', 'float64', (100, 500)), ('D', 'complex128', (250, 200)),
          ('P', [('D', 'float64', (250, 200)), ('T', 'float64', (200, 250))]),
          ('P', [('P', [('T', 'float64', (250, 200))] * 2), ('D', 'float64', (3, 2))])]
    for r in nd:
        for lays in ('CCC', 'FFF', 'CFC', 'FCF', 'CCF', 'FFC', 'CFF'):
            for alias in ALIAS:
                a, b = rng.choice([pr for pr in REAL_PAIRS if pr[0] != 0 and pr[1] != 0])
                _probe(out, 'lincomb-large-nd-%s-%s-%s' % (_spacekind(r), lays, alias),
                       'space.lincomb(%r, x1, %r, x2, out) on %r with element orders %s, alias %s' % (a, b, r, lays, alias),
                       'lincomb_sp', recipe=r, layouts=lays, alias=alias, a=a, b=b, seed=rng.randint(0, 10 ** 6),
                       nan_out=(alias in ('distinct', 'x1_is_x2')))
        for op in ('add', 'sub', 'iadd', 'isub', 'mul', 'imul', 'add_s', 'rsub_s', 'assign', 'copy'):
            for lays in (('C', 'F'), ('F', 'C'), ('F', 'F')):
                _probe(out, 'op-%s-large-nd-%s-%s' % (op, _spacekind(r), ''.join(lays)),
                       '%s on %r, x in %s order, y in %s order' % (op, r, lays[0], lays[1]),
                       'op', recipe=r, op=op, same=False, c=2, seed=rng.randint(0, 10 ** 6), layouts=lays)
    # 1e. multiply / divide family with exact zeros, inf, nan in the operands, outputs pre-filled
    sp_recipes = [('T', 'float64', (5,)), ('T', 'float64', (120,)), ('D', 'float64', (3, 4)), ('T', 'complex128', (4,)),
                  ('P', [('T', 'float64', (3,)), ('D', 'float64', (2, 2))]),
                  ('P', [('P', [('T', 'float64', (2,))] * 2), ('T', 'float32', (3,))])]
    for r in sp_recipes:
        for op in ('truediv', 'itruediv', 'rtruediv_s', 'mul', 'imul', 'divide_out', 'multiply_out',
                   'divide_out_x1', 'divide_out_x2'):
            for fill in ('nan', 'finite'):
                for same in ((False, True) if op in ('truediv', 'itruediv', 'mul', 'imul') else (False,)):
                    for rep in range(1 if quick else 3):
                        _probe(out, 'special-values-%s-%s%s' % (op, _spacekind(r), '-self' if same else ''),
                               '%s on %r with zeros/inf/nan in the operands (old out: %s): IEEE result at every entry'
                               % (op, r, fill), 'special', recipe=r, op=op, fill=fill, same=same, c=rng.choice([2.0, -1.0, 0.5]),
                               seed=rng.randint(0, 10 ** 6))
    # 1f. integer spaces with entries beyond 2**53, exact comparison with Python integers
    for dtype in ('int64', 'uint64'):
        for sk in ('tensor', 'discr', 'pspace'):
            for n in ((3, 120) if (sk == 'tensor' or not quick) else (3,)):
                for alias in ALIAS:
                    for a, b in [(1, 1), (1, -1), (-1, 1), (0, 1), (1, 0), (2, -1)]:
                        neg = (a < 0 or b < 0) and dtype == 'uint64'
                        _probe(out, 'uint64-negative-scalar-inexact' if neg else 'int-exact-lincomb-%s-%s' % (sk, alias),
                               '%s %s(%d): lincomb(%d, x1, %d, x2, out), alias %s, entries up to 2**60, exact' % (sk, dtype, n, a, b, alias),
                               'int_exact', dtype=dtype, n=n, op='lincomb', alias=alias, a=a, b=b, space=sk,
                               seed=rng.randint(0, 10 ** 6))
                for op in ('add', 'sub', 'iadd', 'isub', 'neg', 'pos', 'copy', 'assign', 'mul_s', 'rmul_s', 'imul_s', 'add_s',
                           'rsub_s', 'sub_s', 'iadd_s', 'rsub', 'lincomb1'):
                    for same in ((False, True) if op in ('add', 'sub', 'iadd', 'isub') else (False,)):
                        neg = dtype == 'uint64' and op in ('sub', 'isub', 'neg', 'rsub_s', 'sub_s', 'rsub')
                        _probe(out, 'uint64-negative-scalar-inexact' if neg else 'int-exact-%s-%s' % (op, sk),
                               '%s %s(%d): %s%s with entries up to 2**60, exact' % (sk, dtype, n, op, ' (self)' if same else ''),
                               'int_exact', dtype=dtype, n=n, op=op, same=same, space=sk, c=rng.choice([1, 2, 3]),
                               seed=rng.randint(0, 10 ** 6))
    # 1h. every binary operator with the other operand as plain data (the array-like fallback branches)
    drecipes = [('T', 'float64', (3,)), ('T', 'float64', (2, 3)), ('D', 'float64', (4,)), ('D', 'complex128', (2, 2)),
                ('T', 'float32', (120,)), ('P', [('T', 'float64', (3,)), ('D', 'float64', (2,))]),
                ('P', [('T', 'float64', (2,))] * 3),
                ('P', [('P', [('T', 'float64', (2,)), ('D', 'float64', (2, 2))]), ('T', 'float64', (3,))])]
    if not quick:
        drecipes += [rand_recipe(rng, rng.choice(['real', 'cx']), rng.randint(1, 3)) for _ in range(10)]
    for r in drecipes:
        for dn in DATA_DUNDERS:
            for dk in ('list', 'tuple', 'ndarray'):
                _probe(out, 'data-operand-%s-%s-%s' % (dn.strip('_'), dk, _spacekind(r)),
                       '%s with the other operand given as %s on %r vs NumPy on the leaves' % (dn, dk, r),
                       'data_op', recipe=r, dunder=dn, data=dk, seed=rng.randint(0, 10 ** 6))
    # 1g. operands that are not elements of the space are rejected and nothing is modified
    pairs_r = [(('T', 'float64', (3,)), ('T', 'float64', (4,))), (('T', 'float64', (3,)), ('T', 'float32', (3,))),
               (('T', 'float64', (3,)), ('T', 'complex128', (3,))), (('D', 'float64', (3,)), ('T', 'float64', (3,))),
               (('P', [('T', 'float64', (2,))] * 2), ('P', [('T', 'float64', (2,))] * 3)),
               (('P', [('T', 'float64', (2,)), ('T', 'float64', (3,))]), ('P', [('T', 'float64', (3,)), ('T', 'float64', (2,))]))]
    for r1, r2 in pairs_r:
        for op in ('add', 'iadd', 'sub', 'mul', 'imul', 'truediv', 'assign', 'lincomb_x1', 'lincomb_x2', 'lincomb_out',
                   'multiply', 'divide_out'):
            _probe(out, 'reject-foreign-operand-%s' % op, '%s with an operand of %r in %r raises and modifies nothing' % (op, r2, r1),
                   'reject', recipe=r1, other=r2, op=op, seed=rng.randint(0, 10 ** 6))
    # 2. set_zero() on garbage
    for n in [1, 3, 99, 100, 101, 50000]:
        for fill in ('nan', 'inf'):
            for sk in ('tensor', 'discr'):
                key = 'set_zero-nan-survives-direct' if n < 100 else 'set_zero-garbage-%s' % ('fallback' if n < 50000 else 'blas')
                _probe(out, key, '%s space of %d entries filled with %s: y.set_zero() gives zeros' % (sk, n, fill),
                       'set_zero', n=n, dtype='float64', fill=fill, space=sk)
    # 3. infinite entries are legitimate element values: copy / assign / scaling keep them
    for n in [3, 99, 100, 50000]:
        for op in ['assign', 'mul_scalar', 'imul_scalar', 'lincomb_b0', 'neg', 'pspace_copy']:
            key = 'inf-times-zero-nan-direct' if n < 100 else 'inf-%s-%s' % (op, 'fallback' if n < 50000 else 'blas')
            _probe(out, key, 'rn(%d): %s of an element with +-inf entries keeps them' % (n, op), 'inf', n=n, op=op)
    # 4. integer spaces
    for dtype in ('int64', 'int32'):
        for n in (3, 150):
            for c in (2, -3):
                _probe(out, 'int-integer-scalar', 'tensor_space(%d, %s): x * %r' % (n, dtype, c), 'int_scalar',
                       n=n, dtype=dtype, c=c, op='mul', seed=rng.randint(0, 999))
            _probe(out, 'int-noninteger-scalar-truncates', 'tensor_space(%d, %s): x * 2.5 equals the entry-wise product'
                   % (n, dtype), 'int_scalar', n=n, dtype=dtype, c=2.5, op='mul', seed=rng.randint(0, 999))
            _probe(out, 'int-noninteger-scalar-truncates', 'tensor_space(%d, %s): x / 2 equals the entry-wise quotient'
                   % (n, dtype), 'int_scalar', n=n, dtype=dtype, c=2, op='div', seed=rng.randint(0, 999))
            _probe(out, 'int-truediv-raises', 'tensor_space(%d, %s): x / y returns the entry-wise quotient' % (n, dtype),
                   'int_truediv', n=n, dtype=dtype, seed=rng.randint(0, 999))
    # 5. every operator on every space kind against NumPy on the leaves
    recipes = [('T', 'float64', (3,)), ('T', 'float64', (120,)), ('T', 'complex128', (4,)), ('T', 'float32', (2, 3)),
               ('D', 'float64', (5,)), ('D', 'float64', (10, 11)), ('D', 'complex128', (3, 2)),
               ('P', [('T', 'float64', (3,)), ('D', 'float64', (2, 2))]),
               ('P', [('T', 'float64', (2,))] * 3),
               ('P', [('P', [('T', 'float64', (2,)), ('T', 'float64', (100,))]), ('D', 'float64', (3,))]),
               ('P', [('P', [('P', [('T', 'complex128', (2,))] * 2)] * 2)])]
    if not quick:
        recipes += [rand_recipe(rng, rng.choice(['real', 'cx']), rng.randint(1, 3)) for _ in range(12)]
        recipes += [('D', 'float64', (50000,)), ('T', 'float64', (250, 200))]
    ops = ['add', 'sub', 'mul', 'truediv', 'iadd', 'isub', 'imul', 'itruediv', 'add_s', 'radd_s', 'sub_s', 'rsub_s',
           'mul_s', 'rmul_s', 'truediv_s', 'rtruediv_s', 'iadd_s', 'isub_s', 'imul_s', 'itruediv_s', 'neg', 'pos',
           'copy', 'assign', 'ipow', 'pow', 'zero', 'one']
    for r in recipes:
        cx = any(DT[l[1]][0] == 'cx' for l in leaf_recipes(r))
        for op in ops:
            for same in ((False, True) if op in ('add', 'sub', 'mul', 'truediv', 'iadd', 'isub', 'imul', 'itruediv', 'assign') else (False,)):
                c = rng.randint(0, 5) if op in ('ipow', 'pow') else rng.choice([2, -4, 0.5, 1, -1] + ([2j, 1 - 1j] if cx else []))
                _probe(out, 'op-%s-%s%s' % (op, _spacekind(r), '-self' if same else ''),
                       '%s on %r%s vs NumPy on the leaves; operands untouched' % (op, r, ' (other is self)' if same else ''),
                       'op', recipe=r, op=op, same=same, c=c, seed=rng.randint(0, 10 ** 6))
    return out


RULE = ('tensor level: space.lincomb(a, x1, b, x2, out) on tensor spaces; every (5 identity-aliasing patterns) x '
        '(20-22 scalar pairs covering 0, 1, -1, generic, complex, a+b == 0) combination in the direct (3 entries) and '
        'fallback (100 entries) regime for each of 7 dtypes (float16/32/64, complex64/128, int32/64), a sample of '
        'them on 50000 entries (BLAS) and on the border sizes 99, 100, 101, 4999, 49999, 50000, 50001, 250x200, on '
        'C / F / strided / mixed layouts, plus a fixed list of >= 50000-entry cases for which BLAS is NOT applicable '
        '(strided out / operand, mixed C/F order, float16, float128) with every alias pattern.  Arrays of >= 100 '
        'entries are periodic (closed form); from 2000 entries on Coq evaluates the model with the true size on one '
        'period of 35 entries (Python first checks that every buffer before and after the call is periodic) except '
        'for whole-array cases of the main dtypes (two alias patterns in quick, all five in thorough); the same with NaN in every buffer the call must not read and with NaN '
        'inside an operand (poisoned carrier option Q).  space level: 32 public operations (lincomb with and without '
        'b, multiply, divide, assign, copy, set_zero, + - * / with element and scalar, reflected and in-place forms, '
        'neg, pos, **=, ** with positive and negative exponents, no-out and element-method forms), every binary '
        'operator (out-of-place, reflected, in-place) with the other operand given as plain data (nested list, nested '
        'tuple, ndarray / list of ndarrays) and 12 power-space broadcasting forms on tensor, uniform_discr and nested/power product '
        'spaces (fixed list + random trees of depth <= 3, mixed float/int leaves), with `other is self`, shared '
        'components and poisoned temporaries.  Inputs are small integers / dyadic scalars so float arithmetic is '
        'exact; all buffers (not only out) are compared after the call.  A case is distinct by (operation, dtype or '
        'space recipe, shape, layouts, alias pattern, scalars, poison kind, regime).')
ASSUMPTIONS = ['exact arithmetic: theorems are over a field (reals / complex numbers); float rounding, overflow, '
               'signed zeros are out of scope; inf/NaN only through the poisoned carrier (None = NaN, strict)',
               'a buffer lists the entries of an array in logical (index) order: NumPy element-wise kernels pair '
               'entries by index whatever the memory layout; BLAS ravel order (C vs F) is regenerated but its '
               'consistency for equally laid out arrays is validated by the correspondence, not proved',
               'BLAS level-1 axpy/scal/copy have their textbook semantics (hand-written in Model.v)',
               'Python operator dispatch (which __op__ branch is taken for which operand kind, NotImplemented, '
               '__array_priority__) is not modelled: the harness picks the model program by the kind of operand',
               'memory overlap between DISTINCT tensor objects (views of one array) is outside the contract, as '
               'the property says; identity is what the model tracks',
               'temporaries created by space.element() hold arbitrary values of the right size']
TRUSTED = ['translate/lincomb.py (Python ast -> Gallina: thresholds, regime tests, direct expression, fallback '
           'bodies, ravel rule, decision tree, _blas_is_applicable), fail-closed; _BLAS_DTYPES and the array bindings '
           '(x.data, ravel(order=ravel_order), get_blas_funcs) are pinned textually',
           'C01/Model.v interpreter of the generated syntax; C01/ModelSpace.v transcription of '
           'odl/set/space.py operators and odl/space/pspace.py recursion (validated by the correspondence)',
           'the Q instance is proved to be the rational restriction of the R instance for _lincomb and for every '
           'regenerated operator program on nested spaces (Props: *_is_rational_restriction); for __ipow__, '
           'broadcasting, the complex and the poisoned carriers this link is not proved',
           'translate/space_ops.py (wrapper layers -> Gen/SpaceOps.v), fail-closed; __ipow__, __neg__, __pos__, '
           '__radd__, __rmul__, copy are pinned textually']
LEVEL_TEXT = ('Proof: for the decision tree, fallback bodies, direct expression, thresholds and regime rule regenerated '
              'from _lincomb_impl on every run, Coq proves over ANY field (reals and complex numbers are instances) '
              'that for every size (all three regimes, chosen by the regenerated dispatch and _blas_is_applicable, which '
              'are proved to select BLAS only when it updates out in place), every store, all scalars and ALL object '
              'identities of (x1, x2, out) the call returns, out holds a*x1+b*x2 of the initial operands and nothing else '
              'changes; '
              'at the poisoned carrier (None = NaN) that clean operands give a clean, correct result whatever out held '
              'before; for non-floating dtypes the direct formula at every size; by induction on arbitrarily nested '
              'product spaces that lincomb/multiply/divide are entry-wise exact at every leaf under positional aliasing; '
              'entry-wise specifications of 15 public operators incl. x+c through one(), c-x and x**=p for all p >= 0. '
              'set_zero() on garbage is proved correct from 100 entries on and refuted below (recorded finding).')
LEVEL_NOTE = ('Validated, not proved: the transcription of the 32 public operators / broadcasting into lincomb/multiply/'
              'divide programs (exact correspondence incl. temporaries), NumPy layout handling, BLAS, float rounding. '
              'Open findings: NaN/inf handling of the direct regime (set_zero, copy/assign/scaling of inf), integer '
              'spaces truncate non-integer scalars and cannot divide. All theorems are closed under the global context '
              '(no axioms).')
TECHNIQUE = ('Coq proof by symbolic execution of the source-regenerated decision tree over an abstract field and a '
             'poisoned option carrier + structural induction on nested spaces + in-Coq differential correspondence')
