"""C01 vector arithmetic under aliasing: translator + correspondence + probes."""
import itertools
from fractions import Fraction

import numpy as np

from . import common as C
from translate import lincomb as TL

PID = 'C01'
SHARD_SIZE = 120

# ------------------------------------------------------------------ dtype table
# name -> (carrier, is_floating, in _BLAS_DTYPES, tolerance)
DT = {
    'float64': ('real', True, True, Fraction(1, 10 ** 12)),
    'float32': ('real', True, True, Fraction(1, 10 ** 5)),
    'float16': ('real', True, False, Fraction(1, 100)),
    'complex128': ('cx', True, True, Fraction(1, 10 ** 12)),
    'complex64': ('cx', True, True, Fraction(1, 10 ** 5)),
    'int64': ('int', False, False, Fraction(0)),
    'int32': ('int', False, False, Fraction(0)),
}

# (a, b) pairs covering every test of the decision tree: 0 / 1 / -1 / generic, a+b == 0 with b != 0
REAL_PAIRS = [(0, 0), (0, 1), (1, 0), (1, 1), (1, -1), (-1, 1), (2, -2), (0, 2), (2, 0), (1, 2), (2, 1),
              (2, 3), (-0.5, 0.25), (1.5, -1.5), (-1, -1), (0, -1), (-1, 0), (3, 1), (1, 3), (0.5, 2)]
CX_PAIRS = REAL_PAIRS[:12] + [(1j, 1), (1, 1j), (1j, -1j), (1 + 2j, 0), (0, 1 - 1j), (0.5 - 0.5j, 2j),
                              (-1, 1j), (1j, 0), (2 + 1j, -2 - 1j), (1, -0.5j)]
INT_PAIRS = [(0, 0), (0, 1), (1, 0), (1, 1), (1, -1), (2, -2), (0, 2), (3, 0), (1, 2), (2, 3), (-1, -1),
             (2.5, 0), (0.5, 1), (-0.5, 0.25), (1.5, -1.5)]

ALIAS = {            # (x1, x2, out) as indices into the three allocated elements
    'distinct': (0, 1, 2),
    'x1_is_x2': (0, 0, 2),
    'out_is_x1': (0, 1, 0),
    'out_is_x2': (0, 1, 1),
    'all_same': (0, 0, 0),
}


# ------------------------------------------------------------------ literals per carrier
def lit(carrier, v):
    """Coq literal of one entry; NaN -> None in the poisoned carriers."""
    if carrier in ('real', 'int'):
        return C.q(v)
    if carrier == 'cx':
        v = complex(v)
        return '(%s, %s)' % (C.q(v.real), C.q(v.imag))
    if carrier == 'nan':
        v = float(v)
        return 'None' if v != v else '(Some %s)' % C.q(v)
    if carrier == 'cxnan':
        v = complex(v)
        if v.real != v.real or v.imag != v.imag:
            return 'None'
        return '(Some (%s, %s))' % (C.q(v.real), C.q(v.imag))
    raise ValueError(carrier)


def lits(carrier, arr):
    return '[' + '; '.join(lit(carrier, v) for v in np.asarray(arr).ravel().tolist()) + ']'


def pyscalar(carrier, v):
    """Scalar as Python would pass it."""
    if carrier in ('cx', 'cxnan'):
        return complex(v) if isinstance(v, complex) else v
    return v


CHECK = {'real': 'checkL_real (%s)', 'cx': 'checkL_cx (%s)', 'nan': 'checkL_nan (%s)',
         'cxnan': 'checkL_cxnan (%s)', 'int': 'checkL_int'}
CTYPE = {'real': 'Q', 'int': 'Q', 'cx': '(Q * Q)', 'nan': '(option Q)', 'cxnan': '(option (Q * Q))'}


# ------------------------------------------------------------------ arrays with a given layout
def with_layout(vals, dtype, layout):
    """ndarray of the logical values `vals` whose memory layout is C / F / S(trided, non-contiguous)."""
    vals = np.asarray(vals)
    if layout == 'C':
        arr = np.ascontiguousarray(vals.astype(dtype))
    elif layout == 'F':
        arr = np.asfortranarray(vals.astype(dtype))
    else:
        big = np.zeros(vals.shape[:-1] + (2 * vals.shape[-1],), dtype=dtype)
        arr = big[..., ::2]
        arr[...] = vals
    return arr


def flags_of(arr):
    return (bool(arr.flags.c_contiguous), bool(arr.flags.f_contiguous))


def predicted_regime(size, fl, bdt, flags):
    """Python copy of the regime rule, used only for distinctness keys / statistics."""
    if size < 100 or not fl:
        return 'direct'
    ok = bdt and (all(f[1] for f in flags) or all(f[0] for f in flags))
    return 'fallback' if (size < 50000 or not ok) else 'blas'


def closed_form(n, m, c, p, h):
    i = np.arange(n, dtype=np.int64)
    return ((m * i + c) % p) - h


def rand_vals(rng, shape, lo=-6, hi=6):
    n = int(np.prod(shape))
    return np.array([rng.randint(lo, hi) for _ in range(n)], dtype=float).reshape(shape)


# ------------------------------------------------------------------ tensor-level lincomb cases
BIG = 2000      # from this size on arrays are periodic (closed form) and are passed as one period


def lincomb_case(rng, dtype, shape, layouts, alias, a, b, poison):
    """Run space.lincomb on the real implementation; returns (coq term, description, key, carrier)."""
    import odl
    base, fl, bdt, tol = DT[dtype]
    carrier = base
    if poison:
        carrier = {'real': 'nan', 'cx': 'cxnan'}[base]
    space = odl.tensor_space(shape, dtype=dtype)
    n = int(np.prod(shape))
    ix1, ix2, iout = ALIAS[alias]
    big = n >= BIG
    gens = []
    vals = []
    for k in range(3):
        if big:
            g = (rng.choice([1, 2, 3, 5]), rng.randint(0, 6), rng.choice([13, 7, 5]), rng.randint(2, 4))
            v = closed_form(n, *g).astype(float).reshape(shape)
            if base == 'cx':
                g2 = (rng.choice([1, 2, 3]), rng.randint(0, 4), rng.choice([7, 5]), 2)
                v = v + 1j * closed_form(n, *g2).reshape(shape)
                g = (g, g2)
            gens.append(g)
        else:
            v = rand_vals(rng, shape)
            if base == 'cx':
                v = v + 1j * rand_vals(rng, shape, -3, 3)
        vals.append(v)
    poisoned = set()
    if poison == 'out' and iout not in (ix1, ix2):
        poisoned = {iout}
    elif poison == 'unused':          # an operand that is never read: every buffer not used by the call
        poisoned = {0, 1, 2} - {ix1, ix2, iout}
        if iout not in (ix1, ix2):
            poisoned |= {iout}
    elif poison == 'operand':         # NaN inside an operand (strict propagation vs. skipped reads)
        poisoned = {rng.choice([ix1, ix2])}
    els = []
    for k in range(3):
        arr = with_layout(vals[k], dtype, layouts[k])
        if k in poisoned:
            arr[...] = np.nan
        el = space.element(arr)
        assert el.data is arr, 'element() copied the array'
        els.append(el)
    flags = [flags_of(els[i].data) for i in (ix1, ix2, iout)]
    before = [np.array(e.data, copy=True) for e in els]
    pa, pb = pyscalar(carrier, a), pyscalar(carrier, b)
    with np.errstate(all='ignore'):
        res = space.lincomb(pa, els[ix1], pb, els[ix2], out=els[iout])
    assert res is els[iout]
    after = [np.asarray(e.data) for e in els]

    def buf_term(k, arr, is_before):
        flat = np.asarray(arr).ravel()        # logical (C-order) flattening
        if not big:
            return lits(carrier, flat)
        if is_before and k in poisoned:
            return '(cyc %d [None])' % n
        # after: one period if the array is periodic, the full literal otherwise
        for period in (455, 455 * 4):
            pat = flat[:period]
            if np.array_equal(np.resize(pat, n), flat, equal_nan=True):
                return '(cyc %d %s)' % (n, lits(carrier, pat))
        return lits(carrier, flat)

    term = ('mkL %s %s %s (%d, %d, %d)%%nat %s %s [%s] [%s]'
            % (C.b(fl), C.b(bdt),
               '[' + '; '.join('(%s, %s)' % (C.b(c), C.b(f)) for c, f in flags) + ']',
               ix1, ix2, iout, lit(carrier, pa), lit(carrier, pb),
               '; '.join(buf_term(k, before[k], True) for k in range(3)),
               '; '.join(buf_term(k, after[k], False) for k in range(3))))
    reg = predicted_regime(n, fl, bdt, flags)
    desc = {'op': 'lincomb', 'dtype': dtype, 'shape': list(shape), 'layouts': ''.join(layouts), 'alias': alias,
            'a': str(a), 'b': str(b), 'poison': poison or '', 'regime': reg}
    key = (dtype, tuple(shape), ''.join(layouts), alias, str(a), str(b), poison or '', reg)
    return term, desc, key, carrier, tol


def layout_choice(rng, ndim, want_blas=False):
    """Layout triple for (e0, e1, e2): all-C, all-F, mixed, strided."""
    if want_blas:
        return 'CCC' if ndim == 1 else rng.choice(['CCC', 'FFF'])
    if ndim == 1:
        return rng.choice(['CCC', 'CCC', 'SCC', 'CSC', 'CCS', 'SSS'])
    return rng.choice(['CCC', 'FFF', 'CFC', 'FCF', 'CCF', 'SCC', 'CCS', 'FSF', 'SSS'])


IMPORTS = ['C01.Syntax', 'Gen.Lincomb', 'C01.Carriers', 'C01.Model', 'C01.Corr']
BIG_CHUNK = 5       # big cases per shard (each costs ~1.5 s of vm_compute)


class Sets(object):
    def __init__(self):
        self.sets, self.order, self.nbig = {}, [], {}

    def put(self, prefix, dtype, res, check_fmt=CHECK, ctype_fmt='caseL %s'):
        term, desc, key, carrier, tol = res
        n = int(np.prod(desc['shape']))
        name = '%s_%s_%s' % (prefix, dtype, carrier)
        if n >= BIG:
            k = self.nbig.get(name, 0)
            self.nbig[name] = k + 1
            name = '%s_big%d' % (name, k // BIG_CHUNK)
        if name not in self.sets:
            chk = check_fmt[carrier] % C.q(tol) if '%s' in check_fmt[carrier] else check_fmt[carrier]
            self.sets[name] = C.CaseSet(name, IMPORTS, chk, ctype_fmt % CTYPE[carrier])
            self.order.append(name)
        self.sets[name].add(term, desc, key)

    def all(self):
        # big sets first so that the slow shards start early
        names = sorted(self.order, key=lambda nm: (0 if '_big' in nm else 1))
        return [self.sets[nm] for nm in names]


def lincomb_cases(rng, tier, S):
    quick = tier == 'quick'
    small = [(1,), (2,), (3,), (99,), (3, 4), (2, 3, 2)]
    med = [(100,), (101,), (10, 10), (4, 5, 5), (20, 6), (1000,)]
    edge = [(49999,), (50001,), (250, 200), (4999,)]
    if not quick:
        small += [(7, 14), (98,), (5,)]
        med += [(128,), (30, 40), (2, 50)]
        edge += [(100, 500), (60000,), (40, 25, 50)]
    for dtype, (base, fl, bdt, tol) in DT.items():
        pairs = {'real': REAL_PAIRS, 'cx': CX_PAIRS, 'int': INT_PAIRS}[base]
        main = dtype in ('float64', 'complex128')

        def run(shape, alias, a, b, poison=None, want_blas=False):
            lay = layout_choice(rng, len(shape), want_blas)
            S.put('lin', dtype, lincomb_case(rng, dtype, shape, lay, alias, a, b, poison))

        # A. every (alias, scalar pair) combination in the direct and the fallback regime
        for shape in ([(3,), (120,)] if base == 'int' else [(3,), (100,)]):
            for alias in ALIAS:
                for a, b in pairs:
                    run(shape, alias, a, b)
        # B. the BLAS regime (and its borders).  The decision tree is shared with the fallback
        #    regime (covered exhaustively in A); here the three BLAS primitives, the regime rule and
        #    the ravel order are exercised.  Each case costs ~2 s of vm_compute, hence the small numbers.
        if bdt:
            nb = (3 if main else 1) if quick else (10 if main else 4)
            for alias in ALIAS:
                for a, b in rng.sample(pairs, nb):
                    run((50000,), alias, a, b, want_blas=True)
            if dtype == 'float64' or not quick:
                for shape in edge:
                    for alias in ALIAS:
                        for a, b in rng.sample(pairs, 1 if quick else 2):
                            run(shape, alias, a, b, want_blas=rng.random() < 0.7)
        # C. shape sweep
        for shape in small + med:
            for alias in ALIAS:
                for a, b in rng.sample(pairs, 2 if quick else 6):
                    run(shape, alias, a, b)
        # D. poisoned runs (floating dtypes): NaN in every buffer the call must not read
        #    (`out` when it is not an operand, the unused third buffer), and NaN inside an operand
        if base in ('real', 'cx') and dtype != 'float16':
            for shape in [(3,), (100,)] + ([(3, 4), (10, 10)] if not quick else []):
                for alias in ALIAS:
                    for a, b in (pairs if main else rng.sample(pairs, 6)):
                        run(shape, alias, a, b, 'unused')
                    for a, b in rng.sample(pairs, 6 if main else 3):
                        run(shape, alias, a, b, 'operand')
            if bdt and (main or not quick):
                for alias in ALIAS:
                    for a, b in rng.sample(pairs, 1 if quick else (6 if main else 2)):
                        run((50000,), alias, a, b, 'unused', want_blas=True)


# ------------------------------------------------------------------ framework entry points
def translate():
    return {'Gen/Lincomb.v': TL.translate()}


def correspondence(rng, tier):
    S = Sets()
    lincomb_cases(rng, tier, S)
    return S.all()


def probes(rng, tier):
    return []


RULE = ''
ASSUMPTIONS = []
TRUSTED = []
LEVEL_TEXT = ''
LEVEL_NOTE = ''
TECHNIQUE = ''
