"""C19 acquisition geometries: formula translator + correspondence + probes."""
import math
from fractions import Fraction as Fr

import numpy as np

from . import common as C

from translate import geometry_formulas as GF

PID = 'C19'


def translate():
    return {'Gen/GeometryFormulas.v': GF.translate(C.REPO)}

SHARD_SIZE = 40
IMPORTS = ['C19.Model', 'C19.Corr']

# ------------------------------------------------------------------ inputs
# rational points of the unit circle from the tangent half-angle t = p/q
_TS = [Fr(0), Fr(1), Fr(-1), Fr(1, 2), Fr(-1, 2), Fr(1, 3), Fr(2, 3), Fr(-3, 4), Fr(2), Fr(-3), Fr(1, 5),
       Fr(4, 7), Fr(-5, 3), Fr(7, 2), Fr(-1, 7), Fr(5), Fr(3, 5), Fr(-2, 5)]


def circle_pt(t):
    c = (1 - t * t) / (1 + t * t)
    s = 2 * t / (1 + t * t)
    return c, s


_ARANGE = [(-4.0, 4.0)]


def rnd_angle(rng, special=0.2):
    """(cos, sin) exact rationals and the float angle atan2(sin, cos), inside the current motion range."""
    while True:
        c, s, a = _rnd_angle(rng, special)
        if _ARANGE[0][0] <= a <= _ARANGE[0][1]:
            return c, s, a


def _rnd_angle(rng, special=0.2):
    if rng.random() < special:
        c, s = rng.choice([(Fr(1), Fr(0)), (Fr(0), Fr(1)), (Fr(-1), Fr(0)), (Fr(0), Fr(-1))])
    else:
        t = rng.choice(_TS[3:]) if rng.random() < 0.7 else Fr(rng.randint(-9, 9), rng.randint(1, 9))
        c, s = circle_pt(t)
    return c, s, math.atan2(float(s), float(c))


# vectors with rational length (so that every branch test of the model is decided exactly) and generic ones
PYTH2 = [(3, 4), (-4, 3), (5, -12), (-8, -15), (0, 2), (0, -3), (2, 0), (-5, 0), (7, 24), (20, -21)]
GEN2 = [(1, 1), (1, 2), (-2, 3), (3, -1), (1, -5)]
PYTH3 = [(3, 4, 12), (-4, 3, 12), (4, -3, -12), (12, 16, 15), (9, -12, 20), (0, 3, 4), (3, 0, -4), (0, 0, 2),
         (0, 0, -3), (6, 8, 0), (0, 5, 0), (-2, 0, 0), (8, 15, 144), (-12, 9, 8)]
GEN3 = [(1, 2, 2), (2, 3, 6), (1, 1, 1), (1, -2, 3), (-1, 0, 2), (2, 1, 0), (1, 4, 8)]


def qv(v):
    return '(' + ', '.join(C.q(x) for x in v) + ')'


def qm(m):
    return '(' + ', '.join(qv(r) for r in m) + ')'


def opt(x, f):
    return 'None' if x is None else '(Some %s)' % f(x)


def qv2(p):
    return '(%s, %s)' % (qv(p[0]), qv(p[1]))


def fl(v):
    return [float(x) for x in v]


def flat(*arrs):
    out = []
    for a in arrs:
        out.extend(np.asarray(a, dtype=float).ravel().tolist())
    return out


def impl(fun):
    """Run fun() -> list of floats; ValueError -> None; anything else is a mismatch by construction."""
    try:
        return 'IOk %s' % C.qs(fun())
    except ValueError:
        return 'IValueErr'
    except TypeError:
        return 'ITypeErr'
    except Exception as e:          # noqa
        return 'IOtherErr'


def add_case(cs, model, impl_term, desc, key):
    cs.add('{| k_model := %s; k_impl := %s |}' % (model, impl_term), desc, key)


# ---------------------------------------------------- detector parameters
def dpar2_flat(rng):
    u = rng.choice([0.0, 0.5, -1.25, 2.0, -3.5, 3.75, 1.0, -0.125])
    return u, '(%s, (1, 0))' % C.q(u)


def dpar2_circ(rng):
    c, s, a = rnd_angle(rng)
    return a, '(%s, (%s, %s))' % (C.q(a), C.q(c), C.q(s))


def dpar3_flat(rng):
    u, _ = dpar2_flat(rng)
    v, _ = dpar2_flat(rng)
    return (u, v), '(%s, %s, (1, 0), (1, 0))' % (C.q(u), C.q(v))


def dpar3_cyl(rng):
    c, s, a = rnd_angle(rng)
    v, _ = dpar2_flat(rng)
    return (a, v), '(%s, %s, (%s, %s), (1, 0))' % (C.q(a), C.q(v), C.q(c), C.q(s))


def dpar3_sph(rng):
    c, s, a = rnd_angle(rng)
    while True:
        c2, s2, a2 = rnd_angle(rng)
        if c2 != 0:                 # the poles of the sphere have no normal (0/0)
            break
    return (a, a2), '(%s, %s, (%s, %s), (%s, %s))' % (C.q(a), C.q(a2), C.q(c), C.q(s), C.q(c2), C.q(s2))


def _parts(odl, nd_det, nd_mot=1):
    ap = odl.uniform_partition([-4.0] * nd_mot, [4.0] * nd_mot, [8] * nd_mot) if nd_mot > 1 else \
        odl.uniform_partition(-4.0, 4.0, 8)
    dp = odl.uniform_partition(-4.0, 4.0, 8) if nd_det == 1 else \
        odl.uniform_partition([-4.0, -4.0], [4.0, 4.0], [8, 6])
    return ap, dp


# ------------------------------------------------------- implementation side
def det_stored(det):
    out = flat(det.axis) if hasattr(det, 'axis') else flat(det.axes)
    if hasattr(det, 'radius'):
        out += [det.radius] + flat(det.rotation_matrix, det.translation)
    return out


def det_obs(det, p):
    return flat(det.surface(p), det.surface_deriv(p), det.surface_normal(p), [det.surface_measure(p)])


def obs_par2d(g, pts):
    out = flat(g.det_pos_init, g.translation) + det_stored(g.detector)
    for a, u in pts:
        out += flat(g.rotation_matrix(a), g.det_refpoint(a), g.det_point_position(a, u), g.det_to_src(a, u),
                    g.det_axis(a)) + det_obs(g.detector, u)
    return out


def obs_par3d(g, pts):
    out = flat(g.det_pos_init, g.translation) + det_stored(g.detector)
    for a, u in pts:
        out += flat(g.rotation_matrix(a), g.det_refpoint(a), g.det_point_position(a, u), g.det_to_src(a, u),
                    g.det_axes(a)) + det_obs(g.detector, u)
    return out


def obs_par3a(g, pts):
    out = flat(g.axis, g.det_pos_init, g.translation) + det_stored(g.detector)
    for a, u in pts:
        out += flat(g.rotation_matrix(a), g.det_refpoint(a), g.det_point_position(a, u), g.det_to_src(a, u),
                    g.det_axes(a)) + det_obs(g.detector, u)
    return out


def obs_fan(g, pts):
    out = flat([g.src_radius, g.det_radius], g.src_to_det_init, g.translation) + det_stored(g.detector)
    for a, u in pts:
        out += flat(g.rotation_matrix(a), g.src_position(a), g.det_refpoint(a), g.det_point_position(a, u),
                    g.det_to_src(a, u), g.det_to_src(a, u, normalized=False), g.det_axis(a)) + det_obs(g.detector, u)
    return out


def obs_cone(g, pts):
    out = flat([g.src_radius, g.det_radius, g.pitch, g.offset_along_axis], g.src_to_det_init, g.axis,
               g.translation) + det_stored(g.detector)
    for a, u in pts:
        out += flat(g.rotation_matrix(a), g.src_position(a), g.det_refpoint(a), g.det_point_position(a, u),
                    g.det_to_src(a, u), g.det_to_src(a, u, normalized=False), g.det_axes(a)) + det_obs(g.detector, u)
    return out


class Shift(object):
    """Affine shift function  angle -> c0 + c1 * angle  per component (vectorised like the documented examples)."""

    def __init__(self, c0, c1):
        self.c0, self.c1 = np.array(c0, dtype=float), np.array(c1, dtype=float)

    def __call__(self, angle):
        angle = np.array(angle, dtype=float, ndmin=1)
        return self.c0[None, :] + np.multiply.outer(angle, self.c1)

    def at(self, a):
        return (self.c0 + float(a) * self.c1).tolist()


def rnd_shift(rng, n):
    if rng.random() < 0.4:
        return None
    return Shift([rng.choice([0.0, 0.5, -0.25, 1.0]) for _ in range(n)],
                 [rng.choice([0.0, 0.0, 0.125, -0.5]) for _ in range(n)])


# ------------------------------------------------------------- variant switch
def curved_alignment_fixed():
    """Measured variant: do the curved detectors align a0, a1 exactly (surface_deriv(0,0) = r * axes) on the
    recorded antiparallel input?"""
    import odl
    from odl.tomo.geometry.detector import CylindricalDetector
    _, dp = _parts(odl, 2)
    d = CylindricalDetector(dp, axes=[(0, 1, 0), (0, 0, 1)], radius=2.0)
    return bool(np.allclose(d.surface_deriv((0.0, 0.0)), [[0, 2, 0], [0, 0, 1]], atol=1e-10))



# ------------------------------------------------------------ correspondence
def _rnd_vec(rng, pyth, gen, p_gen=0.3):
    return list(rng.choice(gen if rng.random() < p_gen else pyth))


def _rot2(rng):
    c, s, _ = rnd_angle(rng)
    return [[c, -s], [s, c]]


def _rot3(rng):
    """Rational rotation matrix: Rodrigues with a rational unit axis and a rational circle point."""
    ax = rng.choice([(3, 4, 12, 13), (0, 3, 4, 5), (1, 2, 2, 3), (2, 3, 6, 7), (0, 0, 1, 1), (4, 4, 7, 9)])
    x, y, z = [Fr(v, ax[3]) * rng.choice([1, -1]) for v in ax[:3]]
    c, s, _ = rnd_angle(rng)
    k = 1 - c
    return [[c + k * x * x, k * x * y - s * z, k * x * z + s * y],
            [k * y * x + s * z, c + k * y * y, k * y * z - s * x],
            [k * z * x - s * y, k * z * y + s * x, c + k * z * z]]


def _axes3(rng):
    """Detector axes option for 3-d geometries: None, or two independent vectors."""
    r = rng.random()
    if r < 0.45:
        return None
    if r < 0.6:
        return [(1, 0, 0), (0, 0, 1)]
    while True:
        a0, a1 = _rnd_vec(rng, PYTH3, GEN3), _rnd_vec(rng, PYTH3, GEN3)
        if np.linalg.norm(np.cross(a0, a1)) != 0:
            return [tuple(a0), tuple(a1)]


PERP3 = [((3, 4, 0), (0, 0, 2)), ((1, 2, 2), (2, 1, -2)), ((2, -2, 1), (1, 2, 2)), ((0, -1, 0), (0, 0, 1)),
         ((1, 0, 0), (0, 0, 1)), ((12, 5, 0), (0, 0, -1)), ((2, 3, 6), (3, -6, 2)), ((6, 2, -3), (2, 3, 6)),
         ((1, 1, 0), (1, -1, 0)), ((1, 1, 1), (1, -2, 1)), ((0, 0, 3), (0, 2, 0)), ((4, 4, 7), (1, -8, 4))]


def _perp_axes3(rng):
    """Perpendicular integer axes (curved detectors demand float dot == 0 exactly)."""
    a0, a1 = rng.choice(PERP3)
    if rng.random() < 0.5:
        a0, a1 = a1, a0
    sg = rng.choice([1, -1])
    return [tuple(sg * x for x in a0), tuple(a1)]


def utility_cases(rng, tier):
    from odl.tomo.util.utility import (euler_matrix, axis_rotation_matrix, rotation_matrix_from_to,
                                       perpendicular_vector)
    cs = C.CaseSet('utility', IMPORTS, 'check', 'case')
    n = 12 if tier == 'quick' else 60
    for _ in range(n):
        c, s, a = rnd_angle(rng)
        add_case(cs, 'obs_euler2 (%s, %s)' % (C.q(c), C.q(s)), impl(lambda: flat(euler_matrix(a))),
                 {'fn': 'euler_matrix', 'phi': a}, ('e2', a))
        (c1, s1, a1), (c2, s2, a2), (c3, s3, a3) = rnd_angle(rng), rnd_angle(rng), rnd_angle(rng)
        add_case(cs, 'obs_euler3 (%s, %s) (%s, %s) (%s, %s)' % tuple(C.q(x) for x in (c1, s1, c2, s2, c3, s3)),
                 impl(lambda: flat(euler_matrix(a1, a2, a3))), {'fn': 'euler_matrix', 'angles': [a1, a2, a3]},
                 ('e3', a1, a2, a3))
        ax = _rnd_vec(rng, PYTH3, GEN3)      # NOT normalised: axis_rotation_matrix takes the axis as is
        add_case(cs, 'obs_axis_rot %s (%s, %s)' % (qv(ax), C.q(c), C.q(s)),
                 impl(lambda: flat(axis_rotation_matrix(fl(ax), a))), {'fn': 'axis_rotation_matrix', 'axis': ax, 'a': a},
                 ('ar', tuple(ax), a))
        f, t = _rnd_vec(rng, PYTH2, GEN2), _rnd_vec(rng, PYTH2, GEN2)
        if rng.random() < 0.15:
            t = [-x for x in f]
        if rng.random() < 0.1:
            t = [0, 0]
        add_case(cs, 'obs_from_to2 %s %s' % (qv(f), qv(t)), impl(lambda: flat(rotation_matrix_from_to(fl(f), fl(t)))),
                 {'fn': 'rotation_matrix_from_to', 'from': f, 'to': t}, ('ft2', tuple(f), tuple(t)))
        f, t = _rnd_vec(rng, PYTH3, GEN3, 0.15), _rnd_vec(rng, PYTH3, GEN3, 0.15)
        r = rng.random()
        if r < 0.1:
            t = [-2 * x for x in f]
        elif r < 0.2:
            t = [3 * x for x in f]
        elif r < 0.25:
            f = [0, 0, 0]
        add_case(cs, 'obs_from_to3 %s %s' % (qv(f), qv(t)), impl(lambda: flat(rotation_matrix_from_to(fl(f), fl(t)))),
                 {'fn': 'rotation_matrix_from_to', 'from': f, 'to': t}, ('ft3', tuple(f), tuple(t)))
        v = _rnd_vec(rng, PYTH3, GEN3)
        add_case(cs, 'obs_perp3 %s' % qv(v), impl(lambda: flat(perpendicular_vector(fl(v)))),
                 {'fn': 'perpendicular_vector', 'v': v}, ('p3', tuple(v)))
        v = _rnd_vec(rng, PYTH2, GEN2)
        add_case(cs, 'obs_perp2 %s' % qv(v), impl(lambda: flat(perpendicular_vector(fl(v)))),
                 {'fn': 'perpendicular_vector', 'v': v}, ('p2', tuple(v)))
    return cs


def _slice(rng, mode):
    """Angle-index slice of the 8-cell motion partition [-4, 4]; evaluation angles are drawn inside it."""
    if mode != 'slice':
        _ARANGE[0] = (-4.0, 4.0)
        return 0, 8
    i, j = rng.choice([(0, 8), (1, 7), (2, 8), (4, 8), (0, 4), (3, 5), (4, 5)])
    _ARANGE[0] = (-4.0 + i, -4.0 + j)
    return i, j


def _pts2(rng, n, curved):
    pts, terms = [], []
    for _ in range(n):
        c, s, a = rnd_angle(rng)
        u, ut = dpar2_circ(rng) if curved else dpar2_flat(rng)
        pts.append((a, u))
        terms.append((c, s, a, ut))
    return pts, terms


def _pts3(rng, n, kind):
    pts, terms = [], []
    for _ in range(n):
        c, s, a = rnd_angle(rng)
        u, ut = {'flat': dpar3_flat, 'cyl': dpar3_cyl, 'sph': dpar3_sph}[kind](rng)
        pts.append((a, u))
        terms.append((c, s, a, ut))
    return pts, terms


def par2d_cases(rng, tier):
    import odl
    cs = C.CaseSet('par2d', IMPORTS, 'check', 'case')
    ap, dp = _parts(odl, 1)
    n = 14 if tier == 'quick' else 80
    for k in range(n):
        pos = _rnd_vec(rng, PYTH2 + [(0, 1), (0, 1)], GEN2)
        r = rng.random()
        if r < 0.06:
            pos = [0, 0]
        elif r < 0.12:
            pos = rng.choice([[1e-9, 1.0], [0.0009765625, 1.0]])   # inside / just outside the allclose window
        axis = None if rng.random() < 0.5 else _rnd_vec(rng, PYTH2 + [(1, 0)], GEN2)
        if axis is not None and rng.random() < 0.08:
            axis = [0, 0]
        tr = rng.choice([[0, 0], [1, -2], [0.5, 0.25], [-3, 1]])
        mode = rng.choice(['ctor', 'ctor', 'slice', 'matrix'])
        i, j = _slice(rng, mode)
        pts, terms = _pts2(rng, 2 if tier == 'quick' else 4, False)
        ptt = C.lst(['((%s, %s), %s)' % (C.q(c), C.q(s), ut) for c, s, a, ut in terms])
        if mode == 'matrix':
            m = _rot2(rng) if rng.random() < 0.5 else [[rng.randint(-3, 3), rng.randint(-3, 3)],
                                                      [rng.randint(-3, 3), rng.randint(-3, 3)]]
            if abs(m[0][0] * m[1][1] - m[0][1] * m[1][0]) == 0:
                m = [[2, 1], [0, 1]]
            with_tr = rng.random() < 0.6
            mat = [fl(row) + ([float(t)] if with_tr else []) for row, t in zip(m, tr)]
            trm = tr if with_tr else [0, 0]
            model = 'obs_par2d (q_par2d_frommatrix %s %s) %s' % (qm(m), qv(trm), ptt)
            it = impl(lambda: obs_par2d(odl.tomo.Parallel2dGeometry.frommatrix(ap, dp, mat), pts))
            desc = {'class': 'Parallel2dGeometry.frommatrix', 'init_matrix': mat}
            key = ('par2d', 'matrix', str(mat))
        else:
            def build():
                kw = {}
                if axis is not None:
                    kw['det_axis_init'] = fl(axis)
                return odl.tomo.Parallel2dGeometry(ap, dp, det_pos_init=fl(pos), translation=fl(tr), **kw)
            mk = 'q_mk_par2d %s %s %s' % (qv(pos), opt(axis, qv), qv(tr))
            desc = {'class': 'Parallel2dGeometry', 'det_pos_init': pos, 'det_axis_init': axis, 'translation': tr,
                    'mode': mode}
            key = ('par2d', mode, tuple(pos), None if axis is None else tuple(axis), tuple(tr))
            if mode == 'ctor':
                model = 'obs_par2d (%s) %s' % (mk, ptt)
                it = impl(lambda: obs_par2d(build(), pts))
            else:
                model = ('obs_par2d (bindg (%s) (fun g => q_par2d_getitem g %s)) %s'
                         % (mk, opt(axis, qv), ptt))
                it = impl(lambda: obs_par2d(build()[i:j], pts))
                desc['slice'] = [i, j]
        add_case(cs, model, it, desc, key)
    return cs


def par3_cases(rng, tier):
    import odl
    cs = C.CaseSet('par3', IMPORTS, 'check', 'case')
    n = 16 if tier == 'quick' else 90
    for k in range(n):
        cls = rng.choice(['euler2', 'euler3', 'axis', 'axis'])
        tr = rng.choice([[0, 0, 0], [1, -2, 0.5], [0.25, 0, -3]])
        axes = _axes3(rng)
        if rng.random() < 0.05:
            axes = [(0, 3, 4), (0, -6, -8)]       # linearly dependent: ValueError
        mode = rng.choice(['ctor', 'ctor', 'matrix'] + (['slice'] if cls == 'axis' else []))
        i, j = _slice(rng, mode)
        npt = 2 if tier == 'quick' else 4
        if mode == 'matrix':
            m = _rot3(rng) if rng.random() < 0.6 else [[rng.randint(-2, 2) for _ in range(3)] for _ in range(3)]
            if abs(np.linalg.det(np.array(m, dtype=float))) < 0.5:
                m = [[1, 0, 1], [0, 2, 0], [0, 1, 1]]
            with_tr = rng.random() < 0.6
            mat = [fl(row) + ([float(t)] if with_tr else []) for row, t in zip(m, tr)]
            trm = tr if with_tr else [0, 0, 0]
        if cls == 'axis':
            ap, dp = _parts(odl, 2)
            axis = _rnd_vec(rng, PYTH3 + [(0, 0, 1), (0, 0, 1)], GEN3)
            if rng.random() < 0.05:
                axis = [0, 0, 0]
            pos = None if rng.random() < 0.5 else _rnd_vec(rng, PYTH3 + [(0, 1, 0)], GEN3)
            pts, terms = _pts3(rng, npt, 'flat')
            ptt = C.lst(['((%s, %s), %s)' % (C.q(c), C.q(s), ut) for c, s, a, ut in terms])
            if mode == 'matrix':
                model = 'obs_par3a (q_par3a_frommatrix %s %s) %s' % (qm(m), qv(trm), ptt)
                it = impl(lambda: obs_par3a(odl.tomo.Parallel3dAxisGeometry.frommatrix(ap, dp, mat), pts))
                desc = {'class': 'Parallel3dAxisGeometry.frommatrix', 'init_matrix': mat}
                key = ('par3a', 'matrix', str(mat))
            else:
                def build():
                    kw = {}
                    if pos is not None:
                        kw['det_pos_init'] = fl(pos)
                    if axes is not None:
                        kw['det_axes_init'] = [fl(a) for a in axes]
                    return odl.tomo.Parallel3dAxisGeometry(ap, dp, axis=fl(axis), translation=fl(tr), **kw)
                mk = 'q_mk_par3a %s %s %s %s' % (qv(axis), opt(pos, qv), opt(axes, qv2), qv(tr))
                desc = {'class': 'Parallel3dAxisGeometry', 'axis': axis, 'det_pos_init': pos, 'det_axes_init': axes,
                        'translation': tr, 'mode': mode}
                key = ('par3a', mode, tuple(axis), str(pos), str(axes), tuple(tr))
                if mode == 'ctor':
                    model = 'obs_par3a (%s) %s' % (mk, ptt)
                    it = impl(lambda: obs_par3a(build(), pts))
                else:
                    model = 'obs_par3a (bindg (%s) (q_par3a_getitem)) %s' % (mk, ptt)
                    it = impl(lambda: obs_par3a(build()[i:j], pts))
        else:
            nm = 2 if cls == 'euler2' else 3
            ap, dp = _parts(odl, 2, nm)
            pos = _rnd_vec(rng, PYTH3 + [(0, 1, 0), (0, 1, 0)], GEN3)
            if rng.random() < 0.05:
                pos = [0, 0, 0]
            pts, terms = [], []
            for _ in range(npt):
                angs = [rnd_angle(rng) for _ in range(nm)]
                if nm == 2:
                    angs.append((Fr(1), Fr(0), 0.0))
                u, ut = dpar3_flat(rng)
                pts.append((tuple(a[2] for a in angs[:nm]), u))
                terms.append('((%s, %s), (%s, %s), (%s, %s), %s)'
                             % tuple([C.q(x) for a in angs for x in a[:2]] + [ut]))
            ptt = C.lst(terms)
            if mode == 'matrix':
                model = 'obs_par3d (q_par3d_frommatrix %s %s) %s' % (qm(m), qv(trm), ptt)
                it = impl(lambda: obs_par3d(odl.tomo.Parallel3dEulerGeometry.frommatrix(ap, dp, mat), pts))
                desc = {'class': 'Parallel3dEulerGeometry.frommatrix', 'init_matrix': mat, 'motion_ndim': nm}
                key = ('par3d', 'matrix', nm, str(mat))
            else:
                def build():
                    kw = {}
                    if axes is not None:
                        kw['det_axes_init'] = [fl(a) for a in axes]
                    return odl.tomo.Parallel3dEulerGeometry(ap, dp, det_pos_init=fl(pos), translation=fl(tr), **kw)
                model = 'obs_par3d (q_mk_par3d %s %s %s) %s' % (qv(pos), opt(axes, qv2), qv(tr), ptt)
                it = impl(lambda: obs_par3d(build(), pts))
                desc = {'class': 'Parallel3dEulerGeometry', 'det_pos_init': pos, 'det_axes_init': axes,
                        'translation': tr, 'motion_ndim': nm}
                key = ('par3d', nm, tuple(pos), str(axes), tuple(tr))
        add_case(cs, model, it, desc, key)
    return cs


def fan_cases(rng, tier):
    import odl
    cs = C.CaseSet('fan', IMPORTS, 'check', 'case')
    ap, dp = _parts(odl, 1)
    n = 16 if tier == 'quick' else 90
    for k in range(n):
        s2d = _rnd_vec(rng, PYTH2 + [(0, 1), (0, 1)], GEN2)
        if rng.random() < 0.05:
            s2d = [0, 0]
        axis = None if rng.random() < 0.5 else _rnd_vec(rng, PYTH2 + [(1, 0)], GEN2)
        tr = rng.choice([[0, 0], [1, -2], [0.5, 0.25]])
        rs, rd = rng.choice([(2, 1), (5, 5), (3, 0), (0, 4), (1.5, 2.25), (-1, 2), (2, -1), (0, 0), (7, 3)])
        curv = None if rng.random() < 0.5 else rng.choice([1.0, 2.5, 4.0, 0.0, -1.0])
        ssf, dsf = rnd_shift(rng, 2), rnd_shift(rng, 2)
        mode = rng.choice(['ctor', 'ctor', 'slice', 'matrix'])
        i, j = _slice(rng, mode)
        pts, terms = _pts2(rng, 2 if tier == 'quick' else 4, curv is not None)
        ptt = C.lst(['((%s, %s), %s, %s, %s)' % (C.q(c), C.q(s), qv(ssf.at(a) if ssf else [0, 0]),
                                               qv(dsf.at(a) if dsf else [0, 0]), ut) for c, s, a, ut in terms])
        kw = {}
        if ssf is not None:
            kw['src_shift_func'] = ssf
        if dsf is not None:
            kw['det_shift_func'] = dsf
        desc = {'class': 'FanBeamGeometry', 'src_radius': rs, 'det_radius': rd, 'det_curvature_radius': curv,
                'src_to_det_init': s2d, 'det_axis_init': axis, 'translation': tr, 'mode': mode,
                'src_shift': None if ssf is None else [ssf.c0.tolist(), ssf.c1.tolist()],
                'det_shift': None if dsf is None else [dsf.c0.tolist(), dsf.c1.tolist()]}
        key = ('fan', mode, tuple(s2d), str(axis), tuple(tr), rs, rd, curv, str(desc['src_shift']), str(desc['det_shift']))
        if mode == 'matrix':
            m = _rot2(rng) if rng.random() < 0.5 else [[2, 1], [-1, 1]]
            with_tr = rng.random() < 0.6
            mat = [fl(row) + ([float(t)] if with_tr else []) for row, t in zip(m, tr)]
            trm = tr if with_tr else [0, 0]
            model = 'obs_fan (q_fan_frommatrix %s %s %s %s %s) %s' % (C.q(rs), C.q(rd), opt(curv, C.q), qm(m), qv(trm), ptt)
            it = impl(lambda: obs_fan(odl.tomo.FanBeamGeometry.frommatrix(ap, dp, rs, rd, mat, det_curvature_radius=curv,
                                                                            **kw), pts))
            desc['init_matrix'] = mat
            key = key + (str(mat),)
        else:
            def build():
                k2 = dict(kw)
                if axis is not None:
                    k2['det_axis_init'] = fl(axis)
                return odl.tomo.FanBeamGeometry(ap, dp, rs, rd, det_curvature_radius=curv, src_to_det_init=fl(s2d),
                                                translation=fl(tr), **k2)
            mk = 'q_mk_fan %s %s %s %s %s %s' % (C.q(rs), C.q(rd), opt(curv, C.q), qv(s2d), opt(axis, qv), qv(tr))
            if mode == 'ctor':
                model = 'obs_fan (%s) %s' % (mk, ptt)
                it = impl(lambda: obs_fan(build(), pts))
            else:
                model = 'obs_fan (bindg (%s) (fun g => q_fan_getitem g %s)) %s' % (mk, opt(axis, qv), ptt)
                it = impl(lambda: obs_fan(build()[i:j], pts))
        add_case(cs, model, it, desc, key)
    return cs


def cone_cases(rng, tier, curved_fixed):
    import odl
    cs = C.CaseSet('cone', IMPORTS, 'check', 'case')
    ap, dp = _parts(odl, 2)
    twopi = 2 * np.pi
    n = 20 if tier == 'quick' else 110
    for k in range(n):
        axis = _rnd_vec(rng, PYTH3 + [(0, 0, 1), (0, 0, 1)], GEN3)
        if rng.random() < 0.04:
            axis = [0, 0, 0]
        s2d = None if rng.random() < 0.5 else _rnd_vec(rng, PYTH3 + [(0, 1, 0)], GEN3)
        if s2d is not None and np.linalg.norm(np.cross(s2d, axis)) == 0 and any(axis):
            s2d = None                    # tangent would be 0/0
        if rng.random() < 0.04:
            s2d = [0, 0, 0]               # ValueError
        kind = rng.choice(['flat', 'flat', 'cyl', 'sph'])
        axes = _axes3(rng) if kind == 'flat' else (_perp_axes3(rng) if rng.random() < 0.7 else None)
        tr = rng.choice([[0, 0, 0], [1, -2, 0.5], [0.25, 0, -3]])
        rs, rd = rng.choice([(2, 1), (5, 5), (3, 0), (0, 4), (1.5, 2.25), (-1, 2), (7, 3), (2, -1), (0, 0), (4, 2)])
        if kind == 'flat' and rng.random() < 0.05:
            axes = [(1, 2, 2), (2, 4, 4)]         # linearly dependent: ValueError
        pitch = rng.choice([0, 0, 2.0, -0.5, 3.0])
        off = rng.choice([0, 0, 1.0, -0.25])
        rad = rng.choice([1.0, 2.5, 4.0, 1.0, 2.5, 4.0, 0.0, -1.5])
        curv = {'flat': None, 'cyl': (rad, None), 'sph': (rad, rad)}[kind]
        if kind == 'cyl' and rng.random() < 0.3:
            curv = (rad, float('inf'))
        curvt = {'flat': 'q_CFlat', 'cyl': '(q_CCyl %s)' % C.q(rad), 'sph': '(q_CSph %s)' % C.q(rad)}[kind]
        ssf, dsf = rnd_shift(rng, 3), rnd_shift(rng, 3)
        mode = rng.choice(['ctor', 'ctor', 'slice', 'matrix'])
        i, j = _slice(rng, mode)
        pts, terms = _pts3(rng, 2 if tier == 'quick' else 3, kind)
        ptt = C.lst(['((%s, %s), %s, %s, %s, %s)' % (C.q(c), C.q(s), C.q(a), qv(ssf.at(a) if ssf else [0, 0, 0]),
                                                   qv(dsf.at(a) if dsf else [0, 0, 0]), ut) for c, s, a, ut in terms])
        kw = {}
        if ssf is not None:
            kw['src_shift_func'] = ssf
        if dsf is not None:
            kw['det_shift_func'] = dsf
        desc = {'class': 'ConeBeamGeometry', 'src_radius': rs, 'det_radius': rd, 'det_curvature_radius': str(curv),
                'axis': axis, 'src_to_det_init': s2d, 'det_axes_init': str(axes), 'translation': tr, 'pitch': pitch,
                'offset_along_axis': off, 'mode': mode,
                'src_shift': None if ssf is None else [ssf.c0.tolist(), ssf.c1.tolist()],
                'det_shift': None if dsf is None else [dsf.c0.tolist(), dsf.c1.tolist()]}
        key = ('cone', C.digest(desc))
        if mode == 'matrix':
            m = _rot3(rng)
            if kind == 'flat' and rng.random() < 0.5:      # accepted non-orthogonal matrices (shear, scaling, general)
                m = rng.choice([[[2, 0, 0], [0, 1, 0], [0, 0, 3]], [[1, 1, 0], [0, 1, 0], [0, 0, 1]],
                                [[1, 0, 1], [0, 2, 0], [0, 1, 1]], [[0, -2, 0], [2, 0, 0], [0, 0, 2]],
                                [[1, 2, 0], [-1, 1, 1], [0, 1, 2]]])
            with_tr = rng.random() < 0.6
            mat = [fl(row) + ([float(t)] if with_tr else []) for row, t in zip(m, tr)]
            trm = tr if with_tr else [0, 0, 0]
            model = ('obs_cone (q_cone_frommatrix %s %s %s %s %s %s %s %s) %s %s'
                     % (C.b(curved_fixed), C.q(rs), C.q(rd), curvt, C.q(pitch), C.q(off), qm(m), qv(trm), C.q(twopi), ptt))
            it = impl(lambda: obs_cone(odl.tomo.ConeBeamGeometry.frommatrix(
                ap, dp, rs, rd, mat, det_curvature_radius=curv, pitch=pitch, offset_along_axis=off, **kw), pts))
            desc['init_matrix'] = str(mat)
            key = ('cone', C.digest(desc))
        else:
            def build():
                k2 = dict(kw)
                if s2d is not None:
                    k2['src_to_det_init'] = fl(s2d)
                if axes is not None:
                    k2['det_axes_init'] = [fl(a) for a in axes]
                return odl.tomo.ConeBeamGeometry(ap, dp, rs, rd, det_curvature_radius=curv, pitch=pitch, axis=fl(axis),
                                                 offset_along_axis=off, translation=fl(tr), **k2)
            mk = ('q_mk_cone %s %s %s %s %s %s %s %s %s %s'
                  % (C.b(curved_fixed), C.q(rs), C.q(rd), curvt, C.q(pitch), C.q(off), qv(axis), opt(s2d, qv), opt(axes, qv2), qv(tr)))
            if mode == 'ctor':
                model = 'obs_cone (%s) %s %s' % (mk, C.q(twopi), ptt)
                it = impl(lambda: obs_cone(build(), pts))
            else:
                model = 'obs_cone (bindg (%s) (q_cone_getitem %s)) %s %s' % (mk, C.b(curved_fixed), C.q(twopi), ptt)
                it = impl(lambda: obs_cone(build()[i:j], pts))
        add_case(cs, model, it, desc, key)
    return cs


def factory_cases(rng, tier):
    """parallel_beam_geometry / cone_beam_geometry / helical_geometry on dyadic volumes: detector extent (rho, w/2),
    helical offset and pitch."""
    import odl
    cs = C.CaseSet('factories', IMPORTS, 'check', 'case')
    n = 10 if tier == 'quick' else 40
    for _ in range(n):
        lo = [rng.choice([-2.0, -1.0, -0.5, -1.5, -3.0]) for _ in range(3)]
        hi = [rng.choice([0.5, 1.0, 2.0, 1.5, 0.25]) for _ in range(3)]
        if rng.random() < 0.3:           # Pythagorean corner: rho rational
            lo[0], hi[0], lo[1], hi[1] = -3.0, 1.0, -4.0, 2.0
        for ax_ in range(3):             # volumes shifted off the origin (entirely positive / negative ranges)
            if rng.random() < 0.4:
                sh_ = rng.choice([-4.0, 3.5, 5.0, -2.5])
                lo[ax_] += sh_
                hi[ax_] += sh_
        rho = max(math.hypot(x, y) for x in (lo[0], hi[0]) for y in (lo[1], hi[1]))
        rs = float(math.ceil(rho) + rng.choice([1, 2, 5]))
        rd = rng.choice([0.5, 1.0, 3.0, 4.0])
        turns = rng.choice([1, 2, 4, 0.5])
        shape = [rng.randint(3, 6) for _ in range(3)]

        def run():
            sp3 = odl.uniform_discr(lo, hi, shape)
            sp2 = odl.uniform_discr(lo[:2], hi[:2], shape[:2])
            gp = odl.tomo.parallel_beam_geometry(sp2)
            gp3 = odl.tomo.parallel_beam_geometry(sp3)
            gc = odl.tomo.cone_beam_geometry(sp2, rs, rd)
            gc3 = odl.tomo.cone_beam_geometry(sp3, rs, rd)
            gh = odl.tomo.helical_geometry(sp3, rs, rd, num_turns=turns)
            r1, r2 = float(gp.det_params.max_pt[0]), float(gp3.det_params.max_pt[0])
            w1, w2, w3 = float(gc.det_params.max_pt[0]), float(gc3.det_params.max_pt[0]), float(gh.det_params.max_pt[0])
            assert r1 == r2 == -float(gp.det_params.min_pt[0]) and w1 == w2 == w3 == -float(gc.det_params.min_pt[0])
            assert list(gp3.det_params.min_pt[1:]) == [lo[2]] and list(gp3.det_params.max_pt[1:]) == [hi[2]]
            return [r1, w1, gh.offset_along_axis, gh.pitch, gc.src_radius, gc.det_radius, gc3.src_radius, gc3.det_radius,
                    gh.src_radius, gh.det_radius]
        model = 'obs_factory %s' % ' '.join(C.q(x) for x in (lo[0], hi[0], lo[1], hi[1], lo[2], hi[2], rs, rd, turns))
        add_case(cs, model, impl(run), {'fn': 'factories', 'min_pt': lo, 'max_pt': hi, 'src_radius': rs,
                                        'det_radius': rd, 'num_turns': turns},
                 ('factory', tuple(lo), tuple(hi), rs, rd, turns))
    return cs


def correspondence(rng, tier):
    _ARANGE[0] = (-4.0, 4.0)
    out = [utility_cases(rng, tier), par2d_cases(rng, tier), par3_cases(rng, tier), fan_cases(rng, tier),
           cone_cases(rng, tier, curved_alignment_fixed()), factory_cases(rng, tier)]
    _ARANGE[0] = (-4.0, 4.0)
    return out


# ------------------------------------------------------------------- probes
def _rand_geoms(rng, tier):
    """(name, class key, geometry, has_src) for every geometry class with generic float parameters."""
    import odl
    T = odl.tomo
    out = []
    n = 2 if tier == 'quick' else 6
    ap, dp1 = _parts(odl, 1)
    _, dp2 = _parts(odl, 2)
    ap2, _ = _parts(odl, 2, 2)
    ap3, _ = _parts(odl, 2, 3)

    def v(k):
        while True:
            x = [round(rng.uniform(-2, 2), 3) for _ in range(k)]
            if np.linalg.norm(x) > 0.3:
                return x

    def axes3():
        while True:
            a0, a1 = v(3), v(3)
            if np.linalg.norm(np.cross(a0, a1)) > 0.3:
                return [a0, a1]
    for _ in range(n):
        tr2, tr3 = v(2), v(3)
        out.append(('Parallel2dGeometry', 'par2d', T.Parallel2dGeometry(
            ap, dp1, det_pos_init=v(2), det_axis_init=rng.choice([None, v(2)]), translation=tr2)))
        out.append(('Parallel3dAxisGeometry', 'par3a', T.Parallel3dAxisGeometry(
            ap, dp2, axis=v(3), det_pos_init=rng.choice([None, v(3)]), det_axes_init=rng.choice([None, axes3()]),
            translation=tr3)))
        out.append(('Parallel3dEulerGeometry', 'par3d', T.Parallel3dEulerGeometry(
            rng.choice([ap2, ap3]), dp2, det_pos_init=v(3), det_axes_init=rng.choice([None, axes3()]),
            translation=tr3)))
        ss, ds = rnd_shift(rng, 2), rnd_shift(rng, 2)
        kw = {}
        if ss:
            kw['src_shift_func'] = ss
        if ds:
            kw['det_shift_func'] = ds
        out.append(('FanBeamGeometry', 'fan', T.FanBeamGeometry(
            ap, dp1, rng.uniform(1, 5), rng.uniform(0.5, 5), det_curvature_radius=rng.choice([None, rng.uniform(1, 6)]),
            src_to_det_init=v(2), det_axis_init=rng.choice([None, v(2)]), translation=tr2, **kw)))
        ss, ds = rnd_shift(rng, 3), rnd_shift(rng, 3)
        kw = {}
        if ss:
            kw['src_shift_func'] = ss
        if ds:
            kw['det_shift_func'] = ds
        kind = rng.choice(['flat', 'flat', 'cyl', 'sph'])
        rad = rng.uniform(1, 6)
        curv = {'flat': None, 'cyl': (rad, None), 'sph': (rad, rad)}[kind]
        if kind == 'flat':
            axis, axes = v(3), rng.choice([None, axes3()])
        else:       # exact float perpendicularity is demanded by the curved detectors
            axis, axes = rng.choice([(0, 0, 1), (0, 0, 2.5)]), rng.choice([None] + [list(p) for p in PERP3])
        out.append(('ConeBeamGeometry[%s]' % kind, 'cone', T.ConeBeamGeometry(
            ap, dp2, rng.uniform(1, 5), rng.uniform(0.5, 5), det_curvature_radius=curv, pitch=rng.choice([0, 1.5, -2.0]),
            axis=axis, offset_along_axis=rng.choice([0, 0.75]), det_axes_init=axes, translation=tr3, **kw)))
    return out


def _mparam(rng, g, shape=()):
    nd = g.motion_params.ndim
    def one():
        return np.array([rng.uniform(-3.9, 3.9) for _ in range(int(np.prod(shape)) or 1)]).reshape(shape) if shape \
            else rng.uniform(-3.9, 3.9)
    return one() if nd == 1 else tuple(one() for _ in range(nd))


def _dparam(rng, g, shape=()):
    nd = g.det_params.ndim
    def one():
        return np.array([rng.uniform(-3.9, 3.9) for _ in range(int(np.prod(shape)) or 1)]).reshape(shape) if shape \
            else rng.uniform(-3.9, 3.9)
    return one() if nd == 1 else tuple(one() for _ in range(nd))


def _idx(param, ix):
    if isinstance(param, tuple):
        return tuple(float(np.broadcast_to(p, np.broadcast(*param).shape)[ix]) for p in param)
    return float(param[ix])


def _is_rot(m, tol=1e-12):
    m = np.asarray(m)
    return bool(np.allclose(m.T.dot(m), np.eye(len(m)), atol=tol) and abs(np.linalg.det(m) - 1) < tol)


def _snapshot(g, pts):
    vals = []
    for a, u in pts:
        vals += flat(g.rotation_matrix(a), g.det_refpoint(a), g.det_point_position(a, u), g.det_to_src(a, u))
        if hasattr(g, 'src_position'):
            vals += flat(g.src_position(a))
    for attr in ('det_pos_init', 'src_to_det_init', 'translation', 'axis'):
        if hasattr(g, attr):
            vals += flat(getattr(g, attr))
    vals += flat(g.detector.axis if hasattr(g.detector, 'axis') else g.detector.axes)
    return np.array(vals)


def _probe_slicing(rng, tier):
    """geom[i:j] keeps every relation: same vectors at the angles it retains, the sliced partition,
    and the original geometry is left untouched."""
    import odl
    T = odl.tomo
    out = []
    ap, dp1 = _parts(odl, 1)
    _, dp2 = _parts(odl, 2)
    reps = 2 if tier == 'quick' else 6
    for _ in range(reps):
        def v(k):
            return [round(rng.uniform(0.3, 2) * rng.choice([1, -1]), 3) for _ in range(k)]
        for tr_zero in (True, False):
            tr2 = [0.0, 0.0] if tr_zero else v(2)
            tr3 = [0.0, 0.0, 0.0] if tr_zero else v(3)
            rad = rng.uniform(1, 5)
            cands = [
                ('par2d', 'odl.tomo.Parallel2dGeometry(ap, dp1, det_pos_init=%r, translation=%r)' % (v(2), tr2)),
                ('par3a', 'odl.tomo.Parallel3dAxisGeometry(ap, dp2, axis=%r, det_pos_init=%r, translation=%r)' % (v(3), v(3), tr3)),
                ('fan', 'odl.tomo.FanBeamGeometry(ap, dp1, 3.0, 2.0, src_to_det_init=%r, translation=%r)' % (v(2), tr2)),
                ('fan-curved', 'odl.tomo.FanBeamGeometry(ap, dp1, 3.0, 2.0, det_curvature_radius=%r, src_to_det_init=%r, translation=%r)' % (rad, v(2), tr2)),
                ('cone', 'odl.tomo.ConeBeamGeometry(ap, dp2, 3.0, 2.0, axis=%r, pitch=1.5, offset_along_axis=0.5, translation=%r)' % (v(3), tr3)),
                ('cone-curved', 'odl.tomo.ConeBeamGeometry(ap, dp2, 3.0, 2.0, det_curvature_radius=(%r, %s), pitch=1.5, translation=%r)' % (rad, rng.choice(['None', repr(rad)]), tr3)),
            ]
            i, j = rng.choice([(1, 7), (2, 8), (0, 4), (3, 5)])
            lo, hi = -4.0 + i, -4.0 + j
            for key, ctor in cands:
                nd_det = 1 if key.startswith(('par2d', 'fan')) else 2
                pts = [(round(rng.uniform(lo, hi), 3),
                        round(rng.uniform(-3, 3), 3) if nd_det == 1 else (round(rng.uniform(-3, 3), 3), round(rng.uniform(-1, 1), 3)))
                       for _ in range(3)]
                rp = ("import numpy as np, odl, sys\nsys.path.insert(0, %r)\nfrom harness.c19 import _snapshot\n"
                      "ap = odl.uniform_partition(-4.0, 4.0, 8); dp1 = odl.uniform_partition(-4.0, 4.0, 8)\n"
                      "dp2 = odl.uniform_partition([-4.0, -4.0], [4.0, 4.0], [8, 6])\n"
                      "g = %s\npts = %r\nbefore = _snapshot(g, pts)\n"
                      "try:\n    h = g[%d:%d]\n    sliced = _snapshot(h, pts); after = _snapshot(g, pts)\n"
                      "    ok = bool(np.allclose(before, sliced, atol=1e-10) and np.allclose(before, after, atol=1e-10)\n"
                      "              and h.motion_partition == g.motion_partition[%d:%d] and h.det_partition == g.det_partition)\n"
                      "    observed = sliced.tolist(); expected = before.tolist()\n"
                      "except TypeError as e:\n    ok = False; observed = repr(e)\n" % (C.VERIF, ctor, pts, i, j, i, j))
                env = {}
                try:
                    exec(rp, env)
                    ok = env['ok']
                except Exception as e:        # noqa
                    ok = False
                k = 'slice-%s%s' % (key, '' if tr_zero else '-translated')
                if key == 'par2d' and not tr_zero:
                    k = 'parallel2d-getitem-translation-twice'
                if key == 'cone-curved':
                    k = 'cone-getitem-curved-typeerror'
                out.append(C.Probe(bool(ok), k, '%s sliced [%d:%d] keeps all vectors and leaves the original unchanged' % (ctor, i, j), rp))
    return out


# ---- slicing with every optional constructor keyword set ----
def ffs_shift2(angle):
    """Flying-focal-spot-like source shift (2-d): depends on the angle."""
    angle = np.array(angle, dtype=float, ndmin=1)
    return np.stack([0.2 * np.sin(angle), 0.1 + 0.05 * angle], axis=-1)


def ffs_shift3(angle):
    angle = np.array(angle, dtype=float, ndmin=1)
    return np.stack([0.2 * np.sin(angle), 0.1 + 0.05 * angle, -0.15 * np.cos(angle)], axis=-1)


def const_shift2(angle):
    """Constant detector offset, a DIFFERENT function from the source shift."""
    return [-0.3, 0.25]


def const_shift3(angle):
    return [-0.3, 0.25, 0.4]


# every optional constructor keyword (named and **kwargs) with a distinctive non-default value
_SLICE_KW = {
    'Parallel2dGeometry': dict(det_pos_init=[3.0, -1.0], det_axis_init=[1.0, 2.0], translation=[0.5, -1.5], check_bounds=False),
    'Parallel3dAxisGeometry': dict(axis=[1.0, 2.0, 2.0], det_pos_init=[2.0, -1.0, 0.5], det_axes_init=[[1.0, 1.0, 0.0], [0.0, 1.0, 3.0]],
                                   translation=[0.5, -1.5, 2.0], check_bounds=False),
    'FanBeamGeometry': dict(src_radius=3.0, det_radius=2.0, det_curvature_radius=4.5, src_to_det_init=[1.0, 2.0],
                            src_shift_func='ffs_shift2', det_shift_func='const_shift2', det_axis_init=[2.0, -1.0],
                            translation=[0.5, -1.5], check_bounds=False),
    'ConeBeamGeometry': dict(src_radius=3.0, det_radius=2.0, det_curvature_radius=(4.5, None), pitch=1.5, axis=[1.0, 2.0, 2.0],
                             src_shift_func='ffs_shift3', det_shift_func='const_shift3', offset_along_axis=0.75,
                             src_to_det_init=[2.0, -2.0, 1.0], det_axes_init=[[2.0, 1.0, -2.0], [1.0, 2.0, 2.0]],
                             translation=[0.5, -1.5, 2.0], check_bounds=False),
}
_SLICE_VARIANTS = {      # further values of single keywords, each combined with all the others
    'FanBeamGeometry': [dict(det_curvature_radius=None), dict(src_shift_func='const_shift2', det_shift_func='ffs_shift2')],
    'ConeBeamGeometry': [dict(det_curvature_radius=None), dict(det_curvature_radius=(4.5, 4.5)),
                         dict(src_shift_func='const_shift3', det_shift_func='ffs_shift3'), dict(pitch=-0.5, offset_along_axis=-1.25)],
    'Parallel2dGeometry': [dict(check_bounds=True)], 'Parallel3dAxisGeometry': [dict(check_bounds=True)],
}
_SLICE_COVERAGE = {}


def _sliceable_classes():
    """Geometry classes that define __getitem__, and their optional constructor parameters by introspection
    (named parameters with defaults; the **kwargs ones are those the class pops or passes on, listed in _SLICE_KW)."""
    import inspect
    import odl
    out = {}
    for name in dir(odl.tomo):
        cls = getattr(odl.tomo, name)
        if inspect.isclass(cls) and issubclass(cls, odl.tomo.Geometry) and '__getitem__' in vars(cls):
            sig = inspect.signature(cls.__init__)
            named = [p.name for p in sig.parameters.values()
                     if p.name not in ('self', 'apart', 'dpart') and p.kind == p.POSITIONAL_OR_KEYWORD]
            src = inspect.getsource(cls.__init__)
            import re
            popped = re.findall(r"kwargs\.(?:pop|get)\('(\w+)'", src)
            out[name] = sorted(set(named + popped + ['translation', 'check_bounds']))
    return out


def _slice_ctor(name, kw):
    parts = []
    for k, v in kw.items():
        parts.append('%s=%s' % (k, v if isinstance(v, str) and v.endswith(('shift2', 'shift3')) else repr(v)))
    dp = 'dp1' if name in ('Parallel2dGeometry', 'FanBeamGeometry') else 'dp2'
    return 'odl.tomo.%s(ap, %s, %s)' % (name, dp, ', '.join(parts))


def _slice_compare(g, h, angles, dparams):
    """List of (what, angle) where the slice h differs from the full geometry g."""
    bad = []
    for a in angles:
        fns = [('rotation_matrix', lambda x: x.rotation_matrix(a)), ('det_refpoint', lambda x: x.det_refpoint(a))]
        if hasattr(g, 'src_position'):
            fns.append(('src_position', lambda x: x.src_position(a)))
        fns.append(('det_axes', lambda x: x.det_axes(a) if hasattr(x, 'det_axes') else x.det_axis(a)))
        for u in dparams:
            fns.append(('det_point_position', lambda x, u=u: x.det_point_position(a, u)))
            fns.append(('det_to_src', lambda x, u=u: x.det_to_src(a, u)))
        for what, f in fns:
            try:
                if not np.allclose(f(h), f(g), atol=1e-10):
                    bad.append((what, float(a)))
            except Exception as e:      # noqa
                bad.append((what + ': ' + type(e).__name__, float(a)))
    if h.check_bounds != g.check_bounds:
        bad.append(('check_bounds', None))
    for attr in ('translation', 'src_radius', 'det_radius', 'pitch', 'offset_along_axis', 'det_curvature_radius'):
        if hasattr(g, attr) and not np.array_equal(np.asarray(getattr(h, attr), dtype=object), np.asarray(getattr(g, attr), dtype=object)):
            bad.append((attr, None))
    return bad


def _probe_slicing_keywords(rng, tier):
    """Slicing consistency with EVERY optional constructor keyword set to a distinctive non-default value (source and
    detector shift functions are different functions): geom[idx] agrees with geom at the angles it retains in
    rotation_matrix, det_refpoint, src_position, det_axes, det_point_position, det_to_src, and carries the same
    check_bounds / radii / pitch / offset / curvature; several index forms."""
    out = []
    classes = _sliceable_classes()
    pre = ("import numpy as np, odl, sys\nsys.path.insert(0, %r)\n"
           "from harness.c19 import ffs_shift2, ffs_shift3, const_shift2, const_shift3, _slice_compare\n"
           "ap = odl.uniform_partition(-4.0, 4.0, 8); dp1 = odl.uniform_partition(-4.0, 4.0, 8)\n"
           "dp2 = odl.uniform_partition([-4.0, -4.0], [4.0, 4.0], [8, 6])\n" % C.VERIF)
    for name, params in sorted(classes.items()):
        base = _SLICE_KW.get(name)
        _SLICE_COVERAGE[name] = {'constructor_keywords': params,
                                 'covered': sorted(base) if base else [],
                                 'uncovered': sorted(set(params) - set(base or {}))}
        if base is None:
            out.append(C.Probe(False, 'slice-keywords-unknown-class-' + name,
                               '%s defines __getitem__ but the slicing probe has no keyword table for it' % name, None))
            continue
        variants = [{}] + _SLICE_VARIANTS.get(name, [])
        if tier != 'quick':       # leave one keyword at its default at a time
            variants += [{'__drop__': k} for k in base if k not in ('src_radius', 'det_radius')]
        for var in variants:
            kw = dict(base)
            if '__drop__' in var:
                kw.pop(var['__drop__'])
            else:
                kw.update(var)
            ctor = _slice_ctor(name, kw)
            two = name in ('Parallel3dAxisGeometry', 'ConeBeamGeometry')
            for idx in (['1:7', '2:8:2', '3'] if tier == 'quick' else ['1:7', '2:8:2', '3', '::3', '-3:', '[0, 2, 5]', '5:6']):
                dps = [(round(rng.uniform(-3, 3), 3), round(rng.uniform(-1, 1), 3)) if two else round(rng.uniform(-3, 3), 3)
                       for _ in range(2)]
                rp = (pre + "g = %s\ntry:\n    h = g[%s]\nexcept Exception as e:\n    h = None; observed = repr(e)\n"
                      "if h is not None:\n    angles = list(np.atleast_1d(h.angles))\n"
                      "    lo_, hi_ = float(h.motion_params.min_pt[0]), float(h.motion_params.max_pt[0])\n"
                      "    angles += [lo_, hi_, 0.5 * (lo_ + hi_)]\n"
                      "    observed = _slice_compare(g, h, angles, %r)\n"
                      "    ok = (observed == [])\nelse:\n    ok = False\nexpected = []\n" % (ctor, idx, dps))
                if idx.startswith('['):
                    continue_ = False
                env = {}
                try:
                    exec(rp, env)
                    ok, obs = env['ok'], env.get('observed')
                except Exception as e:      # noqa
                    ok, obs = False, repr(e)
                only_cb = bool(obs) and isinstance(obs, list) and all(w == 'check_bounds' for w, _ in obs)
                k = 'slice-keywords-' + name
                if only_cb:
                    k = 'getitem-drops-check_bounds'
                out.append(C.Probe(bool(ok), k, '%s[%s] agrees with the full geometry at the retained angles'
                                   % (ctor, idx), rp, {'differences': str(obs)[:300]}))
    return out


def extra_coverage():
    if not _SLICE_COVERAGE:
        try:
            C.setup_impl_path()
            _probe_slicing_keywords(C.rng_for(PID, 0), 'quick')
        except Exception:       # noqa
            pass
    return {'slicing_constructor_keywords': dict(_SLICE_COVERAGE)}


def _probe_frommatrix(rng, tier):
    """frommatrix with a rotation matrix M and a translation t: every absolute vector is t + M (default geometry's
    vector) -- for the classes whose motion commutes with M in that sense (2-d classes; axis-oriented 3-d classes)."""
    import odl
    from odl.tomo.util.utility import axis_rotation_matrix, euler_matrix
    T = odl.tomo
    out = []
    ap, dp1 = _parts(odl, 1)
    _, dp2 = _parts(odl, 2)
    reps = 2 if tier == 'quick' else 8
    for _ in range(reps):
        th = rng.uniform(-3, 3)
        ax = np.array([rng.uniform(-1, 1) for _ in range(3)])
        ax /= np.linalg.norm(ax)
        M2, M3 = euler_matrix(th), axis_rotation_matrix(ax, th)
        t2, t3 = [rng.uniform(-2, 2) for _ in range(2)], [rng.uniform(-2, 2) for _ in range(3)]
        rad = rng.uniform(1, 5)
        for key, cls, args, kw, M, t, dp in [
                ('par2d', T.Parallel2dGeometry, (), {}, M2, t2, dp1),
                ('fan', T.FanBeamGeometry, (3.0, 2.0), {}, M2, t2, dp1),
                ('fan-curved', T.FanBeamGeometry, (3.0, 2.0), {'det_curvature_radius': rad}, M2, t2, dp1),
                ('par3a', T.Parallel3dAxisGeometry, (), {}, M3, t3, dp2),
                ('cone', T.ConeBeamGeometry, (3.0, 2.0), {'pitch': 1.5}, M3, t3, dp2),
                ('cone-curved', T.ConeBeamGeometry, (3.0, 2.0), {'pitch': 1.5, 'det_curvature_radius': (rad, None)}, M3, t3, dp2)]:
            mat = np.hstack([M, np.array(t)[:, None]])
            try:
                g0 = cls(ap, dp, *args, **kw)
                g = cls.frommatrix(ap, dp, *(args + (mat,)), **kw)
                ok = True
                for _k in range(3):
                    a = rng.uniform(-3.9, 3.9)
                    u = rng.uniform(-3, 3) if g.det_params.ndim == 1 else (rng.uniform(-3, 3), rng.uniform(-1, 1))
                    ok = ok and np.allclose(g.det_point_position(a, u), t + M.dot(g0.det_point_position(a, u)), atol=1e-9)
                    ok = ok and np.allclose(g.det_to_src(a, u), M.dot(g0.det_to_src(a, u)), atol=1e-9)
                    ok = ok and _is_rot(g.rotation_matrix(a), 1e-10)
                    if hasattr(g, 'src_position'):
                        ok = ok and np.allclose(g.src_position(a), t + M.dot(g0.src_position(a)), atol=1e-9)
            except Exception as e:        # noqa
                ok = False
            k = 'frommatrix-' + key
            if key == 'cone-curved':
                k = 'cone-curved-axes-exact-perpendicularity'
            out.append(C.Probe(bool(ok), k, '%s.frommatrix([M|t]) = t + M (default geometry), M a rotation' % cls.__name__,
                               None, {'matrix': mat.tolist(), 'kw': str(kw)}))
    return out


def _general_matrices(rng, n, count):
    """Accepted but non-orthogonal init matrices: scaled rotations, shears, anisotropic scalings, mirrors, general
    well-conditioned matrices."""
    from odl.tomo.util.utility import axis_rotation_matrix, euler_matrix
    out = []
    while len(out) < count:
        kind = rng.choice(['scaled-rotation', 'shear', 'scaling', 'general', 'mirror-scaled'])
        if n == 2:
            R = euler_matrix(rng.uniform(-3, 3))
        else:
            ax = np.array([rng.uniform(-1, 1) for _ in range(3)])
            R = axis_rotation_matrix(ax / np.linalg.norm(ax), rng.uniform(-3, 3))
        if kind == 'scaled-rotation':
            M = rng.choice([0.5, 2.0, 3.5]) * R
        elif kind == 'shear':
            M = np.eye(n)
            i_, j_ = rng.sample(range(n), 2)
            M[i_, j_] = rng.choice([0.5, -1.5, 2.0])
            M = R.dot(M)
        elif kind == 'scaling':
            M = R.dot(np.diag([rng.choice([0.5, 1.0, 2.0, 3.0]) for _ in range(n)]))
        elif kind == 'mirror-scaled':
            d = [rng.choice([0.5, 2.0]) for _ in range(n)]
            d[rng.randrange(n)] *= -1
            M = np.diag(d).dot(R)
        else:
            M = np.array([[rng.uniform(-2, 2) for _ in range(n)] for _ in range(n)])
        if np.linalg.cond(M) < 30:
            out.append((kind, np.round(M, 6)))
    return out


def _probe_frommatrix_general(rng, tier):
    """frommatrix with NON-orthogonal accepted matrices.  Documented (all five classes): the left block of init_matrix is
    multiplied with the default vectors to determine the new ones, the last column is a translation applied afterwards,
    the resulting axes are normalised.  Checked against NumPy M . defaults: stored vectors and the positions at angle 0
    (where the rotation matrix is the identity)."""
    import odl
    out = []
    pre = ("import numpy as np, odl\nap = odl.uniform_partition(-4.0, 4.0, 8); dp1 = odl.uniform_partition(-4.0, 4.0, 8)\n"
           "ap2 = odl.uniform_partition([-4.0, -4.0], [4.0, 4.0], [8, 8])\n"
           "dp2 = odl.uniform_partition([-4.0, -4.0], [4.0, 4.0], [8, 6])\n"
           "unit = lambda v: np.asarray(v, dtype=float) / np.linalg.norm(v)\n")
    count = 4 if tier == 'quick' else 14
    specs = [
        ('par2d', 2, 'odl.tomo.Parallel2dGeometry.frommatrix(ap, dp1, mat)',
         "exp = dict(det_pos_init=M.dot([0, 1]) + t, det_axis_init=unit(M.dot([1, 0])), translation=t)\n"
         "pts = [(g.det_point_position(0.0, 0.75), exp['det_pos_init'] + 0.75 * exp['det_axis_init'])]\n"),
        ('fan', 2, 'odl.tomo.FanBeamGeometry.frommatrix(ap, dp1, 3.0, 2.0, mat)',
         "exp = dict(src_to_det_init=unit(M.dot([0, 1])), det_axis_init=unit(M.dot([1, 0])), translation=t)\n"
         "pts = [(g.src_position(0.0), t - 3.0 * exp['src_to_det_init']),\n"
         "       (g.det_point_position(0.0, 0.75), t + 2.0 * exp['src_to_det_init'] + 0.75 * exp['det_axis_init'])]\n"),
        ('par3d', 3, 'odl.tomo.Parallel3dEulerGeometry.frommatrix(ap2, dp2, mat)',
         "exp = dict(det_pos_init=M.dot([0, 1, 0]) + t, det_axes_init=np.array([unit(M.dot([1, 0, 0])), unit(M.dot([0, 0, 1]))]), translation=t)\n"
         "pts = [(g.det_point_position((0.0, 0.0), (0.75, -0.5)), exp['det_pos_init'] + 0.75 * exp['det_axes_init'][0] - 0.5 * exp['det_axes_init'][1])]\n"),
        ('par3a', 3, 'odl.tomo.Parallel3dAxisGeometry.frommatrix(ap, dp2, mat)',
         "exp = dict(axis=unit(M.dot([0, 0, 1])), det_pos_init=M.dot([0, 1, 0]) + t, det_axes_init=np.array([unit(M.dot([1, 0, 0])), unit(M.dot([0, 0, 1]))]), translation=t)\n"
         "pts = [(g.det_point_position(0.0, (0.75, -0.5)), exp['det_pos_init'] + 0.75 * exp['det_axes_init'][0] - 0.5 * exp['det_axes_init'][1])]\n"),
        ('cone', 3, 'odl.tomo.ConeBeamGeometry.frommatrix(ap, dp2, 3.0, 2.0, mat, pitch=1.5)',
         "exp = dict(axis=unit(M.dot([0, 0, 1])), src_to_det_init=unit(M.dot([0, 1, 0])), det_axes_init=np.array([unit(M.dot([1, 0, 0])), unit(M.dot([0, 0, 1]))]), translation=t)\n"
         "pts = [(g.src_position(0.0), t - 3.0 * exp['src_to_det_init']),\n"
         "       (g.det_point_position(0.0, (0.75, -0.5)), t + 2.0 * exp['src_to_det_init'] + 0.75 * exp['det_axes_init'][0] - 0.5 * exp['det_axes_init'][1])]\n")]
    for key, n, ctor, expect in specs:
        for kind, M in _general_matrices(rng, n, count):
            with_t = rng.random() < 0.7
            tvec = [round(rng.uniform(-2, 2), 3) for _ in range(n)] if with_t else [0.0] * n
            rp = (pre + "M = np.array(%r); t = np.array(%r)\nmat = %s\ng = %s\n%s"
                  "bad = [k for k, v in exp.items() if not np.allclose(getattr(g, k), v, atol=1e-9)]\n"
                  "bad += ['point %%d' %% i for i, (got, want) in enumerate(pts) if not np.allclose(got, want, atol=1e-9)]\n"
                  "observed = {k: np.asarray(getattr(g, k)).tolist() for k in exp}; expected = {k: np.asarray(v).tolist() for k, v in exp.items()}\n"
                  "ok = not bad\n" % (M.tolist(), tvec, 'np.hstack([M, t[:, None]])' if with_t else 'M', ctor, expect))
            env = {}
            try:
                exec(rp, env)
                ok, bad = env['ok'], env['bad']
            except Exception as e:      # noqa
                ok, bad = False, repr(e)[:120]
            out.append(C.Probe(bool(ok), 'frommatrix-nonorthogonal-' + key,
                               '%s with a %s matrix%s: stored vectors and the positions at angle 0 are M . defaults (+ translation), '
                               'axes normalised' % (ctor, kind, ' and translation column' if with_t else ''), rp, {'mismatch': str(bad)}))
    return out


def _hit_coords(g, a, X):
    """Detector coordinates at which the ray through X meets a FLAT detector at angle a."""
    ref = g.det_refpoint(a)
    if hasattr(g, 'src_position'):
        src = g.src_position(a)
        d = X - src
    else:
        mid = g.det_params.mid_pt       # a parameter inside the detector (shifted volumes: 0 may be outside)
        d = -g.det_to_src(a, float(mid[0]) if g.det_params.ndim == 1 else tuple(float(m_) for m_ in mid))
        src = X
    axes = np.atleast_2d(g.det_axis(a) if hasattr(g, 'det_axis') else g.det_axes(a))
    A = np.column_stack(list(axes) + [-d])
    sol = np.linalg.solve(A, src - ref)
    return sol[:-1]


_BOX_KINDS = ['mostly-negative', 'negative', 'mostly-positive', 'positive', 'straddle']


def _box(rng, ndim, last=None):
    """Volume placed asymmetrically about every axis: per axis straddling the origin, entirely negative, entirely
    positive, or straddling with the larger part negative."""
    lo, hi = [], []
    for ax_ in range(ndim):
        kind = rng.choice(_BOX_KINDS)
        if last is not None and ax_ == ndim - 1:
            kind = last                 # placement of the last axis (z) cycled deterministically by the caller
        if kind == 'straddle':
            a, b = rng.uniform(-2, -0.5), rng.uniform(0.5, 2)
        elif kind == 'negative':
            a, b = rng.uniform(-3, -2), rng.uniform(-1.5, -0.5)
        elif kind == 'positive':
            a, b = rng.uniform(0.5, 1.5), rng.uniform(2, 3)
        elif kind == 'mostly-negative':
            a, b = rng.uniform(-3, -2), rng.uniform(0.3, 1)
        else:
            a, b = rng.uniform(-1, -0.3), rng.uniform(2, 3)
        lo.append(round(a, 2))
        hi.append(round(b, 2))
    return lo, hi


def _probe_factories(rng, tier):
    """parallel_beam_geometry / cone_beam_geometry / helical_geometry: every corner of the volume is hit by a ray
    that lands inside the detector, for every angle of the motion grid."""
    import odl
    T = odl.tomo
    out = []
    reps = 2 if tier == 'quick' else 6
    for _ in range(reps):
        for ndim in (2, 3):
            lo, hi = _box(rng, ndim)
            shape = [rng.randint(4, 12) for _ in range(ndim)]
            rho = float(np.max(np.linalg.norm(np.array([[x, y] for x in (lo[0], hi[0]) for y in (lo[1], hi[1])]), axis=1)))
            rs = round(rho * rng.uniform(1.2, 4), 2)
            rd = round(rng.uniform(0.5, 5), 2)
            cands = [('factory-parallel-coverage', 'odl.tomo.parallel_beam_geometry(space)', (True, True)),
                     ('cone-beam-geometry-flat-coverage', 'odl.tomo.cone_beam_geometry(space, %r, %r)' % (rs, rd), (True, True)),
                     ('cone-beam-geometry-flat-coverage', 'odl.tomo.cone_beam_geometry(space, %r, %r, short_scan=True)' % (rs, rd), (True, True))]
            if ndim == 3:
                cands.append(('cone-beam-geometry-flat-coverage', 'odl.tomo.helical_geometry(space, %r, %r, num_turns=2)' % (rs, rd), (True, False)))
            for key, ctor, (chk_u, chk_v) in cands:
                rp = ("import numpy as np, odl, sys\nsys.path.insert(0, %r)\nfrom harness.c19 import _hit_coords\n"
                      "space = odl.uniform_discr(%r, %r, %r)\ng = %s\nworst = [0.0, 0.0]\n"
                      "lo, hi = np.atleast_1d(g.det_params.min_pt), np.atleast_1d(g.det_params.max_pt)\n"
                      "for a in g.angles:\n    for X in space.domain.corners():\n        c = _hit_coords(g, a, X)\n"
                      "        for k in range(len(c)):\n            worst[k] = max(worst[k], (c[k] - hi[k]) / (hi[k] - lo[k]), (lo[k] - c[k]) / (hi[k] - lo[k]))\n"
                      "observed = worst; expected = 'relative overshoot <= 1e-9 in every detector direction'\n"
                      "ok_u = worst[0] <= 1e-9; ok_v = worst[1] <= 1e-9\n" % (C.VERIF, lo, hi, shape, ctor))
                env = {}
                try:
                    exec(rp, env)
                    ok_u, ok_v, worst = env['ok_u'], env['ok_v'], env['worst']
                except Exception as e:       # noqa
                    ok_u = ok_v = False
                    worst = repr(e)
                if chk_u:
                    out.append(C.Probe(bool(ok_u), key, '%s on [%s, %s]: all volume corners project inside the detector '
                                       '(horizontal direction)' % (ctor, lo, hi), rp + 'ok = ok_u\n', {'overshoot': worst}))
                if chk_v and ndim == 3:
                    kv = key if key.startswith('factory') else 'cone-beam-geometry-vertical-coverage'
                    out.append(C.Probe(bool(ok_v), kv, '%s on [%s, %s]: all volume corners project inside the detector '
                                       '(vertical direction)' % (ctor, lo, hi), rp + 'ok = ok_v\n', {'overshoot': worst}))
    return out


# integer right-handed orthogonal frames (images of e_x, e_y, e_z), exactly perpendicular in floating point
FRAMES = [((1, 2, 2), (2, -2, 1), (2, 1, -2)), ((2, -2, 1), (2, 1, -2), (1, 2, 2)), ((3, 4, 0), (-4, 3, 0), (0, 0, 2)),
          ((2, 3, 6), (-6, -2, 3), (3, -6, 2)), ((1, 0, 0), (0, 1, 0), (0, 0, 1)), ((0, 0, 1), (1, 0, 0), (0, 1, 0)),
          ((0, 1, 0), (-1, 0, 0), (0, 0, 1)), ((4, 4, 7), (-8, 1, 4), (1, -8, 4)), ((12, 5, 0), (5, -12, 0), (0, 0, -1)),
          ((2, 1, -2), (1, 2, 2), (2, -2, 1)), ((0, -1, 0), (1, 0, 0), (0, 0, 1)), ((-1, 0, 0), (0, 0, 1), (0, 1, 0))]


def _minimal_rotation(f, t):
    """Independent reference: the rotation of smallest angle taking the unit vector f to the unit vector t
    (f != -t)."""
    f, t = np.asarray(f, float), np.asarray(t, float)
    v = np.cross(f, t)
    c = float(f.dot(t))
    K = np.array([[0, -v[2], v[1]], [v[2], 0, -v[0]], [-v[1], v[0], 0]])
    return np.eye(3) + K + K.dot(K) / (1 + c)


def _antiparallel_axes(a0, a1):
    """The curved detectors align themselves by r1 = rotation(-e_y -> a0), r2 = rotation(r1 e_z -> a1); when
    r1 e_z = -a1 the second rotation is a half turn about an arbitrary axis (recorded finding)."""
    a0 = np.asarray(a0, float) / np.linalg.norm(a0)
    a1 = np.asarray(a1, float) / np.linalg.norm(a1)
    if np.allclose(a0, [0, 1, 0]):
        return True                 # already the first rotation is a half turn about an arbitrary axis
    r1 = _minimal_rotation([0, -1, 0], a0)
    return bool(r1.dot([0, 0, 1]).dot(a1) < -1 + 1e-9)


def _probe_curved(rng, tier):
    """Curved detectors with non-default axes: surface_deriv(0, 0) = radius * axes (height axis of the cylinder: the
    axis itself); a spherical detector of radius src_radius + det_radius is equidistant from the source; the whole
    cone beam geometry built on a rotated frame is the rigid-motion image of the default one (flat, cylindrical and
    spherical detectors; direct construction on integer frames and frommatrix with generic rotation matrices)."""
    import odl
    out = []
    pre = ("import numpy as np, odl\nap = odl.uniform_partition(-4.0, 4.0, 8)\n"
           "dp2 = odl.uniform_partition([-4.0, -4.0], [4.0, 4.0], [8, 6])\n")
    frames = FRAMES if tier != 'quick' else FRAMES[:8]
    for e1, e2, e3 in frames:
        for s1, s3 in ((1, 1), (1, -1)) if tier == 'quick' else ((1, 1), (1, -1), (-1, 1), (-1, -1)):
            a0 = [s1 * x for x in e1]
            a1 = [s3 * x for x in e3]
            s2d = [s1 * s3 * x for x in e2]          # keeps the frame right-handed
            known = _antiparallel_axes(a0, a1)
            rad = rng.choice([1.5, 2.5, 4.0])
            for cls, curvkind in (('CylindricalDetector', 'cyl'), ('SphericalDetector', 'sph')):
                rp = (pre + "from odl.tomo.geometry.detector import %s\n"
                      "d = %s(dp2, axes=[%r, %r], radius=%r)\n"
                      "observed = d.surface_deriv((0.0, 0.0)).tolist()\n"
                      "expected = (d.axes * np.array([[%r], [%s]])).tolist()\n"
                      "ok = bool(np.allclose(observed, expected, atol=1e-10) and np.allclose(d.surface((0.0, 0.0)), 0, atol=1e-10))\n"
                      % (cls, cls, a0, a1, rad, rad, repr(rad) if curvkind == 'sph' else '1.0'))
                env = {}
                try:
                    exec(rp, env)
                    ok = env['ok']
                except Exception:       # noqa
                    ok = False
                out.append(C.Probe(bool(ok), 'curved-detector-antiparallel-axes' if known else 'curved-deriv-at-zero-' + cls,
                                   '%s(axes=[%r, %r]): surface_deriv(0, 0) equals radius * axes and surface(0, 0) = 0' % (cls, a0, a1), rp))
            # source-centred sphere: every detector point has distance src_radius + det_radius from the source
            rs, rd = rng.choice([(3.0, 2.0), (2.5, 1.5), (4.0, 4.0)])
            pts = [(round(rng.uniform(-3.9, 3.9), 3), (round(rng.uniform(-1.2, 1.2), 3), round(rng.uniform(-1.2, 1.2), 3)))
                   for _ in range(4)]
            rp = (pre + "g = odl.tomo.ConeBeamGeometry(ap, dp2, %r, %r, det_curvature_radius=(%r, %r), axis=%r, src_to_det_init=%r, "
                  "det_axes_init=[%r, %r], pitch=1.5, translation=[0.5, -1.0, 2.0])\n"
                  "observed = [float(np.linalg.norm(g.det_to_src(a, u, normalized=False))) for a, u in %r]\n"
                  "expected = %r\nok = bool(np.allclose(observed, expected, atol=1e-9))\n"
                  % (rs, rd, rs + rd, rs + rd, a1, s2d, a0, a1, pts, rs + rd))
            env = {}
            try:
                exec(rp, env)
                ok = env['ok']
            except Exception:       # noqa
                ok = False
            out.append(C.Probe(bool(ok), 'curved-detector-antiparallel-axes' if known else 'sphere-source-centred-equidistant',
                               'ConeBeamGeometry with a source-centred spherical detector on the frame %r: all detector '
                               'points are at distance src_radius + det_radius from the source' % ((a0, s2d, a1),), rp))
            # rigid-motion image of the default geometry (direct construction on the integer frame)
            for kind, curv in (('flat', 'None'), ('cyl', '(%r, None)' % rad), ('sph', '(%r, %r)' % (rad, rad))):
                rp = (pre + "M = np.array([%r, %r, %r], dtype=float).T; M /= np.linalg.norm(M, axis=0)\n"
                      "t = np.array([0.5, -1.0, 2.0])\nkw = dict(det_curvature_radius=%s, pitch=1.5, offset_along_axis=0.25)\n"
                      "g0 = odl.tomo.ConeBeamGeometry(ap, dp2, 3.0, 2.0, **kw)\n"
                      "g = odl.tomo.ConeBeamGeometry(ap, dp2, 3.0, 2.0, axis=%r, src_to_det_init=%r, det_axes_init=[%r, %r], translation=t, **kw)\n"
                      "ok = True\nfor a, u in %r:\n"
                      "    ok = ok and np.allclose(g.det_point_position(a, u), t + M.dot(g0.det_point_position(a, u)), atol=1e-9)\n"
                      "    ok = ok and np.allclose(g.src_position(a), t + M.dot(g0.src_position(a)), atol=1e-9)\n"
                      "    ok = ok and np.allclose(g.det_to_src(a, u), M.dot(g0.det_to_src(a, u)), atol=1e-9)\n"
                      "    ok = ok and np.allclose(g.detector.surface_normal(u), M.dot(g0.detector.surface_normal(u)), atol=1e-9)\n"
                      "ok = bool(ok)\n" % (a0, s2d, a1, curv, a1, s2d, a0, a1, pts))
                env = {}
                try:
                    exec(rp, env)
                    ok = env['ok']
                except Exception:       # noqa
                    ok = False
                k = 'rigid-image-cone-' + kind
                if known and kind != 'flat':
                    k = 'curved-detector-antiparallel-axes'
                out.append(C.Probe(bool(ok), k, 'ConeBeamGeometry[%s] built on the frame %r is translation + M (default geometry)'
                                   % (kind, (a0, s2d, a1)), rp))
    # frommatrix with generic rotation matrices (flat, cylindrical, spherical)
    from odl.tomo.util.utility import axis_rotation_matrix
    n = 6 if tier == 'quick' else 25
    for _ in range(n):
        ax = np.array([rng.uniform(-1, 1) for _ in range(3)])
        ax /= np.linalg.norm(ax)
        M = axis_rotation_matrix(ax, rng.uniform(-3, 3))
        t = [round(rng.uniform(-2, 2), 3) for _ in range(3)]
        rad = rng.choice([1.5, 2.5, 4.0])
        pts = [(round(rng.uniform(-3.9, 3.9), 3), (round(rng.uniform(-1.2, 1.2), 3), round(rng.uniform(-1.2, 1.2), 3)))
               for _ in range(3)]
        for kind, curv in (('flat', 'None'), ('cyl', '(%r, None)' % rad), ('sph', '(%r, %r)' % (rad, rad))):
            rp = (pre + "M = np.array(%r); t = np.array(%r)\nkw = dict(det_curvature_radius=%s, pitch=1.5)\n"
                  "g0 = odl.tomo.ConeBeamGeometry(ap, dp2, 3.0, 2.0, **kw)\nperp_error = False\n"
                  "try:\n    g = odl.tomo.ConeBeamGeometry.frommatrix(ap, dp2, 3.0, 2.0, np.hstack([M, t[:, None]]), **kw)\n"
                  "    ok = True\n    for a, u in %r:\n"
                  "        ok = ok and np.allclose(g.det_point_position(a, u), t + M.dot(g0.det_point_position(a, u)), atol=1e-9)\n"
                  "        ok = ok and np.allclose(g.src_position(a), t + M.dot(g0.src_position(a)), atol=1e-9)\n"
                  "        ok = ok and np.allclose(g.det_to_src(a, u), M.dot(g0.det_to_src(a, u)), atol=1e-9)\n"
                  "    ok = bool(ok)\nexcept ValueError as e:\n    ok = False; perp_error = 'perpendicular' in str(e); observed = repr(e)\n"
                  % (M.tolist(), t, curv, pts))
            env = {}
            try:
                exec(rp, env)
                ok, perp = env['ok'], env['perp_error']
            except Exception:       # noqa
                ok, perp = False, False
            k = 'frommatrix-generic-cone-' + kind
            if perp:
                k = 'cone-curved-axes-exact-perpendicularity'
            out.append(C.Probe(bool(ok), k, 'ConeBeamGeometry.frommatrix with a generic rotation matrix, %s detector: '
                               'translation + M (default geometry)' % kind, rp))
    return out


_KINDS = ['pyscalar', 'zerod', 'len1', 'vec', 'col', 'row']


def _mk_kind(rng, kind, n=3):
    def r():
        return round(rng.uniform(-3.5, 3.5), 3)
    if kind == 'pyscalar':
        return r()
    if kind == 'zerod':
        return np.array(r())
    shape = {'len1': (1,), 'vec': (n,), 'col': (n, 1), 'row': (1, n)}[kind]
    return np.array([r() for _ in range(int(np.prod(shape)))]).reshape(shape)


def _shape_geoms():
    """Deterministic list (name, key, geometry): one geometry per class / detector type, no shift functions."""
    import odl
    geoms = _rand_geoms(C.rng_for('C19-shapes', 0), 'quick')
    seen = set()
    sel = []
    for name, key, g in geoms:
        k = (key, type(g.detector).__name__)
        if k not in seen and not isinstance(getattr(g, 'src_shift_func', None), Shift) \
                and not isinstance(getattr(g, 'det_shift_func', None), Shift):
            seen.add(k)
            sel.append((name, key, g))
    ap, _ = _parts(odl, 1)
    _, dp2 = _parts(odl, 2)
    for kind, curv in (('cyl', (2.5, None)), ('sph', (2.5, 2.5))):
        sel.append(('ConeBeamGeometry[%s]' % kind, 'cone', odl.tomo.ConeBeamGeometry(ap, dp2, 3.0, 2.0,
                                                                                  det_curvature_radius=curv, pitch=1.5)))
    return sel


def _lit(p):
    """Python source of a parameter (scalar, array or tuple of those)."""
    if isinstance(p, tuple):
        return '(' + ', '.join(_lit(c) for c in p) + ',)'
    if isinstance(p, np.ndarray):
        return 'np.array(%r).reshape(%r)' % (p.ravel().tolist() if p.ndim else float(p), p.shape)
    return repr(float(p))


def _shape_check(owner, fname, tail, *params):
    """(ok, observed shape, expected shape): owner.fname(*params) has shape broadcast(params).shape + tail and equals
    the loop over scalar calls."""
    f = getattr(owner, fname)

    def comps(p):
        return list(p) if isinstance(p, tuple) else [p]
    shp = np.broadcast(*[np.asarray(c) for p in params for c in comps(p)]).shape
    try:
        full = np.asarray(f(*params))
    except Exception as e:      # noqa
        return False, repr(e)[:100], tuple(shp) + tuple(tail)
    ok = full.shape == tuple(shp) + tuple(tail)
    if ok:
        for ix in np.ndindex(*shp):
            one = []
            for p in params:
                cs_ = [float(np.broadcast_to(np.asarray(c), shp)[ix]) for c in comps(p)]
                one.append(tuple(cs_) if isinstance(p, tuple) else cs_[0])
            ok = ok and np.allclose(full[ix], f(*one), atol=1e-10)
    return bool(ok), full.shape, tuple(shp) + tuple(tail)


def _probe_shapes(rng, tier):
    """Documented output shapes under scalar/array mixing.  The rigid-motion theorems are statements per
    (angle, detector parameter) point; this probe lifts them to the documented broadcasting: for every vectorised
    method, every kind of argument {python scalar, 0-d array, shape (1,), (n,), (n,1), (1,n)} for the motion
    parameter x the same kinds for the detector parameter (tuples of such for 2-d parameters, including mixed
    scalar/array components), the result has shape broadcast(mparam, dparam).shape + tail -- squeezed only when ALL
    parameters are scalars -- and equals a loop of scalar calls."""
    import odl
    out = []
    tol = 1e-10
    sel = _shape_geoms()
    pairs = [(a, b) for a in _KINDS for b in _KINDS]
    if tier == 'quick':
        pairs = [p for p in pairs if rng.random() < 0.45 or 'pyscalar' in p or 'len1' in p]

    def comps(p):
        return list(p) if isinstance(p, tuple) else [p]

    def bshape(*ps):
        return np.broadcast(*[np.asarray(c) for p in ps for c in comps(p)]).shape

    def at(p, shp, ix, nd):
        cs_ = [float(np.broadcast_to(np.asarray(c), shp)[ix]) for c in comps(p)]
        return cs_[0] if nd == 1 else tuple(cs_)

    def psi_only(a):
        """Three Euler angles whose broadcast shape is not already that of (phi, theta) (recorded finding)."""
        cs_ = comps(a)
        return len(cs_) == 3 and bshape(tuple(cs_[:2])) != bshape(tuple(cs_))

    def build(nd, kind):
        """Parameter of the given kind; for 2-d parameters also variants with one scalar component."""
        if nd == 1:
            return [_mk_kind(rng, kind)]
        vs = [tuple(_mk_kind(rng, kind) for _ in range(nd))]
        if kind not in ('pyscalar', 'zerod'):
            vs.append(tuple([_mk_kind(rng, kind)] + [_mk_kind(rng, 'pyscalar') for _ in range(nd - 1)]))
            vs.append(tuple([_mk_kind(rng, 'pyscalar') for _ in range(nd - 1)] + [_mk_kind(rng, kind)]))
        return vs
    def replay(gi, on_det, fname, tail, params):
        return ("import numpy as np, sys\nsys.path.insert(0, %r)\nfrom harness.c19 import _shape_geoms, _shape_check\n"
                "g = _shape_geoms()[%d][2]\nowner = g.detector if %r else g\n"
                "ok, observed, expected = _shape_check(owner, %r, %r, %s)\n"
                % (C.VERIF, gi, on_det, fname, tuple(tail), ', '.join(_lit(p) for p in params)))
    for gi, (name, key, g) in enumerate(sel):
        nd, mnd, dnd = g.ndim, g.motion_params.ndim, g.det_params.ndim
        det = type(g.detector).__name__
        two = [('det_point_position', (nd,)), ('det_to_src', (nd,))]
        one_m = [('rotation_matrix', (nd, nd)), ('det_refpoint', (nd,))]
        if hasattr(g, 'src_position'):
            one_m.append(('src_position', (nd,)))
        if hasattr(g, 'det_axes'):
            one_m.append(('det_axes', (2, nd)))
        one_d = [('surface', (nd,)), ('surface_normal', (nd,)), ('surface_deriv', (nd,) if dnd == 1 else (2, nd)),
                 ('surface_measure', ())]
        for ka, ku in pairs:
            for a in build(mnd, ka)[:1 if tier == 'quick' else 3]:
                for u in build(dnd, ku)[:2 if tier == 'quick' else 3]:
                    for fname, tail in two:
                        ok, obs, exp = _shape_check(g, fname, tail, a, u)
                        k = 'shape-%s-%s' % (key, fname)
                        if key == 'par3d' and psi_only(a):
                            k = 'euler-matrix-psi-broadcast'
                        out.append(C.Probe(ok, k, '%s.%s(mparam kind %s %s, dparam kind %s %s): documented shape %s and values '
                                           'of scalar calls' % (name, fname, ka, [np.shape(c) for c in comps(a)], ku,
                                                                [np.shape(c) for c in comps(u)], exp),
                                           replay(gi, False, fname, tail, (a, u)), {'observed': obs}))
        for kind in _KINDS:
            for which, fns, pnd in (('m', one_m, mnd), ('d', one_d, dnd)):
                for p in build(pnd, kind):
                    for fname, tail in fns:
                        ok, obs, exp = _shape_check(g if which == 'm' else g.detector, fname, tail, p)
                        owner = key if which == 'm' else det
                        k = 'shape-%s-%s' % (owner, fname)
                        if which == 'm' and key == 'par3d' and psi_only(p):
                            k = 'euler-matrix-psi-broadcast'
                        if fname == 'surface_measure' and pnd == 2 and len(set(np.shape(c) for c in comps(p))) > 1:
                            k = 'surface-measure-mixed-param-shapes'
                        out.append(C.Probe(ok, k, '%s.%s(param kind %s %s): documented shape %s and values of scalar calls'
                                           % (name if which == 'm' else det, fname, kind, [np.shape(c) for c in comps(p)], exp),
                                           replay(gi, which == 'd', fname, tail, (p,)), {'observed': obs}))
    return out


def _probe_factory_attributes(rng, tier):
    """Every factory, every keyword: each attribute of the returned geometry equals the requested value (src_radius !=
    det_radius in both orders), and -- computed from the returned object's own src_position / det_refpoint / det_axes --
    every volume corner on the detector side of the rotation axis projects inside the detector (the part of the coverage
    statement that is a theorem for the current width formula: cone_factory_coverage_partial)."""
    import odl
    out = []
    pre = ("import numpy as np, odl, sys\nsys.path.insert(0, %r)\nfrom harness.c19 import _hit_coords\n" % C.VERIF)
    reps = 5 if tier == 'quick' else 10          # every placement of the z range at least once
    for rep in range(reps):
        lo, hi = _box(rng, 3, _BOX_KINDS[rep % len(_BOX_KINDS)])
        shape = [rng.randint(4, 9) for _ in range(3)]
        rho = float(np.max(np.linalg.norm(np.array([[x, y] for x in (lo[0], hi[0]) for y in (lo[1], hi[1])]), axis=1)))
        big, small = round(rho * rng.uniform(2.5, 4), 2), round(rho * rng.uniform(1.1, 1.8), 2)
        for rs, rd in ((big, small), (small, big)):
            na, ds1, ds2 = rng.randint(5, 40), rng.randint(5, 30), [rng.randint(5, 30), rng.randint(3, 12)]
            turns = rng.choice([1, 2, 3])
            cases = [
                ('parallel_beam_geometry-2d', 2, 'odl.tomo.parallel_beam_geometry(space)', {}, 'Parallel2dGeometry'),
                ('parallel_beam_geometry-2d', 2, 'odl.tomo.parallel_beam_geometry(space, num_angles=%d, det_shape=%d)' % (na, ds1),
                 {'num_angles': na, 'det_shape': (ds1,)}, 'Parallel2dGeometry'),
                ('parallel_beam_geometry-3d', 3, 'odl.tomo.parallel_beam_geometry(space, num_angles=%d, det_shape=%r)' % (na, ds2),
                 {'num_angles': na, 'det_shape': tuple(ds2)}, 'Parallel3dAxisGeometry'),
                ('cone_beam_geometry-2d', 2, 'odl.tomo.cone_beam_geometry(space, %r, %r)' % (rs, rd), {'rs': rs, 'rd': rd},
                 'FanBeamGeometry'),
                ('cone_beam_geometry-2d', 2, 'odl.tomo.cone_beam_geometry(space, src_radius=%r, det_radius=%r, num_angles=%d, '
                 'short_scan=True, det_shape=%d)' % (rs, rd, na, ds1),
                 {'rs': rs, 'rd': rd, 'num_angles': na, 'det_shape': (ds1,), 'short': True}, 'FanBeamGeometry'),
                ('cone_beam_geometry-3d', 3, 'odl.tomo.cone_beam_geometry(space, %r, %r)' % (rs, rd), {'rs': rs, 'rd': rd},
                 'ConeBeamGeometry'),
                ('cone_beam_geometry-3d', 3, 'odl.tomo.cone_beam_geometry(space, det_radius=%r, src_radius=%r, num_angles=%d, '
                 'det_shape=%r)' % (rd, rs, na, ds2), {'rs': rs, 'rd': rd, 'num_angles': na, 'det_shape': tuple(ds2)},
                 'ConeBeamGeometry'),
                ('helical_geometry', 3, 'odl.tomo.helical_geometry(space, %r, %r, num_turns=%r)' % (rs, rd, turns),
                 {'rs': rs, 'rd': rd, 'turns': turns}, 'ConeBeamGeometry'),
                ('helical_geometry', 3, 'odl.tomo.helical_geometry(space, src_radius=%r, det_radius=%r, num_turns=%r, n_pi=3, '
                 'num_angles=%d, det_shape=%r)' % (rs, rd, turns, na, ds2),
                 {'rs': rs, 'rd': rd, 'turns': turns, 'num_angles': na, 'det_shape': tuple(ds2)}, 'ConeBeamGeometry')]
            for fkey, nd, ctor, want, cls in cases:
                head = pre + "space = odl.uniform_discr(%r, %r, %r)\ng = %s\nwant = %r\n" % (lo[:nd], hi[:nd], shape[:nd], ctor, want)
                rp = head + (
                    "bad = []\n"
                    "if type(g).__name__ != %r: bad.append(('class', type(g).__name__))\n"
                    "if 'rs' in want and g.src_radius != want['rs']: bad.append(('src_radius', g.src_radius))\n"
                    "if 'rd' in want and g.det_radius != want['rd']: bad.append(('det_radius', g.det_radius))\n"
                    "if 'num_angles' in want and g.angles.size != want['num_angles']: bad.append(('num_angles', g.angles.size))\n"
                    "if 'det_shape' in want and tuple(g.detector.shape) != want['det_shape']: bad.append(('det_shape', g.detector.shape))\n"
                    "if not np.array_equal(g.translation, np.zeros(g.ndim)): bad.append(('translation', g.translation))\n"
                    "if hasattr(g, 'axis') and not np.array_equal(g.axis, [0, 0, 1]): bad.append(('axis', g.axis))\n"
                    "if 'turns' in want:\n"
                    "    if abs(g.pitch - (space.max_pt[2] - space.min_pt[2]) / want['turns']) > 1e-12: bad.append(('pitch', g.pitch))\n"
                    "    if g.offset_along_axis != space.min_pt[2]: bad.append(('offset_along_axis', g.offset_along_axis))\n"
                    "    if abs(g.motion_params.max_pt[0] - 2 * np.pi * want['turns']) > 1e-12: bad.append(('max_angle', g.motion_params.max_pt))\n"
                    "elif hasattr(g, 'pitch') and (g.pitch != 0 or g.offset_along_axis != 0): bad.append(('pitch', g.pitch))\n"
                    "if g.motion_params.min_pt[0] != 0: bad.append(('min_angle', g.motion_params.min_pt))\n"
                    "if type(g).__name__.startswith('Parallel') and abs(g.motion_params.max_pt[0] - np.pi) > 1e-12: bad.append(('max_angle', g.motion_params.max_pt))\n"
                    "if 'rs' in want and 'turns' not in want and not want.get('short') and abs(g.motion_params.max_pt[0] - 2 * np.pi) > 1e-12: bad.append(('max_angle', g.motion_params.max_pt))\n"
                    "if not np.allclose(g.det_params.min_pt, -np.asarray(g.det_params.max_pt)) and g.ndim == 2: bad.append(('det range', g.det_params))\n"
                    "observed = bad; expected = []; ok = not bad\n" % cls)
                env = {}
                try:
                    exec(rp, env)
                    ok, obs = env['ok'], env['bad']
                except Exception as e:      # noqa
                    ok, obs = False, repr(e)
                out.append(C.Probe(bool(ok), 'factory-attributes-' + fkey,
                                   '%s: every attribute of the returned geometry equals the requested value' % ctor, rp,
                                   {'mismatches': str(obs)}))
                if 'rs' not in want:
                    continue
                rp = head + (
                    "worst = 0.0\nhi_ = float(np.atleast_1d(g.det_params.max_pt)[0]); lo_ = float(np.atleast_1d(g.det_params.min_pt)[0])\n"
                    "for a in g.angles:\n    src = g.src_position(a); ref = g.det_refpoint(a)\n"
                    "    central = (ref - src)[:2] / np.linalg.norm((ref - src)[:2])\n"
                    "    for X in space.domain.corners():\n"
                    "        if np.dot(X[:2], central) < 0:\n            continue        # source side of the axis: not claimed\n"
                    "        u = _hit_coords(g, a, X)[0]\n        worst = max(worst, (u - hi_) / (hi_ - lo_), (lo_ - u) / (hi_ - lo_))\n"
                    "observed = worst; expected = 'relative overshoot <= 1e-9'; ok = bool(worst <= 1e-9)\n")
                env = {}
                try:
                    exec(rp, env)
                    ok, obs = env['ok'], env['worst']
                except Exception as e:      # noqa
                    ok, obs = False, repr(e)
                if fkey == 'cone_beam_geometry-3d':
                    # vertical extent, z-min and z-max face separately.  For the height formula on HEAD,
                    # h/2 >= (rs+rd) zm / sqrt((rs-rho)^2 + zm^2) with zm = max(|z_min|, |z_max|), every point with
                    # rs + xn >= sqrt((rs-rho)^2 + zm^2) (xn = coordinate along the central ray) projects inside
                    # vertically; this instance is not masked by the open vertical-coverage finding.
                    for face, zval in (('zmin', lo[2]), ('zmax', hi[2])):
                        rpv = head + (
                            "rs, rd = g.src_radius, g.det_radius\n"
                            "rho = max(np.hypot(x, y) for x in (space.min_pt[0], space.max_pt[0]) for y in (space.min_pt[1], space.max_pt[1]))\n"
                            "zm = max(abs(space.min_pt[2]), abs(space.max_pt[2])); need = np.hypot(want['rs'] - rho, zm)\n"
                            "hi_ = float(g.det_params.max_pt[1]); lo_ = float(g.det_params.min_pt[1]); worst = 0.0; used = 0\n"
                            "for a in g.angles:\n    src = g.src_position(a); ref = g.det_refpoint(a)\n"
                            "    central = (ref - src)[:2] / np.linalg.norm((ref - src)[:2])\n"
                            "    for X in space.domain.corners():\n"
                            "        if X[2] != %r or want['rs'] + np.dot(X[:2], central) < need + 1e-9:\n            continue\n"
                            "        used += 1; v = _hit_coords(g, a, X)[1]\n"
                            "        worst = max(worst, (v - hi_) / (hi_ - lo_), (lo_ - v) / (hi_ - lo_))\n"
                            "observed = [worst, used]; expected = 'relative overshoot <= 1e-9'; ok = bool(worst <= 1e-9)\n" % zval)
                        env = {}
                        try:
                            exec(rpv, env)
                            okv, obsv = env['ok'], env['observed']
                        except Exception as e:      # noqa
                            okv, obsv = False, repr(e)
                        out.append(C.Probe(bool(okv), 'factory-vertical-coverage-%s-face-cone_beam_geometry-3d' % face,
                                           '%s on z in [%r, %r]: corners of the %s face far enough along the central ray project '
                                           'inside the detector vertically' % (ctor, lo[2], hi[2], face), rpv,
                                           {'overshoot, corners used': obsv}))
                out.append(C.Probe(bool(ok), 'factory-far-half-coverage-' + fkey,
                                   '%s: every volume corner on the detector side of the axis projects inside the detector '
                                   '(horizontally), from the returned geometry\'s own source and detector positions' % ctor, rp,
                                   {'overshoot': obs}))
    return out


def _probe_misc(rng, tier):
    import odl
    T = odl.tomo
    out = []
    # helical_geometry: the source travels exactly from the bottom to the top of the volume
    for rep in range(5):
        lo, hi = _box(rng, 3, _BOX_KINDS[rep])
        turns = rng.choice([1, 2, 3.5])
        rp = ("import numpy as np, odl\nspace = odl.uniform_discr(%r, %r, [6, 6, 6])\n"
              "g = odl.tomo.helical_geometry(space, 9.0, 3.0, num_turns=%r)\n"
              "z0 = g.src_position(g.motion_params.min_pt[0])[2]; z1 = g.src_position(g.motion_params.max_pt[0])[2]\n"
              "observed = [float(z0), float(z1)]; expected = [%r, %r]\nok = bool(np.allclose(observed, expected, atol=1e-9))\n"
              % (lo, hi, turns, lo[2], hi[2]))
        env = {}
        exec(rp, env)
        out.append(C.Probe(bool(env['ok']), 'helical-geometry-axial-range',
                           'helical_geometry: the source height runs from min_z to max_z of the volume', rp))
    ap, dp1 = _parts(odl, 1)
    _, dp2 = _parts(odl, 2)
    # curved detectors with an arbitrary rotation axis (default detector axes are transformed by a rotation:
    # perpendicular in exact arithmetic, tested with == 0 in floating point)
    for axis in ([1, 1, 1], [1, 2, 2], [0.3, -0.2, 0.9]) + (() if tier == 'quick' else ([2, 3, 6], [1, -1, 0.5])):
        for curv in ((2.5, None), (2.5, 2.5)):
            rp = ("import numpy as np, odl\nap = odl.uniform_partition(-4.0, 4.0, 8)\n"
                  "dp2 = odl.uniform_partition([-4.0, -4.0], [4.0, 4.0], [8, 6])\n"
                  "try:\n    g = odl.tomo.ConeBeamGeometry(ap, dp2, 5.0, 5.0, det_curvature_radius=%r, axis=%r)\n"
                  "    ok = abs(np.linalg.norm(g.det_to_src(0.3, (0.1, 0.2))) - 1) < 1e-10\n"
                  "except ValueError as e:\n    ok = False; observed = repr(e)\n" % (curv, list(axis)))
            env = {}
            exec(rp, env)
            out.append(C.Probe(bool(env['ok']), 'cone-curved-axes-exact-perpendicularity',
                               'ConeBeamGeometry(det_curvature_radius=%r, axis=%r) can be constructed' % (curv, list(axis)), rp))
    # slicing a geometry whose det_pos_init was passed as a float ndarray (the constructor adds the translation
    # to that very array in place, and __getitem__ passes the same array on)
    rp = ("import numpy as np, odl\nap = odl.uniform_partition(-4.0, 4.0, 8)\n"
          "dp2 = odl.uniform_partition([-4.0, -4.0], [4.0, 4.0], [8, 6])\n"
          "g = odl.tomo.Parallel3dAxisGeometry(ap, dp2, det_pos_init=np.array([0.0, 2.0, 0.0]), translation=[1.0, 2.0, 3.0])\n"
          "before = g.det_refpoint(-2.0); h = g[1:3]\nobserved = [h.det_refpoint(-2.0).tolist(), g.det_refpoint(-2.0).tolist()]\n"
          "expected = before.tolist()\nok = bool(np.allclose(h.det_refpoint(-2.0), before) and np.allclose(g.det_refpoint(-2.0), before))\n")
    env = {}
    exec(rp, env)
    out.append(C.Probe(bool(env['ok']), 'parallel3daxis-getitem-ndarray-translation-twice',
                       'Parallel3dAxisGeometry built from an ndarray det_pos_init: geom[1:3] keeps det_refpoint and leaves geom unchanged', rp))
    # a constant source shift given as a list, the way the docstring shows it for det_shift_func
    for cls, dp, n in ((T.FanBeamGeometry, dp1, 2), (T.ConeBeamGeometry, dp2, 3)):
        sh = [0.0, 0.05, 0.1][:n]
        rp = ("import numpy as np, odl\nap = odl.uniform_partition(-4.0, 4.0, 8)\n"
              "dp = odl.uniform_partition(%r, %r, %r)\n"
              "g = odl.tomo.%s(ap, dp, 3.0, 2.0, src_shift_func=lambda angle: %r, det_shift_func=lambda angle: %r)\n"
              "g0 = odl.tomo.%s(ap, dp, 3.0, 2.0)\n"
              "try:\n    s = g.src_position(0.3); r = g.det_refpoint(0.3)\n"
              "    ok = bool(np.linalg.norm(s - g0.src_position(0.3)) > 1e-3 and np.linalg.norm(r - g0.det_refpoint(0.3)) > 1e-3)\n"
              "except TypeError as e:\n    ok = False; observed = repr(e)\n"
              % (dp.min_pt.tolist() if n == 3 else float(dp.min_pt), dp.max_pt.tolist() if n == 3 else float(dp.max_pt),
                 list(dp.shape) if n == 3 else int(dp.shape[0]), cls.__name__, sh, sh, cls.__name__))
        env = {}
        exec(rp, env)
        out.append(C.Probe(bool(env['ok']), 'src-shift-func-constant-list',
                           '%s with src_shift_func returning a plain list (as documented for det_shift_func)' % cls.__name__, rp))
    return out


def probes(rng, tier):
    import odl
    T = odl.tomo
    out = []
    tol = 1e-10
    geoms = _rand_geoms(rng, tier)
    # -- pointwise relations on generic float parameters
    for name, key, g in geoms:
        for _ in range(3):
            a, u = _mparam(rng, g), _dparam(rng, g)
            R = g.rotation_matrix(a)
            out.append(C.Probe(_is_rot(R), 'rotation-' + key, '%s.rotation_matrix orthonormal with det 1' % name,
                               None, {'angle': a}))
            surf = g.detector.surface(u)
            pos = g.det_point_position(a, u)
            ok = np.allclose(pos, g.det_refpoint(a) + R.dot(surf), atol=tol)
            out.append(C.Probe(bool(ok), 'detpoint-' + key,
                               '%s.det_point_position = det_refpoint + R surface' % name, None, {'angle': a, 'dparam': u}))
            d2s = g.det_to_src(a, u)
            ok = abs(np.linalg.norm(d2s) - 1) < tol
            if hasattr(g, 'src_position'):
                raw = g.det_to_src(a, u, normalized=False)
                ok = ok and np.allclose(pos + raw, g.src_position(a), atol=tol) and \
                    np.allclose(raw / np.linalg.norm(raw), d2s, atol=tol)
            else:
                u2 = _dparam(rng, g)
                axes = np.atleast_2d(g.det_axis(a) if hasattr(g, 'det_axis') else g.det_axes(a))
                ok = ok and np.allclose(d2s, g.det_to_src(a, u2), atol=tol) and \
                    np.allclose(axes.dot(d2s), 0, atol=tol)
            out.append(C.Probe(bool(ok), 'det_to_src-' + key,
                               '%s.det_to_src consistent (unit; src - det point / constant and orthogonal to the axes)' % name,
                               None, {'angle': a, 'dparam': u}))
            nrm = g.detector.surface_normal(u)
            der = np.atleast_2d(g.detector.surface_deriv(u))
            ok = abs(np.linalg.norm(nrm) - 1) < tol and np.allclose(der.dot(nrm), 0, atol=tol)
            out.append(C.Probe(bool(ok), 'normal-' + type(g.detector).__name__,
                               '%s.surface_normal unit and orthogonal to surface_deriv' % type(g.detector).__name__, None))
    # -- vectorised / broadcast evaluation equals scalar evaluation entry by entry, documented shape
    for name, key, g in geoms:
        nd = g.ndim
        for shape in ([(3,)] if tier == 'quick' else [(1,), (3,), (2, 2)]):
            a, u = _mparam(rng, g, shape), _dparam(rng, g, shape)
            fns = [('rotation_matrix', lambda a_, u_: g.rotation_matrix(a_), (nd, nd)),
                   ('det_refpoint', lambda a_, u_: g.det_refpoint(a_), (nd,)),
                   ('det_point_position', lambda a_, u_: g.det_point_position(a_, u_), (nd,)),
                   ('det_to_src', lambda a_, u_: g.det_to_src(a_, u_), (nd,)),
                   ('surface', lambda a_, u_: g.detector.surface(u_), (nd,)),
                   ('surface_deriv', lambda a_, u_: g.detector.surface_deriv(u_), None),
                   ('surface_normal', lambda a_, u_: g.detector.surface_normal(u_), (nd,)),
                   ('surface_measure', lambda a_, u_: g.detector.surface_measure(u_), ())]
            if hasattr(g, 'src_position'):
                fns.append(('src_position', lambda a_, u_: g.src_position(a_), (nd,)))
            if hasattr(g, 'det_axes'):
                fns.append(('det_axes', lambda a_, u_: g.det_axes(a_), (2, nd)))
            shifted = isinstance(getattr(g, 'src_shift_func', None), Shift) or \
                isinstance(getattr(g, 'det_shift_func', None), Shift)
            if len(shape) > 1 and shifted:
                continue            # the contract of shift functions is only given for 1-d angle arrays
            for fname, f, tail in fns:
                try:
                    full = np.asarray(f(a, u))
                    ok = True
                    if tail is not None:
                        ok = full.shape == tuple(shape) + tail
                    for ix in np.ndindex(*shape):
                        one = np.asarray(f(_idx(a, ix), _idx(u, ix)))
                        ok = ok and np.allclose(full[ix], one, atol=tol)
                except Exception as e:       # noqa
                    ok = False
                out.append(C.Probe(bool(ok), 'vectorized-%s-%s' % (key if fname[:4] != 'surf' else type(g.detector).__name__, fname),
                                   '%s.%s on arrays of shape %s equals scalar evaluation entry by entry' % (name, fname, shape),
                                   None, {'shape': shape}))
    # -- broadcasting between and within the parameters (documented: broadcast(...).shape + (ndim,))
    def comps(p):
        return list(p) if isinstance(p, tuple) else [p]

    def rnd(shape):
        return np.array([rng.uniform(-3.9, 3.9) for _ in range(int(np.prod(shape)) or 1)]).reshape(shape) \
            if shape != () else rng.uniform(-3.9, 3.9)

    def pack(cs_, nd_):
        return cs_[0] if nd_ == 1 else tuple(cs_)
    patterns = [('array-scalar', (3,), ()), ('scalar-array', (), (3,)), ('outer', (2, 1), (1, 3))]
    for name, key, g in geoms:
        nd, mnd, dnd = g.ndim, g.motion_params.ndim, g.det_params.ndim
        for pname, sa, su in patterns:
            a = pack([rnd(sa) for _ in range(mnd)], mnd)
            u = pack([rnd(su) for _ in range(dnd)], dnd)
            variants = [('between-' + pname, a, u)]
            if dnd == 2:       # broadcasting WITHIN the detector parameter
                variants.append(('within-dparam-' + pname, pack([rnd(()) for _ in range(mnd)], mnd),
                                 (rnd(sa), rnd(su))))
            if mnd >= 2:
                variants.append(('within-mparam-' + pname, tuple([rnd(sa), rnd(su)] + [rnd(())] * (mnd - 2)),
                                 pack([rnd(()) for _ in range(dnd)], dnd)))
            has_shift = isinstance(getattr(g, 'src_shift_func', None), Shift) or \
                isinstance(getattr(g, 'det_shift_func', None), Shift)
            for vname, a_, u_ in variants:
                if has_shift and np.ndim(comps(a_)[0]) > 1:
                    continue        # the contract of shift functions is only given for 1-d angle arrays
                rank_m = len(np.broadcast(*comps(a_)).shape)
                rank_d = len(np.broadcast(*comps(u_)).shape)
                mismatch = rank_m != rank_d and max(rank_m, rank_d) >= 2
                bshape = np.broadcast(*(comps(a_) + comps(u_))).shape
                dshape = np.broadcast(*comps(u_)).shape
                fns = [('det_point_position', lambda x, y: g.det_point_position(x, y), bshape),
                       ('det_to_src', lambda x, y: g.det_to_src(x, y), bshape),
                       ('surface', lambda x, y: g.detector.surface(y), dshape),
                       ('surface_normal', lambda x, y: g.detector.surface_normal(y), dshape)]
                for fname, f, shp in fns:
                    try:
                        full = np.asarray(f(a_, u_))
                        ok = full.shape == tuple(shp) + (nd,)
                        for ix in np.ndindex(*shp):
                            ax_ = pack([float(np.broadcast_to(c_, bshape)[ix]) if fname[:4] != 'surf' else 0.0
                                        for c_ in comps(a_)], mnd) if fname[:4] != 'surf' else None
                            ux_ = pack([float(np.broadcast_to(c_, shp)[ix]) for c_ in comps(u_)], dnd)
                            ok = ok and np.allclose(full[ix], np.asarray(f(ax_, ux_)), atol=tol)
                    except Exception as e:        # noqa
                        ok = False
                    owner = key if fname[:4] != 'surf' else type(g.detector).__name__
                    curved = type(g.detector).__name__ in ('CylindricalDetector', 'SphericalDetector')
                    k = 'broadcast-%s-%s-%s' % (owner, fname, vname)
                    if mismatch and fname[:4] != 'surf':
                        k = 'broadcast-rank-mismatch-' + fname
                    if curved and vname.startswith('within-dparam'):
                        k = 'broadcast-curved-detector-within-dparam'
                    out.append(C.Probe(bool(ok), k,
                                       '%s.%s broadcasts %s (mparam shapes %s, dparam shapes %s) to shape %s + (ndim,) '
                                       'and equals scalar evaluation' % (name, fname, vname, [np.shape(c_) for c_ in comps(a_)],
                                                                         [np.shape(c_) for c_ in comps(u_)], tuple(shp)),
                                       None))
    out.extend(_probe_slicing(rng, tier))
    out.extend(_probe_slicing_keywords(rng, tier))
    out.extend(_probe_frommatrix(rng, tier))
    out.extend(_probe_frommatrix_general(rng, tier))
    out.extend(_probe_factories(rng, tier))
    out.extend(_probe_factory_attributes(rng, tier))
    out.extend(_probe_misc(rng, tier))
    out.extend(_probe_curved(rng, tier))
    out.extend(_probe_shapes(rng, tier))
    return out


def search(rng, broken):
    """Called by the driver when a proof / translator / correspondence obligation broke and no probe of the regular run
    failed: run the oracle families that speak about the anchored formulas on fresh, larger samples and return the
    first concrete failing input."""
    known = C.load_findings(PID)
    for fam in (_probe_slicing_keywords, _probe_frommatrix_general, _probe_frommatrix, _probe_curved, _probe_factory_attributes, _probe_factories,
                _probe_slicing, _probe_shapes, _probe_misc):
        try:
            for p in fam(rng, 'thorough'):
                if not p.ok and p.key not in known:
                    return p
        except Exception:       # noqa
            continue
    return None


RULE = ('6 case sets (utility functions, Parallel2d, Parallel3dAxis/Euler, FanBeam, ConeBeam, factories: rho, half width, '
        'helical offset and pitch on dyadic volumes). Per geometry class: random '
        'constructor arguments -- Pythagorean (rational length, so every branch test is decided exactly) and generic '
        'integer axes / initial positions / detector axes, zero vectors and bad radii (ValueError), inputs inside and just '
        'outside the allclose window of transform_system, dyadic translations, flat / circular / cylindrical / spherical '
        'detectors, pitch, offset, affine source and detector shift functions -- built directly, via frommatrix (rational '
        'rotation or integer matrices, with and without translation column) and via __getitem__ (7 slices); observed: the '
        'stored attributes and, at 2-4 (angle, detector parameter) points whose angles are rational points of the unit '
        'circle, rotation_matrix, src_position, det_refpoint, det_point_position, det_to_src (both forms), det_axes, '
        'surface, surface_deriv, surface_normal, surface_measure. A case is distinct by its full argument tuple.')
ASSUMPTIONS = ['exact arithmetic: rounding is out of scope; np.cos/np.sin/np.arccos/np.linalg.norm/np.cross/einsum are the '
               'real functions they name (cos(arccos x) = x, sin(arccos x) = sqrt(1 - x^2))',
               'angles enter the model as (cos, sin) pairs on the unit circle plus, for the helical pitch, the angle value; '
               'that the pair is the cosine/sine of that value is outside the model',
               'the correspondence executes the model at a rational carrier that is exact up to denominators 10^36 and '
               'rounds to 30 digits beyond (generic axes give nested irrational roots); comparison tolerance 1e-9',
               'inputs on which floating-point rounding decides a branch (the poles of the spherical detector, arccos next '
               'to 1) are excluded from the correspondence and left to probes',
               'NumPy broadcasting/shape mechanics of the vectorised entry points are validated by probes, not modelled',
               'factories: detector extents, helical offset and pitch are modelled and compared; the Nyquist sample counts '
               '(ceil) and the pixel round-up of the cone-beam detector height are not',
               'no Q2R transfer theorem: the shards execute the model at a ROUNDING rational carrier (exact below '
               'denominators 1e36), which is not a ring homomorphism; the executed model is tied to the proved one only by '
               'being the same polymorphic term']
TRUSTED = ['translate/geometry_formulas.py (Python ast -> Gallina, fail closed): matrix literals of euler_matrix, entries of '
           'axis_rotation_matrix, native surface/surface_deriv vectors of the curved detectors',
           'C19/Model.v: hand transcription of the rest of utility.py / detector.py / geometry.py / parallel.py / '
           'conebeam.py (constructors, transform_system, from_to, reference points), tied to the code by the correspondence',
           'C19/Corr.v: rounding rational carrier NQ and Qsqrt used to execute the model',
           'harness/c19.py: flattening order of the observations on both sides']
LEVEL_TEXT = ('Partial proof. Proved in Coq for ALL parameters (every axis, initial position, translation, radius, shift, '
              'pitch, every angle on the unit circle and every detector parameter): the three rotation-matrix families '
              '(2-d Euler, ZXZ Euler, Rodrigues with the stored unit axis) are orthonormal with determinant one, as are all '
              'matrices returned by rotation_matrix_from_to/transform_system; every stored axis / src_to_det_init / '
              'detector axis the constructors return is a unit vector (all five classes, all detector types); the detector '
              'point is refpoint + R surface and the whole configuration at angle a is the rigid rotation about the '
              'translation point (plus the pitch displacement along the axis) of an angle-independent configuration, so '
              'detector distances equal intrinsic surface distances; det_to_src + det point = source position, unit length '
              'when normalised; fan-beam source/detector circles; parallel rays share one unit direction orthogonal to the '
              'rotated detector axes; normals of all five detector classes are unit and orthogonal to the surface '
              'derivatives; circular/cylindrical/spherical surfaces lie on their circle/cylinder/sphere with tangent '
              'derivatives of the stated lengths; parallel_beam_geometry covers the volume. Refuted (with repaired versions '
              'proved): cone_beam_geometry/helical_geometry coverage, Parallel2dGeometry slicing. Validated only: '
              'vectorised/broadcast evaluation, slicing and frommatrix of the other classes, 3-d factories.')
LEVEL_NOTE = ('Model tied to /repo by an in-Coq differential correspondence (150 quick / 790 thorough cases, all classes, '
              'constructors, frommatrix, __getitem__, error outcomes); 10 recorded defects of /repo (findings/C19.json) with '
              'proposed diffs; axioms: classical reals + funext as printed.')
TECHNIQUE = 'Coq proof (ring / nsatz / nra over R with sqrt) + in-Coq differential correspondence at rational circle points + property probes'
