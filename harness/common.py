"""Shared machinery of every check: Coq literals, shard writing/running,
Props.v compilation with Print Assumptions capture, findings, evidence.

Everything here is deliberately dumb: the deciding steps are (1) coqc accepting
Cnn/Props.v over the (re)generated Gen files and (2) coqc evaluating the
correspondence shards; Python only moves text around and parses a `list nat`.
"""
import fcntl
import hashlib
import json
import os
import random
import re
import subprocess
import sys
import time
from fractions import Fraction

VERIF = os.path.dirname(os.path.dirname(os.path.abspath(__file__)))
REPO = os.environ.get('VERIF_REPO', '/repo')
COQ = os.path.join(VERIF, 'coq')
BUILD = os.path.join(VERIF, 'build')
EVID = os.path.join(VERIF, 'evidence')
COQ_TIMEOUT = int(os.environ.get('VERIF_COQ_TIMEOUT', '900'))
GUARD = 'ODL_VERIF'
JOBS = int(os.environ.get('VERIF_JOBS', '16'))


class TranslateError(Exception):
    """Source construct outside a translator's grammar (fail closed)."""


# ----------------------------------------------------------------- literals
def frac(x):
    """Exact rational of a Python/NumPy number (finite)."""
    if isinstance(x, Fraction):
        return x
    if isinstance(x, bool):
        return Fraction(int(x))
    if isinstance(x, int):
        return Fraction(x)
    try:
        import numpy as np
        if isinstance(x, np.integer):
            return Fraction(int(x))
        if isinstance(x, np.floating):
            x = float(x)
    except ImportError:
        pass
    if isinstance(x, float):
        if x != x or x in (float('inf'), float('-inf')):
            raise ValueError('non-finite value has no rational literal')
        n, d = x.as_integer_ratio()
        return Fraction(n, d)
    return Fraction(x)


def q(x):
    f = frac(x)
    n, d = f.numerator, f.denominator
    return '(%d # %d)' % (n, d) if n >= 0 else '((%d) # %d)' % (n, d)


def z(n):
    n = int(n)
    return '%d' % n if n >= 0 else '(%d)' % n


def nat(n):
    n = int(n)
    assert 0 <= n < 5000, 'nat literal too large'
    return '%d' % n


def b(v):
    return 'true' if v else 'false'


def lst(items, f=None):
    f = f or (lambda s: s)
    return '[' + '; '.join(f(i) for i in items) + ']'


def qs(xs):
    return lst(list(xs), q)


def qss(xss):
    return lst(list(xss), qs)


def zs(xs):
    return lst(list(xs), z)


def nats(xs):
    return lst(list(xs), nat)


def oq(x):
    """option Q: None/NaN/inf -> None"""
    if x is None:
        return 'None'
    try:
        return '(Some %s)' % q(x)
    except (ValueError, OverflowError):
        return 'None'


def oqs(xs):
    return lst(list(xs), oq)


# ------------------------------------------------------------------- shards
class CaseSet(object):
    """A family of correspondence cases decided by one Coq boolean function.

    imports : list of 'Verif.X.Y' modules to Require
    check   : Gallina term of type  case -> bool
    cases   : list of (coq_term, description, nontrivial_key or None)
    """

    def __init__(self, name, imports, check, case_type=None, prelude=''):
        self.name, self.imports, self.check = name, imports, check
        self.case_type, self.prelude = case_type, prelude
        self.cases = []

    def add(self, coq_term, desc, key=None):
        self.cases.append((coq_term, desc, key))


def _shard_text(cs, chunk):
    out = ['From Coq Require Import ZArith QArith List Bool String.',
           'From Verif Require Import Base.Num Base.Check.']
    for m in cs.imports:
        out.append('From Verif Require Import %s.' % m)
    out.append('Import ListNotations.')
    out.append('Local Open Scope Q_scope.')
    if cs.prelude:
        out.append(cs.prelude)
    ty = (' : list (%s)' % cs.case_type) if cs.case_type else ''
    out.append('Definition cases%s := [' % ty)
    out.append(';\n'.join('  ' + c[0] for c in chunk))
    out.append('].')
    out.append('Definition failing : list nat := failing_indices (%s) cases.' % cs.check)
    out.append('Eval vm_compute in failing.')
    return '\n'.join(out) + '\n'


_FAIL_RE = re.compile(r'=\s*(\[.*?\])\s*(%nat)?\s*:\s*list nat', re.S)


def run_shards(pid, casesets, shard_size=400, jobs=None):
    """Write and evaluate all shards.  Returns dict with counts and failures:
    failures = list of (caseset name, index in caseset, description, reason)."""
    jobs = jobs or JOBS
    d = os.path.join(BUILD, 'cases', pid)
    if os.path.isdir(d):
        for f in os.listdir(d):
            os.unlink(os.path.join(d, f))
    os.makedirs(d, exist_ok=True)
    shards = []   # (path, caseset, offset, chunk)
    for cs in casesets:
        for k in range(0, len(cs.cases), shard_size):
            chunk = cs.cases[k:k + shard_size]
            path = os.path.join(d, 'cases_%s_%d.v' % (cs.name, k // shard_size))
            with open(path, 'w') as fh:
                fh.write(_shard_text(cs, chunk))
            shards.append((path, cs, k, chunk))
    procs = []
    results = []
    pending = list(shards)
    running = []
    failures = []
    ok_shards = 0

    def launch(sh):
        p = subprocess.Popen(
            ['timeout', str(COQ_TIMEOUT), 'coqc', '-Q', COQ, 'Verif', '-w', 'none', sh[0]],
            cwd=d, stdout=subprocess.PIPE, stderr=subprocess.STDOUT, text=True)
        return (p, sh)

    while pending or running:
        while pending and len(running) < jobs:
            running.append(launch(pending.pop(0)))
        p, sh = running.pop(0)
        out, _ = p.communicate()
        path, cs, off, chunk = sh
        m = _FAIL_RE.search(out)
        if p.returncode != 0 or not m:
            failures.append((cs.name, off, chunk[0][1],
                             'shard did not evaluate: ' + out.strip()[-600:]))
            continue
        idx = [int(t) for t in re.findall(r'\d+', m.group(1))]
        if not idx:
            ok_shards += 1
        for i in idx:
            failures.append((cs.name, off + i, chunk[i][1], 'model and implementation differ'))
    return {'shards': len(shards), 'ok_shards': ok_shards, 'failures': failures,
            'cases': sum(len(cs.cases) for cs in casesets)}


# ------------------------------------------------------------ coq building
def _lock():
    os.makedirs(BUILD, exist_ok=True)
    fh = open(os.path.join(BUILD, '.coq.lock'), 'w')
    fcntl.flock(fh, fcntl.LOCK_EX)
    return fh


def write_if_changed(path, text):
    try:
        with open(path) as fh:
            if fh.read() == text:
                return False
    except IOError:
        pass
    os.makedirs(os.path.dirname(path), exist_ok=True)
    with open(path, 'w') as fh:
        fh.write(text)
    return True


def ensure_makefile():
    mk = os.path.join(COQ, 'Makefile')
    proj = os.path.join(COQ, '_CoqProject')
    files = []
    for root, _, fs in os.walk(COQ):
        for f in fs:
            if f.endswith('.v'):
                files.append(os.path.relpath(os.path.join(root, f), COQ))
    files.sort()
    text = ('-Q . Verif\n-arg -w -arg -notation-overridden,-deprecated-hint-without-locality,'
            '-deprecated-instance-without-locality,-non-recursive\n' + '\n'.join(files) + '\n')
    changed = write_if_changed(proj, text)
    if changed or not os.path.exists(mk):
        subprocess.check_call(['coq_makefile', '-f', '_CoqProject', '-o', 'Makefile'], cwd=COQ)


FORBIDDEN = re.compile(r'\b(Admitted|admit|Axiom|Axioms|Parameter|Parameters|Conjecture|'
                       r'Admit Obligations|bypass_check)\b|Unset Guard|Unset Positivity|'
                       r'Unset Universe Checking|type-in-type|impredicative-set')


def forbidden_scan():
    """Reject any escape hatch anywhere under coq/ (comments included: keep it simple)."""
    bad = []
    for root, _, fs in os.walk(COQ):
        for f in fs:
            if not f.endswith('.v'):
                continue
            p = os.path.join(root, f)
            for i, line in enumerate(open(p), 1):
                if FORBIDDEN.search(line):
                    bad.append('%s:%d: %s' % (os.path.relpath(p, COQ), i, line.strip()))
    for f in ('_CoqProject',):
        for i, line in enumerate(open(os.path.join(COQ, f)), 1):
            if re.search(r'type-in-type|impredicative-set|-vos|-vok', line):
                bad.append('%s:%d: %s' % (f, i, line.strip()))
    return bad


_TOP_VAR = re.compile(r'^\s*(Variable|Variables|Hypothesis|Hypotheses|Context)\b')


def section_scan():
    """Variable/Hypothesis/Context only inside a Section."""
    bad = []
    for root, _, fs in os.walk(COQ):
        for f in fs:
            if not f.endswith('.v'):
                continue
            depth = 0
            p = os.path.join(root, f)
            for i, line in enumerate(open(p), 1):
                if re.match(r'^\s*Section\s+\w+', line):
                    depth += 1
                elif re.match(r'^\s*End\s+\w+\s*\.', line) and depth > 0:
                    depth -= 1
                elif _TOP_VAR.match(line) and depth == 0:
                    bad.append('%s:%d: %s' % (os.path.relpath(p, COQ), i, line.strip()))
    return bad


def theorems_in(path):
    names = []
    for line in open(path):
        m = re.match(r'^\s*(Theorem|Corollary)\s+([A-Za-z0-9_\']+)', line)
        if m:
            names.append(m.group(2))
    return names


def build_props(pid, jobs=None):
    """(Re)build coq/<pid>/Props.vo with a full .vo build of its dependencies.
    Returns dict(ok, theorems, log, assumptions, failed_at)."""
    jobs = jobs or JOBS
    rel = '%s/Props.v' % pid
    path = os.path.join(COQ, rel)
    thms = theorems_in(path)
    lk = _lock()
    try:
        ensure_makefile()
        for ext in ('.vo', '.glob', '.vos', '.vok'):
            try:
                os.unlink(path[:-2] + ext)
            except OSError:
                pass
        t0 = time.time()
        targets = sorted('%s/%s' % (pid, f[:-2] + '.vo') for f in os.listdir(os.path.join(COQ, pid))
                         if f.endswith('.v'))
        p = subprocess.run(['timeout', str(COQ_TIMEOUT), 'make', '-j%d' % jobs] + targets,
                           cwd=COQ, stdout=subprocess.PIPE,
                           stderr=subprocess.STDOUT, text=True)
        log = p.stdout
    finally:
        lk.close()
    ok = (p.returncode == 0)
    res = {'ok': ok, 'theorems': thms, 'log': log, 'wall': time.time() - t0,
           'assumptions': [], 'failed_at': None, 'closed': 0}
    if ok:
        # Print Assumptions output: "Closed under the global context" or "Axioms:\n name : type"
        ax = set()
        closed = len(re.findall(r'Closed under the global context', log))
        for m in re.finditer(r'^([A-Za-z_][\w\.\']*)\s*$|^([A-Za-z_][\w\.\']*) :', log, re.M):
            name = m.group(1) or m.group(2)
            if '.' in name and not name.startswith('Verif.') and name.split('.')[0][0].isupper():
                ax.add(name)
        res['assumptions'] = sorted(ax)
        res['closed'] = closed
    else:
        m = re.search(r'File "\./([^"]+)", line (\d+)', log)
        if m:
            f, ln = m.group(1), int(m.group(2))
            name = None
            try:
                for i, line in enumerate(open(os.path.join(COQ, f)), 1):
                    if i > ln:
                        break
                    mm = re.match(r'^\s*(Theorem|Lemma|Corollary|Example|Definition|Fixpoint)\s+([\w\']+)', line)
                    if mm:
                        name = mm.group(2)
            except IOError:
                pass
            res['failed_at'] = '%s:%d (%s)' % (f, ln, name)
        else:
            res['failed_at'] = 'build failed (no location)'
    return res


# ----------------------------------------------------------------- findings
def load_findings(pid):
    """Open entries for pid from known_findings.json (the committed list) and, while a
    property is being built in its own worktree, from findings/<pid>.json.  An entry
    marked fixed in known_findings.json suppresses nothing, whatever findings/ says."""
    out = {}
    fixed = set()
    for p in (os.path.join(VERIF, 'known_findings.json'), os.path.join(VERIF, 'findings', pid + '.json')):
        try:
            data = json.load(open(p))
        except IOError:
            continue
        for e in data.get('findings', []):
            if e.get('property') != pid:
                continue
            if e.get('status') == 'fixed':
                fixed.add(e['key'])
            elif e.get('status') == 'open':
                out[e['key']] = e
    for k in fixed:
        out.pop(k, None)
    return out


class Probe(object):
    """Result of evaluating the property directly on the implementation."""

    def __init__(self, ok, key, what, replay=None, detail=None):
        self.ok, self.key, self.what, self.replay, self.detail = ok, key, what, replay, detail


def write_replay(pid, name, payload):
    d = os.path.join(BUILD, 'replay')
    os.makedirs(d, exist_ok=True)
    path = os.path.join(d, '%s_%s.json' % (pid, name))
    with open(path, 'w') as fh:
        json.dump(payload, fh, indent=1, default=str)
    return path


def digest(obj):
    return hashlib.sha1(json.dumps(obj, sort_keys=True, default=str).encode()).hexdigest()[:12]


def rng_for(pid, seed):
    return random.Random('%s-%d' % (pid, seed))


def write_evidence(pid, payload):
    os.makedirs(EVID, exist_ok=True)
    with open(os.path.join(EVID, pid + '.json'), 'w') as fh:
        json.dump(payload, fh, indent=1, default=str)


def setup_impl_path():
    """Make `import odl` resolve to REPO's working tree."""
    if REPO not in sys.path:
        sys.path.insert(0, REPO)
    os.environ.setdefault('PYTHONHASHSEED', '0')
    os.environ[GUARD] = '1'
    import odl  # noqa
    assert os.path.abspath(os.path.dirname(odl.__file__)) == os.path.join(os.path.abspath(REPO), 'odl'), \
        'odl imported from %s, not from %s' % (odl.__file__, REPO)


# ------------------------------------------------------ anchored-function coverage
class LineTrace(object):
    """Line coverage of given functions while a block runs (sys.settrace; no source hooks).

        with C.LineTrace([finite_diff, Gradient._call]) as lt: ...run the implementation...
        lt.report() -> {'odl/discr/diff_ops.py:finite_diff': {'executed': 118, 'of': 121, 'missed': [..]}, ...}
    """

    def __init__(self, funcs):
        import dis
        self.codes = {}
        for f in funcs:
            code = getattr(f, '__code__', None) or getattr(getattr(f, '__func__', None), '__code__', None)
            if code is None:
                continue
            lines = set(l for _, l in dis.findlinestarts(code) if l is not None)
            for c in code.co_consts:            # nested functions / comprehensions
                if hasattr(c, 'co_code'):
                    lines |= set(l for _, l in dis.findlinestarts(c) if l is not None)
            self.codes[code] = (f, lines)
        self.files = set(c.co_filename for c in self.codes)
        self.hit = {}

    def _local(self, frame, event, arg):
        if event == 'line':
            self.hit.setdefault(frame.f_code.co_filename, set()).add(frame.f_lineno)
        return self._local

    def _global(self, frame, event, arg):
        if frame.f_code.co_filename in self.files:
            return self._local
        return None

    def __enter__(self):
        self._old = sys.gettrace()
        sys.settrace(self._global)
        return self

    def __exit__(self, *a):
        sys.settrace(self._old)

    def report(self):
        out = {}
        for code, (f, lines) in self.codes.items():
            hit = self.hit.get(code.co_filename, set()) & lines
            rel = os.path.relpath(code.co_filename, REPO)
            out['%s:%s' % (rel, getattr(f, '__qualname__', code.co_name))] = {
                'executed': len(hit), 'of': len(lines), 'missed': sorted(lines - hit)[:40]}
        return out
