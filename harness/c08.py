"""C08 functional / convex conjugate / proximal consistency: correspondence + probes.

Every case builds one functional expression tree twice: as an odl object (through the
class constructors and the operator overloads of Functional) and as a Gallina term of
type `fexpr Q` (C08/Model.v).  The shard then compares, inside Coq, the model's
value / convex_conj tree / biconjugate / proximal / conjugate proximal / gradient with
what the implementation returned (exact rationals, tolerance 1e-9).
"""
import numpy as np

from . import common as C

PID = 'C08'


def translate():
    from translate import conjugates as T
    return {'Gen/Conjugates.v': T.translate()}

SHARD_SIZE = 60
RULE = ('random functional expression trees (depth 0..3 quick, 0..4 thorough) over 17 node classes '
        '(LpNorm p=1,2,inf, IndicatorLpUnitBall, L2NormSquared, Constant/Zero, IndicatorZero, Huber, '
        'QuadraticForm(ScalingOperator), Left/RightScalarMult via both overloads and constructors, '
        'RightVectorMult, Sum, ScalarSum (+/-), Translation, QuadraticPerturb, InfimalConvolution, '
        'DefaultConvexConjugate, BregmanDistance, SeparableSum) on rn / constant- and array-weighted rn / '
        '1-d and 2-d uniform_discr / product spaces of those, sizes 1..5, dyadic points, scalars and steps; '
        'mostly convex trees, some with non-positive scalars to reach the error branches.  Per case the '
        'shard compares class tree + linear flag of f, f.convex_conj, f.convex_conj.convex_conj, and the values '
        'f(x), f*(y), f**(x), prox_{sf}(x), prox_{f*/s}(x/s), grad f(x), f*(grad f(x)) or the exception class. '
        'A case is non-trivial when the tree has at least one derived node or a non-default option; '
        'distinct by (space kind, tree term, points).')
ASSUMPTIONS = [
    'exact arithmetic: theorems are over R; float rounding, the (1 +- 10 eps) guards in proximal_l2 / '
    'proximal_convex_conj_l1 and a unit-ball test within 1e-12 of the sphere are outside the theorems '
    '(covered by the 1e-9 tolerance / the slack parameter of the model)',
    'real spaces only; the space enters through its weights w (inner = sum w_i x_i y_i); a ProductSpace of '
    'weighted spaces is the concatenation (SeparableSum builds unweighted products)',
    'theorems assume positive weights, and per node: LeftScalarMult s > 0, RightScalarMult s <> 0, '
    'RightVectorMult entries <> 0, QuadraticPerturb a >= 0, Huber gamma > 0, QuadraticForm scaling a > 0, sigma > 0',
]
TRUSTED = [
    'translate/conjugates.py (reusing the grammar of translate/prox_bindings.py): fail-closed ast -> Gen/Conjugates.v; '
    'C08/ConjTables.v interpreter of those bodies (meaning of attribute reads, class constructors and operator overloads)',
    'C08/Model.v hand-written model of the proximal / gradient / _call bodies and of the operator overloads, tied to /repo by '
    'the in-Coq correspondence on random trees (class tree of the conjugates is compared, not only values); the convex_conj '
    'rules themselves are regenerated from source and cconj is PROVED to satisfy them (cconj_generated)',
    'np.sqrt is a parameter of the model (executed as a 30-digit rational approximation exact on perfect squares; '
    'in proofs any function with sqrtf(a)^2 = a, sqrtf(a) >= 0 on a >= 0); for value on sqrt-free trees and for cconj the '
    'Q-run is PROVED to be the rational restriction of the R-model (C08/Transfer.v); for prox/grad and trees with a square '
    'root the Q/R link of the polymorphic definitions is assumed',
    'KullbackLeibler pairs, GroupL1Norm pair, NuclearNorm pair, general-p LpNorm, QuadraticForm with a matrix '
    'operator: not modelled, probed only',
]

DY = [0.0, 0.25, 0.5, 0.75, 1.0, 1.25, 1.5, 2.0, 2.5, 3.0]
POW2 = [0.25, 0.5, 1.0, 2.0, 4.0]


def _val(rng, lo=False):
    v = rng.choice(DY if not lo else DY[:6])
    return v if rng.random() < 0.5 else -v


def _vec(rng, n, lo=False):
    return [_val(rng, lo) for _ in range(n)]


# ------------------------------------------------------------------ spaces
class Sp(object):
    """A real space with per-entry weights w; product spaces concatenate."""

    def __init__(self, kind, odlspace, w, parts=None, ctor=None):
        self.kind, self.odl, self.w, self.parts, self.ctor = kind, odlspace, list(w), parts, ctor
        self.n = len(self.w)

    def elem(self, flat):
        if self.parts:
            out, k = [], 0
            for p in self.parts:
                out.append(p.elem(flat[k:k + p.n]))
                k += p.n
            return self.odl.element(out)
        return self.odl.element(np.array(flat, dtype=float).reshape(self.odl.shape))

    def flat(self, el):
        if self.parts:
            r = []
            for p, e in zip(self.parts, el):
                r += p.flat(e)
            return r
        return [float(v) for v in np.asarray(el).ravel()]


def gen_space(rng, allow_prod=True, small=False):
    import odl
    kinds = ['rn', 'rn', 'rn_const', 'rn_array', 'discr1', 'discr2'] + (['prod', 'prod'] if allow_prod else [])
    k = rng.choice(kinds)
    n = rng.choice([1, 2, 2, 3, 3, 4, 5] if not small else [1, 2, 3])
    if k == 'rn':
        return Sp(k, odl.rn(n), [1.0] * n, ctor='odl.rn(%d)' % n)
    if k == 'rn_const':
        c = rng.choice([0.5, 2.0, 0.25, 4.0])
        return Sp(k, odl.rn(n, weighting=c), [c] * n, ctor='odl.rn(%d, weighting=%r)' % (n, c))
    if k == 'rn_array':
        w = [rng.choice([0.5, 1.0, 2.0, 4.0]) for _ in range(n)]
        return Sp(k, odl.rn(n, weighting=np.array(w)), w, ctor='odl.rn(%d, weighting=np.array(%r))' % (n, w))
    if k == 'discr1':
        h = rng.choice([0.5, 0.25, 2.0, 1.0])
        return Sp(k, odl.uniform_discr(0, n * h, n), [h] * n, ctor='odl.uniform_discr(0, %r, %d)' % (n * h, n))
    if k == 'discr2':
        a, b = rng.choice([(1, 2), (2, 2), (2, 1), (1, 1), (2, 3)])
        ha, hb = rng.choice([0.5, 1.0, 2.0]), rng.choice([0.5, 1.0, 0.25])
        return Sp(k, odl.uniform_discr([0, 0], [a * ha, b * hb], [a, b]), [ha * hb] * (a * b),
                  ctor='odl.uniform_discr([0, 0], [%r, %r], [%d, %d])' % (a * ha, b * hb, a, b))
    if rng.random() < 0.4:
        # power space X^d: GroupL1Norm and its ball live here
        d = rng.choice([1, 2, 2, 3])
        base = gen_space(rng, allow_prod=False, small=True)
        r = rng.random()
        if r < 0.4:
            cw, wkw, kind = [1.0] * d, '', 'power'
        elif r < 0.65:
            c = rng.choice([0.5, 2.0, 4.0])
            cw, wkw, kind = [c] * d, ', weighting=%r' % c, 'power_const'
        else:
            cw = [rng.choice([0.5, 1.0, 2.0, 4.0]) for _ in range(d)]
            wkw, kind = ', weighting=%r' % (cw,), 'power_array'
        sp = eval('odl.ProductSpace(B, d%s)' % wkw, {'odl': odl, 'B': base.odl, 'd': d})
        flat = []
        for c in cw:
            flat += [c * v for v in base.w]
        out = Sp(kind, sp, flat, parts=[base] * d, ctor='odl.ProductSpace(%s, %d%s)' % (base.ctor, d, wkw))
        out.d, out.m, out.cw = d, base.n, cw
        return out
    m = rng.choice([2, 2, 3])
    parts = [gen_space(rng, allow_prod=False, small=True) for _ in range(m)]
    sp = odl.ProductSpace(*[p.odl for p in parts])
    return Sp('prod', sp, sum([p.w for p in parts], []), parts=parts,
              ctor='odl.ProductSpace(%s)' % ', '.join(p.ctor for p in parts))


# ------------------------------------------------------------------- trees
class Node(object):
    def __init__(self, obj, coq, py, derived):
        self.obj, self.coq, self.py, self.derived = obj, coq, py, derived


PNAME = {1: 'P1', 2: 'P2', np.inf: 'Pinf'}


def _pyvec(sp, v):
    if sp.parts:
        out, k = [], 0
        for p in sp.parts:
            out.append(_pyvec(p, v[k:k + p.n]))
            k += p.n
        return 'S.element([%s])' % ', '.join(o.replace('S.element', 'S_') for o in out)
    return 'S.element(np.array(%r).reshape(S.shape))' % (list(v),)


def pyelem(sp, v, name='S'):
    """python source of the element with flat entries v in space expression `name`."""
    if sp.parts:
        chunks, k = [], 0
        for i, p in enumerate(sp.parts):
            chunks.append(pyelem(p, v[k:k + p.n], '%s[%d]' % (name, i)))
            k += p.n
        return '%s.element([%s])' % (name, ', '.join(chunks))
    return '%s.element(np.array(%r).reshape(%s.shape))' % (name, list(v), name)


def gen_leaf(rng, sp, S='S'):
    import odl
    F = odl.solvers
    if sp.parts:
        choices = ['sep', 'sep', 'sep', 'l2sq', 'const', 'indzero', 'l2', 'ball2', 'quad', 'l1', 'ballinf']
        if sp.kind.startswith('power'):
            choices += ['group', 'group', 'groupball', 'groupball']
        if sp.kind in ('power_const', 'power_array'):
            # SeparableSum builds its own unweighted product space
            choices = [c for c in choices if c != 'sep']
    else:
        choices = ['l1', 'l2', 'linf', 'ball1', 'ball2', 'ballinf', 'l2sq', 'const', 'zero', 'indzero',
                   'huber', 'huber', 'quad', 'quad']
    k = rng.choice(choices)
    if k == 'sep' and len(sp.parts) < 2:
        k = 'l2sq'            # SeparableSum of a single functional has no FSep2 counterpart
    if k in ('group', 'groupball'):
        b = (k == 'group')
        obj = F.GroupL1Norm(sp.odl, 2) if b else F.IndicatorGroupL1UnitBall(sp.odl, 2)
        return Node(obj, '(cGroup %s %d %s)' % (C.qs(sp.cw), sp.m, C.b(b)),
                    'F.%s(%s, 2)' % ('GroupL1Norm' if b else 'IndicatorGroupL1UnitBall', S), True)
    if k == 'sep':
        subs = []
        for i, p in enumerate(sp.parts):
            subs.append(gen_tree(rng, p, rng.choice([0, 0, 1]), '%s[%d]' % (S, i)))
        obj = F.SeparableSum(*[s.obj for s in subs])
        coq = subs[-1].coq
        kk = sp.n - sp.parts[-1].n
        for i in range(len(subs) - 2, -1, -1):
            # FSep2 k f g with k = size of part i; nested to the right
            coq = '(cSep2 %s %s %s)' % (C.nat(sp.parts[i].n), subs[i].coq, coq)
        return Node(obj, coq, 'F.SeparableSum(%s)' % ', '.join(s.py for s in subs), True)
    if k in ('l1', 'l2', 'linf'):
        p = {'l1': 1, 'l2': 2, 'linf': np.inf}[k]
        if k == 'linf' or rng.random() < 0.3:
            obj, py = F.LpNorm(sp.odl, p), 'F.LpNorm(%s, %s)' % (S, 'np.inf' if p == np.inf else p)
        else:
            obj = {1: F.L1Norm, 2: F.L2Norm}[p](sp.odl)
            py = 'F.%s(%s)' % ({1: 'L1Norm', 2: 'L2Norm'}[p], S)
        return Node(obj, '(cLp %s)' % PNAME[p], py, False)
    if k in ('ball1', 'ball2', 'ballinf'):
        p = {'ball1': 1, 'ball2': 2, 'ballinf': np.inf}[k]
        return Node(F.IndicatorLpUnitBall(sp.odl, p), '(cBall %s)' % PNAME[p],
                    'F.IndicatorLpUnitBall(%s, %s)' % (S, 'np.inf' if p == np.inf else p), False)
    if k == 'l2sq':
        return Node(F.L2NormSquared(sp.odl), 'cL2Sq', 'F.L2NormSquared(%s)' % S, False)
    if k == 'const':
        c = _val(rng)
        return Node(F.ConstantFunctional(sp.odl, c), '(cConst %s)' % C.q(c), 'F.ConstantFunctional(%s, %r)' % (S, c), c != 0)
    if k == 'zero':
        return Node(F.ZeroFunctional(sp.odl), '(cConst 0)', 'F.ZeroFunctional(%s)' % S, False)
    if k == 'indzero':
        c = rng.choice([0.0, 0.0, _val(rng)])
        return Node(F.IndicatorZero(sp.odl, c), '(cIndZero %s)' % C.q(c), 'F.IndicatorZero(%s, %r)' % (S, c), c != 0)
    if k == 'huber':
        g = rng.choice([0.25, 0.5, 1.0, 2.0, 1.5])
        return Node(F.Huber(sp.odl, g), '(cHuber %s)' % C.q(g), 'F.Huber(%s, %r)' % (S, g), True)
    # QuadraticForm with a scaling operator / vector / constant
    a = rng.choice([None, 0.5, 1.0, 2.0, 0.25, 4.0, 2.0])
    b = rng.choice([None, 'v', 'v']) if a is not None else 'v'
    c = rng.choice([0.0, _val(rng)])
    bv = _vec(rng, sp.n) if b else None
    op = odl.ScalingOperator(sp.odl, a) if a is not None else None
    obj = F.QuadraticForm(op, sp.elem(bv) if bv is not None else None, c)
    coq = '(cQuadS %s %s %s)' % ('None' if a is None else '(Some %s)' % C.q(a),
                                'None' if bv is None else '(Some %s)' % C.qs(bv), C.q(c))
    py = 'F.QuadraticForm(%s, %s, %r)' % ('None' if a is None else 'odl.ScalingOperator(%s, %r)' % (S, a),
                                          'None' if bv is None else pyelem(sp, bv, S), c)
    return Node(obj, coq, py, True)


_CONVEX_ONLY = [False]


def _scalar(rng, bad=0.08):
    r = rng.random()
    if _CONVEX_ONLY[0]:
        bad = 0.0
    if r < bad:
        return rng.choice([-1.0, -0.5, -2.0])
    if r < bad * 1.5:
        return 0.0
    return rng.choice(POW2 + [1.5, 3.0] if rng.random() < 0.25 else POW2)


def gen_tree(rng, sp, depth, S='S'):
    import odl
    F = odl.solvers
    from odl.solvers.functional import functional as FF
    if depth <= 0:
        return gen_leaf(rng, sp, S)
    rule = rng.choice(['rmul', 'rmul', 'mulr', 'mulr', 'left', 'right', 'rvec', 'sum', 'ssum', 'ssub',
                       'transl', 'transl', 'qp', 'qp', 'qp0', 'infconv', 'defconj', 'bregman', 'leaf', 'mul0',
                       'reflect', 'reflect'])
    if rule == 'leaf':
        return gen_leaf(rng, sp, S)
    f = gen_tree(rng, sp, depth - 1, S)
    if rule == 'rmul':
        s = _scalar(rng)
        return Node(s * f.obj, '(cRmul %s %s)' % (C.q(s), f.coq), '(%r * %s)' % (s, f.py), True)
    if rule == 'mul0':
        # f * 0 evaluates f(0) eagerly and returns a ConstantFunctional
        try:
            f0 = float(f.obj(sp.odl.zero()))
        except Exception:
            return f
        if not np.isfinite(f0):
            return f
        return Node(f.obj * 0.0, '(cMul0 %s %s)' % (C.qs(sp.w), f.coq), '(%s * 0.0)' % f.py, True)
    if rule == 'reflect':
        # right multiplication by a NEGATIVE scalar (reflection): convex, and the proximal is -prox(-x)-like
        s = rng.choice([-1.0, -1.0, -1.0, -2.0, -0.5])
        if rng.random() < 0.5:
            return Node(f.obj * s, '(cMulR %s %s)' % (f.coq, C.q(s)), '(%s * %r)' % (f.py, s), True)
        return Node(FF.FunctionalRightScalarMult(f.obj, s), '(cRight %s %s)' % (C.q(s), f.coq),
                    'FF.FunctionalRightScalarMult(%s, %r)' % (f.py, s), True)
    if rule == 'mulr':
        s = _scalar(rng, bad=0.05)
        if s == 0:
            s = 2.0
        return Node(f.obj * s, '(cMulR %s %s)' % (f.coq, C.q(s)), '(%s * %r)' % (f.py, s), True)
    if rule == 'left':
        s = _scalar(rng)
        return Node(FF.FunctionalLeftScalarMult(f.obj, s), '(cLeft %s %s)' % (C.q(s), f.coq),
                    'FF.FunctionalLeftScalarMult(%s, %r)' % (f.py, s), True)
    if rule == 'right':
        s = _scalar(rng)
        return Node(FF.FunctionalRightScalarMult(f.obj, s), '(cRight %s %s)' % (C.q(s), f.coq),
                    'FF.FunctionalRightScalarMult(%s, %r)' % (f.py, s), True)
    if rule == 'rvec':
        v = [rng.choice(POW2 + [-1.0, -2.0, -0.5]) for _ in range(sp.n)]
        return Node(f.obj * sp.elem(v), '(cRVec %s %s)' % (C.qs(v), f.coq), '(%s * %s)' % (f.py, pyelem(sp, v, S)), True)
    if rule == 'sum':
        g = gen_tree(rng, sp, depth - 1, S)
        return Node(f.obj + g.obj, '(cSum %s %s)' % (f.coq, g.coq), '(%s + %s)' % (f.py, g.py), True)
    if rule == 'ssum':
        c = _val(rng)
        return Node(f.obj + c, '(cSSum %s %s)' % (f.coq, C.q(c)), '(%s + %r)' % (f.py, c), True)
    if rule == 'ssub':
        c = _val(rng)
        return Node(f.obj - c, '(cSSum %s %s)' % (f.coq, C.q(-c)), '(%s - %r)' % (f.py, c), True)
    if rule == 'transl':
        t = _vec(rng, sp.n, lo=True)
        return Node(f.obj.translated(sp.elem(t)), '(cTransl %s %s)' % (f.coq, C.qs(t)),
                    '%s.translated(%s)' % (f.py, pyelem(sp, t, S)), True)
    if rule in ('qp', 'qp0'):
        a = 0.0 if rule == 'qp0' else rng.choice([0.0, 0.5, 1.0, 1.5, 4.0, 0.25, -0.5 if (rng.random() < 0.2 and not _CONVEX_ONLY[0]) else 2.0])
        u = _vec(rng, sp.n, lo=True) if rng.random() < 0.7 else None
        c = rng.choice([0.0, _val(rng)])
        obj = FF.FunctionalQuadraticPerturb(f.obj, a, sp.elem(u) if u is not None else None, c)
        uu = u if u is not None else [0.0] * sp.n
        return Node(obj, '(cQP %s %s %s %s)' % (f.coq, C.q(a), C.qs(uu), C.q(c)),
                    'FF.FunctionalQuadraticPerturb(%s, %r, %s, %r)' % (f.py, a, 'None' if u is None else pyelem(sp, u, S), c), True)
    if rule == 'infconv':
        g = gen_tree(rng, sp, depth - 1, S)
        return Node(FF.InfimalConvolution(f.obj, g.obj), '(cInfConv %s %s)' % (f.coq, g.coq),
                    'FF.InfimalConvolution(%s, %s)' % (f.py, g.py), True)
    if rule == 'defconj':
        return Node(FF.FunctionalDefaultConvexConjugate(f.obj), '(cDefConj %s)' % f.coq,
                    'FF.FunctionalDefaultConvexConjugate(%s)' % f.py, True)
    if rule == 'bregman':
        p, g = _vec(rng, sp.n, lo=True), _vec(rng, sp.n, lo=True)
        try:
            fp = f.obj(sp.elem(p))
            if not np.isfinite(fp):
                return f
            if rng.random() < 0.5:
                obj = FF.BregmanDistance(f.obj, sp.elem(p), sp.elem(g))
            else:
                obj = f.obj.bregman(sp.elem(p), sp.elem(g))
        except Exception:
            return f
        return Node(obj, '(cBreg %s %s %s %s)' % (C.qs(sp.w), f.coq, C.qs(p), C.qs(g)),
                    'FF.BregmanDistance(%s, %s, %s)' % (f.py, pyelem(sp, p, S), pyelem(sp, g, S)), True)
    raise AssertionError(rule)


# ------------------------------------------------------------ observations
ERR = [(NotImplementedError, 'ENotImpl'), (ZeroDivisionError, 'EZeroDiv'), (ValueError, 'EValue'),
       (TypeError, 'EType')]


def _err(e):
    for cls, name in ERR:
        if isinstance(e, cls):
            return name
    return 'EOther'


def obs_val(fn):
    try:
        v = float(fn())
    except Exception as e:  # noqa
        return '(IE %s)' % _err(e)
    if v != v or v == -np.inf:
        return '(IV EJunk)'
    if v == np.inf:
        return '(IV EPInf)'
    return '(IV (EFin %s))' % C.q(v)


def obs_vec(sp, fn):
    try:
        el = fn()
        v = sp.flat(el)
    except Exception as e:  # noqa
        return '(IVE %s)' % _err(e)
    if not all(np.isfinite(v)):
        return 'IVSkip'
    return '(IVec %s)' % C.qs(v)


def obs_prox_modes(sp, opfn, X):
    """the three ways a proximal is called: op(x), op(x, out=fresh), op(x, out=x) (the in-place pattern of
    admm / douglas_rachford / dca).  All three are compared with the same model value."""
    try:
        op = opfn()
    except Exception as e:  # noqa
        er = '(IVE %s)' % _err(e)
        return er, er, er

    def fresh():
        out = op.range.element()
        r = op(X, out=out)
        return out if r is None else r

    def aliased():
        xc = X.copy()
        r = op(xc, out=xc)
        return xc if r is None else r
    return obs_vec(sp, lambda: op(X)), obs_vec(sp, fresh), obs_vec(sp, aliased)


def pyshape(f):
    """preorder class tags of an odl functional (must mirror C08/Corr.v:shape)."""
    import odl
    F = odl.solvers
    from odl.solvers.functional import functional as FF
    D = odl.solvers.functional.default_functionals
    if isinstance(f, FF.BregmanDistance):
        return pyshape(f._BregmanDistance__bregman_dist)
    if isinstance(f, D.GroupL1Norm):
        return [17]
    if isinstance(f, D.IndicatorGroupL1UnitBall):
        return [18]
    if isinstance(f, D.LpNorm):
        return [0]
    if isinstance(f, D.IndicatorLpUnitBall):
        return [1]
    if isinstance(f, D.L2NormSquared):
        return [2]
    if isinstance(f, D.ConstantFunctional):
        return [3]
    if isinstance(f, D.IndicatorZero):
        return [4]
    if isinstance(f, D.Huber):
        return [5]
    if isinstance(f, D.QuadraticForm):
        return [6]
    if isinstance(f, FF.FunctionalLeftScalarMult):
        return [7] + pyshape(f.functional)
    if isinstance(f, FF.FunctionalRightScalarMult):
        return [8] + pyshape(f.functional)
    if isinstance(f, FF.FunctionalRightVectorMult):
        return [9] + pyshape(f.functional)
    if isinstance(f, FF.FunctionalScalarSum):
        return [11] + pyshape(f.left)
    if isinstance(f, FF.FunctionalSum):
        return [10] + pyshape(f.left) + pyshape(f.right)
    if isinstance(f, FF.FunctionalTranslation):
        return [12] + pyshape(f.functional)
    if isinstance(f, FF.FunctionalQuadraticPerturb):
        return [13] + pyshape(f.functional)
    if isinstance(f, FF.InfimalConvolution):
        return [14] + pyshape(f.left) + pyshape(f.right)
    if isinstance(f, FF.FunctionalDefaultConvexConjugate):
        return [15] + pyshape(f.convex_conj)
    if isinstance(f, D.SeparableSum):
        fs = list(f.functionals)
        out = pyshape(fs[-1])
        for g in reversed(fs[:-1]):
            out = [16] + pyshape(g) + out
        return out
    return [99]


def obs_shape(fn):
    try:
        f = fn()
        return '(IShape %s %s)' % (C.nats(pyshape(f)) + '%nat', C.b(bool(f.is_linear))), f
    except Exception as e:  # noqa
        return '(ISE %s)' % _err(e), None


def make_case(sp, node, x, y, sigma):
    f = node.obj
    X, Y = sp.elem(x), sp.elem(y)
    shp, _ = obs_shape(lambda: f)
    cshp, fc = obs_shape(lambda: f.convex_conj)
    if fc is not None:
        ccshp, fcc = obs_shape(lambda: fc.convex_conj)
    else:
        ccshp, fcc = cshp, None
    val = obs_val(lambda: f(X))
    cval = obs_val(lambda: fc(Y)) if fc is not None else 'ISkip'
    ccval = obs_val(lambda: fcc(X)) if fcc is not None else 'ISkip'
    prox, prox_f, prox_a = obs_prox_modes(sp, lambda: f.proximal(sigma), X)
    if fc is not None:
        cprox, cprox_f, cprox_a = obs_prox_modes(sp, lambda: fc.proximal(1.0 / sigma), X / sigma)
    else:
        cprox = cprox_f = cprox_a = 'IVSkip'
    gcell = {}

    def _g():
        gcell['g'] = f.gradient(X)
        return gcell['g']
    grad = obs_vec(sp, _g)
    if 'cGroup' in node.coq:
        grad = 'IVSkip'           # the gradient of the group pair is not modelled
    if 'g' in gcell and fc is not None and grad.startswith('(IVec'):
        cgval = obs_val(lambda: fc(gcell['g']))
    else:
        cgval = 'ISkip'
    term = ('{| k_w := %s; k_e := %s; k_x := %s; k_y := %s; k_sigma := %s; k_shape := %s; k_val := %s; '
            'k_cshape := %s; k_cval := %s; k_ccshape := %s; k_ccval := %s; k_prox := %s; k_prox_f := %s; '
            'k_prox_a := %s; k_cprox := %s; k_cprox_f := %s; k_cprox_a := %s; k_grad := %s; k_cgval := %s |}'
            % (C.qs(sp.w), node.coq, C.qs(x), C.qs(y), C.q(sigma), shp, val, cshp, cval, ccshp, ccval,
               prox, prox_f, prox_a, cprox, cprox_f, cprox_a, grad, cgval))
    desc = {'space': sp.ctor, 'f': node.py, 'x': x, 'y': y, 'sigma': sigma}
    return term, desc


def gen_points(rng, sp):
    x = _vec(rng, sp.n)
    r = rng.random()
    if r < 0.15:
        x = [0.0] * sp.n
    y = _vec(rng, sp.n, lo=True)
    r = rng.random()
    if r < 0.25:
        y = [v / 4 for v in y]
    elif r < 0.35:
        y = [rng.choice([1.0, -1.0, 0.0]) for _ in range(sp.n)]
    elif r < 0.4:
        y = [0.0] * sp.n
    sigma = rng.choice([0.25, 0.5, 1.0, 2.0, 4.0, 1.5, 3.0])
    return x, y, sigma


def correspondence(rng, tier):
    cs = C.CaseSet('trees', ['Base.Vec', 'C08.Model', 'C08.Corr'], 'check', 'case')
    ntree = 420 if tier == 'quick' else 3000
    maxd = 3 if tier == 'quick' else 4
    import warnings
    warnings.simplefilter('ignore')
    np.seterr(all='ignore')
    for i in range(ntree):
        sp = gen_space(rng)
        depth = rng.choice(list(range(maxd + 1)))
        try:
            node = gen_tree(rng, sp, depth)
        except Exception:
            # a constructor refused the tree (e.g. scalar not in field): not an observation of C08
            continue
        for _ in range(1 if depth == 0 else 2):
            x, y, sigma = gen_points(rng, sp)
            term, desc = make_case(sp, node, x, y, sigma)
            cs.add(term, desc, (sp.kind, node.coq, tuple(x), tuple(y), sigma) if node.derived else None)
    return [cs]


# ------------------------------------------------------------------ probes
# The property itself, evaluated on the real objects (no model involved).
_SKIP = (NotImplementedError,)


def _scale(*vals):
    return 1.0 + sum(abs(v) for v in vals if np.isfinite(v))


def chk_fy(f, x, y):
    """f(x) + f*(y) >= <x, y>; None when the library cannot evaluate one side."""
    try:
        fc = f.convex_conj
        a, b = float(f(x)), float(fc(y))
    except _SKIP:
        return None, 'not evaluable'
    r = float(x.inner(y))
    lhs = a + b
    if lhs != lhs:
        return False, 'f(x)=%r f*(y)=%r' % (a, b)
    return bool(lhs >= r - 1e-9 * _scale(a, b, r)), 'f(x)=%r f*(y)=%r <x,y>=%r' % (a, b, r)


def chk_grad_eq(f, x):
    """f(x) + f*(grad f(x)) = <x, grad f(x)>."""
    try:
        fc = f.convex_conj
        g = f.gradient(x)
        a = float(f(x))
        b = float(fc(g))
        if b == np.inf:
            # rounding guard: the gradient of a norm sits on the boundary of dom f* up to rounding (also after
            # translations / scalings of the argument): accept the best finite value within 1e-9 of g
            gf = _flatten(g)
            scale = 1e-9 * (1.0 + float(np.max(np.abs(gf))) if gf.size else 1.0)
            cands = [g * (1 - 1e-9), g * (1 + 1e-9)]
            for i in range(gf.size):
                for sgn in (1.0, -1.0):
                    e = np.zeros(gf.size)
                    e[i] = sgn * scale
                    cands.append(g + _unflatten(g.space, e))
            vals = []
            for c in cands:
                try:
                    v = float(fc(c))
                    if np.isfinite(v):
                        vals.append(v)
                except Exception:  # noqa
                    pass
            if vals:
                b = min(vals, key=lambda v: abs(a + v - float(x.inner(g))))
    except _SKIP:
        return None, 'not evaluable'
    except ValueError as e:
        if 'not defined' in str(e):      # KL cross entropy gradient outside its domain
            return None, 'gradient undefined here'
        raise
    if not all(np.isfinite(v) for v in np.ravel(_flatten(g))):
        return None, 'gradient not finite'
    r = float(x.inner(g))
    if not np.isfinite(a):
        return None, 'f(x) infinite'
    return bool(abs(a + b - r) <= 1e-7 * _scale(a, b, r)), 'f(x)=%r f*(g)=%r <x,g>=%r' % (a, b, r)


def _unflatten(space, arr):
    import odl
    if isinstance(space, odl.ProductSpace):
        out, k = [], 0
        for sp_i in space:
            n_i = sp_i.size
            out.append(_unflatten(sp_i, arr[k:k + n_i]))
            k += n_i
        return space.element(out)
    return space.element(np.asarray(arr).reshape(space.shape))


def _flatten(el):
    import odl
    if isinstance(el.space, odl.ProductSpace):
        return np.concatenate([_flatten(e) for e in el])
    return np.asarray(el).ravel()


def chk_biconj(f, x):
    try:
        fcc = f.convex_conj.convex_conj
        a, b = float(f(x)), float(fcc(x))
    except _SKIP:
        return None, 'not evaluable'
    except ValueError as e:
        if 'nonpositive' in str(e):      # reflection of a functional whose conjugate is flagged linear (clause B)
            return None, 'conjugate of a negatively scaled functional'
        raise
    if a == np.inf or b == np.inf:
        return bool(a == b), 'f(x)=%r f**(x)=%r' % (a, b)
    return bool(abs(a - b) <= 1e-8 * _scale(a, b)), 'f(x)=%r f**(x)=%r' % (a, b)


def chk_moreau(f, x, s):
    """prox_{s f}(x) + s prox_{f*/s}(x/s) = x  (s a positive scalar or one step per component)."""
    try:
        fc = f.convex_conj
        if np.isscalar(s) or hasattr(s, 'space'):
            # a positive scalar, or one step per entry given as a space element; every call mode
            # (out-of-place, out=fresh element, out=the input itself) must give the identity
            P, Q = f.proximal(s), fc.proximal(1.0 / s)
            worst, res = -1.0, None
            for mode in ('value', 'fresh', 'aliased'):
                if mode == 'value':
                    p, q = P(x), Q(x / s)
                elif mode == 'fresh':
                    p, q = P.range.element(), Q.range.element()
                    P(x, out=p)
                    Q(x / s, out=q)
                else:
                    p, q = x.copy(), x / s
                    P(p, out=p)
                    Q(q, out=q)
                r_m = p + s * q - x
                e_m = float(np.max(np.abs(_flatten(r_m)))) if x.space.size else 0.0
                if e_m != e_m:
                    e_m = np.inf
                if e_m > worst:
                    worst, res = e_m, r_m
        else:
            p = f.proximal(list(s))(x)
            xs = x.space.element([xi / si for xi, si in zip(x, s)])
            q = fc.proximal([1.0 / si for si in s])(xs)
            res = x.space.element([pi + si * qi - xi for pi, qi, xi, si in zip(p, q, x, s)])
    except _SKIP:
        return None, 'no proximal pair'
    except ValueError as e:
        if 'negative value' in str(e) or 'nonpositive' in str(e):   # reflection of a functional with flagged-linear conjugate
            return None, 'the conjugate is a negatively scaled functional: no proximal'
        raise
    err = float(np.max(np.abs(_flatten(res)))) if x.space.size else 0.0
    nx = float(np.max(np.abs(_flatten(x)))) if x.space.size else 0.0
    return bool(err <= 1e-8 * (1 + nx)), 'max|p + s q - x| = %r' % err


def chk_prox_point(f, x, s):
    """p = prox_{s f}(x) minimises f(z) + |z - x|^2 / (2 s):  (x - p)/s is a subgradient at p, i.e.
    f(p) + f*((x - p)/s) = <p, (x - p)/s>  (when f* can be evaluated), and the objective at p is not
    larger than at x, at -prox(-x)-type reflections and at small coordinate perturbations of p."""
    if not np.isscalar(s):
        return None, 'scalar steps only'
    try:
        p = f.proximal(s)(x)
        fp = float(f(p))
    except _SKIP:
        return None, 'no proximal / value'
    if not np.isfinite(fp):
        # projections land on the boundary of the set up to rounding (C07 finding indicator-l1-ball-rounding-outside):
        # move the point inside by 1e-9 and continue with that point
        try:
            p2 = p * (1 - 1e-9)
            fp2 = float(f(p2))
        except Exception:  # noqa
            fp2 = fp
        if not np.isfinite(fp2):
            if 'IndicatorZero' in repr(f):
                return None, 'f(prox) = inf: exact-zero test of IndicatorZero after rounded arithmetic'
            return False, 'f(prox) = %r' % fp
        p, fp = p2, fp2

    def obj(z):
        return float(f(z)) + float((z - x).inner(z - x)) / (2.0 * s)
    Fp = obj(p)
    pf = _flatten(p)
    h = 1e-3 * (1.0 + float(np.max(np.abs(pf))) if pf.size else 1.0)
    cands = [x, -p, p * 0.5, p + (x - p) * 0.5]
    for i in range(pf.size):
        for sgn in (1.0, -1.0):
            e = np.zeros(pf.size)
            e[i] = sgn * h
            cands.append(p + _unflatten(p.space, e))
    for z in cands:
        Fz = obj(z)
        if Fz == Fz and Fz < Fp - 1e-9 * _scale(Fp, Fz):
            return False, 'objective %r at a competitor < %r at the proximal point' % (Fz, Fp)
    try:
        fc = f.convex_conj
        y = (x - p) / s
        b = float(fc(y))
    except _SKIP:
        return True, 'minimisation checked; f* not evaluable'
    if b == np.inf:
        # rounding guard as in chk_grad_eq: (x - p)/s sits on the boundary of dom f* for norms
        yf = _flatten(y)
        sc = 1e-9 * (1.0 + float(np.max(np.abs(yf))) if yf.size else 1.0)
        vals = []
        for c in [y * (1 - 1e-9), y * (1 + 1e-9)] + [y + _unflatten(y.space, sgn * sc * np.eye(yf.size)[i])
                                                       for i in range(yf.size) for sgn in (1.0, -1.0)]:
            try:
                v = float(fc(c))
                if np.isfinite(v):
                    vals.append(v)
            except Exception:  # noqa
                pass
        if vals:
            b = min(vals, key=lambda v: abs(fp + v - float(p.inner(y))))
    r = float(p.inner(y))
    return bool(abs(fp + b - r) <= 1e-7 * _scale(fp, b, r)), 'f(p)=%r f*((x-p)/s)=%r <p,(x-p)/s>=%r' % (fp, b, r)


CHECKS = {'prox-point': lambda f, x, y, s: chk_prox_point(f, x, s), 'fy': lambda f, x, y, s: chk_fy(f, x, y), 'grad-eq': lambda f, x, y, s: chk_grad_eq(f, x),
          'biconj': lambda f, x, y, s: chk_biconj(f, x), 'moreau': lambda f, x, y, s: chk_moreau(f, x, s)}


def run_check(name, f, x, y, s):
    """-> (ok, detail); an unexpected exception counts as a failure of the property."""
    try:
        ok, detail = CHECKS[name](f, x, y, s)
    except ValueError as e:
        # the library refuses conjugates / proximals of negatively LEFT-scaled functionals (a reflection `f * s`,
        # s < 0, of a functional flagged linear builds one): nothing to evaluate
        if 'nonpositive values' in str(e) or 'scaled with a negative value' in str(e):
            return True, 'library refuses: ' + str(e)[:80]
        return False, 'raised ValueError: %s' % str(e)[:200]
    except Exception as e:  # noqa
        return False, 'raised %s: %s' % (type(e).__name__, str(e)[:200])
    return (True if ok is None else ok), detail


_REPLAY = """import sys, numpy as np, odl
sys.path.insert(0, %(verif)r)
from harness import c08 as H
F = odl.solvers
from odl.solvers.functional import functional as FF
np.seterr(all='ignore')
%(setup)s
ok, observed = H.run_check(%(check)r, f, x, y, %(sigma)r)
expected = %(check)r + ' holds'
"""


def _probe(out, check, key, what, setup, f, x, y, s):
    ok, detail = run_check(check, f, x, y, s)
    rp = _REPLAY % {'verif': C.VERIF, 'setup': setup, 'check': check, 'sigma': s}
    if hasattr(s, 'space'):
        rp = rp.replace('%r)\nexpected' % (s,), 'sigma_vec)\nexpected')
    out.append(C.Probe(ok, key, what, rp, detail))


def _topclass(f):
    return type(f).__name__


def _c07_weighted_linf(py, w):
    """LpNorm(inf) / IndicatorLpUnitBall(1) on a space with weights != 1: their proximals are the unweighted
    l1 projections (open C07 findings linfty-weighted-space, indicator-l1-ball-weighted-space); the Moreau pair is
    mutually consistent (checked), but neither is a minimiser, so the prox-point check is left to C07."""
    if all(v == 1.0 for v in w):
        return False
    return ('np.inf)' in py and 'LpNorm' in py) or ', 1)' in py and 'IndicatorLpUnitBall' in py


def tree_probes(rng, tier, out):
    n = 150 if tier == 'quick' else 900
    maxd = 3 if tier == 'quick' else 4
    _CONVEX_ONLY[0] = True
    try:
        for _ in range(n):
            sp = gen_space(rng)
            try:
                node = gen_tree(rng, sp, rng.choice(list(range(maxd + 1))))
            except Exception:
                continue
            x, y, sigma = gen_points(rng, sp)
            setup = 'S = %s\nf = %s\nx = %s\ny = %s' % (sp.ctor, node.py, pyelem(sp, x), pyelem(sp, y))
            X, Y = sp.elem(x), sp.elem(y)
            for check in ('fy', 'grad-eq', 'biconj', 'moreau', 'prox-point'):
                if check == 'prox-point' and _c07_weighted_linf(node.py, sp.w):
                    continue
                _probe(out, check, '%s:%s:%s' % (check, _topclass(node.obj), sp.kind),
                       '%s for %s on %s' % (check, node.py, sp.ctor), setup, node.obj, X, Y, sigma)
    finally:
        _CONVEX_ONLY[0] = False


def class_probes(rng, tier, out):
    """classes / options that the Coq model does not cover."""
    import odl
    reps = 2 if tier == 'quick' else 8
    spaces = [('rn', 'odl.rn(3)'), ('rn_const', 'odl.rn(3, weighting=0.5)'),
              ('rn_array', 'odl.rn(3, weighting=np.array([0.5, 2.0, 1.0]))'),
              ('discr1', 'odl.uniform_discr(0, 1.5, 3)'), ('discr2', 'odl.uniform_discr([0, 0], [1, 1], [2, 2])')]
    pspaces = [('power', 'odl.ProductSpace(odl.rn(3), 2)'),
               ('power_discr', 'odl.ProductSpace(odl.uniform_discr(0, 1, 4), 2)'),
               ('power_weighted', 'odl.ProductSpace(odl.rn(2, weighting=2.0), 3)'),
               # component weightings of the product space != 1 (constant / per component), also on weighted bases
               ('pw_const', 'odl.ProductSpace(odl.rn(3), 2, weighting=2.0)'),
               ('pw_array', 'odl.ProductSpace(odl.rn(3), 2, weighting=[1.0, 4.0])'),
               ('pw_array_discr', 'odl.ProductSpace(odl.uniform_discr(0, 1.5, 3), 3, weighting=[0.5, 2.0, 1.0])'),
               ('pw_array_wbase', 'odl.ProductSpace(odl.rn(2, weighting=np.array([0.5, 2.0])), 2, weighting=[4.0, 0.5])')]
    mspaces = [('matrix_power', 'odl.ProductSpace(odl.ProductSpace(odl.rn(2), 2), 3)')]

    def rnd(space, lo, hi):
        if isinstance(space, odl.ProductSpace):
            return 'S.element([%s])' % ', '.join(
                rnd(sp_i, lo, hi).replace('S.element', 'S[%d].element' % i) if not isinstance(sp_i, odl.ProductSpace)
                else _nested(sp_i, 'S[%d]' % i, lo, hi) for i, sp_i in enumerate(space))
        vals = [round(rng.uniform(lo, hi) * 8) / 8.0 for _ in range(space.size)]
        return 'S.element(np.array(%r).reshape(S.shape))' % (vals,)

    def _nested(space, name, lo, hi):
        parts = []
        for i, sp_i in enumerate(space):
            if isinstance(sp_i, odl.ProductSpace):
                parts.append(_nested(sp_i, '%s[%d]' % (name, i), lo, hi))
            else:
                vals = [round(rng.uniform(lo, hi) * 8) / 8.0 for _ in range(sp_i.size)]
                parts.append('%s[%d].element(np.array(%r).reshape(%s[%d].shape))' % (name, i, vals, name, i))
        return '%s.element([%s])' % (name, ', '.join(parts))

    def run(tag, kind, sctor, fsrc, checks, xr=(-3, 3), yr=(-1.5, 1.5), key=None, sig=None):
        env = {'np': np, 'odl': odl, 'F': odl.solvers}
        exec('from odl.solvers.functional import functional as FF', env)
        exec('S = ' + sctor, env)
        S = env['S']
        for _ in range(reps):
            xs = _nested(S, 'S', *xr) if isinstance(S, odl.ProductSpace) else rnd(S, *xr)
            ys = _nested(S, 'S', *yr) if isinstance(S, odl.ProductSpace) else rnd(S, *yr)
            setup = 'S = %s\nf = %s\nx = %s\ny = %s' % (sctor, fsrc, xs, ys)
            loc = dict(env)
            try:
                exec(setup, loc)
            except Exception as e:  # noqa
                out.append(C.Probe(False, key or 'construct:%s:%s' % (tag, kind),
                                   'constructing %s on %s raised %s' % (fsrc, sctor, type(e).__name__), None, str(e)[:200]))
                return
            s = sig if sig is not None else rng.choice([0.5, 1.0, 2.0, 0.25])
            if isinstance(s, str) and s.startswith('VEC:'):
                setup += '\nsigma_vec = ' + s[4:]
                exec('sigma_vec = ' + s[4:], loc)
                s = loc['sigma_vec']
            for check in checks:
                _probe(out, check, key or '%s:%s:%s' % (check, tag, kind), '%s for %s on %s' % (check, fsrc, sctor),
                       setup, loc['f'], loc['x'], loc['y'], s)

    allc = ('fy', 'grad-eq', 'biconj', 'moreau', 'prox-point')
    for kind, sctor in spaces:
        run('KL', kind, sctor, 'F.KullbackLeibler(S)', allc, xr=(0.125, 3), yr=(-2, 0.875))
        run('KL-prior', kind, sctor, 'F.KullbackLeibler(S, prior=S.element([0.5, 1.0, 2.0, 1.5][:S.size]))' if 'discr2' not in kind
            else 'F.KullbackLeibler(S, prior=S.element([[0.5, 1.0], [2.0, 1.5]]))', allc, xr=(0.125, 3), yr=(-2, 0.875))
        run('KLcc', kind, sctor, 'F.KullbackLeibler(S).convex_conj', allc, xr=(-2, 0.875), yr=(0.125, 3))
        run('KLCE', kind, sctor, 'F.KullbackLeiblerCrossEntropy(S)', allc, xr=(0.125, 3), yr=(-2, 1.5))
        run('KLCE-prior', kind, sctor, 'F.KullbackLeiblerCrossEntropy(S, prior=S.one() * 2.0)', allc, xr=(0.125, 3), yr=(-2, 1.5))
        run('KLCEcc', kind, sctor, 'F.KullbackLeiblerCrossEntropy(S).convex_conj', allc, xr=(-2, 1.5), yr=(0.125, 3))
        for p in (1.5, 3.0, 4.0):
            run('LpNorm-%s' % p, kind, sctor, 'F.LpNorm(S, %r)' % p, ('fy', 'biconj'), yr=(-0.6, 0.6))
            run('LpBall-%s' % p, kind, sctor, 'F.IndicatorLpUnitBall(S, %r)' % p, ('fy', 'biconj'), xr=(-0.6, 0.6))
        lc = allc if kind == 'rn' else ('fy', 'grad-eq', 'biconj', 'moreau')     # weighted: open C07 findings
        run('Linf', kind, sctor, 'F.LpNorm(S, np.inf)', lc)
        run('L1ball', kind, sctor, 'F.IndicatorLpUnitBall(S, 1)', lc, xr=(-1, 1))
        run('Box', kind, sctor, 'F.IndicatorBox(S, -1, 2)', ('moreau',))
        run('Nonneg', kind, sctor, 'F.IndicatorNonnegativity(S)', ('moreau',))
        run('Huber', kind, sctor, 'F.Huber(S, 0.75)', allc,
            key='huber-array-weighted' if kind == 'rn_array' else None)
        run('Huber-conj', kind, sctor, 'F.Huber(S, 0.75).convex_conj', ('moreau',))
        # one step size per entry (sigma given as a space element)
        vs = 'S.element(np.array([0.5, 2.0, 1.0, 4.0][:S.size]).reshape(S.shape))'
        for tag, fsrc in (('L1', 'F.L1Norm(S)'), ('L1ball', 'F.L1Norm(S).convex_conj'),
                          ('L2sq', 'F.L2NormSquared(S)'), ('L2sq-conj', 'F.L2NormSquared(S).convex_conj'),
                          ('L2sq-scaled', '3.0 * F.L2NormSquared(S)'),
                          ('L1-transl', 'F.L1Norm(S).translated(S.one())'),
                          ('L1-quadpert', 'FF.FunctionalQuadraticPerturb(F.L1Norm(S), 0.5, S.one(), 1.0)')):
            run('vecsigma-' + tag, kind, sctor, fsrc, ('moreau',), sig='VEC:' + vs)
        # QuadraticForm with a matrix operator (inner product of the space: only rn has the plain transpose)
        if kind == 'rn':
            run('QuadMatrix-sym', kind, sctor,
                'F.QuadraticForm(odl.MatrixOperator(np.array([[2., 1., 0.], [1., 3., 1.], [0., 1., 2.]])), '
                'S.element([1., -2., 0.5]), 1.5)', ('fy', 'grad-eq', 'biconj'))
            run('QuadMatrix-nonsym', kind, sctor,
                'F.QuadraticForm(odl.MatrixOperator(np.array([[1., 1., 0.], [-1., 1., 0.], [0., 0., 1.]])))',
                ('fy', 'grad-eq'), key='quadraticform-conj-nonsymmetric')
    # scaled sums of functionals flagged linear: the default conjugate inherits the linear flag
    for kind, sctor in spaces[:2]:
        run('scaled-linear-sum', kind, sctor,
            '2.0 * (F.QuadraticForm(vector=S.one()) + F.ZeroFunctional(S))', ('biconj',),
            key='defaultconj-linear-flag')
        run('scaled-linear-sum-right', kind, sctor,
            '(F.QuadraticForm(vector=S.one()) + F.QuadraticForm(vector=2 * S.one())) * 4.0', ('biconj',),
            key='defaultconj-linear-flag')
    for kind, sctor in pspaces:
        weighted = kind.startswith('pw_')
        for e in (1, 2):
            # exponent 1 on a weighted product space: the conjugate ball uses the WEIGHTED pointwise inf-norm
            # (finding groupl1-exp1-weighted-pspace)
            k1 = 'groupl1-exp1-weighted-pspace' if (weighted and e == 1) else None
            run('GroupL1-%d' % e, kind, sctor, 'F.GroupL1Norm(S, %d)' % e, allc, key=k1)
            run('GroupL1ball-%s' % e, kind, sctor, 'F.GroupL1Norm(S, %d).convex_conj' % e, allc, xr=(-1, 1), key=k1)
        run('L1-on-product', kind, sctor, 'F.L1Norm(S)', allc)
        run('L2-on-product', kind, sctor, 'F.L2Norm(S)', allc)
        run('L2sq-on-product', kind, sctor, 'F.L2NormSquared(S)', allc)
        run('Huber-on-product', kind, sctor, 'F.Huber(S, 0.75)', allc)
        if weighted:
            continue          # SeparableSum builds its own unweighted product space
        run('SepSum-list-sigma', kind, sctor,
            'F.SeparableSum(*[F.L1Norm(S[0]), F.L2NormSquared(S[0]), F.L2Norm(S[0])][:len(S)])', ('moreau',),
            sig=[0.5, 2.0, 1.0][:2 if 'rn(2' not in sctor else 3])
    for kind, sctor in mspaces:
        for oe, se in ((1, 1), (1, 2), (1, np.inf)):
            run('Nuclear-%s-%s' % (oe, se), kind, sctor, 'F.NuclearNorm(S, %r, %s)' % (oe, 'np.inf' if se == np.inf else se),
                ('fy', 'moreau', 'biconj'), yr=(-0.3, 0.3))


def formula_probes(rng, tier, out):
    """the value formulas of C08/KL.v (hand transcription of the four KL _call bodies) against the code."""
    import odl
    from scipy.special import xlogy
    F = odl.solvers
    reps = 3 if tier == 'quick' else 12
    for kind, S, w in (('rn', odl.rn(3), [1.0] * 3), ('rn_const', odl.rn(3, weighting=0.5), [0.5] * 3),
                       ('rn_array', odl.rn(3, weighting=np.array([0.5, 2.0, 1.0])), [0.5, 2.0, 1.0]),
                       ('discr1', odl.uniform_discr(0, 1.5, 3), [0.5] * 3)):
        w = np.array(w)
        for _ in range(reps):
            g = np.array([rng.choice([0.0, 0.5, 1.0, 2.0]) for _ in range(3)])
            gp = np.array([rng.choice([0.5, 1.0, 2.0]) for _ in range(3)])
            x = np.array([rng.choice([0.25, 0.5, 1.0, 3.0]) for _ in range(3)])
            y = np.array([rng.choice([-2.0, -0.5, 0.0, 0.5, 0.875]) for _ in range(3)])
            table = [
                ('KL', F.KullbackLeibler(S, prior=S.element(g)), x, float(np.sum(w * (x - g + xlogy(g, g / x))))),
                ('KLconj', F.KullbackLeibler(S, prior=S.element(g)).convex_conj, y, float(np.sum(w * (-xlogy(g, 1 - y))))),
                ('KLCE', F.KullbackLeiblerCrossEntropy(S, prior=S.element(gp)), x,
                 float(np.sum(w * (gp - x + xlogy(x, x / gp))))),
                ('KLCEconj', F.KullbackLeiblerCrossEntropy(S, prior=S.element(gp)).convex_conj, y,
                 float(np.sum(w * (gp * (np.exp(y) - 1))))),
            ]
            for name, f, pt, want in table:
                try:
                    got = float(f(S.element(pt)))
                    ok = bool(abs(got - want) <= 1e-9 * (1 + abs(want)))
                    det = 'got %r, formula %r' % (got, want)
                except Exception as e:  # noqa
                    ok, det = False, 'raised %s' % type(e).__name__
                out.append(C.Probe(ok, 'formula:%s:%s' % (name, kind),
                                   '%s value equals the formula proved about in C08/KL.v' % name, None, det))


def probes(rng, tier):
    import warnings
    warnings.simplefilter('ignore')
    np.seterr(all='ignore')
    out = []
    tree_probes(rng, tier, out)
    class_probes(rng, tier, out)
    formula_probes(rng, tier, out)
    return out


LEVEL_TEXT = ('Proof: on a deep embedding of functional arithmetic (18 node classes: LpNorm p=1,2,inf, unit-ball indicators, '
              'L2NormSquared, Constant/Zero, IndicatorZero, Huber, QuadraticForm(scaling), Left/Right scalar and vector '
              'multiples, sums, translation, quadratic perturbation, infimal convolution, default conjugate, Bregman distance, '
              'separable sum) Coq proves by structural induction, for EVERY tree, dimension, positive weighting, x, y and sigma > 0, '
              'about the conjugate TREE that the convex_conj rules build: (1) f(x) + f*(y) >= <x,y>; (2) equality at y = grad f(x); '
              '(3) the Moreau decomposition prox_{sigma f}(x) + sigma prox_{f*/sigma}(x/sigma) = x whenever both proximals exist '
              '(incl. the sort-based l1-ball projection); (4) f** = f in value wherever both can be evaluated, under an explicit '
              'side condition B (scalar multiples of functionals whose conjugate is flagged linear are validated only). '
              'The model (values, conjugate trees incl. scalar merging and the is_linear '
              'dispatch, proximals, gradients, exception classes) is tied to /repo by an in-Coq correspondence on random trees '
              '(class trees of f, f*, f** and all values compared). KL pairs, GroupL1, NuclearNorm, general-p norms, '
              'matrix QuadraticForm, element-valued sigma are probed only.')
LEVEL_NOTE = ('Side conditions (wf, D, B) are spelled out in Props.v: positive left scalars, non-zero right scalars/vectors, '
              'a >= 0, gamma > 0; D and B exclude corners created by the linear flag of conjugates. Exact arithmetic (rounding and the (1 +- 10 eps) guards are outside; tolerance 1e-9). '
              'np.sqrt enters as a function with its defining property. One open finding: QuadraticForm.convex_conj for '
              'non-self-adjoint operators violates Fenchel-Young; two fixed in /repo (Huber on array-weighted spaces, '
              'linear flag of the default conjugate), guarded by probes. '
              'Axioms: classical reals + funext as printed.')
TECHNIQUE = 'Coq proof by structural induction on functional expression trees + in-Coq differential correspondence'
