"""C17 NumPy ufuncs on ODL elements: correspondence + probes.

Correspondence: one case = a store of array buffers + one ufunc-method call with
ODL elements / arrays / scalars as operands and out arguments.  The harness runs
(1) the call on the ODL objects and (2) the same call on copies of the
underlying raw arrays (same aliasing structure), records error class / returned
container kinds / spaces / data / memory sharing / final contents of every
buffer, and Coq (C17/Corr.v) runs the model of the wrapper layer with the exact
array semantics as NumPy and compares both.
"""
import itertools

import numpy as np

from . import common as C

PID = 'C17'
SHARD_SIZE = 150

DTN = {'bool': 'DBool', 'int32': 'DI32', 'int64': 'DI64', 'float32': 'DF32', 'float64': 'DF64',
       'complex64': 'DC64', 'complex128': 'DC128'}
BOPS = {'add': 'BAdd', 'subtract': 'BSub', 'multiply': 'BMul', 'maximum': 'BMax', 'minimum': 'BMin'}
UOPS = {'negative': 'UNeg', 'absolute': 'UAbs', 'square': 'USquare', 'sign': 'USign', 'positive': 'UPos'}
METH = {'__call__': 'MCall', 'reduce': 'MReduce', 'accumulate': 'MAccumulate', 'outer': 'MOuter',
        'at': 'MAt', 'reduceat': 'MReduceat'}


class Skip(Exception):
    """case outside what the checker can express (non-finite values, unknown dtype ...)"""


# --------------------------------------------------------------- descriptors
def dt_term(dtype):
    name = np.dtype(dtype).name
    if name not in DTN:
        raise Skip('dtype ' + name)
    return DTN[name]


def nats(xs):
    return C.nats(xs) + '%nat'


class Tags(object):
    """tags of array weightings by content"""

    def __init__(self):
        self.t = {}

    def tag(self, arr):
        key = (arr.shape, arr.tobytes())
        if key not in self.t:
            self.t[key] = len(self.t) + 1
        return self.t[key]


def ts_term(sp, tags):
    """Gallina tspace of a NumpyTensorSpace"""
    from odl.space.weighting import ConstWeighting, ArrayWeighting
    w = sp.weighting
    if isinstance(w, ConstWeighting):
        wt = '(WConst %s)' % C.q(float(w.const))
    elif isinstance(w, ArrayWeighting):
        wt = '(WArr %d %s)' % (tags.tag(np.asarray(w.array)), dt_term(np.asarray(w.array).dtype))
    else:
        raise Skip('weighting')
    ex = float(sp.exponent)
    ex = 0.0 if ex == float('inf') else ex
    return '(mkTS %s %s %s %s)' % (nats(sp.shape), dt_term(sp.dtype), wt, C.q(ex))


def label_code(lbl):
    add = 0
    while True:
        if lbl.endswith(' (1)'):
            add += 100
            lbl = lbl[:-4]
        elif lbl.endswith(' (2)'):
            add += 200
            lbl = lbl[:-4]
        else:
            break
    base = {'$x$': 1, '$y$': 2, '$z$': 3}.get(lbl)
    if base is None:
        if lbl.startswith('$x_') and lbl.endswith('$'):
            base = 10 + int(lbl[3:-1])
        else:
            raise Skip('label ' + lbl)
    return base + add


def axes_term(dsp):
    part = dsp.partition
    out = []
    for i in range(dsp.ndim):
        cell = float(part.cell_sides[i]) if part.is_uniform else 0.0
        out.append('(mkAx %s %s %d %s %d)' % (C.q(float(part.min_pt[i])), C.q(float(part.max_pt[i])),
                                             part.shape[i], C.q(cell), label_code(dsp.axis_labels[i])))
    return C.lst(out)


def ds_term(dsp, tags):
    return '(mkDS %s %s)' % (axes_term(dsp), ts_term(dsp.tspace, tags))


def data_list(arr):
    a = np.asarray(arr)
    if a.dtype.kind == 'c':
        if np.any(a.imag != 0):
            raise Skip('complex data')
        a = a.real
    if a.dtype.kind == 'b':
        a = a.astype(int)
    flat = a.ravel(order='C').tolist()
    for v in flat:
        if isinstance(v, float) and (v != v or v in (float('inf'), float('-inf'))):
            raise Skip('non-finite')
    return flat


def narr_term(arr):
    a = np.asarray(arr)
    return '(mkArr %s %s %s)' % (dt_term(a.dtype), nats(a.shape), C.qs(data_list(a)))


def classify(e):
    axis_error = getattr(np, 'exceptions', np).AxisError if hasattr(np, 'exceptions') else np.AxisError
    if isinstance(e, axis_error):
        return 'EAxis'
    if isinstance(e, RecursionError):
        return 'ERuntime'
    if isinstance(e, TypeError):
        return 'EType'
    if isinstance(e, IndexError):
        return 'EIndex'
    if isinstance(e, ValueError):
        return 'EValue'
    if isinstance(e, (NotImplementedError, RuntimeError)):
        return 'ERuntime'
    return 'ERuntime'


# ------------------------------------------------------------------ a call
class Call(object):
    """One ufunc-method call over a store.

    bufs  : list of ndarrays (the buffers, id = position)
    ins   : operand specs  ('arr', id) | ('tens', space, id) | ('disc', space, id) | ('scal', v)
    outs  : None (no out kwarg) or list of operand specs / None entries
    The same spec object used twice denotes the same Python object (out is x).
    """

    def __init__(self, ufunc, method, bufs, ins, outs=None, axis='absent', keepdims=None, dtype=None,
                 idx=None):
        self.ufunc, self.method, self.bufs, self.ins, self.outs = ufunc, method, bufs, ins, outs
        self.axis, self.keepdims, self.dtype, self.idx = axis, keepdims, dtype, idx

    # -- build live objects over a given list of buffers
    def _objs(self, bufs, raw):
        cache = {}

        def mk(spec):
            if spec is None:
                return None
            if id(spec) in cache:
                return cache[id(spec)]
            kind = spec[0]
            if kind == 'scal':
                o = spec[1]
            elif kind == 'arr' or raw:
                o = bufs[spec[-1]]
            else:
                o = spec[1].element(bufs[spec[2]])
                assert o.asarray() is bufs[spec[2]]
            cache[id(spec)] = o
            return o
        ins = [mk(s) for s in self.ins]
        outs = None if self.outs is None else [mk(s) for s in self.outs]
        return ins, outs

    def _invoke(self, ins, outs):
        kw = {}
        if self.axis != 'absent':
            kw['axis'] = self.axis
        if self.keepdims is not None:
            kw['keepdims'] = self.keepdims
        if self.dtype is not None:
            kw['dtype'] = self.dtype
        if outs is not None:
            if len(outs) == 1 and self.out_bare and outs[0] is not None:
                kw['out'] = outs[0]
            else:
                kw['out'] = tuple(outs)
        f = self.ufunc if self.method == '__call__' else getattr(self.ufunc, self.method)
        if self.method in ('at', 'reduceat'):
            args = [ins[0], list(self.idx)] + list(ins[1:])
        else:
            args = list(ins)
        return f(*args, **kw)

    out_bare = True

    def observe(self, raw):
        """run on fresh copies of the buffers; returns (observation term, python summary)"""
        bufs = [b.copy() for b in self.bufs]
        ins, outs = self._objs(bufs, raw)
        try:
            with np.errstate(all='ignore'):
                r = self._invoke(ins, outs)
        except Exception as e:       # noqa
            k = classify(e)
            return '(OErr %s)' % k, {'err': k}
        rets = list(r) if isinstance(r, tuple) else [r]
        terms = []
        summ = []
        for k, x in enumerate(rets):
            terms.append(self._ret_term(x, bufs, outs, k, summ))
        final = C.lst([C.qs(data_list(b)) for b in bufs])
        return '(OOk %s %s)' % (C.lst(terms), final), {'rets': summ}

    def _ret_term(self, x, bufs, outs, k, summ):
        import odl
        from odl.discr.discr_space import DiscretizedSpaceElement
        from odl.space.npy_tensors import NumpyTensor
        isout = bool(outs is not None and k < len(outs) and outs[k] is not None and x is outs[k])
        space = 'None'
        axes = '[]'
        if x is None:
            summ.append('None')
            return '(mkORet 4 %s None None [] []%%nat DF64 [])' % C.b(isout)
        if isinstance(x, DiscretizedSpaceElement):
            kind, arr = 2, x.asarray()
            space = '(Some %s)' % ts_term(x.space.tspace, self.tags)
            axes = axes_term(x.space)
        elif isinstance(x, NumpyTensor):
            kind, arr = 1, x.asarray()
            space = '(Some %s)' % ts_term(x.space, self.tags)
        elif isinstance(x, np.ndarray):
            kind, arr = 0, x
        elif np.isscalar(x):
            kind, arr = 3, np.asarray(x)
        else:
            raise Skip('return type %s' % type(x))
        buf = 'None'
        if kind != 3:
            for i, b in enumerate(bufs):
                if b.size and np.shares_memory(arr, b):
                    buf = '(Some %d%%nat)' % i
                    break
                if b.size == 0 and arr is b:
                    buf = '(Some %d%%nat)' % i
                    break
        summ.append((kind, isout, buf, tuple(arr.shape), arr.dtype.name))
        return '(mkORet %d %s %s %s %s %s %s %s)' % (kind, C.b(isout), buf, space, axes, nats(arr.shape),
                                                   dt_term(arr.dtype), C.qs(data_list(arr)))

    # -- Gallina
    def op_term(self, spec):
        if spec is None:
            return 'None'
        kind = spec[0]
        if kind == 'arr':
            return '(OpArr %d)' % spec[1]
        if kind == 'scal':
            return '(OpScal %s)' % C.q(spec[1])
        if kind == 'tens':
            return '(OpTens %s %d)' % (ts_term(spec[1], self.tags), spec[2])
        return '(OpDisc %s %d)' % (ds_term(spec[1], self.tags), spec[2])

    def axis_term(self):
        a = self.axis
        if a == 'absent':
            return 'AxAbsent'
        if a is None:
            return 'AxNone'
        if isinstance(a, (int, np.integer)):
            return '(AxInt %s%%Z)' % C.z(a)
        return '(AxTuple %s%%Z)' % C.zs(a)

    def term(self):
        self.tags = Tags()
        name = self.ufunc.__name__
        # self = first ODL element among inputs, then outputs (NumPy's dispatch order)
        slf = None
        for s in list(self.ins) + list(self.outs or []):
            if s is not None and s[0] in ('tens', 'disc'):
                slf = s
                break
        assert slf is not None
        odl_t, odl_s = self.observe(raw=False)
        raw_t, raw_s = self.observe(raw=True)
        if name in BOPS:
            uf = '(UB %s)' % BOPS[name]
        elif name in UOPS:
            uf = '(UU %s)' % UOPS[name]
        else:
            uf = 'UOracle'
        # result dtypes (and, for unmodelled ufuncs, the results themselves) from NumPy on raw arrays
        rdt, oracle = self._oracle(uf == 'UOracle')
        kw = '(mkKw %s %s %s %s)' % (self.axis_term(), C.b(bool(self.keepdims)),
                                     'None' if self.dtype is None else '(Some %s)' % dt_term(self.dtype),
                                     C.zs(self.idx or []) + '%Z')
        outs = '[]' if self.outs is None else C.lst(
            ['None' if s is None else '(Some %s)' % self.op_term(s) for s in self.outs])
        t = ('(mkCase %s %d %s %s %s %s %s %s %s %s %s %s)'
             % (uf, self.ufunc.nout, C.lst(rdt), oracle, C.lst([narr_term(b) for b in self.bufs]),
                self.op_term(slf), METH[self.method], C.lst([self.op_term(s) for s in self.ins]), kw, outs,
                odl_t, raw_t))
        return t, odl_s, raw_s

    def _oracle(self, want_values):
        """NumPy on raw copies WITHOUT out: result dtypes (+ values for the oracle ufuncs)"""
        bufs = [b.copy() for b in self.bufs]
        ins, _ = self._objs(bufs, True)
        try:
            with np.errstate(all='ignore'):
                r = self._invoke(ins, None)
        except Exception as e:   # noqa
            return ['DF64'], '(Err %s)' % classify(e)
        if self.method == 'at':
            r = ins[0]
        rets = list(r) if isinstance(r, tuple) else [r]
        rdt = [dt_term(np.asarray(x).dtype) for x in rets]
        if not want_values:
            return rdt, '(Err EUnmodelled)'
        return rdt, '(Ok %s)' % C.lst([narr_term(np.asarray(x)) for x in rets])


# ------------------------------------------------------------- generators
def ivals(rng, shape, lo=-3, hi=3, dtype=float):
    n = int(np.prod(shape))
    return np.array([rng.randint(lo, hi) for _ in range(n)], dtype=dtype).reshape(shape)


def rand_shape(rng, ndim=None, lo=1, hi=4):
    ndim = ndim or rng.choice([1, 1, 2, 2, 3])
    return tuple(rng.randint(lo, hi if ndim < 3 else 3) for _ in range(ndim))


def tensor_space_for(rng, shape, dtype='float64'):
    import odl
    kind = np.dtype(dtype).kind
    if kind in 'fc':
        c = rng.choice(['default', 'default', 'const', 'array', 'exp1'])
        if c == 'const':
            return odl.tensor_space(shape, dtype=dtype, weighting=float(rng.choice([2.0, 0.5, 3.0])))
        if c == 'array' and int(np.prod(shape)) > 0:
            rdt = {'float32': 'float32', 'complex64': 'float32'}.get(np.dtype(dtype).name, 'float64')
            return odl.tensor_space(shape, dtype=dtype, weighting=ivals(rng, shape, 1, 4, dtype=rdt))
        if c == 'exp1':
            return odl.tensor_space(shape, dtype=dtype, exponent=rng.choice([1.0, float('inf')]))
    return odl.tensor_space(shape, dtype=dtype)


def discr_space_for(rng, shape, dtype='float64'):
    import odl
    cells = [rng.choice([1.0, 0.5, 2.0, 0.25]) for _ in shape]
    mins = [float(rng.choice([0, -1, 2])) for _ in shape]
    maxs = [m + n * c for m, n, c in zip(mins, shape, cells)]
    kw = {}
    if np.dtype(dtype).kind in 'fc' and rng.random() < 0.3:
        kw['weighting'] = float(rng.choice([3.0, 0.5]))
    return odl.uniform_discr(mins, maxs, shape, dtype=dtype, **kw)


def mk_elem(rng, kind, shape, bufs, dtype='float64', lo=-3, hi=3):
    """new buffer + element spec of the requested kind over it"""
    arr = ivals(rng, shape, lo, hi, dtype=np.dtype(dtype))
    bufs.append(arr)
    i = len(bufs) - 1
    if kind == 'arr':
        return ('arr', i)
    if kind == 'tens':
        return ('tens', tensor_space_for(rng, shape, dtype), i)
    return ('disc', discr_space_for(rng, shape, dtype), i)


def respace(rng, spec, bufs, kind, dtype=None, shape=None):
    """an out container of the given kind (fresh buffer) matching the spec's shape"""
    shape = tuple(shape if shape is not None else bufs[spec[-1]].shape)
    dtype = dtype or bufs[spec[-1]].dtype
    arr = ivals(rng, shape, 7, 9, dtype=np.dtype(dtype))
    bufs.append(arr)
    i = len(bufs) - 1
    if kind == 'arr':
        return ('arr', i)
    if kind == 'tens':
        return ('tens', tensor_space_for(rng, shape, dtype), i)
    return ('disc', discr_space_for(rng, shape, dtype), i)


def second_operand(rng, x, bufs, allow_elem=True):
    """the other operand of a binary call: same-kind element, array (same shape or broadcastable), scalar"""
    shape = bufs[x[-1]].shape
    c = rng.choice(['elem', 'elem', 'arr', 'arr', 'row', 'scal', 'self'] if allow_elem else ['arr', 'row', 'scal'])
    if c == 'self':
        return x, c
    if c == 'elem':
        arr = ivals(rng, shape, dtype=bufs[x[-1]].dtype)
        bufs.append(arr)
        return (x[0], x[1], len(bufs) - 1), c
    if c == 'arr':
        arr = ivals(rng, shape)
        bufs.append(arr)
        return ('arr', len(bufs) - 1), c
    if c == 'row':
        arr = ivals(rng, shape[-1:])
        bufs.append(arr)
        return ('arr', len(bufs) - 1), c
    return ('scal', float(rng.randint(-3, 3))), c


def gen_calls(rng, tier):
    """yield (Call, description, key)"""
    reps = 1 if tier == 'quick' else 4
    ORACLE1 = [np.sin, np.exp, np.floor, np.isfinite, np.sqrt, np.logical_not, np.signbit]
    ORACLE2 = [np.true_divide, np.less, np.arctan2, np.logical_and, np.hypot, np.copysign, np.equal]
    ORACLE12 = [np.modf, np.frexp]
    ORACLE22 = [np.divmod]
    kinds = ['tens', 'disc']
    dtypes = ['float64', 'float64', 'float64', 'float32', 'int64', 'complex128']
    for _ in range(reps):
        # ---- __call__, one output
        for kind in kinds:
            for uname in list(UOPS) + list(BOPS) + ['oracle1', 'oracle2']:
                for outk in ['none', 'none1', 'same', 'arr', 'tens', 'alias', 'f32', 'dtkw', 'dtkw_out', 'grow']:
                    dtype = rng.choice(dtypes)
                    if uname in ('oracle1', 'oracle2') or outk in ('f32', 'dtkw', 'dtkw_out'):
                        dtype = 'float64'
                    if np.dtype(dtype).kind == 'c' and uname in ('sign', 'maximum', 'minimum'):
                        dtype = 'float64'
                    bufs = []
                    shape = rand_shape(rng)
                    x = mk_elem(rng, kind, shape, bufs, dtype)
                    uf = getattr(np, uname) if not uname.startswith('oracle') else \
                        rng.choice(ORACLE1 if uname == 'oracle1' else ORACLE2)
                    ins = [x]
                    sec = ''
                    if uf.nin == 2:
                        y, sec = second_operand(rng, x, bufs)
                        ins = [x, y]
                        if rng.random() < 0.4 and y[0] != 'scal':
                            ins = [y, x]
                            sec += '-swapped'
                    if uname.startswith('oracle') and uf in (np.sqrt,):
                        bufs[x[-1]][...] = np.abs(bufs[x[-1]])
                    outs = None
                    kw = {}
                    if outk == 'none1':
                        outs = [None]
                    elif outk == 'same':
                        outs = [respace(rng, x, bufs, kind)]
                    elif outk == 'arr':
                        outs = [respace(rng, x, bufs, 'arr')]
                    elif outk == 'tens':
                        outs = [respace(rng, x, bufs, 'tens')]
                    elif outk == 'alias':
                        outs = [x]
                    elif outk == 'f32':
                        if uname.startswith('oracle'):
                            continue
                        outs = [respace(rng, x, bufs, rng.choice([kind, 'arr']), dtype='float32')]
                    elif outk == 'dtkw':
                        if uname.startswith('oracle'):
                            continue
                        kw['dtype'] = rng.choice(['float32', 'float64'])
                    elif outk == 'dtkw_out':
                        if uname.startswith('oracle'):
                            continue
                        kw['dtype'] = rng.choice(['float32', 'float64'])
                        outs = [respace(rng, x, bufs, rng.choice([kind, 'arr', 'tens']),
                                        dtype=rng.choice(['float32', 'float64']))]
                    elif outk == 'grow':
                        if uf.nin != 2:
                            continue
                        # the other operand has one more leading axis: NumPy broadcasts the result up
                        arr = ivals(rng, (2,) + tuple(shape))
                        bufs.append(arr)
                        ins = [x, ('arr', len(bufs) - 1)] if rng.random() < 0.5 else [('arr', len(bufs) - 1), x]
                    if uname.startswith('oracle') and outs is not None:
                        # the oracle table holds the result before the cast into out: keep dtypes equal
                        rd = uf(*[np.ones(1) for _ in range(uf.nin)]).dtype
                        outs = [None if o is None else
                                (o if bufs[o[-1]].dtype == rd else respace(rng, x, bufs, o[0], dtype=rd))
                                for o in outs]
                    c = Call(uf, '__call__', bufs, ins, outs, **kw)
                    c.out_bare = rng.random() < 0.5
                    yield c, {'kind': kind, 'ufunc': uf.__name__, 'method': '__call__', 'out': outk,
                              'shape': shape, 'dtype': dtype, 'second': sec}, \
                        (kind, uf.__name__, 'call', outk, dtype, sec, len(shape))
            # ---- __call__, two outputs
            for uf in ORACLE12 + ORACLE22:
                for outk in ['none', 'both', 'first', 'second', 'arrs']:
                    bufs = []
                    shape = rand_shape(rng)
                    x = mk_elem(rng, kind, shape, bufs, 'float64')
                    ins = [x]
                    if uf.nin == 2:
                        arr = ivals(rng, shape, 1, 3)
                        bufs.append(arr)
                        ins = [x, ('arr', len(bufs) - 1)]
                    rdts = [np.asarray(t).dtype for t in uf(*[np.ones(1) for _ in range(uf.nin)])]
                    o1 = respace(rng, x, bufs, kind if outk != 'arrs' else 'arr', dtype=rdts[0])
                    o2 = respace(rng, x, bufs, kind if outk != 'arrs' else 'arr', dtype=rdts[1])
                    outs = {'none': None, 'both': [o1, o2], 'first': [o1, None], 'second': [None, o2],
                            'arrs': [o1, o2]}[outk]
                    c = Call(uf, '__call__', bufs, ins, outs)
                    yield c, {'kind': kind, 'ufunc': uf.__name__, 'method': '__call__', 'out': outk,
                              'shape': shape}, (kind, uf.__name__, 'call2', outk, len(shape))
            # ---- reduce
            for bname in BOPS:
                for axk in ['absent', 'none', 'int', 'neg', 'tuple', 'tuple-all', 'empty-tuple', 'oob', 'dup']:
                    for outk in ['none', 'same', 'arr', 'keepdims', 'dtkw']:
                        dtype = rng.choice(['float64', 'float64', 'int64', 'float32'])
                        if outk == 'dtkw':
                            dtype = 'float64'
                        bufs = []
                        shape = rand_shape(rng)
                        nd = len(shape)
                        x = mk_elem(rng, kind, shape, bufs, dtype, -2, 2)
                        axis = {'absent': 'absent', 'none': None, 'int': rng.randrange(nd),
                                'neg': -rng.randint(1, nd),
                                'tuple': tuple(sorted(rng.sample(range(nd), rng.randint(1, nd)))),
                                'tuple-all': tuple(range(nd)), 'empty-tuple': (),
                                'oob': nd, 'dup': (0, 0)}[axk]
                        kw = {}
                        outs = None
                        if outk == 'keepdims':
                            kw['keepdims'] = True
                        if outk == 'dtkw':
                            kw['dtype'] = rng.choice(['float32', 'float64'])
                        if outk in ('same', 'arr'):
                            # shape of the raw result
                            try:
                                r = getattr(np, bname).reduce(bufs[x[-1]], **({} if axis == 'absent' else {'axis': axis}))
                            except Exception:
                                continue
                            if np.ndim(r) == 0:
                                continue
                            okind = kind if outk == 'same' else 'arr'
                            if okind == 'disc':
                                okind = rng.choice(['disc', 'tens'])
                            outs = [respace(rng, x, bufs, okind, shape=np.shape(r))]
                        c = Call(getattr(np, bname), 'reduce', bufs, [x], outs, axis=axis, **kw)
                        yield c, {'kind': kind, 'ufunc': bname, 'method': 'reduce', 'axis': axk, 'out': outk,
                                  'shape': shape, 'dtype': dtype}, (kind, bname, 'reduce', axk, outk, nd, dtype)
            # ---- accumulate
            for bname in BOPS:
                for axk in ['absent', 'int', 'neg', 'none', 'tuple1', 'oob']:
                    for outk in ['none', 'same', 'arr', 'alias', 'dtkw']:
                        bufs = []
                        shape = rand_shape(rng)
                        nd = len(shape)
                        x = mk_elem(rng, kind, shape, bufs, rng.choice(['float64', 'int64']), -2, 2)
                        axis = {'absent': 'absent', 'int': rng.randrange(nd), 'neg': -rng.randint(1, nd),
                                'none': None, 'tuple1': (rng.randrange(nd),), 'oob': nd}[axk]
                        outs = {'none': None, 'alias': [x]}.get(outk)
                        kw = {}
                        if outk == 'same':
                            outs = [respace(rng, x, bufs, kind)]
                        elif outk == 'arr':
                            outs = [respace(rng, x, bufs, 'arr')]
                        elif outk == 'dtkw':
                            kw['dtype'] = 'float64'
                        c = Call(getattr(np, bname), 'accumulate', bufs, [x], outs, axis=axis, **kw)
                        yield c, {'kind': kind, 'ufunc': bname, 'method': 'accumulate', 'axis': axk, 'out': outk,
                                  'shape': shape}, (kind, bname, 'accumulate', axk, outk, nd)
            # ---- outer
            for bname in BOPS:
                for sec in ['elem', 'arr', 'arr-first', 'scal', 'self']:
                    for outk in ['none', 'same', 'arr']:
                        bufs = []
                        shape = rand_shape(rng, rng.choice([1, 1, 2]))
                        shape2 = rand_shape(rng, rng.choice([1, 1, 2]))
                        x = mk_elem(rng, kind, shape, bufs, 'float64')
                        if sec == 'elem':
                            ins = [x, mk_elem(rng, kind, shape2, bufs, 'float64')]
                        elif sec == 'arr':
                            ins = [x, mk_elem(rng, 'arr', shape2, bufs)]
                        elif sec == 'arr-first':
                            ins = [mk_elem(rng, 'arr', shape2, bufs), x]
                        elif sec == 'scal':
                            ins = [x, ('scal', 2.0)]
                        else:
                            ins = [x, x]
                        rshape = tuple(np.shape(np.add.outer(*[np.zeros(bufs[s[-1]].shape) if s[0] != 'scal' else 0.0
                                                              for s in ins])))
                        outs = None
                        if outk != 'none':
                            outs = [respace(rng, x, bufs, kind if outk == 'same' else 'arr', shape=rshape)]
                        c = Call(getattr(np, bname), 'outer', bufs, ins, outs)
                        yield c, {'kind': kind, 'ufunc': bname, 'method': 'outer', 'second': sec, 'out': outk,
                                  'shapes': [shape, shape2]}, (kind, bname, 'outer', sec, outk, len(shape), len(shape2))
            # ---- at
            for uname in list(BOPS) + list(UOPS):
                for ik in ['distinct', 'repeated', 'negative', 'oob', 'empty']:
                    for vk in ['scal', 'arr', 'elem']:
                        uf = getattr(np, uname)
                        if uf.nin == 1 and vk != 'scal':
                            continue
                        bufs = []
                        shape = rand_shape(rng, rng.choice([1, 1, 2]), lo=2)
                        n = shape[0]
                        x = mk_elem(rng, kind, shape, bufs, 'float64')
                        idx = {'distinct': rng.sample(range(n), rng.randint(1, n)),
                               'repeated': [rng.randrange(n) for _ in range(rng.randint(2, 5))],
                               'negative': [-rng.randint(1, n) for _ in range(rng.randint(1, 3))],
                               'oob': [0, n], 'empty': []}[ik]
                        ins = [x]
                        if uf.nin == 2:
                            if vk == 'scal':
                                ins.append(('scal', float(rng.randint(-3, 3))))
                            else:
                                vshape = (len(idx),) + tuple(shape[1:])
                                if vk == 'arr' or kind == 'disc' or len(idx) == 0:
                                    ins.append(mk_elem(rng, 'arr', vshape, bufs))
                                else:
                                    ins.append(mk_elem(rng, 'tens', vshape, bufs))
                        c = Call(uf, 'at', bufs, ins, None, idx=idx)
                        yield c, {'kind': kind, 'ufunc': uname, 'method': 'at', 'indices': idx, 'values': vk,
                                  'shape': shape}, (kind, uname, 'at', ik, vk, len(shape), tuple(idx))
            # ---- reduceat
            for bname in BOPS:
                for ik in ['increasing', 'any', 'oob', 'empty', 'single']:
                    for axk in ['absent', 'int', 'neg']:
                        for outk in ['none', 'same']:
                            bufs = []
                            shape = rand_shape(rng, lo=2)
                            nd = len(shape)
                            x = mk_elem(rng, kind, shape, bufs, 'float64', -2, 2)
                            axis = {'absent': 'absent', 'int': rng.randrange(nd), 'neg': -rng.randint(1, nd)}[axk]
                            n = shape[0 if axis == 'absent' else axis]
                            idx = {'increasing': sorted(rng.sample(range(n), rng.randint(1, n))),
                                   'any': [rng.randrange(n) for _ in range(rng.randint(1, 4))],
                                   'oob': [0, n], 'empty': [], 'single': [0]}[ik]
                            outs = None
                            if outk == 'same':
                                rs = list(shape)
                                rs[0 if axis == 'absent' else axis] = len(idx)
                                outs = [respace(rng, x, bufs, kind if kind == 'tens' else 'arr', shape=rs)]
                            c = Call(getattr(np, bname), 'reduceat', bufs, [x], outs, axis=axis, idx=idx)
                            yield c, {'kind': kind, 'ufunc': bname, 'method': 'reduceat', 'indices': idx,
                                      'axis': axk, 'out': outk, 'shape': shape}, \
                                (kind, bname, 'reduceat', ik, axk, outk, nd)


RULE = ('ufunc x method x {NumpyTensor, DiscretizedSpaceElement} x second operand {element, same object, ndarray, '
        'broadcast row, scalar, either order} x out {absent, (None,), element, tensor, ndarray, aliased to the input, '
        'float32, with dtype=} x axis {absent, None, int, negative, tuple, all, (), out of range, duplicate} x keepdims '
        'x at/reduceat index lists {distinct, repeated, negative, out of range, empty}; shapes 1-3 d with extents 1..4, '
        'small-integer data (exact); weightings default/const/array, exponents 2/1/inf; modelled ufuncs add, subtract, '
        'multiply, maximum, minimum, negative, absolute, square, sign, positive computed in Coq, others (sin, exp, '
        'floor, isfinite, sqrt, true_divide, less, arctan2, modf, frexp, divmod ...) with NumPy\'s raw result as '
        'oracle.  Every case compares ODL AND raw NumPy with the model.  Non-trivial = the call does not fail on '
        'the raw arrays; distinct by (kind, ufunc, method, out kind, axis kind, dtype, rank, operand kinds).')
ASSUMPTIONS = [
    'exact arithmetic on small integers (float rounding, NaN, inf, signed zero, overflow out of scope)',
    'NumPy type resolution (result dtype) is taken from NumPy itself per case, not modelled',
    'complex dtypes only with real data; bool/unsigned/structured dtypes not in the correspondence',
    'arrays are writeable, buffers are whole arrays (no partial views / strides)',
    'mixing NumpyTensor with DiscretizedSpaceElement operands, the where= keyword and F-order are not modelled',
]
TRUSTED = ['harness/c17.py observation of ODL objects (type, space, np.shares_memory, identity with out)',
           'C17/Arr.v exact semantics of the modelled ufunc methods (validated against NumPy by the raw half of each case)']


def correspondence(rng, tier):
    cs = C.CaseSet('ufunc', ['Lib.Axis', 'C17.Arr', 'C17.Model', 'C17.Corr'], 'check', 'ucase')
    for call, desc, key in gen_calls(rng, tier):
        try:
            t, odl_s, raw_s = call.term()
        except Skip:
            continue
        desc = dict(desc)
        desc['odl'] = odl_s
        desc['raw'] = raw_s
        cs.add(t, desc, None if 'err' in raw_s else key)
    return [cs]


def probes(rng, tier):
    return []


LEVEL_TEXT = 'partial'
LEVEL_NOTE = ''
TECHNIQUE = 'Coq proof over an abstract NumPy + in-Coq differential correspondence'
