"""C17 NumPy ufuncs on ODL elements: correspondence + probes.

Correspondence: one case = a store of array buffers + one ufunc-method call with
ODL elements / arrays / scalars as operands and out arguments.  The harness runs
(1) the call on the ODL objects and (2) the same call on copies of the
underlying raw arrays (same aliasing structure), records error class / returned
container kinds / spaces / data / memory sharing / final contents of every
buffer, and Coq (C17/Corr.v) runs the model of the wrapper layer with the exact
array semantics as NumPy and compares both.
"""
import itertools

import numpy as np

from . import common as C

PID = 'C17'
SHARD_SIZE = 150

DTN = {'bool': 'DBool', 'int32': 'DI32', 'int64': 'DI64', 'float32': 'DF32', 'float64': 'DF64',
       'complex64': 'DC64', 'complex128': 'DC128'}
BOPS = {'add': 'BAdd', 'subtract': 'BSub', 'multiply': 'BMul', 'maximum': 'BMax', 'minimum': 'BMin',
        'true_divide': 'BDiv', 'fmax': 'BFmax', 'fmin': 'BFmin', 'less': 'BLess', 'less_equal': 'BLessEq',
        'greater': 'BGreater', 'greater_equal': 'BGreaterEq', 'equal': 'BEq', 'not_equal': 'BNe',
        'logical_and': 'BLogAnd', 'logical_or': 'BLogOr', 'logical_xor': 'BLogXor'}
UOPS = {'negative': 'UNeg', 'absolute': 'UAbs', 'square': 'USquare', 'sign': 'USign', 'positive': 'UPos',
        'reciprocal': 'UReciprocal', 'logical_not': 'ULogNot'}
BOPS_UOPS_EXTRA = set(list(BOPS) + list(UOPS)) - {'add', 'subtract', 'multiply', 'maximum', 'minimum', 'negative',
                                                    'absolute', 'square', 'sign', 'positive'}
# ufuncs whose operands must avoid zero (exact division)
NONZERO = ('true_divide', 'reciprocal')
# comparisons have no reduce/accumulate/reduceat loop on numeric arrays (TypeError, whose precedence over
# axis errors depends on NumPy internals): only __call__, outer and at are generated for them
CMP = ('less', 'less_equal', 'greater', 'greater_equal', 'equal', 'not_equal')
METH = {'__call__': 'MCall', 'reduce': 'MReduce', 'accumulate': 'MAccumulate', 'outer': 'MOuter',
        'at': 'MAt', 'reduceat': 'MReduceat'}


def translate():
    from translate import ufunc_dispatch as T
    return {'Gen/UfuncDispatch.v': T.translate()}


class NotImplementedReturn(TypeError):
    """__array_ufunc__ returned NotImplemented (NumPy turns that into a TypeError)"""


class Skip(Exception):
    """case outside what the checker can express (non-finite values, unknown dtype ...)"""


# --------------------------------------------------------------- descriptors
def dt_term(dtype):
    name = np.dtype(dtype).name
    if name not in DTN:
        raise Skip('dtype ' + name)
    return DTN[name]


def nats(xs):
    return C.nats(xs) + '%nat'


class Tags(object):
    """tags of array weightings by content"""

    def __init__(self):
        self.t = {}

    def tag(self, arr):
        key = (arr.shape, arr.tobytes())
        if key not in self.t:
            self.t[key] = len(self.t) + 1
        return self.t[key]


def ts_term(sp, tags):
    """Gallina tspace of a NumpyTensorSpace"""
    from odl.space.weighting import ConstWeighting, ArrayWeighting
    w = sp.weighting
    if isinstance(w, ConstWeighting):
        wt = '(WConst %s)' % C.q(float(w.const))
    elif isinstance(w, ArrayWeighting):
        wt = '(WArr %d %s)' % (tags.tag(np.asarray(w.array)), dt_term(np.asarray(w.array).dtype))
    else:
        raise Skip('weighting')
    ex = float(sp.exponent)
    ex = 0.0 if ex == float('inf') else ex
    return '(mkTS %s %s %s %s)' % (nats(sp.shape), dt_term(sp.dtype), wt, C.q(ex))


def label_code(lbl):
    add = 0
    while True:
        if lbl.endswith(' (1)'):
            add += 100
            lbl = lbl[:-4]
        elif lbl.endswith(' (2)'):
            add += 200
            lbl = lbl[:-4]
        else:
            break
    base = {'$x$': 1, '$y$': 2, '$z$': 3}.get(lbl)
    if base is None:
        if lbl.startswith('$x_') and lbl.endswith('$'):
            base = 10 + int(lbl[3:-1])
        else:
            raise Skip('label ' + lbl)
    return base + add


def axes_term(dsp):
    part = dsp.partition
    out = []
    for i in range(dsp.ndim):
        cell = float(part.cell_sides[i]) if part.is_uniform else 0.0
        out.append('(mkAx %s %s %d %s %d)' % (C.q(float(part.min_pt[i])), C.q(float(part.max_pt[i])),
                                             part.shape[i], C.q(cell), label_code(dsp.axis_labels[i])))
    return C.lst(out)


def ds_term(dsp, tags):
    return '(mkDS %s %s)' % (axes_term(dsp), ts_term(dsp.tspace, tags))


def data_list(arr):
    a = np.asarray(arr)
    if a.dtype.kind == 'c':
        if np.any(a.imag != 0):
            raise Skip('complex data')
        a = a.real
    if a.dtype.kind == 'b':
        a = a.astype(int)
    flat = a.ravel(order='C').tolist()
    for v in flat:
        if isinstance(v, float) and (v != v or v in (float('inf'), float('-inf'))):
            raise Skip('non-finite')
    return flat


def narr_term(arr):
    a = np.asarray(arr)
    return '(mkArr %s %s %s)' % (dt_term(a.dtype), nats(a.shape), C.qs(data_list(a)))


def classify(e):
    axis_error = getattr(np, 'exceptions', np).AxisError if hasattr(np, 'exceptions') else np.AxisError
    if isinstance(e, axis_error):
        return 'EAxis'
    if isinstance(e, NotImplementedReturn):
        return 'ENotImpl'
    if isinstance(e, RecursionError):
        return 'ERuntime'
    if isinstance(e, TypeError):
        return 'EType'
    if isinstance(e, IndexError):
        return 'EIndex'
    if isinstance(e, ValueError):
        return 'EValue'
    if isinstance(e, (NotImplementedError, RuntimeError)):
        return 'ERuntime'
    return 'ERuntime'


# ----------------------------------------------------------------- variants
def measure_variants():
    """Which behaviour does the current source exhibit on the replay inputs of the recorded findings?
    (True = repaired).  Passed into every case as the model's variant switches."""
    import odl

    def works(f, check):
        try:
            return bool(check(f()))
        except Exception:
            return False
    grow = works(lambda: np.add(odl.rn(3).one(), np.ones((2, 3))), lambda r: r.shape == (2, 3))
    neg = works(lambda: np.add.reduce(odl.uniform_discr([0, 0], [1, 3], (2, 3)).one(), axis=-1),
                lambda r: r.shape == (2,))
    x = odl.uniform_discr(0, 1, 3).one()
    boolouter = works(lambda: np.less.outer(x, x), lambda r: r.shape == (3, 3))
    return {'grow': grow, 'negaxis': neg, 'boolouter': boolouter}


VARIANTS = None


def measure_variants_cached():
    global VARIANTS
    if VARIANTS is None:
        VARIANTS = measure_variants()
    return VARIANTS


def variant_term():
    global VARIANTS
    if VARIANTS is None:
        VARIANTS = measure_variants()
    v = VARIANTS
    return '(mkVar %s)' % C.b(v['grow'])


# ------------------------------------------------------------------ a call
class Call(object):
    """One ufunc-method call over a store.

    bufs  : list of ndarrays (the buffers, id = position)
    ins   : operand specs  ('arr', id) | ('tens', space, id) | ('disc', space, id) | ('scal', v)
    outs  : None (no out kwarg) or list of operand specs / None entries
    The same spec object used twice denotes the same Python object (out is x).
    """

    def __init__(self, ufunc, method, bufs, ins, outs=None, axis='absent', keepdims=None, dtype=None,
                 idx=None):
        self.ufunc, self.method, self.bufs, self.ins, self.outs = ufunc, method, bufs, ins, outs
        self.axis, self.keepdims, self.dtype, self.idx = axis, keepdims, dtype, idx

    # -- build live objects over a given list of buffers
    def _objs(self, bufs, raw):
        cache = {}

        def mk(spec):
            if spec is None:
                return None
            if id(spec) in cache:
                return cache[id(spec)]
            kind = spec[0]
            if kind == 'scal':
                o = spec[1]
            elif kind == 'arr' or raw:
                o = bufs[spec[-1]]
            else:
                # no assertion on sharing here: an element that does not wrap its buffer shows up
                # as a difference in the observed final contents / memory sharing
                o = spec[1].element(bufs[spec[2]])
            cache[id(spec)] = o
            return o
        ins = [mk(s) for s in self.ins]
        outs = None if self.outs is None else [mk(s) for s in self.outs]
        return ins, outs

    def _invoke(self, ins, outs):
        kw = {}
        if self.axis != 'absent':
            kw['axis'] = self.axis
        if self.keepdims is not None:
            kw['keepdims'] = self.keepdims
        if self.dtype is not None:
            kw['dtype'] = self.dtype
        if outs is not None:
            if len(outs) == 1 and self.out_bare and outs[0] is not None:
                kw['out'] = outs[0]
            else:
                kw['out'] = tuple(outs)
        f = self.ufunc if self.method == '__call__' else getattr(self.ufunc, self.method)
        if self.method in ('at', 'reduceat'):
            args = [ins[0], list(self.idx)] + list(ins[1:])
        else:
            args = list(ins)
        if self.direct and not self._raw:
            slf = [o for o in list(ins) + list(outs or []) if hasattr(o, 'space')][0]
            if outs is not None:
                kw['out'] = tuple(outs)
            r = slf.__array_ufunc__(self.ufunc, self.method, *args, **kw)
            if r is NotImplemented:
                raise NotImplementedReturn()
            return r
        return f(*args, **kw)

    out_bare = True
    direct = False      # call self.__array_ufunc__(ufunc, method, *inputs, out=tuple) directly

    def observe(self, raw):
        """run on fresh copies of the buffers; returns (observation term, python summary)"""
        bufs = [relayout(b) for b in self.bufs]
        ins, outs = self._objs(bufs, raw)
        self._raw = raw
        try:
            with np.errstate(all='ignore'):
                r = self._invoke(ins, outs)
        except Exception as e:       # noqa
            k = classify(e)
            return '(OErr %s)' % k, {'err': k}
        rets = list(r) if isinstance(r, tuple) else [r]
        terms = []
        summ = []
        for k, x in enumerate(rets):
            terms.append(self._ret_term(x, bufs, outs, k, summ))
        final = C.lst([C.qs(data_list(b)) for b in bufs])
        return '(OOk %s %s)' % (C.lst(terms), final), {'rets': summ}

    def _ret_term(self, x, bufs, outs, k, summ):
        import odl
        from odl.discr.discr_space import DiscretizedSpaceElement
        from odl.space.npy_tensors import NumpyTensor
        isout = bool(outs is not None and k < len(outs) and outs[k] is not None and x is outs[k])
        space = 'None'
        axes = '[]'
        if x is None:
            summ.append('None')
            return '(mkORet 4 %s None None [] []%%nat DF64 [])' % C.b(isout)
        if isinstance(x, DiscretizedSpaceElement):
            kind, arr = 2, x.asarray()
            space = '(Some %s)' % ts_term(x.space.tspace, self.tags)
            axes = axes_term(x.space)
        elif isinstance(x, NumpyTensor):
            kind, arr = 1, x.asarray()
            space = '(Some %s)' % ts_term(x.space, self.tags)
        elif isinstance(x, np.ndarray):
            kind, arr = 0, x
        elif np.isscalar(x):
            kind, arr = 3, np.asarray(x)
        else:
            raise Skip('return type %s' % type(x))
        buf = 'None'
        if kind != 3:
            for i, b in enumerate(bufs):
                if b.size and np.shares_memory(arr, b):
                    buf = '(Some %d%%nat)' % i
                    break
                if b.size == 0 and arr is b:
                    buf = '(Some %d%%nat)' % i
                    break
        summ.append((kind, isout, buf, tuple(arr.shape), arr.dtype.name))
        return '(mkORet %d %s %s %s %s %s %s %s)' % (kind, C.b(isout), buf, space, axes, nats(arr.shape),
                                                   dt_term(arr.dtype), C.qs(data_list(arr)))

    # -- Gallina
    def op_term(self, spec):
        if spec is None:
            return 'None'
        kind = spec[0]
        if kind == 'arr':
            return '(OpArr %d)' % spec[1]
        if kind == 'scal':
            return '(OpScal %s)' % C.q(spec[1])
        if kind == 'tens':
            return '(OpTens %s %d)' % (ts_term(spec[1], self.tags), spec[2])
        return '(OpDisc %s %d)' % (ds_term(spec[1], self.tags), spec[2])

    def axis_term(self):
        a = self.axis
        if a == 'absent':
            return 'AxAbsent'
        if a is None:
            return 'AxNone'
        if isinstance(a, (int, np.integer)):
            return '(AxInt %s%%Z)' % C.z(a)
        return '(AxTuple %s%%Z)' % C.zs(a)

    def term(self):
        self.tags = Tags()
        name = self.ufunc.__name__
        # self = first ODL element among inputs, then outputs (NumPy's dispatch order)
        slf = None
        for s in list(self.ins) + list(self.outs or []):
            if s is not None and s[0] in ('tens', 'disc'):
                slf = s
                break
        assert slf is not None
        odl_t, odl_s = self.observe(raw=False)
        raw_t, raw_s = self.observe(raw=True)
        if name in BOPS:
            uf = '(UB %s)' % BOPS[name]
        elif name in UOPS:
            uf = '(UU %s)' % UOPS[name]
        else:
            uf = 'UOracle'
        # result dtypes (and, for unmodelled ufuncs, the results themselves) from NumPy on raw arrays
        rdt, oracle = self._oracle(uf == 'UOracle')
        kw = '(mkKw %s %s %s %s)' % (self.axis_term(), C.b(bool(self.keepdims)),
                                     'None' if self.dtype is None else '(Some %s)' % dt_term(self.dtype),
                                     C.zs(self.idx or []) + '%Z')
        outs = '[]' if self.outs is None else C.lst(
            ['None' if s is None else '(Some %s)' % self.op_term(s) for s in self.outs])
        t = ('(mkCase %s %s %s %d %s %s %s %s %s %s %s %s %s %s)'
             % (variant_term(), C.b(self.direct), uf, self.ufunc.nout, C.lst(rdt), oracle, C.lst([narr_term(b) for b in self.bufs]),
                self.op_term(slf), METH[self.method], C.lst([self.op_term(s) for s in self.ins]), kw, outs,
                odl_t, raw_t))
        return t, odl_s, raw_s

    def _oracle(self, want_values):
        """NumPy on raw copies WITHOUT out: result dtypes (+ values for the oracle ufuncs)"""
        bufs = [relayout(b) for b in self.bufs]
        ins, _ = self._objs(bufs, True)
        self._raw = True
        try:
            with np.errstate(all='ignore'):
                r = self._invoke(ins, None)
        except Exception as e:   # noqa
            return ['DF64'], '(Err %s)' % classify(e)
        if self.method == 'at':
            r = ins[0]
        rets = list(r) if isinstance(r, tuple) else [r]
        rdt = [dt_term(np.asarray(x).dtype) for x in rets]
        if not want_values:
            return rdt, '(Err EUnmodelled)'
        return rdt, '(Ok %s)' % C.lst([narr_term(np.asarray(x)) for x in rets])


# ------------------------------------------------------------- generators
def ivals(rng, shape, lo=-3, hi=3, dtype=float):
    n = int(np.prod(shape))
    return np.array([rng.randint(lo, hi) for _ in range(n)], dtype=dtype).reshape(shape)


def lay_arr(rng, arr):
    """the same contents in a random memory layout (half of the time plain C order)"""
    if arr.size == 0 or arr.ndim == 0 or rng.random() < 0.5:
        return arr
    return make_layout(arr, rng.choice(['F', 'T', 'S', 'N']))


def rand_shape(rng, ndim=None, lo=1, hi=4):
    ndim = ndim or rng.choice([1, 1, 2, 2, 3])
    return tuple(rng.randint(lo, hi if ndim < 3 else 3) for _ in range(ndim))


def tensor_space_for(rng, shape, dtype='float64'):
    import odl
    kind = np.dtype(dtype).kind
    if kind in 'fc':
        c = rng.choice(['default', 'default', 'const', 'array', 'exp1'])
        if c == 'const':
            return odl.tensor_space(shape, dtype=dtype, weighting=float(rng.choice([2.0, 0.5, 3.0])))
        if c == 'array' and int(np.prod(shape)) > 0:
            rdt = {'float32': 'float32', 'complex64': 'float32'}.get(np.dtype(dtype).name, 'float64')
            return odl.tensor_space(shape, dtype=dtype, weighting=ivals(rng, shape, 1, 4, dtype=rdt))
        if c == 'exp1':
            return odl.tensor_space(shape, dtype=dtype, exponent=rng.choice([1.0, float('inf')]))
    return odl.tensor_space(shape, dtype=dtype)


def discr_space_for(rng, shape, dtype='float64'):
    import odl
    cells = [rng.choice([1.0, 0.5, 2.0, 0.25]) for _ in shape]
    mins = [float(rng.choice([0, -1, 2])) for _ in shape]
    maxs = [m + n * c for m, n, c in zip(mins, shape, cells)]
    kw = {}
    if np.dtype(dtype).kind in 'fc' and rng.random() < 0.3:
        kw['weighting'] = float(rng.choice([3.0, 0.5]))
    elif np.dtype(dtype).kind in 'fc' and rng.random() < 0.15:
        rdt = {'float32': 'float32', 'complex64': 'float32'}.get(np.dtype(dtype).name, 'float64')
        kw['weighting'] = ivals(rng, shape, 1, 4, dtype=rdt)
    return odl.uniform_discr(mins, maxs, shape, dtype=dtype, **kw)


def mk_elem(rng, kind, shape, bufs, dtype='float64', lo=-3, hi=3):
    """new buffer + element spec of the requested kind over it"""
    arr = lay_arr(rng, ivals(rng, shape, lo, hi, dtype=np.dtype(dtype)))
    bufs.append(arr)
    i = len(bufs) - 1
    if kind == 'arr':
        return ('arr', i)
    if kind == 'tens':
        return ('tens', tensor_space_for(rng, shape, dtype), i)
    return ('disc', discr_space_for(rng, shape, dtype), i)


def respace(rng, spec, bufs, kind, dtype=None, shape=None):
    """an out container of the given kind (fresh buffer) matching the spec's shape"""
    shape = tuple(shape if shape is not None else bufs[spec[-1]].shape)
    dtype = dtype or bufs[spec[-1]].dtype
    arr = lay_arr(rng, ivals(rng, shape, 7, 9, dtype=np.dtype(dtype)))
    bufs.append(arr)
    i = len(bufs) - 1
    if kind == 'arr':
        return ('arr', i)
    if kind == 'tens':
        return ('tens', tensor_space_for(rng, shape, dtype), i)
    return ('disc', discr_space_for(rng, shape, dtype), i)


def second_operand(rng, x, bufs, allow_elem=True):
    """the other operand of a binary call: same-kind element, array (same shape or broadcastable), scalar"""
    shape = bufs[x[-1]].shape
    c = rng.choice(['elem', 'elem', 'arr', 'arr', 'row', 'scal', 'self'] if allow_elem else ['arr', 'row', 'scal'])
    if c == 'self':
        return x, c
    if c == 'elem':
        arr = lay_arr(rng, ivals(rng, shape, dtype=bufs[x[-1]].dtype))
        bufs.append(arr)
        return (x[0], x[1], len(bufs) - 1), c
    if c == 'arr':
        arr = lay_arr(rng, ivals(rng, shape))
        bufs.append(arr)
        return ('arr', len(bufs) - 1), c
    if c == 'row':
        arr = ivals(rng, shape[-1:])
        bufs.append(arr)
        return ('arr', len(bufs) - 1), c
    return ('scal', float(rng.randint(-3, 3))), c


CORE_OPS = ('add', 'subtract', 'multiply', 'maximum', 'minimum', 'negative', 'absolute', 'square', 'sign', 'positive')


def gen_calls(rng, tier):
    """yield (Call, description, key); in the quick tier the ufuncs beyond CORE_OPS are subsampled"""
    for c, desc, key in _gen_calls(rng, tier):
        if tier == 'quick' and desc.get('ufunc') in BOPS_UOPS_EXTRA and desc.get('method') != '__call__' \
                and rng.random() < 0.6:
            continue
        yield c, desc, key


def _gen_calls(rng, tier):
    reps = 1 if tier == 'quick' else 4
    ORACLE1 = [np.sin, np.exp, np.floor, np.isfinite, np.sqrt, np.logical_not, np.signbit]
    ORACLE2 = [np.true_divide, np.less, np.arctan2, np.logical_and, np.hypot, np.copysign, np.equal]
    ORACLE12 = [np.modf, np.frexp]
    ORACLE22 = [np.divmod]
    kinds = ['tens', 'disc']
    dtypes = ['float64', 'float64', 'float64', 'float32', 'int64', 'complex128']
    for _ in range(reps):
        # ---- __call__, one output
        for kind in kinds:
            for uname in list(UOPS) + list(BOPS) + ['oracle1', 'oracle2']:
                for outk in ['none', 'none1', 'same', 'arr', 'tens', 'alias', 'f32', 'dtkw', 'dtkw_out', 'dtkw_out_int',
                             'out_int', 'grow']:
                    dtype = rng.choice(dtypes)
                    if uname in ('oracle1', 'oracle2') or outk in ('f32', 'dtkw', 'dtkw_out', 'dtkw_out_int', 'out_int'):
                        dtype = 'float64'
                    if np.dtype(dtype).kind == 'c' and uname not in ('negative', 'absolute', 'square', 'positive', 'add',
                                                                       'subtract', 'multiply'):
                        dtype = 'float64'
                    if uname in NONZERO and dtype == 'float32':
                        dtype = 'float64'
                    bufs = []
                    shape = rand_shape(rng)
                    x = mk_elem(rng, kind, shape, bufs, dtype)
                    uf = getattr(np, uname) if not uname.startswith('oracle') else \
                        rng.choice(ORACLE1 if uname == 'oracle1' else ORACLE2)
                    ins = [x]
                    sec = ''
                    if uf.nin == 2:
                        y, sec = second_operand(rng, x, bufs)
                        ins = [x, y]
                        if rng.random() < 0.4 and y[0] != 'scal':
                            ins = [y, x]
                            sec += '-swapped'
                    if uname.startswith('oracle') and uf in (np.sqrt,):
                        bufs[x[-1]][...] = np.abs(bufs[x[-1]])
                    outs = None
                    kw = {}
                    if outk == 'none1':
                        outs = [None]
                    elif outk == 'same':
                        outs = [respace(rng, x, bufs, kind)]
                    elif outk == 'arr':
                        outs = [respace(rng, x, bufs, 'arr')]
                    elif outk == 'tens':
                        outs = [respace(rng, x, bufs, 'tens')]
                    elif outk == 'alias':
                        outs = [x]
                    elif outk == 'f32':
                        if uname.startswith('oracle'):
                            continue
                        outs = [respace(rng, x, bufs, rng.choice([kind, 'arr']), dtype='float32')]
                    elif outk == 'dtkw':
                        if uname.startswith('oracle'):
                            continue
                        kw['dtype'] = rng.choice(['float32', 'float64'])
                    elif outk == 'dtkw_out':
                        if uname.startswith('oracle'):
                            continue
                        kw['dtype'] = rng.choice(['float32', 'float64'])
                        outs = [respace(rng, x, bufs, rng.choice([kind, 'arr', 'tens']),
                                        dtype=rng.choice(['float32', 'float64']))]
                    elif outk in ('dtkw_out_int', 'out_int'):
                        # an integer out container for a float computation: NumPy refuses the
                        # same_kind cast; with dtype= ODL goes through writable_array's copy
                        if uname.startswith('oracle'):
                            continue
                        if outk == 'dtkw_out_int':
                            kw['dtype'] = 'float64'
                        outs = [respace(rng, x, bufs, rng.choice([kind, 'arr']), dtype='int64')]
                    elif outk == 'grow':
                        if uf.nin != 2:
                            continue
                        # the other operand has one more leading axis: NumPy broadcasts the result up
                        arr = ivals(rng, (2,) + tuple(shape))
                        bufs.append(arr)
                        ins = [x, ('arr', len(bufs) - 1)] if rng.random() < 0.5 else [('arr', len(bufs) - 1), x]
                    if uname.startswith('oracle') and outs is not None:
                        # the oracle table holds the result before the cast into out: keep dtypes equal
                        rd = uf(*[np.ones(1) for _ in range(uf.nin)]).dtype
                        outs = [None if o is None else
                                (o if bufs[o[-1]].dtype == rd else respace(rng, x, bufs, o[0], dtype=rd))
                                for o in outs]
                    if uname in NONZERO and (kw.get('dtype') == 'float32' or any(b.dtype == np.float32 for b in bufs)):
                        continue       # rounding of quotients in float32 exceeds the tolerance
                    if 'dtype' in kw and (uname in CMP or uname.startswith('logical')):
                        continue       # dtype=float selects a loop these ufuncs do not have
                    if uname in NONZERO:
                        for b_ in bufs:
                            b_[b_ == 0] = 1
                    c = Call(uf, '__call__', bufs, ins, outs, **kw)
                    c.out_bare = rng.random() < 0.5
                    yield c, {'kind': kind, 'ufunc': uf.__name__, 'method': '__call__', 'out': outk,
                              'shape': shape, 'dtype': dtype, 'second': sec}, \
                        (kind, uf.__name__, 'call', outk, dtype, sec, len(shape))
            # ---- __call__, two outputs
            for uf in ORACLE12 + ORACLE22:
                for outk in ['none', 'both', 'first', 'second', 'arrs']:
                    bufs = []
                    shape = rand_shape(rng)
                    x = mk_elem(rng, kind, shape, bufs, 'float64')
                    ins = [x]
                    if uf.nin == 2:
                        arr = ivals(rng, shape, 1, 3)
                        bufs.append(arr)
                        ins = [x, ('arr', len(bufs) - 1)]
                    rdts = [np.asarray(t).dtype for t in uf(*[np.ones(1) for _ in range(uf.nin)])]
                    o1 = respace(rng, x, bufs, kind if outk != 'arrs' else 'arr', dtype=rdts[0])
                    o2 = respace(rng, x, bufs, kind if outk != 'arrs' else 'arr', dtype=rdts[1])
                    outs = {'none': None, 'both': [o1, o2], 'first': [o1, None], 'second': [None, o2],
                            'arrs': [o1, o2]}[outk]
                    c = Call(uf, '__call__', bufs, ins, outs)
                    yield c, {'kind': kind, 'ufunc': uf.__name__, 'method': '__call__', 'out': outk,
                              'shape': shape}, (kind, uf.__name__, 'call2', outk, len(shape))
            # ---- direct __array_ufunc__ calls: out tuples of the wrong length / invalid out types
            for uf, method, nouts in [(np.negative, '__call__', 2), (np.add, '__call__', 2), (np.modf, '__call__', 1),
                                      (np.modf, '__call__', 3), (np.add, 'reduce', 2), (np.add, 'accumulate', 2),
                                      (np.add, '__call__', 1), (np.negative, '__call__', 1), (np.add, 'reduce', 1)]:
                for bad in (False, True):
                    bufs = []
                    shape = rand_shape(rng)
                    x = mk_elem(rng, kind, shape, bufs, 'float64')
                    ins = [x] if (uf.nin == 1 or method != '__call__') else [x, x]
                    if bad:
                        # an out entry of a type the element does not accept
                        o = ('scal', 1.0) if (kind == 'disc' or rng.random() < 0.5) else \
                            respace(rng, x, bufs, 'disc')
                        outs = [o] + [respace(rng, x, bufs, 'arr') for _ in range(nouts - 1)]
                    else:
                        oshape = shape if method != 'reduce' else shape[1:]
                        outs = [respace(rng, x, bufs, rng.choice([kind, 'arr']), shape=oshape) for _ in range(nouts)]
                        if method == 'reduce' and len(shape) == 1:
                            continue
                    c = Call(uf, method, bufs, ins, outs)
                    c.direct = True
                    yield c, {'kind': kind, 'ufunc': uf.__name__, 'method': method, 'out': 'direct-%d%s' % (
                        nouts, '-badtype' if bad else ''), 'shape': shape}, \
                        (kind, uf.__name__, method, 'direct', nouts, bad, len(shape))
            # ---- reduce
            for bname in BOPS:
                if bname in CMP:
                    continue
                for axk in ['absent', 'none', 'int', 'neg', 'neg-lead1', 'tuple', 'tuple-all', 'empty-tuple', 'oob', 'dup']:
                    for outk in ['none', 'same', 'arr', 'keepdims', 'dtkw']:
                        if outk == 'dtkw' and bname.startswith('logical'):
                            continue
                        dtype = rng.choice(['float64', 'float64', 'int64', 'float32'])
                        if outk == 'dtkw' or bname in NONZERO:
                            dtype = 'float64'
                        bufs = []
                        shape = rand_shape(rng)
                        if axk == 'neg-lead1':
                            shape = (1,) + tuple(rand_shape(rng, rng.choice([1, 2])))
                        nd = len(shape)
                        x = mk_elem(rng, kind, shape, bufs, dtype, -2, 2)
                        axis = {'absent': 'absent', 'none': None, 'int': rng.randrange(nd),
                                'neg': -rng.randint(1, nd), 'neg-lead1': -nd,
                                'tuple': tuple(sorted(rng.sample(range(nd), rng.randint(1, nd)))),
                                'tuple-all': tuple(range(nd)), 'empty-tuple': (),
                                'oob': nd, 'dup': (0, 0)}[axk]
                        kw = {}
                        outs = None
                        if outk == 'keepdims':
                            kw['keepdims'] = True
                        if outk == 'dtkw':
                            kw['dtype'] = rng.choice(['float32', 'float64']) if bname not in NONZERO else 'float64'
                        if outk in ('same', 'arr'):
                            # shape of the raw result
                            try:
                                r = getattr(np, bname).reduce(bufs[x[-1]], **({} if axis == 'absent' else {'axis': axis}))
                            except Exception:
                                continue
                            if np.ndim(r) == 0:
                                continue
                            okind = kind if outk == 'same' else 'arr'
                            if okind == 'disc':
                                okind = rng.choice(['disc', 'tens'])
                            outs = [respace(rng, x, bufs, okind, shape=np.shape(r))]
                        if bname in NONZERO:
                            bufs[x[-1]][bufs[x[-1]] == 0] = 1
                        if outs is not None and bname in ('maximum', 'minimum', 'fmax', 'fmin') \
                                and any(st_ < 0 for st_ in bufs[x[-1]].strides):
                            # NumPy 1.26.4 itself is wrong here (not ODL): maximum/minimum/fmax/fmin.reduce over an
                            # axis with a NEGATIVE stride combined with out= starts from the wrong entry, e.g.
                            # a = np.array([[-2., 0.], [2., -1.]])[::-1].copy()[::-1]
                            # np.maximum.reduce(a, axis=0, out=np.zeros(2)) -> [-2, 0] instead of [2, 0].
                            # ODL passes the same arrays through, so both sides agree with each other but not
                            # with exact arithmetic: keep such inputs out of the exact comparison.
                            bufs[x[-1]] = np.ascontiguousarray(bufs[x[-1]])
                        c = Call(getattr(np, bname), 'reduce', bufs, [x], outs, axis=axis, **kw)
                        yield c, {'kind': kind, 'ufunc': bname, 'method': 'reduce', 'axis': axk, 'out': outk,
                                  'shape': shape, 'dtype': dtype}, (kind, bname, 'reduce', axk, outk, nd, dtype)
            # ---- accumulate
            for bname in BOPS:
                if bname in CMP:
                    continue
                for axk in ['absent', 'int', 'neg', 'none', 'tuple1', 'oob']:
                    for outk in ['none', 'same', 'arr', 'alias', 'dtkw']:
                        bufs = []
                        shape = rand_shape(rng)
                        nd = len(shape)
                        x = mk_elem(rng, kind, shape, bufs,
                                    rng.choice(['float64', 'int64']) if bname not in NONZERO else 'float64', -2, 2)
                        axis = {'absent': 'absent', 'int': rng.randrange(nd), 'neg': -rng.randint(1, nd),
                                'none': None, 'tuple1': (rng.randrange(nd),), 'oob': nd}[axk]
                        outs = {'none': None, 'alias': [x]}.get(outk)
                        kw = {}
                        if outk == 'same':
                            outs = [respace(rng, x, bufs, kind)]
                        elif outk == 'arr':
                            outs = [respace(rng, x, bufs, 'arr')]
                        elif outk == 'dtkw':
                            kw['dtype'] = 'float64'
                        if outk == 'dtkw' and bname.startswith('logical'):
                            continue       # dtype=float selects a loop the logical ufuncs do not have
                        if bname in NONZERO:
                            bufs[x[-1]][bufs[x[-1]] == 0] = 1
                        c = Call(getattr(np, bname), 'accumulate', bufs, [x], outs, axis=axis, **kw)
                        yield c, {'kind': kind, 'ufunc': bname, 'method': 'accumulate', 'axis': axk, 'out': outk,
                                  'shape': shape}, (kind, bname, 'accumulate', axk, outk, nd)
            # ---- outer
            for bname in BOPS:
                for sec in ['elem', 'arr', 'arr-first', 'scal', 'self']:
                    for outk in ['none', 'same', 'arr']:
                        bufs = []
                        shape = rand_shape(rng, rng.choice([1, 1, 2]))
                        shape2 = rand_shape(rng, rng.choice([1, 1, 2]))
                        x = mk_elem(rng, kind, shape, bufs, 'float64')
                        if sec == 'elem':
                            ins = [x, mk_elem(rng, kind, shape2, bufs, 'float64')]
                        elif sec == 'arr':
                            ins = [x, mk_elem(rng, 'arr', shape2, bufs)]
                        elif sec == 'arr-first':
                            ins = [mk_elem(rng, 'arr', shape2, bufs), x]
                        elif sec == 'scal':
                            ins = [x, ('scal', 2.0)]
                        else:
                            ins = [x, x]
                        rshape = tuple(np.shape(np.add.outer(*[np.zeros(bufs[s[-1]].shape) if s[0] != 'scal' else 0.0
                                                              for s in ins])))
                        outs = None
                        if outk != 'none':
                            outs = [respace(rng, x, bufs, kind if outk == 'same' else 'arr', shape=rshape)]
                        if bname in NONZERO:
                            for b_ in bufs:
                                b_[b_ == 0] = 1
                        c = Call(getattr(np, bname), 'outer', bufs, ins, outs)
                        yield c, {'kind': kind, 'ufunc': bname, 'method': 'outer', 'second': sec, 'out': outk,
                                  'shapes': [shape, shape2]}, (kind, bname, 'outer', sec, outk, len(shape), len(shape2))
            for uf in (np.less, np.logical_and, np.arctan2):
                for sec in ('elem', 'self'):
                    bufs = []
                    shape = rand_shape(rng, rng.choice([1, 1, 2]))
                    x = mk_elem(rng, kind, shape, bufs, 'float64')
                    ins = [x, mk_elem(rng, kind, rand_shape(rng, 1), bufs, 'float64')] if sec == 'elem' else [x, x]
                    c = Call(uf, 'outer', bufs, ins, None)
                    yield c, {'kind': kind, 'ufunc': uf.__name__, 'method': 'outer', 'second': sec, 'out': 'none',
                              'shape': shape}, (kind, uf.__name__, 'outer', sec, len(shape))
            # ---- at
            for uname in list(BOPS) + list(UOPS):
                for ik in ['distinct', 'repeated', 'negative', 'oob', 'empty']:
                    for vk in ['scal', 'arr', 'elem', 'arr-target']:
                        uf = getattr(np, uname)
                        if uf.nin == 1 and vk != 'scal':
                            continue
                        bufs = []
                        shape = rand_shape(rng, rng.choice([1, 1, 2]), lo=2)
                        n = shape[0]
                        x = mk_elem(rng, kind, shape, bufs, 'float64')
                        idx = {'distinct': rng.sample(range(n), rng.randint(1, n)),
                               'repeated': [rng.randrange(n) for _ in range(rng.randint(2, 5))],
                               'negative': [-rng.randint(1, n) for _ in range(rng.randint(1, 3))],
                               'oob': [0, n], 'empty': []}[ik]
                        ins = [x]
                        if uf.nin == 2:
                            if vk == 'scal':
                                ins.append(('scal', float(rng.randint(-3, 3))))
                            else:
                                vshape = (len(idx),) + tuple(shape[1:])
                                if vk == 'arr-target':
                                    # a plain ndarray is the TARGET, the ODL element is the VALUES operand:
                                    # dispatch still goes to the element's __array_ufunc__
                                    if len(idx) == 0:
                                        continue
                                    bufs[:] = []
                                    ins = [mk_elem(rng, 'arr', shape, bufs), mk_elem(rng, kind, vshape, bufs, 'float64')]
                                elif vk == 'arr' or kind == 'disc' or len(idx) == 0:
                                    ins.append(mk_elem(rng, 'arr', vshape, bufs))
                                else:
                                    ins.append(mk_elem(rng, 'tens', vshape, bufs))
                        if uname in NONZERO:
                            for b_ in bufs:
                                b_[b_ == 0] = 1
                        c = Call(uf, 'at', bufs, ins, None, idx=idx)
                        yield c, {'kind': kind, 'ufunc': uname, 'method': 'at', 'indices': idx, 'values': vk,
                                  'shape': shape}, (kind, uname, 'at', ik, vk, len(shape), tuple(idx))
            # ---- reduceat
            for bname in BOPS:
                if bname in CMP:
                    continue
                for ik in ['increasing', 'any', 'oob', 'empty', 'single']:
                    for axk in ['absent', 'int', 'neg']:
                        for outk in ['none', 'same']:
                            bufs = []
                            shape = rand_shape(rng, lo=2)
                            nd = len(shape)
                            x = mk_elem(rng, kind, shape, bufs, 'float64', -2, 2)
                            axis = {'absent': 'absent', 'int': rng.randrange(nd), 'neg': -rng.randint(1, nd)}[axk]
                            n = shape[0 if axis == 'absent' else axis]
                            idx = {'increasing': sorted(rng.sample(range(n), rng.randint(1, n))),
                                   'any': [rng.randrange(n) for _ in range(rng.randint(1, 4))],
                                   'oob': [0, n], 'empty': [], 'single': [0]}[ik]
                            outs = None
                            if outk == 'same':
                                rs = list(shape)
                                rs[0 if axis == 'absent' else axis] = len(idx)
                                outs = [respace(rng, x, bufs, kind if kind == 'tens' else 'arr', shape=rs)]
                            if bname in NONZERO:
                                bufs[x[-1]][bufs[x[-1]] == 0] = 1
                            c = Call(getattr(np, bname), 'reduceat', bufs, [x], outs, axis=axis, idx=idx)
                            yield c, {'kind': kind, 'ufunc': bname, 'method': 'reduceat', 'indices': idx,
                                      'axis': axk, 'out': outk, 'shape': shape}, \
                                (kind, bname, 'reduceat', ik, axk, outk, nd)


RULE = ('ufunc x method x {NumpyTensor, DiscretizedSpaceElement} x second operand {element, same object, ndarray, '
        'broadcast row, scalar, either order} x out {absent, (None,), element, tensor, ndarray, aliased to the input, '
        'float32, with dtype=} x axis {absent, None, int, negative, tuple, all, (), out of range, duplicate} x keepdims '
        'x at/reduceat index lists {distinct, repeated, negative, out of range, empty}; shapes 1-3 d with extents 1..4, '
        'small-integer data (exact); weightings default/const/array, exponents 2/1/inf; modelled ufuncs add, subtract, '
        'multiply, maximum, minimum, true_divide, fmax, fmin, less, less_equal, greater, greater_equal, equal, '
        'not_equal, logical_and/or/xor/not, negative, absolute, square, sign, positive, reciprocal computed in Coq '
        '(comparisons only for __call__/outer/at), others (sin, exp, '
        'floor, isfinite, sqrt, true_divide, less, arctan2, modf, frexp, divmod ...) with NumPy\'s raw result as '
        'oracle.  Every case compares ODL AND raw NumPy with the model.  Non-trivial = the call does not fail on '
        'the raw arrays; distinct by (kind, ufunc, method, out kind, axis kind, dtype, rank, operand kinds).')
ASSUMPTIONS = [
    'exact arithmetic on small integers (float rounding, NaN, inf, signed zero, overflow out of scope)',
    'NumPy type resolution (result dtype) is taken from NumPy itself per case, not modelled',
    'complex dtypes only with real data; bool/unsigned/structured dtypes not in the correspondence',
    'arrays are writeable, buffers are whole arrays (no partial views / strides)',
    'mixing NumpyTensor with DiscretizedSpaceElement operands, the where= keyword and F-order are not modelled',
]
TRUSTED = ['translate/ufunc_dispatch.py (Python ast -> Gallina decision fragments), fail-closed',
           'harness/c17.py observation of ODL objects (type, space, np.shares_memory, identity with out)',
           'C17/Arr.v exact semantics of the modelled ufunc methods (validated against NumPy by the raw half of each '
           'case); that its Q instance is the restriction of its R instance is PROVED (C17/Transfer.v) for every '
           'division-free ufunc, assumed only for true_divide / reciprocal']


# ---- memory layouts
LAYOUTS = ['C', 'F', 'T', 'S', 'N']      # C order, Fortran order, transposed view, strided view, negative strides


def make_layout(data, lay, dtype=None):
    """an array with the given logical contents in the requested memory layout"""
    a = np.array(data, dtype=dtype)
    if lay == 'F':
        r = np.asfortranarray(a)
    elif lay == 'T':
        r = np.ascontiguousarray(a.T).T
    elif lay == 'S':
        base = np.zeros(tuple(2 * n for n in a.shape), dtype=a.dtype)
        r = base[tuple(slice(None, None, 2) for _ in a.shape)]
        r[...] = a
    elif lay == 'N':
        base = a[::-1].copy()
        r = base[::-1]
    else:
        r = a.copy()
    assert np.array_equal(r, a)
    return r


def relayout(b):
    """a fresh array with the same contents AND the same kind of memory layout as b"""
    if b.ndim == 0 or b.size == 0 or b.flags.c_contiguous:
        return b.copy()
    if b.flags.f_contiguous:
        return np.asfortranarray(b.copy())
    if any(st_ < 0 for st_ in b.strides):
        return make_layout(b, 'N')
    return make_layout(b, 'S')


def layout_term(a):
    c, f = bool(a.flags.c_contiguous), bool(a.flags.f_contiguous)
    return 'LayCF' if (c and f) else ('LayC' if c else ('LayF' if f else 'LayStrided'))


def wrap_cases(rng, tier):
    """space.element(arr[, order]) for tensor and discretized spaces: shares memory or copies?"""
    import odl
    cs = C.CaseSet('wrap', ['C17.Model', 'C17.Corr'], 'check_wrap', 'wcase')
    reps = 1 if tier == 'quick' else 3
    for _ in range(reps):
        for kind in ('tens', 'disc'):
            for lay in LAYOUTS:
                for order in (None, 'C', 'F'):
                    for adt, sdt in (('float64', 'float64'), ('float32', 'float64'), ('int64', 'int64'),
                                     ('float64', 'float32')):
                        for writeable in (True, False):
                            for shape_ok in (True, True, False):
                                shape = rand_shape(rng, rng.choice([1, 2, 2, 3]), lo=2)
                                ashape = shape if shape_ok else tuple(n + 1 for n in shape)
                                arr = make_layout(ivals(rng, ashape), lay, dtype=adt)
                                arr.setflags(write=writeable)
                                sp = odl.tensor_space(shape, dtype=sdt) if kind == 'tens' else \
                                    odl.uniform_discr([0.0] * len(shape), [1.0] * len(shape), shape, dtype=sdt)
                                try:
                                    x = sp.element(arr) if order is None else sp.element(arr, order=order)
                                    err, shares = False, bool(np.shares_memory(arr, x.asarray()))
                                except ValueError:
                                    err, shares = True, False
                                t = '(mkWCase %s %s %s %s %s %s %s %s)' % (
                                    C.b(shape_ok), dt_term(adt), dt_term(sdt), C.b(writeable), layout_term(arr),
                                    'None' if order is None else '(Some Ord%s)' % order, C.b(err), C.b(shares))
                                cs.add(t, {'wrap': kind, 'layout': lay, 'order': order, 'arr_dtype': adt,
                                           'space_dtype': sdt, 'writeable': writeable, 'shape_ok': shape_ok,
                                           'shape': list(shape), 'shares': shares, 'err': err},
                                       (kind, layout_term(arr), order, adt, sdt, writeable, shape_ok))
    return cs


# ---- legacy interface on (nested) power spaces: element trees
def tree_term(x):
    import odl
    if isinstance(x.space, odl.ProductSpace):
        return '(PNode %s)' % C.lst([tree_term(p) for p in x])
    a = np.asarray(x)
    return '(PLeaf %s %s)' % (dt_term(a.dtype), C.qs(data_list(a)))


def rand_tree_space(rng, depth, dtype):
    import odl
    if depth == 0:
        shape = rand_shape(rng, rng.choice([1, 1, 2]))
        if rng.random() < 0.3:
            return discr_space_for(rng, shape, dtype)
        return odl.tensor_space(shape, dtype=dtype)
    return rand_tree_space(rng, depth - 1, dtype) ** rng.randint(1, 3)


def fill(rng, space, lo=-4, hi=4):
    import odl
    if isinstance(space, odl.ProductSpace):
        return space.element([fill(rng, sp, lo, hi) for sp in space])
    return space.element(ivals(rng, space.shape, lo, hi, dtype=space.dtype))


def legacy_cases(rng, tier):
    cs = C.CaseSet('legacy', ['C17.Arr', 'C17.Model', 'C17.Legacy', 'C17.Corr'], 'check_legacy', 'lcase')
    reps = 2 if tier == 'quick' else 8
    ops = [('negative', 'LU UNeg', None), ('absolute', 'LU UAbs', None), ('square', 'LU USquare', None),
           ('sign', 'LU USign', None),
           ('add', 'LSc BAdd %s', 'c'), ('multiply', 'LSc BMul %s', 'c'), ('maximum', 'LSc BMax %s', 'c'),
           ('subtract', 'LSc BSub %s', 'c'), ('true_divide', 'LHalf', 2)]
    for _ in range(reps):
        for depth in (0, 1, 2, 3):
            for dtype in ('float64', 'int64', 'float32'):
                for name, opt, arg in ops:
                    space = rand_tree_space(rng, depth, dtype)
                    x = fill(rng, space)
                    args = []
                    if arg == 'c':
                        c = rng.randint(-3, 3)
                        args = [c if np.dtype(dtype).kind == 'i' else float(c)]
                        opt = opt % C.q(c)
                    elif arg == 2:
                        args = [2 if np.dtype(dtype).kind == 'i' else 2.0]
                    uf = getattr(np, name)
                    try:
                        leg = getattr(x.ufuncs, name)(*args)
                        npc = uf(x, *args)
                        rd = uf(np.zeros(1, dtype=dtype) + 1, *args).dtype
                        t = '(mkLCase (%s) %s %s %s %s)' % (
                            opt, C.lst(['(%s, %s)' % (dt_term(dtype), dt_term(rd))]), tree_term(x),
                            tree_term(leg), tree_term(npc))
                    except Skip:
                        continue
                    cs.add(t, {'legacy': name, 'depth': depth, 'dtype': dtype, 'shape': list(space.shape)},
                           (name, depth, dtype, rd.name))
    return cs


# ---- binary legacy ufuncs on nested power spaces with second operands from everywhere
def arg2_term(x2):
    import odl
    if isinstance(x2, (int, float)):
        return '(A2Scal %s)' % C.q(x2)
    if hasattr(x2, 'space'):
        return '(A2Tree %s)' % tree_term(x2)
    a = np.asarray(x2)
    return '(A2Arr %s %s)' % (nats(a.shape), C.qs(data_list(a)))


def legacy2_cases(rng, tier):
    import odl
    cs = C.CaseSet('legacy2', ['C17.Arr', 'C17.Model', 'C17.Legacy', 'C17.Corr'], 'check_legacy2', 'l2case')
    reps = 1 if tier == 'quick' else 4
    ops = ['add', 'subtract', 'multiply', 'maximum', 'true_divide', 'less']
    for _ in range(reps):
        for dtype in ('float64', 'int64'):
            for dims in ((2,), (2, 2), (3, 2), (2, 3), (2, 2, 2), (3, 2, 2), (2, 3, 2), (1, 2), (2, 1)):
                for name in ops:
                    n = rng.choice([1, 2, 3])
                    leaf_sp = odl.tensor_space(n, dtype=dtype)
                    spaces = [leaf_sp]          # spaces[j] = j levels above the leaf
                    for k in reversed(dims):
                        spaces.append(spaces[-1] ** k)
                    S = spaces[-1]
                    full = tuple(dims) + (n,)
                    lo = 1 if name == 'true_divide' else -3
                    kinds = ['same', 'inner1', 'inner2', 'leaf', 'scalar', 'arr-leaf', 'arr-one', 'arr-inner1',
                             'arr-full', 'list-leaf', 'list-inner1', 'other']
                    for kind in kinds:
                        for with_out in (False, True):
                            X = S.element(ivals(rng, full, -3, 4, dtype=np.dtype(dtype)))
                            if kind == 'same':
                                x2 = S.element(ivals(rng, full, lo, 3, dtype=np.dtype(dtype)))
                            elif kind in ('inner1', 'inner2'):
                                lev = len(dims) - (1 if kind == 'inner1' else 2)
                                if lev < 1:
                                    continue
                                sp = spaces[lev]
                                x2 = sp.element(ivals(rng, full[len(dims) - lev:], lo, 3, dtype=np.dtype(dtype)))
                            elif kind == 'leaf':
                                x2 = leaf_sp.element(ivals(rng, (n,), lo, 3, dtype=np.dtype(dtype)))
                            elif kind == 'scalar':
                                v = rng.randint(1, 3)
                                x2 = v if np.dtype(dtype).kind == 'i' else float(v)
                            elif kind == 'arr-leaf':
                                x2 = ivals(rng, (n,), lo, 3, dtype=np.dtype(dtype))
                            elif kind == 'arr-one':
                                x2 = ivals(rng, (1,), 1, 3, dtype=np.dtype(dtype))
                            elif kind == 'arr-inner1':
                                x2 = ivals(rng, full[-2:], lo, 3, dtype=np.dtype(dtype))
                            elif kind == 'arr-full':
                                x2 = ivals(rng, full, lo, 3, dtype=np.dtype(dtype))
                            elif kind == 'list-leaf':
                                x2 = ivals(rng, (n,), lo, 3, dtype=np.dtype(dtype)).tolist()
                            elif kind == 'list-inner1':
                                x2 = ivals(rng, full[-2:], lo, 3, dtype=np.dtype(dtype)).tolist()
                            else:
                                # an element of ANOTHER power space: m parts instead of k at the inner level
                                if len(dims) < 2:
                                    continue
                                sp = leaf_sp ** dims[0]
                                x2 = sp.element(ivals(rng, (dims[0], n), lo, 3, dtype=np.dtype(dtype)))
                            uf = getattr(np, name)
                            try:
                                x2t = arg2_term(x2)
                                A = np.asarray(X)
                                B = np.asarray(x2)
                                rd = uf(np.ones(1, dtype=dtype), np.ones(1, dtype=np.asarray(B).dtype)).dtype
                                try:
                                    with np.errstate(all='ignore'):
                                        ref = uf(A, B)
                                    ref_t = ('(Some %s)' % C.qs(data_list(ref))) if (
                                        ref.shape == A.shape and ref.dtype == A.dtype) else 'None'
                                except Skip:
                                    raise
                                except Exception:
                                    ref_t = 'None'
                                kw = {'out': S.element(np.full(full, 9, dtype=dtype))} if with_out else {}
                                try:
                                    with np.errstate(all='ignore'):
                                        r = getattr(X.ufuncs, name)(x2, **kw)
                                    if with_out and r is not kw['out']:
                                        raise Skip('out identity')      # left to the probes
                                    obs, summ = '(TOk %s)' % tree_term(r), 'ok'
                                except Skip:
                                    raise
                                except Exception as e:   # noqa
                                    obs, summ = '(TErr %s)' % classify(e), classify(e)
                                t = '(mkL2Case %s %s %s %s %s %s %s)' % (
                                    BOPS[name], C.lst(['(%s, %s)' % (dt_term(dtype), dt_term(rd))]), C.b(with_out),
                                    tree_term(X), x2t, obs, ref_t)
                            except Skip:
                                continue
                            cs.add(t, {'legacy2': name, 'dims': list(dims), 'n': n, 'dtype': dtype, 'x2': kind,
                                       'out': with_out, 'outcome': summ},
                                   (name, dims, dtype, kind, with_out, summ))
    return cs


# ---- power-space elements through the NumPy API (__array__ / __array_wrap__)
def pspace_cases(rng, tier):
    import odl
    cs = C.CaseSet('pspace', ['C17.Arr', 'C17.Model', 'C17.Legacy', 'C17.Corr'], 'check_pspace', 'pcase')
    reps = 1 if tier == 'quick' else 5
    names = ['add', 'multiply', 'maximum', 'subtract', 'true_divide', 'less', 'logical_and', 'negative', 'absolute',
             'square', 'sin', 'isfinite', 'floor']
    for _ in range(reps):
        for dtype in ('float64', 'int64', 'float32'):
            for name in names:
                uf = getattr(np, name)
                if name in NONZERO and dtype == 'float32':
                    continue       # float32 rounding of quotients exceeds the tolerance
                meths = ['__call__', '__call__', 'out-elem', 'out-arr']
                if uf.nin == 2 and name not in CMP:
                    meths += ['reduce', 'reduce-ax', 'reduce-none', 'accumulate', 'outer', 'at', 'reduceat']
                elif uf.nin == 2:
                    meths += ['outer', 'at']
                for mk in meths:
                    n = rng.randint(1, 3)
                    s_ = rand_shape(rng, rng.choice([1, 1, 2]))
                    space = odl.tensor_space(s_, dtype=dtype) ** n
                    lo = 1 if name in NONZERO else -3
                    xdata = ivals(rng, (n,) + tuple(s_), lo, 4, dtype=np.dtype(dtype))
                    x = space.element(xdata.copy())
                    method = mk if mk in METH else {'out-elem': '__call__', 'out-arr': '__call__', 'reduce-ax': 'reduce',
                                                   'reduce-none': 'reduce'}[mk]
                    kw = {}
                    other = []
                    other_t = []
                    self_second = False
                    idx = None
                    if method in ('__call__', 'outer', 'at') and uf.nin == 2:
                        c = rng.choice(['scal', 'arr', 'self', 'arr-first'] if method != 'at' else ['scal'])
                        if c == 'scal':
                            v = float(rng.randint(1, 3))
                            other, other_t = [v], ['(RIScal %s)' % C.q(v)]
                        elif c == 'self':
                            other, other_t = [x], [None]
                        else:
                            a = ivals(rng, (n,) + tuple(s_), 1, 3)
                            other, other_t = [a], ['(RIArr %s)' % narr_term(a)]
                            self_second = (c == 'arr-first')
                    if mk == 'reduce-ax':
                        kw['axis'] = rng.randrange(len(s_) + 1)
                    elif mk == 'reduce-none':
                        kw['axis'] = None
                    elif mk == 'accumulate' and rng.random() < 0.5:
                        kw['axis'] = rng.randrange(len(s_) + 1)
                    if method in ('at', 'reduceat'):
                        idx = [rng.randrange(n) for _ in range(rng.randint(1, 3))]
                    out_elem = (mk == 'out-elem')
                    if mk == 'out-elem':
                        kw['out'] = space.element()
                    f = uf if method == '__call__' else getattr(uf, method)
                    args = ([x] + other) if not self_second else (other + [x])
                    if method in ('at', 'reduceat'):
                        args = [args[0], idx] + args[1:]
                    raw_args = [np.asarray(a_) if a_ is x else a_ for a_ in args]
                    try:
                        # NumPy on the arrays: result dtypes (and values for the oracle ufuncs)
                        try:
                            with np.errstate(all='ignore'):
                                rr = f(*[a_.copy() if isinstance(a_, np.ndarray) else a_ for a_ in raw_args],
                                       **{k_: v_ for k_, v_ in kw.items() if k_ != 'out'})
                            if method == 'at':
                                rr = raw_args[0]
                            rrs = list(rr) if isinstance(rr, tuple) else [rr]
                            rdt = [dt_term(np.asarray(t_).dtype) for t_ in rrs]
                            oracle = '(Ok %s)' % C.lst([narr_term(np.asarray(t_)) for t_ in rrs])
                        except Skip:
                            raise
                        except Exception as e:   # noqa
                            rdt, oracle = ['DF64'], '(Err %s)' % classify(e)
                            rrs = None
                        if mk == 'out-arr':
                            if rrs is None:
                                continue
                            kw['out'] = np.zeros(np.shape(rrs[0]), dtype=np.asarray(rrs[0]).dtype)
                        try:
                            with np.errstate(all='ignore'):
                                r = f(*args, **kw)
                            rets = list(r) if isinstance(r, tuple) else [r]
                            obs = []
                            for o in rets:
                                if isinstance(o, odl.space.pspace.ProductSpaceElement):
                                    a_ = o.asarray()
                                    kind = 1
                                elif isinstance(o, np.ndarray):
                                    a_, kind = o, 0
                                elif o is None:
                                    raise Skip('None')
                                else:
                                    a_, kind = np.asarray(o), 3
                                obs.append('(mkPW %d %s %s %s)' % (kind, dt_term(a_.dtype), nats(a_.shape),
                                                                   C.qs(data_list(a_))))
                            obs_t, summ = '(POk %s)' % C.lst(obs), 'ok'
                        except Skip:
                            raise
                        except Exception as e:   # noqa
                            obs_t, summ = '(PErr %s)' % classify(e), classify(e)
                        ufid = '(UB %s)' % BOPS[name] if name in BOPS else ('(UU %s)' % UOPS[name] if name in UOPS
                                                                           else 'UOracle')
                        others = [t_ if t_ is not None else '(RIArr %s)' % narr_term(np.asarray(x)) for t_ in other_t]
                        kwt = '(mkKw %s false None %s%%Z)' % (
                            'AxAbsent' if 'axis' not in kw else ('AxNone' if kw['axis'] is None
                                                                 else '(AxInt %d%%Z)' % kw['axis']),
                            C.zs(idx or []))
                        t = '(mkPCase %s %s %s %d%%nat %s %s %s %s %s %s %s %s %s %s)' % (
                            ufid, C.lst(rdt), oracle, n, nats(s_), dt_term(dtype), C.qs(data_list(xdata)),
                            METH[method], kwt, C.lst(others), C.b(self_second), C.b(out_elem), C.b(mk == 'out-arr'), obs_t)
                    except Skip:
                        continue
                    cs.add(t, {'pspace': name, 'how': mk, 'n': n, 'part_shape': list(s_), 'dtype': dtype,
                               'outcome': summ}, (name, mk, dtype, summ, n, len(s_)))
    return cs


def correspondence(rng, tier):
    global VARIANTS
    VARIANTS = None
    cs = C.CaseSet('ufunc', ['Lib.Axis', 'C17.Arr', 'C17.Model', 'C17.Corr'], 'check', 'ucase')
    for call, desc, key in gen_calls(rng, tier):
        try:
            t, odl_s, raw_s = call.term()
        except Skip:
            continue
        desc = dict(desc)
        desc['odl'] = odl_s
        desc['raw'] = raw_s
        cs.add(t, desc, None if 'err' in raw_s else key)
    # the variant measured on the behaviour must be the one read off the source by the translator
    vs = C.CaseSet('variant', ['C17.Model', 'C17.GenTie'], '(fun b : bool => Bool.eqb b gen_grow)', 'bool')
    vs.add(C.b(measure_variants()['grow']), {'variant': 'v_grow measured on np.add(rn(3).one(), np.ones((2, 3)))'},
           'v_grow')
    return [cs, legacy_cases(rng, tier), legacy2_cases(rng, tier), pspace_cases(rng, tier), wrap_cases(rng, tier),
            vs]


# ------------------------------------------------------------------ probes
# The property itself, evaluated on the real objects against NumPy on the
# underlying arrays.  A probe is described by a JSON-able spec so that the
# replay is `probe_eval(spec)`.

def build_space(sd):
    import odl
    kind = sd['kind']
    if kind == 'pow':
        return build_space(sd['base']) ** sd['n']
    kw = {}
    w = sd.get('weighting')
    if w is not None:
        kw['weighting'] = np.array(w, dtype=sd.get('wdtype', 'float64')) if isinstance(w, list) else w
    if sd.get('exponent') is not None:
        kw['exponent'] = sd['exponent']
    if kind == 'tens':
        return odl.tensor_space(tuple(sd['shape']), dtype=sd['dtype'], **kw)
    shape = tuple(sd['shape'])
    return odl.uniform_discr([0.0] * len(shape), [float(n) * c for n, c in zip(shape, sd['cells'])], shape,
                             dtype=sd['dtype'], **kw)


def _operand(od, space, raw):
    """('self', data) element of the space | ('arr', data, dtype) | ('scal', v)"""
    if od[0] == 'scal':
        return od[1]
    if od[0] == 'arr':
        return np.array(od[1], dtype=od[2])
    arr = np.array(od[1], dtype=space.dtype)
    return arr if raw else space.element(arr)


DELIBERATE = 'deliberate'


def _expected_rejection(spec):
    """inputs the code rejects on purpose, with the error class it documents"""
    k = spec['space']['kind']
    if k == 'disc':
        if spec['method'] == 'reduce' and spec.get('kwargs', {}).get('keepdims'):
            return ValueError
        if spec['method'] == 'reduceat':
            return ValueError
        if spec['method'] == 'outer' and any(o[0] != 'self' for o in spec['ins']):
            return TypeError
    return None


def _same(a, b):
    a, b = np.asarray(a), np.asarray(b)
    return a.shape == b.shape and bool(np.array_equal(a, b, equal_nan=(a.dtype.kind in 'fc' and b.dtype.kind in 'fc')))


def probe_eval(spec):
    """returns (ok, category, observed, expected); category names what failed"""
    import odl
    space = build_space(spec['space'])
    uf = getattr(np, spec['ufunc'])
    method = spec['method']
    kw = dict(spec.get('kwargs', {}))
    if isinstance(kw.get('axis'), list):
        kw['axis'] = tuple(kw['axis'])

    def run(raw):
        ins = [_operand(o, space, raw) for o in spec['ins']]
        out = None
        ok_ = spec.get('out')
        if ok_ is not None:
            oshape, odt = tuple(ok_['shape']), ok_['dtype']
            if raw or ok_['kind'] == 'arr':
                out = np.full(oshape, 7, dtype=odt)
            else:
                osp = build_space(dict(spec['space'], shape=list(oshape), dtype=odt, weighting=None,
                                       cells=[1.0] * len(oshape))) \
                    if spec['space']['kind'] != 'pow' else space
                if ok_['kind'] == 'tensor' and spec['space']['kind'] == 'disc':
                    osp = osp.tspace
                out = osp.element(np.full(oshape, 7, dtype=odt))
        f = uf if method == '__call__' else getattr(uf, method)
        args = list(ins)
        if method in ('at', 'reduceat'):
            args = [ins[0], list(spec['idx'])] + ins[1:]
        k2 = dict(kw)
        if out is not None:
            k2['out'] = out
        with np.errstate(all='ignore'):
            r = f(*args, **k2)
        return r, ins, out
    try:
        er, eins, eout = run(True)
        eerr = None
    except Exception as e:      # noqa
        eerr = e
    rej = _expected_rejection(spec)
    try:
        orr, oins, oout = run(False)
        oerr = None
    except Exception as e:      # noqa
        oerr = e
    if rej is not None and eerr is None:
        good = oerr is not None and isinstance(oerr, rej)
        return good, DELIBERATE, repr(oerr), 'raises ' + rej.__name__
    if eerr is not None:
        if oerr is None:
            return False, 'accepts', 'returned', 'NumPy raises ' + type(eerr).__name__
        return True, '', None, None
    if oerr is not None:
        return False, 'raises', '%s: %s' % (type(oerr).__name__, str(oerr)[:120]), 'NumPy returns'
    ers = list(er) if isinstance(er, tuple) else [er]
    ors = list(orr) if isinstance(orr, tuple) else [orr]
    if len(ers) != len(ors):
        return False, 'arity', len(ors), len(ers)
    elem_type = type(space.element())
    for e, o in zip(ers, ors):
        if e is None:
            if o is not None:
                return False, 'kind', type(o).__name__, 'None'
            continue
        if spec.get('out') is not None:
            if o is not oout:
                return False, 'out-identity', type(o).__name__, 'the given out object'
            if not _same(np.asarray(oout), np.asarray(eout)):
                return False, 'out-contents', np.asarray(oout).tolist(), np.asarray(eout).tolist()
            continue
        if np.ndim(e) == 0:
            if not (np.isscalar(o) or (isinstance(o, np.ndarray) and o.ndim == 0)):
                return False, 'kind', type(o).__name__, 'scalar'
            if not _same(o, e):
                return False, 'values', o, e
            continue
        if not isinstance(o, elem_type):
            return False, 'kind', type(o).__name__, elem_type.__name__
        oa = np.asarray(o)
        if oa.shape != e.shape or tuple(o.shape) != e.shape:
            return False, 'shape', oa.shape, e.shape
        if not _same(oa, e):
            return False, 'values', oa.tolist(), e.tolist()
        if oa.dtype != e.dtype or o.dtype != e.dtype:
            return False, 'dtype', str(o.dtype), str(e.dtype)
    # inputs: same final contents as on the raw side (only out / at's first operand change)
    for a, b in zip(oins, eins):
        if not np.isscalar(a) and not _same(np.asarray(a), np.asarray(b)):
            return False, 'inputs-changed', np.asarray(a).tolist(), np.asarray(b).tolist()
    return True, '', None, None


def probe_key(spec, cat):
    """key of a failing probe: the recorded findings get their own precise keys"""
    sk = spec['space']['kind']
    m = {'__call__': 'call'}.get(spec['method'], spec['method'])
    kw = spec.get('kwargs', {})
    if cat == DELIBERATE:
        return '%s-%s-documented-rejection' % (sk, m)
    if sk in ('tens', 'disc') and m == 'call' and cat == 'raises' and spec.get('grow'):
        return {'tens': 'tensor', 'disc': 'discr'}[sk] + '-call-broadcast-grow'
    if sk in ('tens', 'disc') and cat == 'raises' and kw.get('dtype') and isinstance(spec['space'].get('weighting'), list) \
            and not np.can_cast(spec['space'].get('wdtype', 'float64'), kw['dtype']):
        return 'tensor-dtype-kw-array-weighting'
    if sk == 'disc' and m == 'reduce' and cat == 'raises' and isinstance(spec['space'].get('weighting'), list):
        return 'discr-reduce-array-weighting'
    if sk == 'disc' and m == 'reduce' and cat in ('raises', 'shape'):
        ax = kw.get('axis')
        axs = ax if isinstance(ax, (list, tuple)) else [ax]
        if ax is not None and any(a < 0 for a in axs):
            return 'discr-reduce-negative-axis'
    if sk == 'disc' and m == 'outer' and cat == 'raises' and spec['ufunc'] in (
            'logical_and', 'logical_or', 'logical_xor', 'less', 'less_equal', 'greater', 'greater_equal', 'equal',
            'not_equal') and all(o[0] == 'self' for o in spec['ins']):
        return 'discr-outer-bool-result'
    if sk == 'pow':
        if m == 'call' and cat == 'raises' and spec.get('grow'):
            return 'pspace-call-broadcast-grow'
        if spec.get('out') is not None and spec['out']['kind'] == 'elem' and cat == 'raises':
            return 'pspace-out-element-unsupported'
        if cat == 'dtype' or (cat == 'values' and m == 'call' and spec['space']['base']['dtype'] == 'float32'):
            return 'pspace-result-dtype-forced-to-space-dtype'
        if cat == 'values' and np.dtype(spec['space']['base']['dtype']).kind in 'iub':
            return 'pspace-integer-space-truncates-float-results'
        if m in ('reduce', 'reduceat', 'outer', 'at') and cat in ('raises', 'kind', 'shape'):
            return 'pspace-%s-not-wrapped' % m
    if cat == 'accepts' and spec.get('out') is not None and kw.get('dtype'):
        return '%s-out-dtype-kw-skips-casting-check' % {'tens': 'tensor', 'disc': 'discr', 'pow': 'pspace'}[sk]
    return '%s-%s-%s-%s' % (sk, spec['ufunc'], m, cat)


def mk_probe(spec):
    try:
        ok, cat, obs, exp = probe_eval(spec)
    except Exception as e:      # noqa
        ok, cat, obs, exp = False, 'probe-crash', repr(e), None
    rp = ("import sys\nsys.path.insert(0, %r)\nfrom harness.c17 import probe_eval\nspec = %r\n"
          "ok, category, observed, expected = probe_eval(spec)\n" % (C.VERIF, spec))
    what = ('np.%s%s on %s elements %s: same numbers / kind / shape / dtype / out as NumPy on the underlying arrays'
            % (spec['ufunc'], '' if spec['method'] == '__call__' else '.' + spec['method'],
               spec['space']['kind'], {k: v for k, v in spec.items() if k in ('kwargs', 'out', 'idx')}))
    return C.Probe(bool(ok), probe_key(spec, cat) if not ok else 'ok', what, rp, {'category': cat, 'observed': obs, 'expected': exp})


FLOAT_UNARY = ['sin', 'cos', 'tan', 'arcsin', 'arccos', 'arctan', 'sinh', 'cosh', 'tanh', 'arcsinh', 'arccosh',
               'arctanh', 'exp', 'exp2', 'expm1', 'log', 'log2', 'log10', 'log1p', 'sqrt', 'cbrt', 'square',
               'reciprocal', 'negative', 'positive', 'absolute', 'fabs', 'sign', 'rint', 'floor', 'ceil', 'trunc',
               'deg2rad', 'rad2deg', 'isfinite', 'isinf', 'isnan', 'signbit', 'logical_not', 'conj', 'spacing']
FLOAT_BINARY = ['add', 'subtract', 'multiply', 'true_divide', 'floor_divide', 'power', 'remainder', 'fmod',
                'maximum', 'minimum', 'fmax', 'fmin', 'hypot', 'arctan2', 'copysign', 'nextafter', 'logaddexp',
                'logaddexp2', 'heaviside', 'greater', 'greater_equal', 'less', 'less_equal', 'equal', 'not_equal',
                'logical_and', 'logical_or', 'logical_xor', 'float_power', 'ldexp']
INT_UNARY = ['negative', 'positive', 'absolute', 'invert', 'sign', 'square', 'sin', 'sqrt', 'isfinite', 'logical_not']
INT_BINARY = ['add', 'subtract', 'multiply', 'floor_divide', 'true_divide', 'remainder', 'bitwise_and', 'bitwise_or',
              'bitwise_xor', 'left_shift', 'right_shift', 'gcd', 'lcm', 'maximum', 'minimum', 'less', 'equal', 'power']
TWO_OUT = ['modf', 'frexp', 'divmod']
COMPLEX_UNARY = ['negative', 'absolute', 'conj', 'exp', 'sin', 'square', 'sqrt', 'isfinite', 'reciprocal']
COMPLEX_BINARY = ['add', 'subtract', 'multiply', 'true_divide', 'equal', 'power']
REDUCIBLE = ['add', 'multiply', 'maximum', 'minimum', 'subtract', 'logical_and', 'logical_or', 'fmax', 'hypot',
             'bitwise_or', 'true_divide']


def rand_space_descr(rng, kind, dtype, ndim=None):
    if kind == 'pow':
        return {'kind': 'pow', 'n': rng.randint(1, 3),
                'base': rand_space_descr(rng, rng.choice(['tens', 'tens', 'disc']), dtype, ndim or rng.choice([1, 1, 2]))}
    shape = list(rand_shape(rng, ndim))
    sd = {'kind': kind, 'shape': shape, 'dtype': dtype}
    if kind == 'disc':
        sd['cells'] = [rng.choice([1.0, 0.5, 2.0]) for _ in shape]
    if np.dtype(dtype).kind in 'fc':
        c = rng.random()
        rdt = {'float32': 'float32', 'complex64': 'float32'}.get(dtype, 'float64')
        if c < 0.2:
            sd['weighting'] = float(rng.choice([2.0, 0.5]))
        elif c < 0.35:
            sd['weighting'] = np.array([rng.randint(1, 4) for _ in range(int(np.prod(shape)))],
                                       dtype=float).reshape(shape).tolist()
            sd['wdtype'] = rdt
        elif c < 0.45 and kind == 'tens':
            sd['exponent'] = rng.choice([1.0, float('inf')])
    return sd


def space_shape(sd):
    if sd['kind'] == 'pow':
        return [sd['n']] + space_shape(sd['base'])
    return list(sd['shape'])


def rand_data(rng, shape, dtype, positive=False):
    n = int(np.prod(shape))
    k = np.dtype(dtype).kind
    if k in 'iu':
        vals = [rng.randint(1 if positive else -4, 5) for _ in range(n)]
    elif k == 'b':
        vals = [bool(rng.randint(0, 1)) for _ in range(n)]
    elif k == 'c':
        vals = [complex(rng.randint(-3, 3), rng.randint(-3, 3)) for _ in range(n)]
        vals = [repr(v) for v in vals]
        return np.array([complex(v) for v in vals]).reshape(shape).tolist() if False else \
            np.array([complex(v) for v in vals]).reshape(shape).tolist()
    else:
        vals = [rng.choice([0.5, 1.0, 1.5, 2.0, 3.0, 0.25]) if positive else
                rng.choice([-2.5, -1.0, -0.5, 0.0, 0.25, 0.5, 1.0, 1.5, 2.0, 3.0]) for _ in range(n)]
    return np.array(vals).reshape(shape).tolist()


def gen_probe_specs(rng, tier):
    reps = 1 if tier == 'quick' else 5
    kinds = ['tens', 'disc', 'pow']
    for _ in range(reps):
        for kind in kinds:
            for dtype, una, bina in [('float64', FLOAT_UNARY, FLOAT_BINARY), ('float32', FLOAT_UNARY, FLOAT_BINARY),
                                     ('int64', INT_UNARY, INT_BINARY), ('int32', INT_UNARY, INT_BINARY),
                                     ('complex128', COMPLEX_UNARY, COMPLEX_BINARY)]:
                if tier == 'quick' and dtype in ('float32', 'int32') and kind != 'tens':
                    continue
                # __call__ unary / binary / two outputs
                for name in una + bina + (TWO_OUT if np.dtype(dtype).kind == 'f' else []):
                    uf = getattr(np, name)
                    sd = rand_space_descr(rng, kind, dtype)
                    shape = space_shape(sd)
                    ins = [('self', rand_data(rng, shape, dtype))]
                    grow = False
                    if uf.nin == 2:
                        c = rng.choice(['self', 'self', 'arr', 'arr-first', 'scal', 'row', 'grow'])
                        pos = name in ('power', 'float_power', 'left_shift', 'right_shift', 'ldexp', 'floor_divide',
                                       'remainder', 'fmod', 'divmod', 'true_divide', 'gcd', 'lcm')
                        sdt = 'int64' if name == 'ldexp' else dtype
                        if c == 'self' and name != 'ldexp':
                            ins.append(('self', rand_data(rng, shape, dtype, pos)))
                        elif c == 'scal' or (name == 'ldexp' and c == 'self'):
                            ins.append(('scal', 2 if np.dtype(sdt).kind in 'iu' else 2.0))
                        elif c == 'row':
                            ins.append(('arr', rand_data(rng, shape[-1:], sdt, pos), sdt))
                        elif c == 'grow':
                            ins.append(('arr', rand_data(rng, [2] + shape, sdt, pos), sdt))
                            grow = True
                        else:
                            ins.append(('arr', rand_data(rng, shape, sdt, pos), sdt))
                            if c == 'arr-first' and name != 'ldexp':
                                ins.reverse()
                    spec = {'space': sd, 'ufunc': name, 'method': '__call__', 'ins': ins, 'kwargs': {}}
                    if grow:
                        spec['grow'] = True
                    o = rng.choice(['none', 'none', 'elem', 'arr', 'tensor', 'dtype']) if uf.nout == 1 and not grow else 'none'
                    if o in ('elem', 'arr', 'tensor'):
                        try:
                            with np.errstate(all='ignore'):
                                rdt = uf(*[np.asarray(_operand(i, None, True) if i[0] != 'self' else np.array(i[1], dtype=dtype))
                                           for i in ins]).dtype.name
                        except Exception:
                            rdt = None
                        if rdt is not None and (o != 'tensor' or kind == 'disc'):
                            spec['out'] = {'kind': o, 'shape': shape, 'dtype': rdt}
                    elif o == 'dtype' and np.dtype(dtype).kind == 'f' and name not in ('ldexp',):
                        spec['kwargs'] = {'dtype': rng.choice(['float32', 'float64'])}
                        if kind != 'pow' and rng.random() < 0.5 and uf.types and any(
                                t.split('->')[1] in 'fd' for t in uf.types):
                            # out of the OTHER precision: computed in dtype=, written back converted
                            other = 'float64' if spec['kwargs']['dtype'] == 'float32' else 'float32'
                            spec['out'] = {'kind': rng.choice(['elem', 'arr']), 'shape': shape, 'dtype': other}
                    yield spec
                # reduce / accumulate / outer / at / reduceat
                for name in [n for n in REDUCIBLE if n in bina or n in ('add', 'multiply')]:
                    if np.dtype(dtype).kind == 'c' and name in ('maximum', 'minimum', 'fmax', 'hypot', 'logical_and', 'logical_or', 'bitwise_or'):
                        continue
                    if np.dtype(dtype).kind in 'fc' and name == 'bitwise_or':
                        continue
                    if np.dtype(dtype).kind in 'iu' and name in ('hypot', 'fmax'):
                        continue
                    for method in ['reduce', 'accumulate', 'outer', 'at', 'reduceat']:
                        sd = rand_space_descr(rng, kind, dtype)
                        shape = space_shape(sd)
                        nd = len(shape)
                        ins = [('self', rand_data(rng, shape, dtype, name == 'true_divide'))]
                        spec = {'space': sd, 'ufunc': name, 'method': method, 'ins': ins, 'kwargs': {}}
                        if method == 'reduce':
                            a = rng.choice(['absent', 'none', 'int', 'neg', 'tuple', 'keepdims', 'dtype'])
                            if a == 'none':
                                spec['kwargs']['axis'] = None
                            elif a == 'int':
                                spec['kwargs']['axis'] = rng.randrange(nd)
                            elif a == 'neg':
                                spec['kwargs']['axis'] = -rng.randint(1, nd)
                            elif a == 'tuple':
                                spec['kwargs']['axis'] = sorted(rng.sample(range(nd), rng.randint(1, nd)))
                            elif a == 'keepdims':
                                spec['kwargs']['keepdims'] = True
                                spec['kwargs']['axis'] = rng.randrange(nd)
                            elif a == 'dtype' and np.dtype(dtype).kind == 'f':
                                spec['kwargs']['dtype'] = rng.choice(['float32', 'float64'])
                        elif method == 'accumulate':
                            if rng.random() < 0.6:
                                spec['kwargs']['axis'] = rng.randrange(-nd, nd)
                            if rng.random() < 0.3:
                                spec['out'] = {'kind': rng.choice(['elem', 'arr']), 'shape': shape, 'dtype': dtype}
                                if name in ('logical_and', 'logical_or', 'true_divide') and np.dtype(dtype).kind != 'f':
                                    del spec['out']
                                elif name in ('logical_and', 'logical_or'):
                                    del spec['out']
                        elif method == 'outer':
                            c = rng.choice(['self', 'arr', 'scal'])
                            if c == 'self':
                                spec['ins'] = [ins[0], ('self', rand_data(rng, shape, dtype, name == 'true_divide'))]
                            elif c == 'arr':
                                spec['ins'] = [ins[0], ('arr', rand_data(rng, [2], dtype, name == 'true_divide'), dtype)]
                            else:
                                spec['ins'] = [ins[0], ('scal', 2 if np.dtype(dtype).kind in 'iu' else 2.0)]
                        elif method == 'at':
                            n0 = shape[0]
                            spec['idx'] = [rng.randrange(-n0, n0) for _ in range(rng.randint(0, 4))]
                            spec['ins'] = [ins[0], ('scal', 2 if np.dtype(dtype).kind in 'iu' else 2.0)]
                        else:
                            ax = rng.randrange(nd)
                            spec['kwargs']['axis'] = ax
                            spec['idx'] = [rng.randrange(shape[ax]) for _ in range(rng.randint(1, 3))]
                        yield spec


def probes(rng, tier):
    out = []
    for spec in gen_probe_specs(rng, tier):
        out.append(mk_probe(spec))
    out.extend(structural_probes(rng, tier))
    out.extend(legacy2_probes(rng, tier))
    out.extend(out_contract_probes(rng, tier))
    out.extend(position_probes(rng, tier))
    out.extend(result_space_probes(rng, tier))
    return out


def search(rng, broken):
    """when a proof / translator / correspondence obligation broke and no probe of this run has a failing
    input: run the enumerated families (out= contract incl. all out-slot patterns of the two-output ufuncs,
    operand positions, binary legacy operands, memory layouts) with fresh data and return the first failing
    probe that is not a recorded finding"""
    known = C.load_findings(PID)
    for fam in (result_space_probes, out_contract_probes, position_probes, legacy2_probes, structural_probes):
        for p in fam(rng, 'thorough'):
            if not p.ok and p.key not in known:
                return p
    return None


def _flat_space_equal(a, b):
    try:
        return a == b
    except Exception:
        return False


def legacy_eval(spec):
    """x.ufuncs.<name>(args, out=...) against np.<name>(x, args, out=...) on the same elements"""
    space = build_space(spec['space'])
    name = spec['ufunc']

    def run(legacy):
        ins = [_operand(o, space, False) for o in spec['ins']]
        x = ins[0]
        kw = dict(spec.get('kwargs', {}))
        out = None
        ok_ = spec.get('out')
        if ok_ is not None:
            if ok_['kind'] == 'arr':
                out = np.full(tuple(ok_['shape']), 7, dtype=ok_['dtype'])
            elif ok_['kind'] == 'tensor':
                out = space.tspace.astype(ok_['dtype']).element(np.full(tuple(ok_['shape']), 7, dtype=ok_['dtype']))
            else:
                out = space.astype(ok_['dtype']).element(np.full(tuple(ok_['shape']), 7, dtype=ok_['dtype']))
            kw['out'] = out
        with np.errstate(all='ignore'):
            if name in ('sum', 'prod', 'min', 'max'):
                if legacy:
                    r = getattr(x.ufuncs, name)(**kw)
                else:
                    uf = {'sum': np.add, 'prod': np.multiply, 'min': np.minimum, 'max': np.maximum}[name]
                    kw.setdefault('axis', None)
                    r = uf.reduce(x, **kw)
            elif legacy:
                r = getattr(x.ufuncs, name)(*ins[1:], **kw)
            else:
                r = getattr(np, name)(*ins, **kw)
        return r, out
    if spec['space']['kind'] == 'pow' and spec.get('out') is not None:
        # np.<ufunc>(x, out=<power-space element>) is itself unsupported (finding
        # pspace-out-element-unsupported): the reference is NumPy on the underlying arrays
        arrs = [np.asarray(_operand(o, space, True)) if o[0] != 'scal' else o[1] for o in spec['ins']]
        try:
            with np.errstate(all='ignore'):
                ref = getattr(np, name)(*arrs, **spec.get('kwargs', {}))
        except Exception:
            ref = None
        try:
            lr, lout = run(True)
        except Exception as e:      # noqa
            return (ref is None), 'raises', '%s: %s' % (type(e).__name__, str(e)[:120]), 'NumPy on arrays returns'
        if ref is None:
            return False, 'accepts', 'legacy returned', 'NumPy on arrays raises'
        if lr is not lout:
            return False, 'out-identity', type(lr).__name__, 'the given out'
        if not _same(np.asarray(lout), ref):
            return False, 'out-contents', np.asarray(lout).tolist(), np.asarray(ref).tolist()
        return True, '', None, None
    try:
        er, eout = run(False)
    except Exception as e:      # noqa
        try:
            run(True)
        except Exception:
            return True, '', None, None
        return False, 'accepts', 'legacy returned', 'np call raises ' + type(e).__name__
    try:
        lr, lout = run(True)
    except Exception as e:      # noqa
        return False, 'raises', '%s: %s' % (type(e).__name__, str(e)[:120]), 'np call returns'
    ers = list(er) if isinstance(er, tuple) else [er]
    lrs = list(lr) if isinstance(lr, tuple) else [lr]
    if len(ers) != len(lrs):
        return False, 'arity', len(lrs), len(ers)
    for e, l in zip(ers, lrs):
        if spec.get('out') is not None:
            if l is not lout:
                return False, 'out-identity', type(l).__name__, 'the given out'
            if not _same(np.asarray(lout), np.asarray(eout)):
                return False, 'out-contents', np.asarray(lout).tolist(), np.asarray(eout).tolist()
            continue
        if type(e) is not type(l) and not (np.isscalar(e) and np.isscalar(l)):
            return False, 'kind', type(l).__name__, type(e).__name__
        if hasattr(e, 'space') and not _flat_space_equal(e.space, l.space):
            return False, 'space', repr(l.space), repr(e.space)
        if not _same(np.asarray(l), np.asarray(e)):
            return False, 'values', np.asarray(l).tolist(), np.asarray(e).tolist()
    return True, '', None, None


def legacy_key(spec, cat):
    sk = spec['space']['kind']
    uf = getattr(np, spec['ufunc'], None)
    uf = uf if isinstance(uf, np.ufunc) else None
    if sk == 'pow' and uf is not None and uf.nout == 2 and cat == 'raises':
        base = spec['space']
        while base['kind'] == 'pow':
            base = base['base']
        if np.dtype(base['dtype']).kind in 'iub':
            # the two outputs are allocated in the (integer) space itself
            return 'legacy-pspace-two-output-integer-space'
        return 'legacy-pspace-two-output-ufuncs'
    if sk == 'disc' and spec.get('out') is not None and spec['out']['kind'] == 'tensor' \
            and cat in ('raises', 'out-identity') and uf is not None and uf.nin == 1:
        return 'legacy-discr-unary-out-tensor'
    if sk == 'pow' and cat == 'raises' and len(spec['ins']) == 2 and spec['ins'][1][0] == 'arr':
        return 'legacy-pspace-binary-array-operand'
    if sk == 'pow' and spec['ufunc'] in ('sum', 'prod', 'min', 'max') and cat == 'raises':
        return 'legacy-pspace-reductions-vs-numpy'
    return 'legacy-%s-%s-%s' % (sk, spec['ufunc'], cat)


def mk_legacy_probe(spec):
    try:
        ok, cat, obs, exp = legacy_eval(spec)
    except Exception as e:      # noqa
        ok, cat, obs, exp = False, 'probe-crash', repr(e), None
    rp = ("import sys\nsys.path.insert(0, %r)\nfrom harness.c17 import legacy_eval\nspec = %r\n"
          "ok, category, observed, expected = legacy_eval(spec)\n" % (C.VERIF, spec))
    what = 'x.ufuncs.%s(...) on %s elements agrees with the NumPy call %s' % (
        spec['ufunc'], spec['space']['kind'], {k: v for k, v in spec.items() if k in ('kwargs', 'out')})
    return C.Probe(bool(ok), legacy_key(spec, cat) if not ok else 'ok', what, rp,
                   {'category': cat, 'observed': obs, 'expected': exp})


def legacy2_eval(spec):
    """X.ufuncs.<name>(x2[, out]) and np.<name>(X, x2) for X in a nested power space over rn(n) / tensor_space(n, int)
    and x2 from the same space, an inner power space, the innermost tensor space, a scalar, an ndarray or a nested
    list, against NumPy on the stacked arrays"""
    import odl
    dims, n, dtype = tuple(spec['dims']), spec['n'], spec['dtype']
    leaf_sp = odl.tensor_space(n, dtype=dtype)
    spaces = [leaf_sp]
    for k in reversed(dims):
        spaces.append(spaces[-1] ** k)
    S = spaces[-1]
    full = dims + (n,)
    X = S.element(np.array(spec['x'], dtype=dtype).reshape(full))
    kind, data = spec['x2']
    if kind == 'space':          # element of the power space `data[0]` levels above the leaf
        lev, vals = data
        x2 = spaces[lev].element(np.array(vals, dtype=dtype).reshape(full[len(dims) - lev:]))
    elif kind == 'other':        # element of ANOTHER power space: tensor ** parts
        parts, vals = data
        x2 = (leaf_sp ** parts).element(np.array(vals, dtype=dtype).reshape((parts, n)))
    elif kind == 'arr':
        x2 = np.array(data, dtype=dtype)
    else:                        # 'scal', 'list'
        x2 = data
    uf = getattr(np, spec['ufunc'])
    A, B = np.asarray(X), np.asarray(x2)
    with_out = bool(spec.get('out'))
    try:
        with np.errstate(all='ignore'):
            ref = uf(A, B, out=np.full(full, 9, dtype=dtype)) if with_out else uf(A, B)
    except Exception as e:      # noqa
        ref, referr = None, e
    if ref is not None and ref.shape != A.shape:
        return True, 'grow', None, None          # result larger than X: covered by the *-broadcast-grow findings

    def run(how):
        out = S.element(np.full(full, 9, dtype=dtype)) if with_out else None
        kw = {'out': out} if with_out else {}
        with np.errstate(all='ignore'):
            r = getattr(X.ufuncs, spec['ufunc'])(x2, **kw) if how == 'legacy' else uf(X, x2, **kw)
        return r, out
    hows = ['legacy'] + (['numpy'] if (hasattr(x2, 'space') and not with_out and spec.get('numpy_api')) else [])
    for how in hows:
        try:
            r, out = run(how)
        except Exception as e:      # noqa
            if ref is None:
                continue
            return False, how + '-raises', '%s: %s' % (type(e).__name__, str(e)[:100]), 'NumPy on the arrays returns'
        if ref is None:
            return False, how + '-accepts', 'returned', 'NumPy raises ' + type(referr).__name__
        if with_out and r is not out:
            return False, how + '-out-identity', type(r).__name__, 'the given out'
        if not isinstance(r, type(X)) or r.space.shape != S.shape:
            return False, how + '-kind', type(r).__name__, 'element of the space of X'
        ra = np.asarray(r)
        if not _same(ra, ref):
            return False, how + '-values', ra.tolist(), ref.tolist()
        if ra.dtype != ref.dtype:
            return False, how + '-dtype', str(ra.dtype), str(ref.dtype)
    return True, '', None, None


def legacy2_key(spec, cat):
    kind = spec['x2'][0]
    isint = np.dtype(spec['dtype']).kind in 'iu'
    if cat == 'legacy-raises' and kind in ('arr', 'list') and np.ndim(spec['x2'][1]) >= 2:
        return 'legacy-pspace-binary-array-operand'
    if cat.endswith('-values') and isint:
        return 'pspace-integer-space-truncates-float-results'
    if cat.endswith('-dtype'):
        return 'pspace-result-dtype-forced-to-space-dtype'
    if cat.startswith('numpy-') and kind == 'space' and spec['x2'][1][0] == 0:
        # np.<ufunc>(power-space element, tensor element): the tensor element is the only operand with
        # __array_ufunc__, so NumpyTensor.__array_ufunc__ handles the call and cannot hold the larger result
        return 'pspace-tensor-operand-dispatches-to-tensor'
    return 'legacy2-%s-%s-%s' % (spec['ufunc'], kind, cat)


def legacy2_probes(rng, tier):
    out = []
    reps = 1 if tier == 'quick' else 4
    for _ in range(reps):
        for dtype in ('float64', 'int64'):
            for dims in ((2,), (2, 2), (3, 2), (2, 3), (2, 2, 2), (3, 2, 2), (2, 2, 3), (3, 3)):
                for name in ('add', 'subtract', 'multiply', 'maximum', 'true_divide', 'less', 'arctan2', 'hypot',
                             'power', 'copysign', 'logical_and', 'fmin'):
                    if np.dtype(dtype).kind == 'i' and name in ('arctan2', 'hypot', 'copysign'):
                        continue
                    n = rng.choice([1, 2, 3])
                    full = tuple(dims) + (n,)
                    pos = name in ('true_divide', 'power')

                    def vals(shape, lo=-3):
                        return [rng.randint(1 if pos else lo, 3) for _ in range(int(np.prod(shape)))]
                    cands = [('space', (len(dims), vals(full)))]
                    for lev in range(len(dims) - 1, -1, -1):
                        cands.append(('space', (lev, vals(full[len(dims) - lev:]))))
                    cands += [('scal', 2), ('arr', vals((n,))), ('arr', [2]),
                              ('arr', np.array(vals(full[-2:])).reshape(full[-2:]).tolist()),
                              ('list', vals((n,))),
                              ('list', np.array(vals(full[-2:])).reshape(full[-2:]).tolist())]
                    if len(dims) >= 2:
                        cands.append(('other', (dims[0], vals((dims[0], n)))))
                    for x2 in cands:
                        for with_out in (False, True):
                            if tier == 'quick' and rng.random() < 0.5:
                                continue
                            spec = {'dims': list(dims), 'n': n, 'dtype': dtype, 'ufunc': name, 'x': vals(full, -3),
                                    'x2': x2, 'out': with_out, 'numpy_api': True}
                            try:
                                ok, cat, obs, exp = legacy2_eval(spec)
                            except Exception as e:      # noqa
                                ok, cat, obs, exp = False, 'probe-crash', repr(e), None
                            rp = ("import sys\nsys.path.insert(0, %r)\nfrom harness.c17 import legacy2_eval\nspec = %r\n"
                                  "ok, category, observed, expected = legacy2_eval(spec)\n" % (C.VERIF, spec))
                            out.append(C.Probe(bool(ok), legacy2_key(spec, cat) if not ok else 'ok',
                                               'X.ufuncs.%s(x2%s) / np.%s(X, x2), X in a power space of dims %s over '
                                               'tensor_space(%d, %s), x2 = %s: NumPy on the stacked arrays'
                                               % (name, ', out=...' if with_out else '', name, dims, n, dtype, x2[0] if
                                                  x2[0] != 'space' else 'element of the space %d level(s) above the leaf'
                                                  % x2[1][0]), rp, {'category': cat, 'observed': obs, 'expected': exp}))
    return out


# ---- the out= contract: rejected with an error, or the passed object is returned and holds the values
OUT_KINDS = ['same', 'equal', 'f32', 'weighted', 'arr', 'arr32', 'view', 'elemview', 'tensor', 'tuple']
TWO_OUT_UFUNCS = ('modf', 'frexp', 'divmod')


def _contract_space(sd, dtype=None, weighting=None):
    import odl
    dtype = dtype or sd['dtype']
    kw = {} if weighting is None else {'weighting': weighting}
    if sd['kind'] == 'tens':
        return odl.tensor_space(tuple(sd['shape']), dtype=dtype, **kw)
    if sd['kind'] == 'disc':
        shape = tuple(sd['shape'])
        return odl.uniform_discr([0.0] * len(shape), [float(k) for k in shape], shape, dtype=dtype, **kw)
    sp = odl.tensor_space(sd['shape'][-1], dtype=dtype, **kw)
    for k in reversed(sd['shape'][:-1]):
        sp = sp ** k
    return sp


def _mk_out(sd, kind, shape, rdt):
    """an out container of the requested kind for a result of the given shape / dtype (None: not applicable)"""
    shape = tuple(shape)
    sd2 = dict(sd, shape=list(shape))
    if kind in ('same', 'equal', 'tuple'):
        return _contract_space(sd2, rdt).element(np.full(shape, 7, dtype=rdt))
    if kind == 'f32':
        if np.dtype(rdt) != np.float64:
            return None
        return _contract_space(sd2, 'float32').element(np.full(shape, 7, dtype='float32'))
    if kind == 'weighted':
        if np.dtype(rdt).kind != 'f':
            return None
        return _contract_space(sd2, rdt, weighting=2.0).element(np.full(shape, 7, dtype=rdt))
    if kind == 'arr':
        return np.full(shape, 7, dtype=rdt)
    if kind == 'arr32':
        return np.full(shape, 7, dtype='float32') if np.dtype(rdt) == np.float64 else None
    if kind == 'view':
        return make_layout(np.full(shape, 7, dtype=rdt), 'S')
    if kind == 'elemview':
        if sd['kind'] == 'pow':
            return None
        return _contract_space(sd2, rdt).element(make_layout(np.full(shape, 7, dtype=rdt), 'S'))
    if kind == 'tensor':
        if sd['kind'] != 'disc':
            return None
        return _contract_space(sd2, rdt).tspace.element(np.full(shape, 7, dtype=rdt))
    raise ValueError(kind)


def out_contract_eval(spec):
    """spec: space descr, iface 'numpy'|'legacy', op (name, method, axis), outs: list of out kinds or None per slot"""
    sd = spec['space']
    space = _contract_space(sd)
    shape = tuple(sd['shape'])
    x = space.element(np.array(spec['x'], dtype=sd['dtype']).reshape(shape))
    A = np.asarray(x).copy()
    name, method, axis = spec['op']
    uf = getattr(np, {'sum': 'add', 'prod': 'multiply', 'min': 'minimum', 'max': 'maximum'}.get(name, name))
    second = spec.get('second')
    raw_ins = [A] + ([] if second is None else [A.copy() if second == 'self' else second])
    ins = [x] + ([] if second is None else [x if second == 'self' else second])
    kw = {} if axis is None else {'axis': axis}
    f = uf if method == '__call__' else getattr(uf, method)
    with np.errstate(all='ignore'):
        plain = f(*raw_ins, **kw)
    plains = list(plain) if isinstance(plain, tuple) else [plain]
    if any(np.ndim(p) == 0 for p in plains):
        return True, 'scalar', None, None
    outs = []
    for kind, p in zip(spec['outs'], plains):
        o = None if kind is None else _mk_out(sd, kind, np.shape(p), np.asarray(p).dtype)
        if kind is not None and o is None:
            return True, 'n/a', None, None
        outs.append(o)
    # reference: NumPy on raw arrays with raw out arrays of the same dtype
    raw_outs = [None if o is None else np.full(np.shape(np.asarray(o)), 7, dtype=np.asarray(o).dtype) for o in outs]
    try:
        with np.errstate(all='ignore'):
            ref = f(*raw_ins, out=tuple(raw_outs) if len(raw_outs) > 1 else raw_outs[0], **kw) \
                if any(o is not None for o in raw_outs) else plain
        refs = list(ref) if isinstance(ref, tuple) else [ref]
        referr = None
    except Exception as e:      # noqa
        refs, referr = None, e
    tuple_form = 'tuple' in spec['outs']
    try:
        with np.errstate(all='ignore'):
            if spec['iface'] == 'numpy':
                okw = {}
                if any(o is not None for o in outs):
                    okw['out'] = tuple(outs) if (len(outs) > 1 or tuple_form) else outs[0]
                r = f(*ins, **kw, **okw)
            else:
                m = getattr(x.ufuncs, name)
                okw = dict(kw)
                if len(outs) == 2 and sd['kind'] == 'pow' and spec.get('pow_form') == 'out':
                    okw['out'] = tuple(outs)       # accepted since /repo commit 638a1b5
                elif len(outs) == 2 and sd['kind'] == 'pow':
                    if outs[0] is not None:
                        okw['out1'] = outs[0]
                    if outs[1] is not None:
                        okw['out2'] = outs[1]
                elif any(o is not None for o in outs):
                    okw['out'] = tuple(outs) if (len(outs) > 1 or tuple_form) else outs[0]
                r = m(*ins[1:], **okw)
    except Exception as e:      # noqa
        return None, 'rejected', '%s: %s' % (type(e).__name__, str(e)[:100]), None
    if refs is None:
        return False, 'accepts', 'returned', 'NumPy raises ' + type(referr).__name__
    rs = list(r) if isinstance(r, tuple) else [r]
    if len(rs) != len(refs):
        return False, 'arity', len(rs), len(refs)
    for k, (rk, ok_, refk) in enumerate(zip(rs, outs, refs)):
        if rk is None or rk is NotImplemented:
            return False, 'slot%d-none' % k, repr(rk), 'a result'
        if ok_ is not None:
            if rk is not ok_:
                return False, 'slot%d-identity' % k, type(rk).__name__, 'the passed out object'
            if not _same(np.asarray(ok_), refk):
                return False, 'slot%d-not-written' % k, np.asarray(ok_).tolist(), np.asarray(refk).tolist()
        else:
            if not np.array_equal(np.asarray(rk), np.asarray(refk)):
                return False, 'slot%d-values' % k, np.asarray(rk).tolist(), np.asarray(refk).tolist()
    if not _same(np.asarray(x), A):
        return False, 'input-changed', np.asarray(x).tolist(), A.tolist()
    return True, '', None, None


def out_contract_specs(rng, tier):
    spaces = [{'kind': 'tens', 'shape': [3], 'dtype': 'float64'}, {'kind': 'tens', 'shape': [2, 3], 'dtype': 'float64'},
              {'kind': 'disc', 'shape': [3], 'dtype': 'float64'}, {'kind': 'disc', 'shape': [2, 2], 'dtype': 'float64'},
              {'kind': 'pow', 'shape': [2, 3], 'dtype': 'float64'}, {'kind': 'pow', 'shape': [2, 2, 2], 'dtype': 'float64'}]
    for sd in spaces:
        n = int(np.prod(sd['shape']))
        for iface in ('numpy', 'legacy'):
            ops = [(('negative', '__call__', None), None), (('square', '__call__', None), None),
                   (('add', '__call__', None), 'self'), (('multiply', '__call__', None), 2.0)]
            if sd['kind'] != 'pow' and len(sd['shape']) > 1:
                if iface == 'numpy':
                    ops += [(('add', 'reduce', 0), None), (('maximum', 'reduce', 1), None),
                            (('add', 'accumulate', 0), None)]
                else:
                    ops += [(('sum', 'reduce', 0), None), (('max', 'reduce', 1), None)]
            elif iface == 'numpy' and sd['kind'] != 'pow':
                ops += [(('add', 'accumulate', 0), None)]
            for (op, second) in ops:
                for kind in OUT_KINDS:
                    yield {'space': sd, 'iface': iface, 'op': list(op), 'second': second, 'outs': [kind],
                           'x': [rng.choice([0.5, 1.0, 1.5, 2.0, -2.5, 3.0]) for _ in range(n)]}
            for name in TWO_OUT_UFUNCS:
                second = 2.0 if name == 'divmod' else None
                if iface == 'legacy' and name not in ('modf',):
                    continue       # only modf is in the legacy namespace
                pats = [[a, b] for a in (None, 'same', 'arr') for b in (None, 'same', 'arr')]
                pats += [['f32', None], [None, 'view'], ['equal', 'equal'], ['tensor', None], [None, 'tensor']]
                for pat in pats:
                    yield {'space': sd, 'iface': iface, 'op': [name, '__call__', None], 'second': second, 'outs': pat,
                           'x': [rng.choice([0.5, 1.25, 1.5, 2.0, 2.5, 3.0]) for _ in range(n)]}
                    if iface == 'legacy' and sd['kind'] == 'pow' and pat[0] in (None, 'same') and pat[1] in (None, 'same'):
                        yield {'space': sd, 'iface': iface, 'op': [name, '__call__', None], 'second': second,
                               'outs': pat, 'pow_form': 'out',
                               'x': [rng.choice([0.5, 1.25, 1.5, 2.0, 2.5, 3.0]) for _ in range(n)]}


# combinations the current interfaces refuse (measured; a refusal anywhere else is a failure)
def _may_reject(spec):
    sd, iface, outs = spec['space'], spec['iface'], spec['outs']
    given = [k for k in outs if k is not None]
    if sd['kind'] == 'pow' and iface == 'numpy' and any(k in ('same', 'equal', 'f32', 'weighted', 'tuple') for k in given):
        return True        # finding pspace-out-element-unsupported
    return False


def out_contract_probes(rng, tier):
    out = []
    for spec in out_contract_specs(rng, tier):
        try:
            ok, cat, obs, exp = out_contract_eval(spec)
        except Exception as e:      # noqa
            ok, cat, obs, exp = False, 'probe-crash', repr(e), None
        if ok is None:
            ok = _may_reject(spec)
            cat = 'rejected'
        rp = ("import sys\nsys.path.insert(0, %r)\nfrom harness.c17 import out_contract_eval\nspec = %r\n"
              "ok, category, observed, expected = out_contract_eval(spec)\nok = bool(ok)\n" % (C.VERIF, spec))
        key = 'out-contract-%s-%s-%s-%s-%s' % (spec['iface'], spec['space']['kind'], spec['op'][0],
                                               '+'.join(str(k) for k in spec['outs']), cat)
        if spec['iface'] == 'legacy' and spec['outs'] == ['tuple']:
            if spec['space']['kind'] == 'pow' and cat == 'slot0-not-written':
                key = 'legacy-pspace-out-tuple-misread'
            elif spec['space']['kind'] != 'pow' and cat == 'slot0-none' and (
                    spec['second'] is not None or spec['op'][0] in ('sum', 'prod', 'min', 'max')):
                key = 'legacy-binary-out-tuple-returns-notimplemented'
        if spec['iface'] == 'legacy' and spec['space']['kind'] == 'pow' and len(spec['space']['shape']) > 2 \
                and spec['op'][0] in TWO_OUT_UFUNCS and cat == 'rejected':
            key = 'legacy-pspace-two-output-nested'
        if spec['iface'] == 'legacy' and spec['space']['kind'] == 'pow' and spec.get('pow_form') == 'out' and not ok:
            key = 'legacy-pspace-two-output-nested'
        out.append(C.Probe(bool(ok), key if not ok else 'ok',
                           'out= contract (%s interface, %s space %s): %s%s with out kinds %s -- rejected or the passed '
                           'object is returned and holds NumPy\'s values'
                           % (spec['iface'], spec['space']['kind'], spec['space']['shape'], spec['op'][0],
                              '' if spec['op'][1] == '__call__' else '.' + spec['op'][1], spec['outs']),
                           rp, {'category': cat, 'observed': obs, 'expected': exp}))
    return out


# ---- result-space construction for every pair of input weighting kinds
def _ws_inner(x, y):
    return float(np.real(np.vdot(np.asarray(y), np.asarray(x))))


def _ws_norm(x):
    return float(np.sqrt(np.sum(np.abs(np.asarray(x)) ** 2)))


W_KINDS = ['none', 'const', 'array', 'inner', 'norm']


def _ws_space(kind, w, shape, dtype):
    import odl
    shape = tuple(shape)
    rdt = {'float32': 'float32', 'complex64': 'float32'}.get(dtype, 'float64')
    kw = {}
    if w == 'const':
        kw['weighting'] = 2.0
    elif w == 'array':
        kw['weighting'] = np.arange(1, 1 + int(np.prod(shape)), dtype=rdt).reshape(shape)
    elif w == 'inner':
        kw['inner'] = _ws_inner
    elif w == 'norm':
        kw['norm'] = _ws_norm
    ts = odl.tensor_space(shape, dtype=dtype, **kw)
    if kind == 'tens':
        return ts
    part = odl.uniform_partition([0.0] * len(shape), [float(k) / 2 for k in shape], shape)
    if w == 'none':
        return odl.uniform_discr([0.0] * len(shape), [float(k) / 2 for k in shape], shape, dtype=dtype)
    return odl.DiscretizedSpace(part, ts)


def _w_descr(sp):
    from odl.space.weighting import ConstWeighting, ArrayWeighting
    w = sp.weighting
    if isinstance(w, ConstWeighting):
        return ('const', float(w.const), float(sp.exponent))
    if isinstance(w, ArrayWeighting):
        return ('array', np.asarray(w.array).tolist(), float(sp.exponent))
    return (type(w).__name__, id(getattr(w, 'inner', None) or getattr(w, 'norm', None) or getattr(w, 'dist', None)),
            float(sp.exponent))


def result_space_eval(spec):
    """values against NumPy and the attributes of the result space against the documented / modelled rules"""
    import odl
    kind, method, dtype = spec['kind'], spec['method'], spec['dtype']
    uf = getattr(np, spec['ufunc'])
    s1 = _ws_space(kind, spec['w1'], spec['shape1'], dtype)
    x = s1.element(np.array(spec['x'], dtype=dtype).reshape(spec['shape1']))
    A = np.asarray(x).copy()
    y = B = None
    if method in ('outer', 'call2'):
        s2 = _ws_space(kind, spec['w2'], spec['shape2'], dtype)
        y = s2.element(np.array(spec['y'], dtype=dtype).reshape(spec['shape2']))
        B = np.asarray(y).copy()
    with np.errstate(all='ignore'):
        if method == 'outer':
            ref = uf.outer(A, B)
        elif method == 'call2':
            ref = uf(A, B)
        elif method == 'call1':
            ref = uf(A)
        elif method == 'reduce':
            ref = uf.reduce(A, axis=spec['axis'])
        else:
            ref = uf.accumulate(A, axis=spec['axis'])
    try:
        with np.errstate(all='ignore'):
            if method == 'outer':
                r = uf.outer(x, y)
            elif method == 'call2':
                r = uf(x, y)
            elif method == 'call1':
                r = uf(x)
            elif method == 'reduce':
                r = uf.reduce(x, axis=spec['axis'])
            else:
                r = uf.accumulate(x, axis=spec['axis'])
    except Exception as e:      # noqa
        return False, 'raises', '%s: %s' % (type(e).__name__, str(e)[:110]), 'NumPy returns shape %s' % (np.shape(ref),)
    if np.ndim(ref) == 0:
        return (bool(np.isscalar(r) and _same(r, ref)), 'scalar', repr(r), repr(ref))
    if not isinstance(r, type(x)):
        return False, 'kind', type(r).__name__, type(x).__name__
    if not _same(np.asarray(r), ref) or np.asarray(r).dtype != ref.dtype:
        return False, 'values', np.asarray(r).tolist(), ref.tolist()
    sp = r.space
    if tuple(sp.shape) != ref.shape or sp.dtype != ref.dtype:
        return False, 'shape-dtype', (tuple(sp.shape), str(sp.dtype)), (ref.shape, str(ref.dtype))
    # ---- weighting rule
    floating = ref.dtype.kind in 'fc'
    tsp = sp if kind == 'tens' else sp.tspace
    got = _w_descr(tsp)
    w1d = _w_descr(s1 if kind == 'tens' else s1.tspace)
    same_shape = ref.shape == tuple(s1.shape)
    if not floating:
        want = ('const', 1.0, 2.0)
    elif kind == 'disc' and method == 'outer':
        w2d = _w_descr(s2.tspace)
        if w1d[0] == 'const' and w2d[0] == 'const':
            want = ('const', w1d[1] * w2d[1], w1d[2])
        else:
            want = ('const', 1.0, w1d[2])
    elif kind == 'disc' and method == 'reduce' and not same_shape:
        kept = [i for i in range(len(spec['shape1'])) if i != spec['axis'] % len(spec['shape1'])]
        if w1d[0] == 'const':
            want = ('const', float(np.prod([s1.partition.cell_sides[i] for i in kept])), w1d[2])
        else:
            want = None          # array / custom weightings: no documented rule (array: finding discr-reduce-array-weighting)
    elif same_shape:
        want = w1d
    else:
        want = ('const', 1.0, w1d[2])
    if want is not None:
        ok = (got[0] == want[0] and got[2] == want[2] and
              (np.allclose(got[1], want[1], rtol=1e-12, atol=0) if got[0] in ('const', 'array') else got[1] == want[1]))
        if not ok:
            return False, 'weighting', got if got[0] != 'array' else ('array', '...', got[2]), \
                want if want[0] != 'array' else ('array', '...', want[2])
    # ---- partition of a discretized result
    if kind == 'disc':
        p = sp.partition
        if method == 'outer':
            wmin = list(s1.partition.min_pt) + list(s2.partition.min_pt)
            wmax = list(s1.partition.max_pt) + list(s2.partition.max_pt)
        elif method == 'reduce' and not same_shape:
            wmin = [s1.partition.min_pt[i] for i in kept]
            wmax = [s1.partition.max_pt[i] for i in kept]
        else:
            wmin, wmax = list(s1.partition.min_pt), list(s1.partition.max_pt)
        if not (np.allclose(p.min_pt, wmin) and np.allclose(p.max_pt, wmax)):
            return False, 'partition', (list(p.min_pt), list(p.max_pt)), (wmin, wmax)
    if not _same(np.asarray(x), A):
        return False, 'input-changed', None, None
    return True, '', None, None


def result_space_specs(rng, tier):
    for kind in ('disc', 'tens'):
        for dtype in ('float64', 'float32', 'complex128'):
            def data(shape):
                return [rng.randint(-3, 3) for _ in range(int(np.prod(shape)))]
            for w1 in W_KINDS:
                for w2 in W_KINDS:
                    for name in ('multiply', 'add') + (('less',) if dtype != 'complex128' else ()):
                        sh1, sh2 = rng.choice([[2], [3], [2, 2]]), rng.choice([[2], [3]])
                        yield {'kind': kind, 'method': 'outer', 'ufunc': name, 'dtype': dtype, 'w1': w1, 'w2': w2,
                               'shape1': sh1, 'shape2': sh2, 'x': data(sh1), 'y': data(sh2)}
                    sh = rng.choice([[3], [2, 3]])
                    yield {'kind': kind, 'method': 'call2', 'ufunc': 'add', 'dtype': dtype, 'w1': w1, 'w2': w2,
                           'shape1': sh, 'shape2': sh, 'x': data(sh), 'y': data(sh)}
                sh = rng.choice([[2, 3], [3, 2], [2, 2, 2]])
                for ax in range(-len(sh), len(sh)):
                    yield {'kind': kind, 'method': 'reduce', 'ufunc': 'add', 'dtype': dtype, 'w1': w1, 'shape1': sh,
                           'axis': ax, 'x': data(sh)}
                yield {'kind': kind, 'method': 'accumulate', 'ufunc': 'add', 'dtype': dtype, 'w1': w1, 'shape1': sh,
                       'axis': rng.randrange(len(sh)), 'x': data(sh)}
                for name in ('negative', 'isfinite', 'absolute'):
                    yield {'kind': kind, 'method': 'call1', 'ufunc': name, 'dtype': dtype, 'w1': w1, 'shape1': sh,
                           'x': data(sh)}


def result_space_probes(rng, tier):
    out = []
    for spec in result_space_specs(rng, tier):
        try:
            ok, cat, obs, exp = result_space_eval(spec)
        except Exception as e:      # noqa
            ok, cat, obs, exp = False, 'probe-crash', repr(e), None
        rp = ("import sys\nsys.path.insert(0, %r)\nfrom harness.c17 import result_space_eval\nspec = %r\n"
              "ok, category, observed, expected = result_space_eval(spec)\nok = bool(ok)\n" % (C.VERIF, spec))
        key = 'result-space-%s-%s-%s-%s-%s' % (spec['kind'], spec['method'], spec['w1'], spec.get('w2', ''), cat)
        if spec['kind'] == 'disc' and spec['method'] == 'reduce' and spec['w1'] == 'array' and cat == 'raises':
            key = 'discr-reduce-array-weighting'
        out.append(C.Probe(bool(ok), key if not ok else 'ok',
                           'np.%s%s on %s elements with weightings (%s%s), %s: values as NumPy and the result space '
                           '(shape, dtype, weighting rule, partition) as documented'
                           % (spec['ufunc'], {'outer': '.outer', 'reduce': '.reduce', 'accumulate': '.accumulate'}.get(
                               spec['method'], ''), spec['kind'], spec['w1'], ', ' + spec['w2'] if 'w2' in spec else '',
                              spec['dtype']), rp, {'category': cat, 'observed': obs, 'expected': exp}))
    return out


# ---- position of the ODL operand: target / value operand / both, for at, outer and __call__
def position_eval(spec):
    sd = spec['space']
    space = _contract_space(sd)
    shape = tuple(sd['shape'])
    uf = getattr(np, spec['ufunc'])
    method = spec['method']
    a0 = np.array(spec['a'], dtype=sd['dtype']).reshape(shape)
    if method == 'at':
        vshape = (len(spec['idx']),) + shape[1:]
    else:
        vshape = shape
    b0 = np.array(spec['b'], dtype=sd['dtype']).reshape(vshape)

    def run(raw):
        a, b = a0.copy(), b0.copy()
        if raw:
            A, B = a, b
        else:
            vspace = space if vshape == shape else _contract_space(dict(sd, shape=list(vshape), kind='tens' if sd['kind'] != 'pow' else 'pow'))
            A = space.element(a) if spec['pos'] in ('target', 'both') else a
            B = vspace.element(b) if spec['pos'] in ('value', 'both') else b
        with np.errstate(all='ignore'):
            if method == 'at':
                r = uf.at(A, list(spec['idx']), B)
            elif method == 'outer':
                r = uf.outer(A, B)
            else:
                r = uf(A, B)
        return r, np.asarray(A), np.asarray(B), a, b
    er, eA, eB, ea, eb = run(True)
    try:
        orr, oA, oB, oa, ob = run(False)
    except Exception as e:      # noqa
        return None, 'rejected', '%s: %s' % (type(e).__name__, str(e)[:100]), None
    if er is None:
        if orr is not None:
            return False, 'return', type(orr).__name__, 'None'
    else:
        if not _same(np.asarray(orr), er):
            return False, 'values', np.asarray(orr).tolist(), np.asarray(er).tolist()
    # the operands afterwards: both the ODL view and the raw arrays underneath
    if not _same(oA, eA) or (spec['pos'] == 'value' and not _same(oa, ea)):
        return False, 'target-contents', oA.tolist(), eA.tolist()
    if not _same(oB, eB) or (spec['pos'] == 'target' and not _same(ob, eb)):
        return False, 'value-operand-changed', oB.tolist(), eB.tolist()
    return True, '', None, None


def position_specs(rng, tier):
    spaces = [{'kind': 'tens', 'shape': [4], 'dtype': 'float64'}, {'kind': 'tens', 'shape': [3, 2], 'dtype': 'float64'},
              {'kind': 'disc', 'shape': [4], 'dtype': 'float64'}, {'kind': 'disc', 'shape': [2, 2], 'dtype': 'float64'},
              {'kind': 'pow', 'shape': [3, 2], 'dtype': 'float64'}, {'kind': 'tens', 'shape': [3], 'dtype': 'int64'}]
    for sd in spaces:
        n = int(np.prod(sd['shape']))
        for method, names in (('at', ('add', 'multiply', 'maximum', 'subtract')), ('outer', ('add', 'multiply')),
                              ('__call__', ('add', 'subtract', 'maximum'))):
            for name in names:
                for pos in ('target', 'value', 'both'):
                    idx = [rng.randrange(sd['shape'][0]) for _ in range(rng.randint(1, 3))] if method == 'at' else []
                    nb = (len(idx) * int(np.prod(sd['shape'][1:]))) if method == 'at' else n
                    yield {'space': sd, 'ufunc': name, 'method': method, 'pos': pos, 'idx': idx,
                           'a': [rng.randint(-3, 3) for _ in range(n)], 'b': [rng.randint(1, 3) for _ in range(nb)]}


def _position_may_reject(spec):
    k, m = spec['space']['kind'], spec['method']
    if k == 'pow' and m == 'at' and spec['pos'] in ('target', 'both'):
        return True        # finding pspace-at-not-wrapped
    if k == 'disc' and m == 'outer' and spec['pos'] != 'both':
        return True        # documented: discretized outer needs two elements
    return False


def position_probes(rng, tier):
    out = []
    for spec in position_specs(rng, tier):
        try:
            ok, cat, obs, exp = position_eval(spec)
        except Exception as e:      # noqa
            ok, cat, obs, exp = False, 'probe-crash', repr(e), None
        if ok is None:
            ok, cat = _position_may_reject(spec), 'rejected'
        rp = ("import sys\nsys.path.insert(0, %r)\nfrom harness.c17 import position_eval\nspec = %r\n"
              "ok, category, observed, expected = position_eval(spec)\nok = bool(ok)\n" % (C.VERIF, spec))
        key = 'operand-position-%s-%s-%s-%s-%s' % (spec['space']['kind'], spec['ufunc'], spec['method'], spec['pos'], cat)
        if spec['space']['kind'] == 'pow' and spec['method'] == 'outer' and cat == 'values':
            key = key      # values are compared as arrays: outer on power spaces returns a plain ndarray (known, harmless here)
        out.append(C.Probe(bool(ok), key if not ok else 'ok',
                           'np.%s%s with the ODL element (%s space %s) as %s operand: same return value and same '
                           'final contents of BOTH operands as NumPy on the arrays'
                           % (spec['ufunc'], '' if spec['method'] == '__call__' else '.' + spec['method'],
                              spec['space']['kind'], spec['space']['shape'], spec['pos']),
                           rp, {'category': cat, 'observed': obs, 'expected': exp}))
    return out


def sharing_eval(spec):
    """space.element(arr) shares memory with arr (matching dtype/shape), asarray round-trips"""
    space = build_space(spec['space'])
    shape = tuple(space_shape(spec['space']))
    arr = make_layout(np.array(spec['data'], dtype=spec['adtype']).reshape(shape), spec.get('layout', 'C'))
    before = arr.copy()
    x = space.element(arr)
    a = x.asarray()
    if not _same(a, before.astype(space.dtype)):
        return False, 'roundtrip', a.tolist(), before.tolist()
    if not _same(np.asarray(x), a):
        return False, 'np.asarray', None, None
    match = np.dtype(spec['adtype']) == space.dtype
    if spec['space']['kind'] == 'pow':
        shares = all(np.shares_memory(arr, np.asarray(part)) for part in x) if match else True
    else:
        shares = bool(np.shares_memory(arr, a)) if match else True
    if not shares:
        return False, 'not-shared', None, None
    if match and arr.size:
        # a write through the array is seen through the element and vice versa
        idx = tuple(0 for _ in shape)
        arr[idx] = 9
        if np.asarray(x)[idx] != 9:
            return False, 'write-not-visible', None, None
        x2 = space.element(arr)
        if spec['space']['kind'] != 'pow':
            x2.asarray()[idx] = 5
            if arr[idx] != 5:
                return False, 'write-back-not-visible', None, None
        # a ufunc with out= aliased to the element is seen through the wrapped array
        x3 = space.element(arr)
        if spec['space']['kind'] != 'pow' and np.dtype(spec['adtype']).kind in 'fi':
            expect = (arr * 2).copy()
            r = np.multiply(x3, 2, out=x3)
            if r is not x3 or not _same(arr, expect):
                return False, 'out-alias-not-visible', arr.tolist(), expect.tolist()
    return True, '', None, None


def pspace_asarray_eval(spec):
    """np.asarray / np.array of a power-space element with and without dtype="""
    import odl
    dims, n = tuple(spec['dims']), spec['n']
    sp = odl.tensor_space(n, dtype=spec['dtype'])
    for k in reversed(dims):
        sp = sp ** k
    full = dims + (n,)
    data = np.array(spec['x'], dtype=spec['dtype']).reshape(full)
    X = sp.element(data)
    want = data if spec['as'] is None else data.astype(spec['as'])
    for how in ('asarray', 'array', '__array__'):
        try:
            if how == '__array__':
                got = X.__array__() if spec['as'] is None else X.__array__(np.dtype(spec['as']))
            else:
                f = getattr(np, how)
                got = f(X) if spec['as'] is None else f(X, dtype=spec['as'])
        except Exception as e:      # noqa
            return False, how + '-raises', '%s: %s' % (type(e).__name__, str(e)[:100]), 'an array of dtype %s' % want.dtype
        if not isinstance(got, np.ndarray) or got.dtype != want.dtype or not _same(got, want):
            return False, how + '-values', (str(getattr(got, 'dtype', None)), np.asarray(got).tolist()), \
                (str(want.dtype), want.tolist())
    if spec['as'] is None and X.asarray().dtype != np.dtype(spec['dtype']):
        return False, 'asarray-dtype', str(X.asarray().dtype), spec['dtype']
    return True, '', None, None


def structural_probes(rng, tier):
    out = []
    # ---- np.asarray(X[, dtype]) of power-space elements (repaired by /repo commit f3f904a)
    for dims in ((2,), (2, 3), (1, 2, 2)):
        for dtype in ('float64', 'float32', 'int64', 'complex128'):
            for as_ in (None, 'float64', 'float32', 'complex128', 'int64'):
                if as_ is not None and np.dtype(dtype).kind == 'c' and np.dtype(as_).kind != 'c':
                    continue
                n = rng.choice([1, 2, 3])
                spec = {'dims': list(dims), 'n': n, 'dtype': dtype, 'as': as_,
                        'x': [rng.randint(-4, 4) for _ in range(int(np.prod(dims)) * n)]}
                try:
                    ok, cat, obs, exp = pspace_asarray_eval(spec)
                except Exception as e:      # noqa
                    ok, cat, obs, exp = False, 'crash', repr(e), None
                rp = ("import sys\nsys.path.insert(0, %r)\nfrom harness.c17 import pspace_asarray_eval\nspec = %r\n"
                      "ok, category, observed, expected = pspace_asarray_eval(spec)\n" % (C.VERIF, spec))
                out.append(C.Probe(bool(ok), 'pspace-array-dtype-argument' if as_ is not None else 'pspace-asarray-%s' % cat,
                                   'np.asarray / np.array / __array__ of a power-space element %s over tensor_space(%d, %s)'
                                   ' with dtype=%s' % (dims, n, dtype, as_), rp,
                                   {'category': cat, 'observed': obs, 'expected': exp}))
    reps = 2 if tier == 'quick' else 8
    # ---- sharing / round trip
    for _ in range(reps):
        for kind in ('tens', 'disc', 'pow'):
            for dtype in ('float64', 'float32', 'int64', 'complex128'):
                for adt in (dtype, 'int32'):
                    sd = rand_space_descr(rng, kind, dtype)
                    sd.pop('weighting', None)
                    shape = space_shape(sd)
                    for lay in LAYOUTS:
                        spec = {'space': sd, 'adtype': adt, 'data': rand_data(rng, [int(np.prod(shape))], 'int32'),
                                'layout': lay}
                        try:
                            ok, cat, obs, exp = sharing_eval(spec)
                        except Exception as e:      # noqa
                            ok, cat, obs, exp = False, 'crash', repr(e), None
                        rp = ("import sys\nsys.path.insert(0, %r)\nfrom harness.c17 import sharing_eval\nspec = %r\n"
                              "ok, category, observed, expected = sharing_eval(spec)\n" % (C.VERIF, spec))
                        out.append(C.Probe(bool(ok), 'wrap-%s-%s' % (kind, cat), 'space.element(arr) [layout %s] shares memory with arr / ' % lay +
                                           'asarray round-trips (%s, %s <- %s)' % (kind, dtype, adt), rp,
                                           {'category': cat, 'observed': obs, 'expected': exp}))
    # ---- legacy interface
    from odl.util.ufuncs import RAW_UFUNCS
    for _ in range(1 if tier == 'quick' else 3):
        for kind in ('tens', 'disc', 'pow'):
            for dtype in ('float64', 'int64'):
                for name in RAW_UFUNCS + ['sum', 'prod', 'min', 'max']:
                    isint = np.dtype(dtype).kind in 'iu'
                    if not isint and name in ('bitwise_and', 'bitwise_or', 'bitwise_xor', 'invert', 'left_shift',
                                              'right_shift'):
                        continue
                    sd = rand_space_descr(rng, kind, dtype)
                    shape = space_shape(sd)
                    pos = name in ('power', 'left_shift', 'right_shift', 'floor_divide', 'remainder', 'mod', 'fmod',
                                   'true_divide', 'divide', 'log', 'log2', 'log10', 'sqrt', 'reciprocal')
                    ins = [('self', rand_data(rng, shape, dtype, pos))]
                    spec = {'space': sd, 'ufunc': name, 'ins': ins, 'kwargs': {}}
                    if name in ('sum', 'prod', 'min', 'max'):
                        if kind != 'pow':
                            c = rng.choice(['none', 'axis', 'keepdims', 'dtype'])
                            if c == 'axis':
                                spec['kwargs']['axis'] = rng.randrange(len(shape))
                            elif c == 'keepdims':
                                spec['kwargs'] = {'axis': rng.randrange(len(shape)), 'keepdims': True}
                            elif c == 'dtype' and not isint:
                                spec['kwargs']['dtype'] = 'float32'
                    else:
                        uf = getattr(np, name)
                        if uf.nin == 2:
                            c = rng.choice(['self', 'arr', 'scal'])
                            if c == 'self':
                                ins.append(('self', rand_data(rng, shape, dtype, pos)))
                            elif c == 'arr':
                                ins.append(('arr', rand_data(rng, shape, dtype, pos), dtype))
                            else:
                                ins.append(('scal', 2 if isint else 2.0))
                        if uf.nout == 1 and rng.random() < 0.5:
                            try:
                                with np.errstate(all='ignore'):
                                    rdt = uf(*[np.array(i[1], dtype=dtype) if i[0] != 'scal' else i[1] for i in ins]).dtype.name
                            except Exception:
                                rdt = None
                            if rdt == dtype or (rdt is not None and kind != 'pow'):
                                ok_ = rng.choice(['elem', 'arr', 'tensor'] if kind == 'disc' else ['elem', 'arr'])
                                if kind == 'pow':
                                    ok_ = 'elem'
                                spec['out'] = {'kind': ok_, 'shape': shape, 'dtype': rdt}
                    out.append(mk_legacy_probe(spec))
    return out


LEVEL_TEXT = ('Partial proof. Proved in Coq for an ARBITRARY ufunc semantics NP (any ufunc, method, dtype, shape, keyword '
              'options, operand mix and order), arbitrary number type and dtype conversion: the model of '
              'NumpyTensor.__array_ufunc__ / DiscretizedSpaceElement.__array_ufunc__ / writable_array over a store of '
              'buffers is transparent -- whenever the ODL call returns, NumPy on the underlying arrays returns, the '
              'final stores coincide (same numbers, nothing else touched), results are elements of the same kind over '
              'the buffer NumPy produced with its shape and dtype (discretized: with self\'s partition, restricted to '
              'the kept axes for reduce), scalars/None pass through, out= containers (element, tensor, ndarray) are '
              'written and returned (both directions); completeness under the exact guards of the code; wrapping '
              'shares memory. The full completeness statements are refuted with concrete witnesses (recorded '
              'findings) and proved for the repaired variants. For the exact array semantics of add/subtract/multiply/'
              'maximum/minimum/negative/absolute/square/sign: all-sizes shape laws, accumulate prefix/last = reduce, '
              'add.at accumulates repeated indices (vs. fancy assignment), reduce(add) preserves totals, outer laws. '
              'Tie to the source: in-Coq correspondence of ODL AND raw NumPy against the model on ~1600 (quick) / ~6500 '
              '(thorough) calls. Agreement with NumPy for all other ufuncs, dtypes, power spaces and the legacy '
              'x.ufuncs interface is differential probing only.')
LEVEL_NOTE = ('NumPy is an external oracle: its type resolution and the numbers of non-modelled ufuncs are taken from '
              'NumPy per case. Power-space elements (no __array_ufunc__) and x.ufuncs are probed, not modelled; 17 '
              'recorded discrepancies (findings/C17.json). Exact arithmetic; rounding/NaN/overflow out of scope. '
              'Theorems over abstract T are closed under the global context; the R-instance laws use the classical '
              'reals axioms as printed.')
TECHNIQUE = ('Coq proof parametric in the NumPy semantics (store/heap model of the wrapper layer) + list-induction '
             'laws of the ufunc methods + in-Coq differential correspondence against ODL and raw NumPy + variant '
             'switches for recorded findings')
