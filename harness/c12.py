"""C12 solvers: descent / monotonicity / fixed points / power-method bound.
Correspondence (model iterates at Q vs. implementation iterates) + probes."""
import numpy as np

from . import common as C

from translate import solvers as TS11
from translate import solvers_c12 as TS12

PID = 'C12'


def translate():
    # Gen/Solvers.v: C11's translator (landweber, kaczmarz, pdhg, admm, proximal gradient, ... as programs);
    # Gen/SolversC12.v: cg, cgn, power method, forward-backward as Gallina over the generic operations
    return {'Gen/Solvers.v': TS11.translate(), 'Gen/SolversC12.v': TS12.translate()}

SHARD_SIZE = 40
RULE = ('every anchored solver loop is run on small integer/dyadic problems (rn, constant-weighted rn and '
        'uniform_discr spaces; dense integer matrices incl. ill-conditioned SPD ones, PartialDerivative and scaled identities, '
        'given to the model as their measured matrix and adjoint matrix; functionals zero / indicator-zero / c*L1 / c*L2^2 / box '
        'and their translates as f, g, l; dyadic steps incl. inadmissible ones; constant, callable and default relaxation; '
        'budgets 0..8; 0..3 operators for the splittings; accelerated pdhg; line searches called once and twice with and without '
        'dir_derivative, ascent directions, exhausted budgets) and the callback iterates / returned values / raised errors are '
        'compared with the Coq model run at Q on the same data; a case is non-trivial when at least one iterate differs from '
        'the start vector; distinct by (solver, operator matrix, functionals, steps, start, budget, options)')
ASSUMPTIONS = [
    'exact arithmetic: theorems speak about the unrounded iterates; the implementation is compared with them up to 1e-8',
    'proximal operators are taken as maps satisfying the proximal inequality (property C07); gradients as given maps',
    'operators enter the theorems as bounded linear maps with an exact adjoint (property C05)',
    'convergence of the non-smooth solvers is NOT proved (fixed points and optimality characterisation are); '
    'it is watched by KKT-residual probes only',
    'random-order kaczmarz, projections, accelerated pdhg (changing steps), l-terms of the primal-dual splittings, '
    'newton/bfgs/nonlinear-cg are outside the model']
TRUSTED = [
    'translate/solvers_c12.py (Python ast -> Gallina, symbolic execution with object identity, fail-closed): its statement '
    'grammar and the mappings v.norm()**2 -> <v,v>, a.inner(b) -> <a,b>, x.lincomb(a,u,b,v) -> a*u+b*v, x /= s -> (1/s)*x, '
    'E + sum(Li.adjoint(vi) ...) and the L[0].adjoint(..)/for .. += idiom -> left fold over the blocks; the tests it is '
    'configured to drop (argument validation, callback, isfinite/isnan) or to resolve (use_normal, l is not None, len(L) > 0, '
    'np.isclose never true); for BacktrackingLineSearch and the final-iteration / empty-L branches of douglas_rachford_pd '
    'the control skeleton is pinned text, only the formulas are regenerated',
    'translate/solvers.py + C11/Interp.v + C11/GenProofs.v (property C11) for landweber, kaczmarz, pdhg, admm_linearized, '
    '(accelerated_)proximal_gradient, steepest_descent: C12/Bridge.v proves the C12 list steps equal to C11\'s models',
    'harness/c12.py: measuring an operator by its matrix on unit vectors, recording callback copies',
    'C12/Model.v list instance (mvec/wdot) and the separable proximal formulas fprox/fcprox (validated by the correspondence)',
    'the abstract-space theorems apply to the list steps through the generic definitions (same Gallina term instantiated); '
    'the transport is PROVED for Landweber and CG (C12/Inst.v, C12/Dim.v), not for the other solvers']


# ------------------------------------------------------------------ helpers
def _flat(el):
    import odl
    if isinstance(el.space, odl.ProductSpace):
        return np.concatenate([_flat(e) for e in el])
    return np.asarray(el, dtype=float).ravel()


def _unflat(space, arr):
    import odl
    arr = np.asarray(arr, dtype=float)
    if isinstance(space, odl.ProductSpace):
        out, k = [], 0
        for sp in space:
            n = _size(sp)
            out.append(_unflat(sp, arr[k:k + n]))
            k += n
        return space.element(out)
    return space.element(arr.reshape(space.shape))


def _size(space):
    import odl
    if isinstance(space, odl.ProductSpace):
        return sum(_size(sp) for sp in space)
    return int(np.prod(space.shape))


def _matrix(op):
    n = _size(op.domain)
    cols = []
    for j in range(n):
        e = np.zeros(n)
        e[j] = 1.0
        cols.append(_flat(op(_unflat(op.domain, e))))
    return np.array(cols).T.reshape(_size(op.range), n)


def _weights(space):
    """vector w with <x,y> = sum w_i x_i y_i"""
    import odl
    if isinstance(space, odl.ProductSpace):
        return np.concatenate([_weights(sp) for sp in space])
    n = _size(space)
    ones = space.one()
    w = []
    for j in range(n):
        e = np.zeros(n)
        e[j] = 1.0
        w.append(float(_unflat(space, e).inner(ones)))
    return np.array(w)


def _ivec(rng, n, lo=-4, hi=4):
    return [float(rng.randint(lo, hi)) for _ in range(n)]


def _imat(rng, m, n, lo=-3, hi=3):
    while True:
        M = np.array([[float(rng.randint(lo, hi)) for _ in range(n)] for _ in range(m)])
        if np.any(M):
            return M


def _spd(rng, n, ill=False):
    B = _imat(rng, n, n, -2, 2)
    S = B.T.dot(B) + (0.25 if ill else float(rng.randint(1, 3))) * np.eye(n)
    if ill:
        S = S + np.diag([0.0] * (n - 1) + [float(rng.choice([64, 256]))])
    return S


def _space(rng, n, kinds=('rn', 'rnw', 'discr')):
    import odl
    k = rng.choice(kinds)
    if k == 'rn':
        return odl.rn(n), 'rn'
    if k == 'rnw':
        return odl.rn(n, weighting=rng.choice([2.0, 0.5, 4.0])), 'rn-const-weight'
    return odl.uniform_discr(0, n * rng.choice([0.5, 2.0, 1.0]), n), 'uniform_discr'


class _cguard(object):
    """correspondence generators: an exception raised by the implementation on one case becomes one case that fails
    (constructor CRaised of C12/Corr.v, check = false) with the exception in its description"""

    def __init__(self, cs, family):
        self.cs, self.family = cs, family

    def __enter__(self):
        return self

    def __exit__(self, et, ev, tb):
        if et is None or issubclass(et, (KeyboardInterrupt, SystemExit, GeneratorExit)):
            return False
        self.cs.add('CRaised', {'family': self.family, 'raised': '%s: %s' % (et.__name__, str(ev)[:200])},
                    ('raised', self.family, et.__name__))
        return True


def _cb(tr):
    return lambda x: tr.append(_flat(x).tolist())


def _rec(**kw):
    return '{| ' + '; '.join('%s := %s' % (k, v) for k, v in kw.items()) + ' |}'


def _moved(x0, tr):
    return any(list(t) != list(x0) for t in tr)


DY = [0.5, 0.25, 1.0, 0.125, 2.0]


# --------------------------------------------------------- functional family
def _fn(rng, space, kinds):
    """(odl functional, Coq term of type @fn Q, short name)"""
    import odl
    S = odl.solvers
    n = _size(space)
    k = rng.choice(kinds)
    if k == 'zero':
        return S.ZeroFunctional(space), 'FZero', k
    if k == 'indzero':
        return S.IndicatorZero(space), 'FIndZero', k
    if k == 'l1':
        c = rng.choice([1.0, 2.0, 0.5])
        return c * S.L1Norm(space), '(FL1 %s)' % C.q(c), k
    if k == 'l2sq':
        c = rng.choice([1.0, 0.5, 2.0])
        return c * S.L2NormSquared(space), '(FL2sq %s)' % C.q(c), k
    if k == 'box':
        lo = float(rng.randint(-3, 0))
        hi = lo + float(rng.randint(0, 4))
        return S.IndicatorBox(space, lo, hi), '(FBox %s %s)' % (C.q(lo), C.q(hi)), k
    if k.startswith('tr-'):
        f, t, nm = _fn(rng, space, [k[3:]])
        b = _ivec(rng, n, -3, 3)
        return f.translated(_unflat(space, b)), '(FTr %s %s)' % (t, C.qs(b)), k
    raise ValueError(k)


PRIMAL_KINDS = ['zero', 'l1', 'l2sq', 'box', 'tr-l1', 'tr-l2sq', 'tr-box', 'indzero']
DUAL_KINDS = ['l1', 'l2sq', 'box', 'tr-l1', 'tr-l2sq', 'indzero', 'tr-indzero', 'zero', 'tr-box']


def _operator(rng, dom_n):
    """(op, kind): linear operator on a space of size dom_n whose adjoint is exact"""
    import odl
    kind = rng.choice(['matrix', 'matrix', 'pderiv', 'scaled-id', 'matrix-discr'])
    if kind == 'matrix':
        m = rng.randint(1, 4)
        return odl.MatrixOperator(_imat(rng, m, dom_n)), kind
    if kind == 'matrix-discr':
        sp = odl.uniform_discr(0, dom_n * 0.5, dom_n)
        return odl.MatrixOperator(_imat(rng, dom_n, dom_n), sp, sp), kind
    if kind == 'pderiv':
        n = max(dom_n, 2)
        sp = odl.uniform_discr(0, n * rng.choice([1.0, 0.5]), n)
        return odl.PartialDerivative(sp, 0, method=rng.choice(['forward', 'backward', 'central']),
                                     pad_mode=rng.choice(['constant', 'periodic', 'symmetric'])), kind
    sp = odl.rn(dom_n)
    return rng.choice([2.0, -1.0, 0.5]) * odl.IdentityOperator(sp), kind


def _smooth(rng, space):
    """q*|Mx-b|^2 as an odl functional with gradient, and the Coq record"""
    import odl
    n = _size(space)
    if rng.random() < 0.3:
        M = np.eye(n)
    else:
        M = _imat(rng, rng.randint(1, 3), n, -2, 2)
    b = _ivec(rng, M.shape[0], -3, 3)
    qq = rng.choice([0.5, 1.0, 0.25])
    ran = odl.rn(M.shape[0])
    if isinstance(space, type(ran)) and space == odl.rn(n):
        Mop = odl.MatrixOperator(M, space, ran)
        g = qq * odl.solvers.L2NormSquared(ran).translated(b) * Mop
        Mt = M.T
    else:
        Mop = odl.MatrixOperator(M, space, ran)
        g = qq * odl.solvers.L2NormSquared(ran).translated(b) * Mop
        Mt = _matrix(Mop.adjoint)
    term = _rec(sm_q=C.q(qq), sm_M=C.qss(M.tolist()), sm_Mt=C.qss(np.asarray(Mt).tolist()), sm_b=C.qs(b))
    return g, term, {'q': qq, 'M': M.tolist(), 'b': b}


# ------------------------------------------------------------ case families
def _lin_cases(rng, tier, cs):
    import odl
    S = odl.solvers
    nper = 10 if tier == 'quick' else 45
    for solver in ('SLandweber', 'SCG', 'SCGN'):
        for idx in range(nper):
            n = rng.randint(1, 4)
            dom, dk = _space(rng, n)
            if solver == 'SCGN':
                niter = min(niter, min(m, n) + 2)     # past convergence floats may amplify noise (cgn-noise-floor-overflow)
            if solver == 'SCG':
                M = _spd(rng, n, ill=rng.random() < 0.25)
                exact_stop = idx == 0 or rng.random() < 0.2
                if exact_stop:
                    M = np.diag([float(rng.choice([1, 2]))] * n)     # one eigenvalue: exact after 1 step, then `return`
                ran, m = dom, n
            else:
                m = rng.randint(1, 4)
                M = _imat(rng, m, n)
                exact_stop = solver == 'SCGN' and (idx == 0 or rng.random() < 0.2)
                if exact_stop:
                    m = n
                    M = np.diag([float(rng.choice([1, 2]))] * n)
                if dk == 'rn':
                    ran = odl.rn(m)
                elif dk == 'rn-const-weight':
                    ran = odl.rn(m, weighting=dom.weighting.const)
                else:
                    ran = odl.uniform_discr(0, m * dom.cell_volume, m)
            op = odl.MatrixOperator(M, dom, ran)
            Mt = _matrix(op.adjoint)
            b = _ivec(rng, m)
            x0 = _ivec(rng, n, -3, 3) if rng.random() < 0.8 else [0.0] * n
            niter = rng.choice([0, 1, 2, 3, 4, 6])
            if solver == 'SCG':
                # floats iterate on rounding noise once the exact recursion has stopped (CG has only exact
                # `== 0` tests); CGN has a relative stopping test since fix d9e50f5 and is run with any budget
                niter = min(niter, min(m, n) + 1)
                if exact_stop:
                    niter = rng.choice([2, 3, 5])   # all arithmetic exact: the `== 0` tests fire in floats too
            omega = rng.choice(DY) / max(1.0, float(np.sum(M * M)))
            omega = float(2.0 ** np.round(np.log2(omega)))
            x = dom.element(x0)
            tr = []
            rhs = ran.element(b)
            if solver == 'SLandweber':
                S.landweber(op, x, rhs, niter, omega=omega, callback=_cb(tr))
            elif solver == 'SCG':
                S.conjugate_gradient(op, x, rhs, niter, callback=_cb(tr))
            else:
                S.conjugate_gradient_normal(op, x, rhs, niter, callback=_cb(tr))
            term = 'CLin ' + _rec(cl_solver=solver, cl_M=C.qss(M.tolist()), cl_Mt=C.qss(Mt.tolist()),
                                  cl_wV=C.qs(_weights(dom)), cl_wW=C.qs(_weights(ran)), cl_b=C.qs(b),
                                  cl_x0=C.qs(x0), cl_omega=C.q(omega), cl_niter=C.nat(niter),
                                  cl_trace=C.qss(tr))
            desc = {'solver': solver, 'space': dk, 'M': M.tolist(), 'b': b, 'x0': x0, 'niter': niter, 'omega': omega}
            cs.add(term, desc, (solver, dk, str(M.tolist()), tuple(b), tuple(x0), niter, omega) if _moved(x0, tr) else None)


def _kz_cases(rng, tier, cs):
    import odl
    nper = 24 if tier == 'quick' else 100
    for _ in range(nper):
        with _cguard(cs, 'kz_cases'):
            n = rng.randint(1, 4)
            dom, dk = _space(rng, n, ('rn', 'rnw'))
            nb = rng.randint(1, 4)
            ops, rhs, blocks, descb = [], [], [], []
            for _i in range(nb):
                m = rng.randint(1, 3)
                M = _imat(rng, m, n)
                if rng.random() < 0.4:
                    M = M * rng.choice([8.0, 16.0, 0.25])      # blocks of very different norm => very different omega_i
                ran = odl.rn(m) if dk == 'rn' else odl.rn(m, weighting=dom.weighting.const)
                op = odl.MatrixOperator(M, dom, ran)
                b = _ivec(rng, m)
                om = float(2.0 ** np.round(np.log2(rng.choice(DY) / float(np.sum(M * M)))))
                ops.append(op)
                rhs.append(ran.element(b))
                blocks.append((M, _matrix(op.adjoint), b, om))
                descb.append({'M': M.tolist(), 'b': b, 'omega': om})
            x0 = _ivec(rng, n, -3, 3)
            niter = rng.choice([0, 1, 2, 3])
            inner = rng.random() < 0.4
            same_omega = rng.random() < 0.3
            if same_omega:
                blocks = [(M, Mt, b, blocks[0][3]) for (M, Mt, b, _o) in blocks]
            tr = []
            x = dom.element(x0)
            # random=True: the permutations are drawn with np.random.permutation, once per outer iteration and
            # nothing else in the loop consumes the global generator -> fix the seed, replay the draws for the model
            randomised = rng.random() < 0.5
            orders = 'None'
            if randomised:
                seed = rng.randrange(2 ** 31)
                np.random.seed(seed)
                drawn = [np.random.permutation(range(nb)).tolist() for _ in range(niter)]
                orders = '(Some %s)' % C.lst([C.lst([C.nat(i) for i in o]) + '%nat' for o in drawn])
                np.random.seed(seed)
            odl.solvers.kaczmarz(ops, x, rhs, niter, omega=(blocks[0][3] if same_omega else [bl[3] for bl in blocks]),
                                 random=randomised, callback=_cb(tr), callback_loop='inner' if inner else 'outer')
            bt = C.lst([_rec(kb_M=C.qss(M.tolist()), kb_Mt=C.qss(Mt.tolist()), kb_b=C.qs(b), kb_omega=C.q(om))
                        for (M, Mt, b, om) in blocks])
            term = 'CKz ' + _rec(kz_blocks=bt, kz_x0=C.qs(x0), kz_niter=C.nat(niter), kz_inner=C.b(inner),
                                 kz_orders=orders, kz_trace=C.qss(tr))
            cs.add(term, {'solver': 'kaczmarz', 'space': dk, 'blocks': descb, 'x0': x0, 'niter': niter, 'inner': inner,
                          'random': randomised, 'orders': orders},
                   ('kz', dk, str(descb), tuple(x0), niter, inner, orders) if _moved(x0, tr) else None)


def _pm_cases(rng, tier, cs):
    import odl
    from odl.operator.oputils import power_method_opnorm
    nper = 24 if tier == 'quick' else 100
    for _ in range(nper):
        with _cguard(cs, 'pm_cases'):
            n = rng.randint(1, 4)
            dom, dk = _space(rng, n)
            selfadj = rng.random() < 0.4
            if selfadj:
                B = _imat(rng, n, n, -2, 2)
                M = B + B.T
                if rng.random() < 0.2:
                    M = np.zeros((n, n))
                    M[0, 0] = 1.0
                op = odl.MatrixOperator(M, dom, dom)
                # `op.adjoint is op` is what selects the branch: use a wrapper that says so
                class SelfAdj(odl.Operator):
                    def __init__(self):
                        super(SelfAdj, self).__init__(dom, dom, linear=True)

                    def _call(self, x, out):
                        op(x, out=out)

                    @property
                    def adjoint(self):
                        return self
                use = SelfAdj()
                Mt = M
            else:
                m = rng.randint(1, 4)
                M = _imat(rng, m, n)
                zero_reach = rng.random() < 0.2
                if zero_reach:
                    M[:, 0] = 0.0
                ran = (odl.rn(m) if dk == 'rn' else odl.rn(m, weighting=dom.weighting.const) if dk == 'rn-const-weight'
                       else odl.uniform_discr(0, m * dom.cell_volume, m))
                use = odl.MatrixOperator(M, dom, ran)
                Mt = _matrix(use.adjoint)
            x0 = _ivec(rng, n, -3, 3)
            r = rng.random()
            if r < 0.1:
                x0 = [0.0] * n
            elif r < 0.25 or (not selfadj and zero_reach):
                x0 = [1.0] + [0.0] * (n - 1)
            maxiter = rng.choice([1, 2, 3, 4, 6]) * (1 if selfadj else 2)
            exact = rng.random() < 0.5
            xs = []
            raised, est = False, 0.0
            try:
                kw = dict(rtol=0.0, atol=0.0) if exact else {}
                est = float(power_method_opnorm(use, xstart=dom.element(x0), maxiter=maxiter, callback=_cb(xs), **kw))
            except ValueError:
                raised = True
            ncalls = maxiter if selfadj else maxiter // 2
            iters = len(xs) + (0 if (len(xs) == ncalls and not raised) else 1)
            if not any(x0):
                iters = 0          # raises before the loop
            term = 'CPm ' + _rec(pm_M=C.qss(M.tolist()), pm_Mt=C.qss(np.asarray(Mt).tolist()), pm_w=C.qs(_weights(dom)),
                                 pm_selfadj=C.b(selfadj), pm_x0=C.qs(x0), pm_iters=C.nat(iters), pm_raised=C.b(raised),
                                 pm_est=C.q(est), pm_xs=C.qss(xs))
            cs.add(term, {'solver': 'power_method', 'space': dk, 'M': M.tolist(), 'x0': x0, 'maxiter': maxiter,
                          'selfadj': selfadj, 'iters': iters, 'raised': raised},
                   ('pm', dk, str(M.tolist()), tuple(x0), maxiter, selfadj, exact))


def _pdhg_cases(rng, tier, cs):
    import odl
    nper = 30 if tier == 'quick' else 120
    for _ in range(nper):
        with _cguard(cs, 'pdhg_cases'):
            L, lk = _operator(rng, rng.randint(1, 4))
            f, ft, fk = _fn(rng, L.domain, PRIMAL_KINDS)
            g, gt, gk = _fn(rng, L.range, DUAL_KINDS)
            n, m = _size(L.domain), _size(L.range)
            M, Mt = _matrix(L), _matrix(L.adjoint)
            tau, sigma = rng.choice(DY), rng.choice(DY)
            theta = rng.choice([1.0, 1.0, 0.5, 0.0])
            x0 = _ivec(rng, n, -3, 3)
            niter = rng.choice([0, 1, 2, 3, 5])
            given = rng.random() < 0.4
            xr0 = _ivec(rng, n, -3, 3) if given else list(x0)
            y0 = _ivec(rng, m, -2, 2) if given else [0.0] * m
            x = _unflat(L.domain, x0)
            xr = _unflat(L.domain, xr0)
            y = _unflat(L.range, y0)
            tr = []
            obs = given or rng.random() < 0.5     # defaults (x_relax = x.copy(), y = 0) cannot be observed afterwards
            kw = dict(x_relax=xr, y=y) if obs else {}
            acc = 'None'
            accd = None
            if rng.random() < 0.3:
                primal = rng.random() < 0.5
                gamma = rng.choice([0.5, 1.0, 0.25])
                kw['gamma_primal' if primal else 'gamma_dual'] = gamma
                roots, t_, s_ = [], tau, sigma
                for _k in range(niter):           # the same float operations as the loop body
                    r_ = float(np.sqrt(1 + 2 * gamma * (t_ if primal else s_)))
                    th_ = float(1 / r_)
                    roots.append(r_)
                    if primal:
                        t_, s_ = t_ * th_, s_ / th_
                    else:
                        t_, s_ = t_ / th_, s_ * th_
                acc = '(Some (%s, %s, %s))' % (C.b(primal), C.q(gamma), C.qs(roots))
                accd = {'primal': primal, 'gamma': gamma}
            odl.solvers.pdhg(x, f, g, L, niter, tau=tau, sigma=sigma, theta=theta, callback=_cb(tr), **kw)
            term = 'CPdhg ' + _rec(ph_acc=acc, ph_f=ft, ph_g=gt, ph_M=C.qss(M.tolist()), ph_Mt=C.qss(Mt.tolist()), ph_tau=C.q(tau),
                                   ph_sigma=C.q(sigma), ph_theta=C.q(theta), ph_x0=C.qs(x0), ph_xr0=C.qs(xr0),
                                   ph_y0=C.qs(y0), ph_niter=C.nat(niter), ph_trace=C.qss(tr), ph_obs=C.b(obs), ph_xr=C.qs(_flat(xr)),
                                   ph_y=C.qs(_flat(y)))
            cs.add(term, {'solver': 'pdhg', 'op': lk, 'f': fk, 'g': gk, 'M': M.tolist(), 'tau': tau, 'sigma': sigma,
                          'theta': theta, 'x0': x0, 'niter': niter, 'acceleration': accd},
                   ('pdhg', lk, ft, gt, str(M.tolist()), tau, sigma, theta, tuple(x0), niter, str(accd)) if _moved(x0, tr) else None)


def _admm_cases(rng, tier, cs):
    import odl
    nper = 24 if tier == 'quick' else 100
    for _ in range(nper):
        with _cguard(cs, 'admm_cases'):
            L, lk = _operator(rng, rng.randint(1, 4))
            f, ft, fk = _fn(rng, L.domain, PRIMAL_KINDS)
            g, gt, gk = _fn(rng, L.range, PRIMAL_KINDS)
            n, m = _size(L.domain), _size(L.range)
            M, Mt = _matrix(L), _matrix(L.adjoint)
            tau, sigma = rng.choice(DY), rng.choice(DY)
            x0 = _ivec(rng, n, -3, 3)
            niter = rng.choice([0, 1, 2, 3, 5])
            x = _unflat(L.domain, x0)
            tr = []
            odl.solvers.admm_linearized(x, f, g, L, tau, sigma, niter, callback=_cb(tr))
            term = 'CAdmm ' + _rec(am_f=ft, am_g=gt, am_M=C.qss(M.tolist()), am_Mt=C.qss(Mt.tolist()), am_tau=C.q(tau),
                                   am_sigma=C.q(sigma), am_x0=C.qs(x0), am_nW=C.nat(m), am_niter=C.nat(niter),
                                   am_trace=C.qss(tr))
            cs.add(term, {'solver': 'admm_linearized', 'op': lk, 'f': fk, 'g': gk, 'M': M.tolist(), 'tau': tau,
                          'sigma': sigma, 'x0': x0, 'niter': niter},
                   ('admm', lk, ft, gt, str(M.tolist()), tau, sigma, tuple(x0), niter) if _moved(x0, tr) else None)


def _apg_roots(niter):
    t, out = 1.0, []
    for _ in range(niter):
        r = float(np.sqrt(1 + 4 * t ** 2))
        out.append(r)
        t = (1 + r) / 2
    return out


def _pg_cases(rng, tier, cs):
    import odl
    nper = 30 if tier == 'quick' else 120
    for _ in range(nper):
        with _cguard(cs, 'pg_cases'):
            n = rng.randint(1, 4)
            space, sk = _space(rng, n, ('rn', 'rn', 'discr'))
            f, ft, fk = _fn(rng, space, PRIMAL_KINDS)
            g, gterm, gd = _smooth(rng, space)
            gamma = rng.choice([0.5, 0.25, 0.125, 0.0625])
            x0 = _ivec(rng, n, -3, 3)
            niter = rng.choice([0, 1, 2, 3, 5])
            accel = rng.random() < 0.45
            x = space.element(x0)
            tr = []
            if accel:
                odl.solvers.accelerated_proximal_gradient(x, f, g, gamma, niter, callback=_cb(tr))
                lams, roots = [], _apg_roots(niter)
            else:
                mode = rng.choice(['default', 'const', 'callable'])
                seq = [rng.choice([1.0, 0.5, 1.5, 0.25]) for _ in range(niter)]
                if mode == 'default':
                    seq = [1.0] * niter
                    odl.solvers.proximal_gradient(x, f, g, gamma, niter, callback=_cb(tr))
                elif mode == 'const':
                    seq = [seq[0] if seq else 1.0] * niter
                    odl.solvers.proximal_gradient(x, f, g, gamma, niter, callback=_cb(tr), lam=(seq[0] if seq else 1.0))
                else:
                    odl.solvers.proximal_gradient(x, f, g, gamma, niter, callback=_cb(tr), lam=lambda k: seq[k])
                lams, roots = seq, []
            term = 'CPg ' + _rec(pg_f=ft, pg_g=gterm, pg_gamma=C.q(gamma), pg_lams=C.qs(lams), pg_x0=C.qs(x0),
                                 pg_accel=C.b(accel), pg_roots=C.qs(roots), pg_trace=C.qss(tr))
            cs.add(term, {'solver': 'accelerated_proximal_gradient' if accel else 'proximal_gradient', 'space': sk,
                          'f': fk, 'g': gd, 'gamma': gamma, 'lams': lams, 'x0': x0, 'niter': niter},
                   ('pg', accel, sk, ft, str(gd), gamma, tuple(lams), tuple(x0), niter) if _moved(x0, tr) else None)


def fb_alias_variant():
    """Which variant of forward_backward_pd the current code exhibits: True = `x_old` aliases `x`
    (y = x_new, no extrapolation), False = documented y = 2 x_new - x_old."""
    import odl
    sp = odl.rn(1)
    x = sp.element([1.0])
    odl.solvers.forward_backward_pd(x, odl.solvers.ZeroFunctional(sp), [odl.solvers.IndicatorZero(sp)],
                                    [odl.IdentityOperator(sp)], odl.solvers.ZeroFunctional(sp), tau=0.5,
                                    sigma=[0.5], niter=2)
    # x1 = 1, v1 = sigma*y1 with y1 = x1 (alias) or 2*x1 - x0 = 1: same; second step: x2 = x1 - tau v1 = 0.75,
    # v2 = v1 + sigma y2, y2 = x2 (alias) or 2 x2 - x1 = 0.5.  A third step separates x: run it
    x = sp.element([1.0])
    odl.solvers.forward_backward_pd(x, odl.solvers.ZeroFunctional(sp), [odl.solvers.IndicatorZero(sp)],
                                    [odl.IdentityOperator(sp)], odl.solvers.ZeroFunctional(sp), tau=0.5,
                                    sigma=[0.5], niter=3)
    v = float(x[0])
    if v == 0.3125:
        return True
    if v == 0.375:
        return False
    return None


def _blocks(rng, dom_space, nb, lkinds=None):
    """nb blocks (L_i, g_i, sigma_i) and, when lkinds is given, sometimes a functional l_i of one of these kinds"""
    import odl
    n = _size(dom_space)
    Ls, gs, ls, terms, desc = [], [], [], [], []
    with_l = bool(lkinds) and nb > 0 and rng.random() < 0.4
    for _ in range(nb):
        kind = rng.choice(['matrix', 'matrix', 'scaled-id'])
        if kind == 'matrix':
            M = _imat(rng, rng.randint(1, 3), n, -2, 2)
            L = odl.MatrixOperator(M, dom_space, odl.rn(M.shape[0]))
        else:
            L = rng.choice([1.0, 2.0, -0.5]) * odl.IdentityOperator(dom_space)
        g, gt, gk = _fn(rng, L.range, DUAL_KINDS)
        sig = rng.choice(DY)
        M, Mt = _matrix(L), _matrix(L.adjoint)
        lt, lk = 'None', None
        if with_l:
            lf, lterm, lk = _fn(rng, L.range, lkinds)
            ls.append(lf)
            lt = '(Some %s)' % lterm
        Ls.append(L)
        gs.append(g)
        terms.append((_rec(pb_g=gt, pb_M=C.qss(M.tolist()), pb_Mt=C.qss(Mt.tolist()), pb_sigma=C.q(sig),
                           pb_n=C.nat(_size(L.range)), pb_l=lt), sig))
        desc.append({'M': M.tolist(), 'g': gk, 'sigma': sig, 'l': lk})
    return Ls, gs, (ls if with_l else None), terms, desc


def _fb_cases(rng, tier, cs, alias):
    import odl
    nper = 24 if tier == 'quick' else 100
    for idx in range(nper):
        with _cguard(cs, 'fb_cases'):
            n = rng.randint(1, 3)
            space = odl.rn(n)
            forced = idx < 2
            f, ft, fk = _fn(rng, space, ['l1', 'tr-l2sq', 'l2sq'] if forced else PRIMAL_KINDS)
            if rng.random() < 0.3:
                h, hterm, hd = (odl.solvers.ZeroFunctional(space),
                                _rec(sm_q=C.q(0), sm_M=C.qss(np.eye(n).tolist()), sm_Mt=C.qss(np.eye(n).tolist()),
                                     sm_b=C.qs([0.0] * n)), 'zero')
            else:
                h, hterm, hd = _smooth(rng, space)
            Ls, gs, ls, terms, desc = _blocks(rng, space, 0 if forced else rng.choice([0, 1, 1, 2]), ['l2sq', 'tr-l2sq'])
            tau = rng.choice(DY)
            x0 = [float(rng.randint(1, 3)) for _ in range(n)] if forced else _ivec(rng, n, -3, 3)
            niter = rng.choice([2, 3]) if forced else rng.choice([0, 1, 2, 3, 5])
            x = space.element(x0)
            tr = []
            kw = {'l': ls} if ls is not None else {}
            odl.solvers.forward_backward_pd(x, f, gs, Ls, h, tau, [t[1] for t in terms], niter, callback=_cb(tr), **kw)
            term = 'CFb ' + _rec(fb_f=ft, fb_h=hterm, fb_blocks=C.lst([t[0] for t in terms]), fb_tau=C.q(tau),
                                 fb_x0=C.qs(x0), fb_niter=C.nat(niter), fb_alias=C.b(bool(alias)), fb_trace=C.qss(tr))
            cs.add(term, {'solver': 'forward_backward_pd', 'f': fk, 'h': hd, 'blocks': desc, 'tau': tau, 'x0': x0,
                          'niter': niter, 'alias_variant': alias},
                   ('fb', ft, str(hd), str(desc), tau, tuple(x0), niter) if _moved(x0, tr) else None)


def _dr_cases(rng, tier, cs):
    import odl
    nper = 24 if tier == 'quick' else 100
    for idx in range(nper):
        with _cguard(cs, 'dr_cases'):
            n = rng.randint(1, 3)
            space = odl.rn(n)
            forced = idx < 3            # always a few runs of the `len(L) == 0` branches that can tell updates apart
            f, ft, fk = _fn(rng, space, ['l1', 'tr-l2sq', 'l2sq'] if forced else PRIMAL_KINDS)
            Ls, gs, ls, terms, desc = _blocks(rng, space, 0 if forced else rng.choice([0, 1, 1, 2, 3]), DUAL_KINDS)
            tau = rng.choice(DY)
            x0 = [float(rng.randint(1, 3)) for _ in range(n)] if forced else _ivec(rng, n, -3, 3)
            niter = rng.choice([2, 3]) if forced else rng.choice([0, 1, 2, 3, 5])
            mode = rng.choice(['default', 'const', 'callable'])
            seq = [rng.choice([1.0, 0.5, 1.5]) for _ in range(niter)]
            x = space.element(x0)
            tr = []
            kw = {}
            if mode == 'default':
                seq = [1.0] * niter
            elif mode == 'const':
                seq = [seq[0] if seq else 1.0] * niter
                kw['lam'] = seq[0] if seq else 1.0
            else:
                kw['lam'] = lambda k: seq[k]
            if ls is not None:
                kw['l'] = ls
            odl.solvers.douglas_rachford_pd(x, f, gs, Ls, niter, tau=tau, sigma=[t[1] for t in terms],
                                            callback=_cb(tr), **kw)
            term = 'CDr ' + _rec(dr_f=ft, dr_blocks=C.lst([t[0] for t in terms]), dr_tau=C.q(tau), dr_lams=C.qs(seq),
                                 dr_x0=C.qs(x0), dr_trace=C.qss(tr), dr_final=C.qs(_flat(x)))
            cs.add(term, {'solver': 'douglas_rachford_pd', 'f': fk, 'blocks': desc, 'tau': tau, 'lams': seq, 'x0': x0,
                          'niter': niter},
                   ('dr', ft, str(desc), tau, tuple(seq), tuple(x0), niter) if _moved(x0, tr) else None)


def _objective(rng, n):
    """(odl functional, Coq objective term, description)"""
    import odl
    sp = odl.rn(n)
    if n >= 2 and rng.random() < 0.35:
        sc = rng.choice([1.0, 2.0, 4.0])
        return odl.solvers.RosenbrockFunctional(sp, scale=sc), '(ORosen %s)' % C.q(sc), {'rosenbrock': sc}
    kind = rng.choice(['spd', 'indef', 'nonsym'])
    if kind == 'spd':
        Qm = _spd(rng, n)
    elif kind == 'indef':
        B = _imat(rng, n, n, -2, 2)
        Qm = B + B.T
    else:
        Qm = _imat(rng, n, n, -2, 2)
    b = _ivec(rng, n, -3, 3)
    c = float(rng.randint(-2, 2))
    f = odl.solvers.QuadraticForm(odl.MatrixOperator(Qm), sp.element(b), c)
    return f, '(OQuad %s %s %s %s)' % (C.qss(Qm.tolist()), C.qss(Qm.T.tolist()), C.qs(b), C.q(c)), \
        {'quadratic': kind, 'Q': Qm.tolist(), 'b': b, 'c': c}


_LSRES = {'maxiter': 'RMaxIter', 'zero': 'RZeroDeriv', 'assert': 'RAssert'}


def _run_ls(ls, x, d, dd, omit=False):
    try:
        a = ls(x, d) if omit else ls(x, d, dd)
        return 'RAlpha %s' % C.q(float(a)), float(a)
    except AssertionError:
        return 'RAssert', None
    except ValueError as e:
        return ('RZeroDeriv' if dd == 0 else 'RMaxIter'), None


def _descent_cases(rng, tier, cs):
    import odl
    from odl.solvers.util.steplen import BacktrackingLineSearch
    nper = 30 if tier == 'quick' else 120
    for _ in range(nper):
        n = rng.randint(1, 3)
        f, ot, od = _objective(rng, n)
        sp = f.domain
        tau = rng.choice([0.5, 0.5, 0.25, 0.75])
        # discount = 1 can never be met exactly by a function with positive curvature along d; floats then
        # accept at the first alpha whose alpha^2 term is below one ulp: a pure rounding decision, left out
        disc = rng.choice([0.01, 0.0, 0.5, 0.25, 0.75])
        disc = float(np.float64(disc))
        mni = rng.choice([0, 1, 3, 8, 20])
        est = rng.random() < 0.4
        alpha = rng.choice([1.0, 2.0, 0.5, 4.0])
        x0 = _ivec(rng, n, -2, 2)
        x = sp.element(x0)
        gx = f.gradient(x)
        r = rng.random()
        if r < 0.5:
            d = -gx
            dd = float(gx.inner(d))
        elif r < 0.7:
            d = gx.copy()                      # ascent direction: alpha is negated
            dd = float(gx.inner(d))
        elif r < 0.8:
            d = sp.element(_ivec(rng, n, -2, 2))
            dd = 0.0
        else:
            d = sp.element(_ivec(rng, n, -2, 2))
            dd = float(gx.inner(d))
        ls = BacktrackingLineSearch(f, tau=tau, discount=disc, alpha=alpha, max_num_iter=mni, estimate_step=est)
        # dir_derivative=None: the search computes gradient(x).inner(direction) itself
        res, a = _run_ls(ls, x, d, dd, omit=(r < 0.7 and rng.random() < 0.3))
        first = _rec(ls_obj=ot, ls_tau=C.q(tau), ls_disc=C.q(disc), ls_mni=C.nat(mni), ls_est=C.b(est),
                     ls_alpha=C.q(alpha), ls_x=C.qs(x0), ls_d=C.qs(_flat(d)), ls_dd=C.q(dd), ls_res_=res)
        term = 'CLs ' + first
        if a is not None and rng.random() < 0.6:
            # call the same object again: from the point reached (exercises the stored alpha) or from an UNRELATED
            # point (the object must not carry anything about the previous point, e.g. a cached function value)
            x2 = x + a * d if rng.random() < 0.5 else sp.element([float(rng.randint(-16, 16)) / 8 for _ in range(n)])
            g2 = f.gradient(x2)
            d2 = -g2 if rng.random() < 0.7 else g2.copy()
            dd2 = float(g2.inner(d2))
            res2, _a2 = _run_ls(ls, x2, d2, dd2)
            term = 'CLs2 ' + _rec(l2_first=first, l2_x=C.qs(_flat(x2)), l2_d=C.qs(_flat(d2)), l2_dd=C.q(dd2),
                                  l2_res=res2)
        cs.add(term, {'solver': 'BacktrackingLineSearch', 'objective': od, 'tau': tau, 'discount': disc,
                      'max_num_iter': mni, 'estimate_step': est, 'alpha': alpha, 'x': x0, 'd': _flat(d).tolist(),
                      'dir_derivative': dd, 'result': res},
               ('ls', str(od), tau, disc, mni, est, alpha, tuple(x0), tuple(_flat(d)), dd))
    for _ in range(nper):
        n = rng.randint(1, 3)
        f, ot, od = _objective(rng, n)
        sp = f.domain
        tau = rng.choice([0.5, 0.5, 0.25])
        disc = float(np.float64(rng.choice([0.01, 0.0, 0.5, 0.25])))
        mni = rng.choice([2, 8, 20, 30])
        est = rng.random() < 0.5
        alpha = rng.choice([1.0, 2.0, 0.5])
        tol = rng.choice([1e-16, 0.5, 4.0])
        maxiter = rng.choice([0, 1, 2, 3, 4])
        x0 = _ivec(rng, n, -2, 2)
        stale = rng.random() < 0.25
        if stale:
            # anisotropic bowl, first run along the flat axis (large alpha, high final value), second run lower on the
            # steep axis: tells apart anything the line-search object might wrongly carry over between runs
            cq = rng.choice([64.0, 100.0, 25.0])
            Qm = np.diag([1.0, cq])
            f = odl.solvers.QuadraticForm(odl.MatrixOperator(Qm), odl.rn(2).zero(), 0.0)
            ot = '(OQuad %s %s %s %s)' % (C.qss(Qm.tolist()), C.qss(Qm.tolist()), C.qs([0.0, 0.0]), C.q(0.0))
            od = {'quadratic': 'anisotropic', 'Q': Qm.tolist()}
            sp, n = f.domain, 2
            tau, disc, mni, est, alpha, tol, maxiter = 0.75, 0.0078125, 40, True, 1.0, 1e-16, rng.choice([1, 2])
            x0 = [float(rng.randint(4, 12)), 0.0]
        x = sp.element(x0)
        ls = BacktrackingLineSearch(f, tau=tau, discount=disc, alpha=alpha, max_num_iter=mni, estimate_step=est)
        tr = []
        err = 'None'
        try:
            odl.solvers.steepest_descent(f, x, line_search=ls, maxiter=maxiter, tol=tol, callback=_cb(tr))
        except AssertionError:
            err = '(Some RAssert)'
        except ValueError:
            err = '(Some RMaxIter)'
        second = 'None'
        if err == 'None' and (stale or rng.random() < 0.6):
            # reuse the SAME line-search object for a second run from another start (typically with a lower objective
            # than where the first run stopped): only self.alpha may carry over
            cands = [[float(rng.randint(-16, 16)) / 8 for _ in range(n)] for _ in range(4)]
            cands.sort(key=lambda c: float(f(sp.element(c))))
            x0b = cands[0] if rng.random() < 0.7 else cands[-1]
            if stale:
                x0b = [0.0, float(rng.randint(1, 8)) / 32]
            xb = sp.element(x0b)
            trb, errb = [], 'None'
            try:
                odl.solvers.steepest_descent(f, xb, line_search=ls, maxiter=maxiter, tol=tol, callback=_cb(trb))
            except AssertionError:
                errb = '(Some RAssert)'
            except ValueError:
                errb = '(Some RMaxIter)'
            second = '(Some (%s, %s, %s))' % (C.qs(x0b), C.qss(trb), errb)
        term = 'CSd ' + _rec(sd_obj=ot, sd_tau=C.q(tau), sd_disc=C.q(disc), sd_mni=C.nat(mni), sd_est=C.b(est),
                             sd_alpha=C.q(alpha), sd_tol=C.q(tol), sd_maxiter=C.nat(maxiter), sd_x0=C.qs(x0),
                             sd_trace=C.qss(tr), sd_err=err, sd_second=second)
        cs.add(term, {'solver': 'steepest_descent+BacktrackingLineSearch', 'objective': od, 'tau': tau,
                      'discount': disc, 'max_num_iter': mni, 'estimate_step': est, 'alpha': alpha, 'tol': tol,
                      'maxiter': maxiter, 'x0': x0, 'err': err},
               ('sd', str(od), tau, disc, mni, est, alpha, tol, maxiter, tuple(x0)) if _moved(x0, tr) else None)


IMPORTS = ['Base.Vec', 'C12.Model', 'C12.Corr']


def correspondence(rng, tier):
    np.random.seed(rng.randrange(2 ** 31))
    sets = []
    for name, fun in (('linear', _lin_cases), ('kaczmarz', _kz_cases), ('power', _pm_cases), ('pdhg', _pdhg_cases),
                      ('admm', _admm_cases), ('proxgrad', _pg_cases), ('douglas_rachford', _dr_cases),
                      ('descent', _descent_cases)):
        cs = C.CaseSet(name, IMPORTS, 'check', 'case')
        fun(rng, tier, cs)
        sets.append(cs)
    alias = fb_alias_variant()
    cs = C.CaseSet('forward_backward', IMPORTS, 'check', 'case')
    _fb_cases(rng, tier, cs, True if alias is None else alias)
    sets.append(cs)
    return sets


# ===================================================================== probes
# The property itself evaluated on the real implementation.  Optimality is checked through
# sub-gradient inclusion (distance of the required vector to the sub-differential computed by
# hand below), never through a stored answer.
EPS0 = 1e-7      # |x_i| below this counts as "at the kink" (only enlarges the sub-differential)


class Term(object):
    """A convex term: builds the odl functional and measures dist(v, d term(x))."""

    def __init__(self, kind, c=1.0, b=None, lo=None, hi=None, parts=None):
        self.kind, self.c, self.b, self.lo, self.hi, self.parts = kind, c, b, lo, hi, parts

    def odl(self, space):
        import odl
        S = odl.solvers
        k = self.kind
        if k == 'zero':
            return S.ZeroFunctional(space)
        if k == 'box':
            return S.IndicatorBox(space, self.lo, self.hi)
        if k == 'sep':
            return S.SeparableSum(*[t.odl(sp) for t, sp in zip(self.parts, space)])
        if k == 'groupl1':
            return self.c * S.GroupL1Norm(space)
        if k == 'kl':
            return S.KullbackLeibler(space, prior=space.element(self.b))
        base = {'l1': S.L1Norm, 'l2sq': S.L2NormSquared, 'l2': S.L2Norm}[k](space)
        f = self.c * base
        if self.b is not None:
            f = f.translated(_unflat(space, self.b))
        return f

    def sub_dist(self, space, x, v):
        """Euclidean-type distance (space norm) from v to the sub-differential at x; inf if x is infeasible."""
        import odl
        k = self.kind
        if k == 'sep':
            return float(np.sqrt(sum(t.sub_dist(sp, xi, vi) ** 2
                                     for t, sp, xi, vi in zip(self.parts, space, x, v))))
        xa, va = _flat(x), _flat(v)
        b = np.zeros_like(xa) if self.b is None else np.asarray(self.b, dtype=float)
        w = _weights(space)
        nrm = lambda a: float(np.sqrt(np.sum(w * a * a)))
        if k == 'zero':
            return nrm(va)
        if k == 'l2sq':
            return nrm(va - 2 * self.c * (xa - b))
        if k == 'l1':
            d = xa - b
            r = np.where(np.abs(d) > EPS0, va - self.c * np.sign(d), np.maximum(np.abs(va) - self.c, 0.0))
            return nrm(r)
        if k == 'l2':
            d = xa - b
            nd = nrm(d)
            if nd > EPS0:
                return nrm(va - self.c * d / nd)
            return max(nrm(va) - self.c, 0.0)
        if k == 'box':
            if np.any(xa < self.lo - EPS0) or np.any(xa > self.hi + EPS0):
                return float('inf')
            at_lo, at_hi = xa <= self.lo + EPS0, xa >= self.hi - EPS0
            r = np.where(at_lo & at_hi, 0.0, np.where(at_lo, np.maximum(va, 0.0),
                                                      np.where(at_hi, np.minimum(va, 0.0), va)))
            return nrm(r)
        if k == 'groupl1':
            n = _size(space[0])
            X = xa.reshape(len(space), n)
            Vv = va.reshape(len(space), n)
            pn = np.sqrt(np.sum(X * X, axis=0))
            vn = np.sqrt(np.sum(Vv * Vv, axis=0))
            safe = np.where(pn > EPS0, pn, 1.0)
            r = np.where(pn > EPS0, np.sqrt(np.sum((Vv - self.c * X / safe) ** 2, axis=0)),
                         np.maximum(vn - self.c, 0.0))
            w0 = _weights(space[0])
            return float(np.sqrt(np.sum(w0 * r * r)))
        if k == 'kl':
            if np.any(xa <= 0):
                return float('inf')
            return nrm(va - (1.0 - b / xa))
        raise ValueError(k)

    def __repr__(self):
        return 'Term(%r, c=%r, b=%r, lo=%r, hi=%r, parts=%r)' % (self.kind, self.c, self.b, self.lo, self.hi, self.parts)


def _rand_term(rng, space, kinds, strong=False):
    n = _size(space)
    k = rng.choice(kinds)
    if k == 'zero':
        return Term('zero')
    if k == 'box':
        lo = float(rng.randint(-3, 0))
        return Term('box', lo=lo, hi=lo + float(rng.randint(1, 4)))
    c = rng.choice([1.0, 0.5, 2.0])
    b = _ivec(rng, n, -3, 3) if rng.random() < 0.7 else None
    return Term(k, c=c, b=b)


def _true_opnorm(op):
    """largest singular value of op between the (weighted) spaces"""
    M = _matrix(op)
    wd, wr = _weights(op.domain), _weights(op.range)
    return float(np.linalg.norm(np.sqrt(wr)[:, None] * M / np.sqrt(wd)[None, :], 2))


def _probe_operator(rng, n, kinds=('matrix', 'matrix-ill', 'gradient', 'pderiv', 'broadcast', 'matrix-weighted')):
    import odl
    k = rng.choice(kinds)
    if k == 'matrix':
        return odl.MatrixOperator(_imat(rng, rng.randint(1, 4), n)), k
    if k == 'matrix-ill':
        m = max(n, 2)
        U = _imat(rng, m, m, -2, 2) + 3 * np.eye(m)
        return odl.MatrixOperator(U.dot(np.diag([1.0] * (m - 1) + [float(rng.choice([16, 64]))]))), k
    if k == 'matrix-weighted':
        w = rng.choice([2.0, 0.5])
        m = rng.randint(1, 3)
        return odl.MatrixOperator(_imat(rng, m, n), odl.rn(n, weighting=w), odl.rn(m, weighting=w)), k
    if k == 'gradient':
        sp = odl.uniform_discr(0, max(n, 2) * rng.choice([1.0, 0.5]), max(n, 2))
        return odl.Gradient(sp, pad_mode=rng.choice(['constant', 'symmetric'])), k
    if k == 'pderiv':
        sp = odl.uniform_discr(0, max(n, 2), max(n, 2))
        return odl.PartialDerivative(sp, 0, pad_mode='constant'), k
    sp = odl.rn(n)
    return odl.BroadcastOperator(rng.choice([1.0, 2.0]) * odl.IdentityOperator(sp),
                                 odl.MatrixOperator(_imat(rng, rng.randint(1, 3), n))), k


def _mono(vals, rel=1e-10):
    """non-increasing up to rounding"""
    return all(b <= a + rel * (abs(a) + 1e-300) + 1e-13 for a, b in zip(vals, vals[1:]))


class _guard(object):
    """`with _guard(out, family):` -- an exception raised by the implementation (or by the oracle) inside the block
    becomes ONE failing probe carrying the exception as observed value; the family and search() go on."""

    def __init__(self, out, family, replay=None):
        self.out, self.family, self.replay = out, family, replay

    def __enter__(self):
        return self

    def __exit__(self, et, ev, tb):
        if et is None or issubclass(et, (KeyboardInterrupt, SystemExit, GeneratorExit)):
            return False
        import traceback
        where = traceback.extract_tb(tb)[-1]
        self.out.append(C.Probe(False, 'raised-%s-%s' % (self.family, et.__name__),
                                '%s: the implementation raised %s: %s (at %s:%d)'
                                % (self.family, et.__name__, str(ev)[:160], where.filename.split('/')[-1], where.lineno),
                                self.replay, {'observed': '%s: %s' % (et.__name__, ev),
                                              'traceback': ''.join(traceback.format_tb(tb))[-1200:]}))
        return True


def _P(out, ok, key, what, replay=None, detail=None):
    out.append(C.Probe(bool(ok), key, what, replay, detail))


def _replay_lin(solver, M, dk, wconst, b, x0, niter, omega=None):
    return ("import odl, numpy as np\nM=np.array(%r)\n" % (M.tolist(),) +
            ("dom=odl.rn(M.shape[1]); ran=odl.rn(M.shape[0])\n" if wconst is None else
             "dom=odl.rn(M.shape[1],weighting=%r); ran=odl.rn(M.shape[0],weighting=%r)\n" % (wconst, wconst)) +
            "op=odl.MatrixOperator(M,dom,ran); x=dom.element(%r); rhs=ran.element(%r); vals=[]\n" % (x0, b) +
            {'landweber': "cb=lambda z: vals.append(float((op(z)-rhs).norm()))\ncb(x)\nodl.solvers.landweber(op,x,rhs,%d,omega=%r,callback=cb)\n" % (niter, omega),
             'cgn': "cb=lambda z: vals.append(float((op(z)-rhs).norm()))\ncb(x)\nodl.solvers.conjugate_gradient_normal(op,x,rhs,%d,callback=cb)\n" % niter,
             'cg': "xs=dom.element(np.linalg.solve(M,np.array(%r)))\ncb=lambda z: vals.append(float((z-xs).inner(op(z-xs))))\ncb(x)\nodl.solvers.conjugate_gradient(op,x,rhs,%d,callback=cb)\n" % (b, niter)}[solver] +
            "observed=vals\nok=all(b<=a*(1+1e-9)+1e-12 for a,b in zip(vals,vals[1:]))\n")


def _linear_probes(rng, tier, out):
    import odl
    S = odl.solvers
    from odl.operator.oputils import power_method_opnorm
    N = 12 if tier == 'quick' else 60
    for _ in range(N):
        with _guard(out, 'linear_probes'):
            n = rng.randint(1, 5)
            wconst = rng.choice([None, None, 2.0, 0.25])
            dom = odl.rn(n) if wconst is None else odl.rn(n, weighting=wconst)
            dk = 'rn' if wconst is None else 'rn-weighted'
            ill = rng.random() < 0.4
            # --- conjugate gradient: energy error decreases each step, exact after n steps
            Sm = _spd(rng, n, ill=ill)
            op = odl.MatrixOperator(Sm, dom, dom)
            b = _ivec(rng, n)
            x0 = _ivec(rng, n, -3, 3)
            xs = dom.element(np.linalg.solve(Sm, np.array(b)))
            rhs = dom.element(b)
            vals = []
            cb = lambda z: vals.append(float((z - xs).inner(op(z - xs))))
            x = dom.element(x0)
            cb(x)
            S.conjugate_gradient(op, x, rhs, n, callback=cb)
            _P(out, _mono(vals, 1e-9), 'cg-energy-decrease-%s' % dk,
               'conjugate_gradient: energy-norm error non-increasing (n=%d, %s)' % (n, 'ill' if ill else 'well'),
               _replay_lin('cg', Sm, dk, wconst, b, x0, n), {'vals': vals})
            e0 = max(vals[0], 1e-300)
            cond = float(np.linalg.cond(Sm))
            _P(out, vals[-1] <= 1e-9 * cond * cond * e0 + 1e-18 or len(vals) <= n,
               'cg-exact-after-n-steps-%s' % dk,
               'conjugate_gradient: exact (energy error at rounding level) after dimension-many steps',
               _replay_lin('cg', Sm, dk, wconst, b, x0, n).replace(
                   "ok=all(b<=a*(1+1e-9)+1e-12 for a,b in zip(vals,vals[1:]))",
                   "ok=vals[-1] <= 1e-9*np.linalg.cond(M)**2*max(vals[0],1e-300)+1e-18"), {'vals': vals, 'cond': cond})
            # --- CGN and Landweber: residual never increases
            m = rng.randint(1, 5)
            M = _imat(rng, m, n)
            if ill and m >= 2 and n >= 2:
                M[0, :] = M[0, :] * 32
            ran = odl.rn(m) if wconst is None else odl.rn(m, weighting=wconst)
            op = odl.MatrixOperator(M, dom, ran)
            b = _ivec(rng, m)
            rhs = ran.element(b)
            for solver in ('cgn', 'landweber'):
                vals = []
                cb = lambda z: vals.append(float((op(z) - rhs).norm()))
                x = dom.element(x0)
                cb(x)
                niter = rng.choice([3, 8, 20])
                if solver == 'cgn':
                    # budgets up to a little beyond the rank: the relative stopping test of d9e50f5 does not always
                    # end the loop before rounding noise is amplified (finding cgn-noise-floor-overflow, probed separately)
                    niter = rng.randint(1, min(m, n) + 1)
                    S.conjugate_gradient_normal(op, x, rhs, niter, callback=cb)
                    om = None
                else:
                    om = rng.choice([2.0, 1.0, 0.5, 1.9999]) / _true_opnorm(op) ** 2
                    S.landweber(op, x, rhs, niter, omega=om, callback=cb)
                _P(out, _mono(vals, 1e-9), '%s-residual-%s' % (solver, dk),
                   '%s: residual norm non-increasing (%dx%d, omega=%r)' % (solver, m, n, om),
                   _replay_lin(solver, M, dk, wconst, b, x0, niter, om), {'vals': vals})
            # --- Landweber with the default relaxation 1/|A|_est^2 (power-method estimate, from below)
            vals = []
            x = dom.element(x0)
            cb(x)
            np.random.seed(rng.randrange(2 ** 31))
            op2 = odl.MatrixOperator(M, dom, ran)           # fresh object: no cached norm
            S.landweber(op2, x, rhs, 6, callback=cb)
            _P(out, _mono(vals, 1e-9), 'landweber-default-omega-%s' % dk,
               'landweber with omega=None (1/estimated norm^2): residual norm non-increasing', None,
               {'M': M.tolist(), 'vals': vals})
            # --- Kaczmarz on a consistent system: distance to the solution used to build it
            xs = dom.element(_ivec(rng, n, -3, 3))
            ops, rh, oms = [], [], []
            for _i in range(rng.randint(1, 3)):
                Mi = _imat(rng, rng.randint(1, 3), n)
                rani = odl.rn(Mi.shape[0]) if wconst is None else odl.rn(Mi.shape[0], weighting=wconst)
                oi = odl.MatrixOperator(Mi, dom, rani)
                ops.append(oi)
                rh.append(oi(xs))
                oms.append(rng.choice([2.0, 1.0, 0.3]) / _true_opnorm(oi) ** 2)
            vals = []
            cb = lambda z: vals.append(float((z - xs).norm()))
            x = dom.element(x0)
            cb(x)
            S.kaczmarz(ops, x, rh, rng.choice([2, 5]), omega=oms, callback=cb, callback_loop=rng.choice(['inner', 'outer']))
            # random order, each block with its own omega_i = c_i/|A_i|^2 (true norms, blocks of very different size):
            # the distance must not increase after ANY single block step
            ops2, rh2, oms2, Ms2 = [], [], [], []
            for _i in range(rng.randint(2, 4)):
                Mi = _imat(rng, rng.randint(1, 3), n) * rng.choice([1.0, 16.0, 0.125, 64.0])
                rani = odl.rn(Mi.shape[0]) if wconst is None else odl.rn(Mi.shape[0], weighting=wconst)
                oi = odl.MatrixOperator(Mi, dom, rani)
                ops2.append(oi)
                rh2.append(oi(xs))
                oms2.append(rng.choice([2.0, 1.0, 1.5]) / _true_opnorm(oi) ** 2)
                Ms2.append(Mi.tolist())
            seed = rng.randrange(2 ** 31)
            vals2 = []
            cb2 = lambda z: vals2.append(float((z - xs).norm()))
            x = dom.element(x0)
            cb2(x)
            np.random.seed(seed)
            S.kaczmarz(ops2, x, rh2, 4, omega=oms2, random=True, callback=cb2, callback_loop='inner')
            rp2 = ("import odl, numpy as np\ndom=%s\nMs=%r; oms=%r\nxs=dom.element(%r); x=dom.element(%r)\n"
                   "ops=[odl.MatrixOperator(np.array(M),dom,%s) for M in Ms]\nrh=[o(xs) for o in ops]; vals=[]\n"
                   "cb=lambda z: vals.append(float((z-xs).norm()))\ncb(x)\nnp.random.seed(%d)\n"
                   "odl.solvers.kaczmarz(ops,x,rh,4,omega=oms,random=True,callback=cb,callback_loop='inner')\n"
                   "observed=vals\nok=all(b<=a*(1+1e-9)+1e-12 for a,b in zip(vals,vals[1:]))\n"
                   % ('odl.rn(%d)' % n if wconst is None else 'odl.rn(%d,weighting=%r)' % (n, wconst),
                      Ms2, oms2, _flat(xs).tolist(), x0,
                      'odl.rn(len(M))' if wconst is None else 'odl.rn(len(M),weighting=%r)' % wconst, seed))
            _P(out, _mono(vals2, 1e-9), 'kaczmarz-random-order-distance-%s' % dk,
               'kaczmarz(random=True, omega_i <= 2/|A_i|^2 per operator, blocks of very different norm): distance to a '
               'solution non-increasing after every block step', rp2, {'vals': vals2[:12], 'omega': oms2})
            rp = ("import odl, numpy as np\ndom=%s\nMs=%r; oms=%r\nxs=dom.element(%r); x=dom.element(%r)\n"
                  "ops=[odl.MatrixOperator(np.array(M),dom,%s) for M in Ms]\nrh=[o(xs) for o in ops]; vals=[]\n"
                  "cb=lambda z: vals.append(float((z-xs).norm()))\ncb(x)\nodl.solvers.kaczmarz(ops,x,rh,5,omega=oms,callback=cb,callback_loop='inner')\n"
                  "observed=vals\nok=all(b<=a*(1+1e-9)+1e-12 for a,b in zip(vals,vals[1:]))\n"
                  % ('odl.rn(%d)' % n if wconst is None else 'odl.rn(%d,weighting=%r)' % (n, wconst),
                     [_matrix(o).tolist() for o in ops], oms, _flat(xs).tolist(), x0,
                     'odl.rn(len(M))' if wconst is None else 'odl.rn(len(M),weighting=%r)' % wconst))
            _P(out, _mono(vals, 1e-9), 'kaczmarz-distance-%s' % dk,
               'kaczmarz: distance to a solution of a consistent system non-increasing', rp, {'vals': vals})
            # --- power method never exceeds the true norm
            L, lk = _probe_operator(rng, n, ('matrix', 'matrix-ill', 'gradient', 'pderiv', 'matrix-weighted'))
            true = _true_opnorm(L)
            np.random.seed(rng.randrange(2 ** 31))
            xst = L.domain.element(_unflat(L.domain, [float(rng.randint(-3, 3)) or 1.0 for _ in range(_size(L.domain))]))
            try:
                est = float(power_method_opnorm(L, xstart=xst, maxiter=rng.choice([2, 4, 10, 100])))
            except ValueError:          # start vector in the kernel: the code raises, nothing is returned
                est = 0.0
            _P(out, est <= true * (1 + 1e-9) + 1e-12, 'power-method-le-norm-normal-%s' % lk,
               'power_method_opnorm(%s) = %r <= largest singular value %r' % (lk, est, true), None,
               {'M': _matrix(L).tolist(), 'est': est, 'true': true})
            Sy = _spd(rng, n) - float(rng.randint(0, 3)) * np.eye(n)

            class SelfAdj(odl.Operator):
                def __init__(self, mo):
                    super(SelfAdj, self).__init__(mo.domain, mo.range, linear=True)
                    self.mo = mo

                def _call(self, x, out):
                    self.mo(x, out=out)

                @property
                def adjoint(self):
                    return self
            so = SelfAdj(odl.MatrixOperator(Sy, dom, dom))
            try:
                est = float(power_method_opnorm(so, xstart=dom.element([1.0] * n), maxiter=rng.choice([1, 3, 10, 100])))
            except ValueError:
                est = 0.0
            true = float(np.max(np.abs(np.linalg.eigvalsh(Sy))))
            rp = ("import odl, numpy as np\nS=np.array(%r)\nclass SA(odl.Operator):\n def __init__(s,mo):\n  super(SA,s).__init__(mo.domain,mo.range,linear=True); s.mo=mo\n"
                  " def _call(s,x,out):\n  s.mo(x,out=out)\n adjoint=property(lambda s: s)\n"
                  "from odl.operator.oputils import power_method_opnorm\nobserved=float(power_method_opnorm(SA(odl.MatrixOperator(S)),xstart=[1.0]*len(S),maxiter=10))\n"
                  "expected=float(np.max(np.abs(np.linalg.eigvalsh(S))))\nok=observed<=expected*(1+1e-9)+1e-12\n" % (Sy.tolist(),))
            _P(out, est <= true * (1 + 1e-9) + 1e-12, 'power-method-le-norm-selfadjoint-%s' % dk,
               'power_method_opnorm (self-adjoint branch) = %r <= spectral radius %r' % (est, true), rp)


def _cgn_blowup_probe(out):
    rp = ("import odl, numpy as np\nop=odl.MatrixOperator(np.array([[2.,2.],[-1.,0.],[2.,-1.]])); rhs=op.range.element([3.,3.,-3.])\n"
          "x=op.domain.element([-3.,-1.]); vals=[]\ncb=lambda z: vals.append(float((op(z)-rhs).norm()))\ncb(x)\n"
          "try:\n    odl.solvers.conjugate_gradient_normal(op,x,rhs,20,callback=cb)\nexcept OverflowError:\n    vals.append(float('inf'))\n"
          "observed=vals; ok=all(b<=a*(1+1e-9)+1e-12 for a,b in zip(vals,vals[1:]))\n")
    env = {}
    exec(rp, env)
    _P(out, env['ok'], 'cgn-past-convergence-blowup',
       'conjugate_gradient_normal, 3x2 inconsistent system, niter=20: residual norm never increases '
       '(observed max %.3g after min %.3g)' % (max(env['vals']), min(env['vals'])), rp)


def _cgn_noise_floor_probe(rng, tier, out):
    """residual large compared with the initial gradient: the relative stopping rule (eps^2 |A^T d_0|^2) lies below
    the noise floor eps |A| |d| of A^T d  (finding cgn-noise-floor-overflow)"""
    rp = ("import odl, numpy as np\nop=odl.MatrixOperator(np.array([[0.6166937022456869],[0.7872031996952936]]))\n"
          "rhs=op.range.element([1.488381154283861,-2.940337465966724]); x=op.domain.element([-0.04032254536921642]); vals=[]\n"
          "cb=lambda z: vals.append(float((op(z)-rhs).norm()))\ncb(x)\n"
          "try:\n    odl.solvers.conjugate_gradient_normal(op,x,rhs,60,callback=cb)\nexcept OverflowError:\n    vals.append(float('inf'))\n"
          "observed=vals[:8]; ok=all(b<=a*(1+1e-9)+1e-12 for a,b in zip(vals,vals[1:]))\n")
    env = {}
    exec(rp, env)
    _P(out, env['ok'], 'cgn-noise-floor-overflow',
       'conjugate_gradient_normal, 2x1 system with singular value 1, niter=60: residual norm never increases '
       '(observed %r ...)' % (['%.3g' % v for v in env['vals'][:7]],), rp)
    import odl
    rs = np.random.RandomState(rng.randrange(2 ** 31))
    ok, worst = True, None
    for _ in range(60 if tier == 'quick' else 400):
        M = rs.randn(2, 1) * 10 ** rs.uniform(-3, 3)
        M = M / np.linalg.norm(M)
        b = rs.randn(2) * 10 ** rs.uniform(-2, 4)
        x0 = (rs.randn(1) * 10 ** rs.uniform(-2, 2)).tolist()
        op = odl.MatrixOperator(M)
        rhs = op.range.element(b)
        x = op.domain.element(list(x0))
        vals = [float((op(x) - rhs).norm())]
        try:
            odl.solvers.conjugate_gradient_normal(op, x, rhs, 60, callback=lambda z: vals.append(float((op(z) - rhs).norm())))
        except OverflowError:
            vals.append(float('inf'))
        if not _mono(vals, 1e-9):
            ok, worst = False, {'M': M.tolist(), 'b': b.tolist(), 'x0': x0, 'vals': ['%.3g' % v for v in vals[:8]]}
    _P(out, ok, 'cgn-noise-floor-overflow',
       'conjugate_gradient_normal on random 2x1 systems with singular value 1 (60 iterations): residual norm never increases',
       None, worst)


def _descent_probes(rng, tier, out):
    import odl
    from odl.solvers.util.steplen import BacktrackingLineSearch
    N = 12 if tier == 'quick' else 60
    for _ in range(N):
        with _guard(out, 'descent_probes'):
            n = rng.randint(1, 4)
            f, _ot, od = _objective(rng, max(n, 2) if rng.random() < 0.4 else n)
            sp = f.domain
            x0 = [float(rng.randint(-20, 20)) / 8 for _ in range(_size(sp))]
            tau = rng.choice([0.5, 0.3, 0.8])
            disc = rng.choice([0.01, 0.3, 0.0])
            est = rng.random() < 0.5
            vals = []
            cb = lambda z: vals.append(float(f(z)))
            x = sp.element(x0)
            cb(x)
            ls = BacktrackingLineSearch(f, tau=tau, discount=disc, estimate_step=est)
            err = None
            try:
                odl.solvers.steepest_descent(f, x, line_search=ls, maxiter=rng.choice([5, 30]), callback=cb)
            except (ValueError, AssertionError) as e:
                err = type(e).__name__
            kind = 'rosenbrock' if 'rosenbrock' in od else 'quadratic-' + od['quadratic']
            ok = all(b <= a for a, b in zip(vals, vals[1:]))
            _P(out, ok, 'steepest-descent-backtracking-%s' % kind,
               'steepest_descent + BacktrackingLineSearch(tau=%r, discount=%r, estimate_step=%r): objective never increases (%s)'
               % (tau, disc, est, err or 'no error'), None, {'objective': od, 'x0': x0, 'vals': vals[:8]})


def _linesearch_reuse_probes(rng, tier, out):
    """one BacktrackingLineSearch(estimate_step=True) object reused (a) for two steepest_descent runs from different
    starts, (b) with x changed between calls by a projection, (c) called directly at unrelated points: every accepted
    step must not increase f, f evaluated independently at the ACTUAL current point"""
    import odl
    from odl.solvers.util.steplen import BacktrackingLineSearch
    N = 10 if tier == 'quick' else 50
    for _ in range(N):
        with _guard(out, 'linesearch_reuse_probes'):
            n = rng.randint(1, 3)
            f, _ot, od = _objective(rng, max(n, 2) if rng.random() < 0.3 else n)
            sp = f.domain
            m = _size(sp)
            kind = 'rosenbrock' if 'rosenbrock' in od else 'quadratic-' + od['quadratic']
            ls = BacktrackingLineSearch(f, tau=rng.choice([0.5, 0.25]), discount=rng.choice([0.01, 0.3]), estimate_step=True)
            starts = [[float(rng.randint(-24, 24)) / 8 for _ in range(m)] for _ in range(4)]
            starts.sort(key=lambda c: -float(f(sp.element(c))))         # later runs start LOWER than the earlier ones
            ok, detail = True, []
            for x0 in starts[:3]:
                prev = [float(f(sp.element(x0)))]

                def cb(z, prev=prev):
                    prev.append(float(f(z)))
                x = sp.element(x0)
                try:
                    odl.solvers.steepest_descent(f, x, line_search=ls, maxiter=rng.choice([1, 2, 4]), callback=cb)
                except (ValueError, AssertionError):
                    pass
                detail.append(prev[:5])
                ok = ok and all(b <= a for a, b in zip(prev, prev[1:]))
            _P(out, ok, 'linesearch-object-reused-across-runs-%s' % kind,
               'one BacktrackingLineSearch(estimate_step=True) reused for three steepest_descent runs from different starts: '
               'no accepted step increases the objective', None, {'objective': od, 'starts': starts[:3], 'values': detail})
            # (b) projection moving x between the line-search calls, (c) direct calls at unrelated points
            ls2 = BacktrackingLineSearch(f, tau=0.5, discount=0.01, estimate_step=True)
            ok2 = True
            for _k in range(4):
                x = sp.element([float(rng.randint(-24, 24)) / 8 for _ in range(m)])
                g = f.gradient(x)
                dd = -float(g.inner(g))
                if dd == 0:
                    continue
                try:
                    a = ls2(x, -g, dd)
                except (ValueError, AssertionError):
                    continue
                ok2 = ok2 and float(f(x - a * g)) <= float(f(x))
            _P(out, ok2, 'linesearch-object-reused-at-unrelated-points-%s' % kind,
               'BacktrackingLineSearch(estimate_step=True) called at unrelated points: f(x + alpha d) <= f(x) with f(x) '
               'evaluated independently at the point of the call', None, {'objective': od})
            lo = -1.0
            vals = []
            x = sp.element(starts[0])
            ls3 = BacktrackingLineSearch(f, tau=0.5, discount=0.01, estimate_step=True)
            state = {'before': None, 'ok': True}

            def proj(z):
                z[:] = np.maximum(np.asarray(z), lo)      # changes x AFTER the accepted step
            # steepest_descent applies projection after the update: monitor the line-search call itself
            real = ls3.__call__

            def watched(xx, dirn, ddv):
                a = real(xx, dirn, ddv)
                state['ok'] = state['ok'] and float(f(xx + a * dirn)) <= float(f(xx))
                return a
            try:
                odl.solvers.steepest_descent(f, x, line_search=watched, maxiter=4, projection=proj)
            except (ValueError, AssertionError):
                pass
            _P(out, state['ok'], 'linesearch-with-projection-between-calls-%s' % kind,
               'steepest_descent with a projection that moves x between line-search calls (estimate_step=True): every step '
               'the search returns satisfies f(x + alpha d) <= f(x) at the projected point', None, {'objective': od})


def _linesearch_stale_state_probes(rng, tier, out):
    """anisotropic quadratics x^T diag(1, c) x: a first run along the flat direction leaves a LARGE alpha in the object
    and stops at a HIGH value; a second run with the same object starts lower, on the steep axis.  Whatever the object
    remembers, every accepted step must decrease f evaluated afresh at the point of the call."""
    import odl
    from odl.solvers.util.steplen import BacktrackingLineSearch
    sp = odl.rn(2)
    cases = [(100.0, 0.75, [10.0, 0.0], [0.0, 0.2])]
    N = 6 if tier == 'quick' else 40
    for _ in range(N):
        with _guard(out, 'linesearch_stale_state_probes'):
            c = rng.choice([64.0, 100.0, 400.0, 25.0])
            cases.append((c, rng.choice([0.75, 0.5, 0.8]), [float(rng.randint(4, 12)), 0.0],
                          [0.0, float(rng.randint(1, 8)) / 32]))
    for c, tau, s1, s2 in cases:
        with _guard(out, 'linesearch_stale_state_probes'):
            f = odl.solvers.QuadraticForm(odl.MatrixOperator(np.diag([1.0, c])))
            ls = BacktrackingLineSearch(f, tau=tau, discount=0.01, estimate_step=True)
            rp = ("import odl, numpy as np\nfrom odl.solvers.util.steplen import BacktrackingLineSearch\n"
                  "sp=odl.rn(2); f=odl.solvers.QuadraticForm(odl.MatrixOperator(np.diag([1.0,%r])))\n"
                  "ls=BacktrackingLineSearch(f,tau=%r,discount=0.01,estimate_step=True)\nvals=[]\n"
                  "for x0 in (%r,%r):\n    x=sp.element(x0); run=[float(f(x))]\n"
                  "    try:\n        odl.solvers.steepest_descent(f,x,line_search=ls,maxiter=1,callback=lambda z: run.append(float(f(z))))\n"
                  "    except (ValueError, AssertionError):\n        pass\n    vals.append(run)\n"
                  "observed=vals; ok=all(b<=a for run in vals for a,b in zip(run,run[1:]))\n" % (c, tau, s1, s2))
            env = {}
            exec(rp, env)
            _P(out, env['ok'], 'linesearch-object-reused-from-lower-start',
               'BacktrackingLineSearch(estimate_step=True) reused for a second steepest_descent run that starts lower on the '
               'steep axis of x^T diag(1,%g) x: no accepted step increases f (values %r)' % (c, env['vals']), rp)


def _kkt_pd(L, fT, gT, x, y):
    """primal-dual optimality residual of  min f(x) + g(Lx):  dist(-L^* y, df(x)) + dist(y, dg(Lx))"""
    return fT.sub_dist(L.domain, x, -L.adjoint(y)) + gT.sub_dist(L.range, L(x), y)


def _g_for(rng, L):
    import odl
    if isinstance(L.range, odl.ProductSpace) and L.range.is_power_space and hasattr(L, 'partials'):
        return Term('groupl1', c=rng.choice([1.0, 0.5]))
    if isinstance(L.range, odl.ProductSpace):
        return Term('sep', parts=[_rand_term(rng, sp, ['l1', 'l2sq', 'l2']) for sp in L.range])
    return _rand_term(rng, L.range, ['l1', 'l2sq', 'l2', 'box'])


def _nonsmooth_probes(rng, tier, out):
    import odl
    S = odl.solvers
    N = 10 if tier == 'quick' else 50
    NC = 4 if tier == 'quick' else 24          # long convergence runs (NIT iterations each)
    NIT = 2500
    for _ in range(NC + 2):
        with _guard(out, 'nonsmooth_probes'):
            # ---------------- PDHG on f(x) + g(Lx), duals observable
            n = rng.randint(1, 4)
            L, lk = _probe_operator(rng, n, ('matrix', 'gradient', 'pderiv', 'broadcast', 'matrix-weighted'))
            fT = _rand_term(rng, L.domain, ['l2sq', 'l2sq', 'l1', 'box'])
            if fT.kind != 'l2sq' and rng.random() < 0.5:
                fT = Term('l2sq', c=1.0, b=_ivec(rng, _size(L.domain), -3, 3))
            gT = _g_for(rng, L)
            if gT.kind == 'box' and fT.kind == 'box':
                gT = Term('l1', c=1.0, b=_ivec(rng, _size(L.range), -2, 2))
            f, g = fT.odl(L.domain), gT.odl(L.range)
            nrm = _true_opnorm(L)
            tau = rng.choice([1.0, 0.3, 3.0]) / nrm
            sigma = 0.95 / (tau * nrm * nrm)
            x = _unflat(L.domain, _ivec(rng, _size(L.domain), -3, 3))
            y = L.range.zero()
            xr = x.copy()
            r0 = _kkt_pd(L, fT, gT, x, y)
            S.pdhg(x, f, g, L, NIT, tau=tau, sigma=sigma, x_relax=xr, y=y)
            r1 = _kkt_pd(L, fT, gT, x, y)
            okc = r1 <= 1e-5 * (1 + r0) or not np.isfinite(r0)
            _P(out, okc, 'pdhg-kkt-%s-f:%s-g:%s' % (lk, fT.kind, gT.kind),
               'pdhg drives (x, y) to a KKT point: residual %.3g -> %.3g' % (r0, r1), None,
               {'L': _matrix(L).tolist(), 'f': repr(fT), 'g': repr(gT), 'tau': tau, 'sigma': sigma})
            # fixed point: restart from the reached pair, one more step must not move it (when converged)
            if r1 <= 1e-9:
                x2, y2, xr2 = x.copy(), y.copy(), x.copy()
                S.pdhg(x2, f, g, L, 3, tau=tau, sigma=sigma, x_relax=xr2, y=y2)
                _P(out, (x2 - x).norm() <= 1e-7 * (1 + x.norm()) and (y2 - y).norm() <= 1e-7 * (1 + y.norm()),
                   'pdhg-fixed-point-%s' % lk, 'pdhg leaves a KKT pair unchanged', None)
    for _ in range(N):
        with _guard(out, 'nonsmooth_probes'):
            # ---------------- constructed solutions: (xs, ys) chosen first, functionals built around them
            n = rng.randint(1, 4)
            sp = odl.rn(n)
            M = _imat(rng, rng.randint(1, 3), n, -2, 2)
            L = odl.MatrixOperator(M)
            xs = sp.element(_ivec(rng, n, -3, 3))
            ys = L.range.element([float(rng.randint(-4, 4)) / 4 for _ in range(M.shape[0])])
            cf = rng.choice([0.5, 1.0])
            a = xs + L.adjoint(ys) / (2 * cf)                 # grad f(xs) = 2 cf (xs - a) = -L^* ys
            fT = Term('l2sq', c=cf, b=_flat(a).tolist())
            gT = Term('l1', c=1.0, b=_flat(L(xs)).tolist())    # ys in [-1,1]^m = d|.|_1 at the kink
            assert _kkt_pd(L, fT, gT, xs, ys) < 1e-12
            f, g = fT.odl(sp), gT.odl(L.range)
            tau, sigma = rng.choice(DY), rng.choice(DY)
            x, y, xr = xs.copy(), ys.copy(), xs.copy()
            tr = []
            S.pdhg(x, f, g, L, 4, tau=tau, sigma=sigma, x_relax=xr, y=y, theta=rng.choice([1.0, 0.5, 0.0]),
                   callback=lambda z: tr.append(float((z - xs).norm())))
            rp = ("import odl, numpy as np\nsp=odl.rn(%d); L=odl.MatrixOperator(np.array(%r))\nxs=sp.element(%r); ys=L.range.element(%r)\n"
                  "f=(%r*odl.solvers.L2NormSquared(sp)).translated(%r); g=odl.solvers.L1Norm(L.range).translated(L(xs))\n"
                  "x,y,xr=xs.copy(),ys.copy(),xs.copy()\nodl.solvers.pdhg(x,f,g,L,4,tau=%r,sigma=%r,x_relax=xr,y=y)\n"
                  "observed=float((x-xs).norm()+(y-ys).norm()); ok=observed<=1e-9\n"
                  % (n, M.tolist(), _flat(xs).tolist(), _flat(ys).tolist(), cf, _flat(a).tolist(), tau, sigma))
            _P(out, max(tr) <= 1e-9 and (y - ys).norm() <= 1e-9, 'pdhg-solution-fixed-point',
               'pdhg started at a constructed KKT pair stays there (tau=%r, sigma=%r)' % (tau, sigma), rp)
            # proximal gradient / accelerated: f = c|x - xs|_1 with c >= |grad g(xs)|_inf, g smooth
            b = _ivec(rng, M.shape[0], -3, 3)
            gsm = 0.5 * S.L2NormSquared(L.range).translated(b) * L
            gr = _flat(gsm.gradient(xs))
            c = float(np.max(np.abs(M.T.dot(M.dot(_flat(xs)) - np.array(b))))) + rng.choice([0.0, 0.5])
            fT = Term('l1', c=max(c, 0.25), b=_flat(xs).tolist())
            assert fT.sub_dist(sp, xs, sp.element(-(M.T.dot(M.dot(_flat(xs)) - np.array(b))))) < 1e-12
            f = fT.odl(sp)
            gamma = rng.choice(DY)
            for nm, solver in (('proximal_gradient', S.proximal_gradient), ('accelerated_proximal_gradient', S.accelerated_proximal_gradient)):
                x = xs.copy()
                tr = []
                solver(x, f, gsm, gamma, 4, callback=lambda z: tr.append(float((z - xs).norm())))
                _P(out, max(tr) <= 1e-9, '%s-solution-fixed-point' % nm,
                   '%s started at a point with -grad g(x) in df(x) stays there (gamma=%r)' % (nm, gamma), None,
                   {'M': M.tolist(), 'b': b, 'xs': _flat(xs).tolist(), 'c': fT.c, 'moved': tr})
            # solvers with internal, zero-initialised duals: solutions with zero dual and L xs = 0
            f0 = Term('l1', c=1.0, b=None) if rng.random() < 0.5 else Term('l2sq', c=1.0, b=None)
            g0 = Term(rng.choice(['l1', 'l2sq', 'l2']), c=1.0, b=None)
            f, g = f0.odl(sp), g0.odl(L.range)
            zero = sp.zero()
            tr = []
            x = zero.copy()
            S.admm_linearized(x, f, g, L, rng.choice(DY), rng.choice(DY), 3, callback=lambda z: tr.append(float(z.norm())))
            _P(out, max(tr) <= 1e-12, 'admm_linearized-solution-fixed-point', 'admm_linearized started at the common minimiser 0 stays there', None)
            tr = []
            x = zero.copy()
            S.douglas_rachford_pd(x, f, [g], [L], 3, tau=rng.choice(DY), sigma=[rng.choice(DY)], callback=lambda z: tr.append(float(z.norm())))
            _P(out, max(tr) <= 1e-12 and x.norm() <= 1e-12, 'douglas_rachford_pd-solution-fixed-point',
               'douglas_rachford_pd started at the common minimiser 0 stays there', None)
            tr = []
            x = zero.copy()
            S.forward_backward_pd(x, f, [g], [L], S.L2NormSquared(sp), rng.choice(DY), [rng.choice(DY)], 3,
                                  callback=lambda z: tr.append(float(z.norm())))
            _P(out, max(tr) <= 1e-12, 'forward_backward_pd-solution-fixed-point',
               'forward_backward_pd started at the common minimiser 0 stays there', None)
    # ---------------- convergence through the primal inclusion (g differentiable => dual determined)
    for _ in range(NC):
        with _guard(out, 'nonsmooth_probes'):
            n = rng.randint(1, 4)
            sp = odl.rn(n)
            M = _imat(rng, rng.randint(1, 3), n, -2, 2)
            L = odl.MatrixOperator(M)
            nrm = _true_opnorm(L)
            fT = _rand_term(rng, sp, ['l1', 'box', 'l2sq', 'l2'])
            cg = rng.choice([0.5, 1.0])
            bg = _ivec(rng, M.shape[0], -3, 3)
            gT = Term('l2sq', c=cg, b=bg)
            f, g = fT.odl(sp), gT.odl(L.range)

            def resid(z):
                yy = 2 * cg * (L(z) - L.range.element(bg))          # the only element of dg(Lz)
                return fT.sub_dist(sp, z, -L.adjoint(yy))
            x0 = _ivec(rng, n, -3, 3)
            r0 = resid(sp.element(x0))
            det = {'M': M.tolist(), 'f': repr(fT), 'g': repr(gT), 'x0': x0}
            # admm_linearized: needs tau |L|^2 <= sigma
            sigma = rng.choice([1.0, 0.5, 2.0])
            tau = 0.95 * sigma / nrm ** 2
            x = sp.element(x0)
            S.admm_linearized(x, f, g, L, tau, sigma, NIT)
            r1 = resid(x)
            _P(out, r1 <= 1e-5 * (1 + r0), 'admm_linearized-kkt-f:%s' % fT.kind,
               'admm_linearized: optimality residual %.3g -> %.3g' % (r0, r1), None, det)
            # douglas_rachford_pd: tau * sigma * |L|^2 < 4
            tau = rng.choice([1.0, 0.3]) / nrm
            sigma = 3.5 / (tau * nrm ** 2)
            x = sp.element(x0)
            S.douglas_rachford_pd(x, f, [g], [L], NIT, tau=tau, sigma=[sigma])
            r1 = resid(x)
            _P(out, r1 <= 1e-5 * (1 + r0), 'douglas_rachford_pd-kkt-f:%s' % fT.kind,
               'douglas_rachford_pd: optimality residual %.3g -> %.3g' % (r0, r1), None, det)
            # proximal gradient on f + (g o L): gamma < 2 / (2 cg |L|^2)
            gs = g * L
            gamma = rng.choice([0.9, 0.5]) / (2 * cg * nrm ** 2)
            for nm, solver, gam in (('proximal_gradient', S.proximal_gradient, 1.9 * gamma / 0.9 if rng.random() < 0.3 else gamma),
                                    ('accelerated_proximal_gradient', S.accelerated_proximal_gradient, gamma)):
                x = sp.element(x0)
                obj = []
                solver(x, f, gs, gam, NIT, callback=(lambda z: obj.append(float(f(z) + gs(z)))) if nm == 'proximal_gradient' else None)
                r1 = resid(x)
                _P(out, r1 <= 1e-5 * (1 + r0), '%s-kkt-f:%s' % (nm, fT.kind),
                   '%s: optimality residual %.3g -> %.3g' % (nm, r0, r1), None, det)
                if obj:
                    _P(out, _mono([float(f(sp.element(x0)) + gs(sp.element(x0)))] + obj, 1e-9) or not np.isfinite(obj[0]),
                       'proximal_gradient-objective-decrease-f:%s' % fT.kind,
                       'proximal_gradient with gamma <= 2/L never increases f + g', None, det)
            # forward_backward_pd with h strongly convex part: min f + h + g(Lx), h = |x - c|^2 / 2
            hb = _ivec(rng, n, -2, 2)
            h = 0.5 * S.L2NormSquared(sp).translated(hb)
            g2T = _rand_term(rng, L.range, ['l1', 'l2'])
            g2 = g2T.odl(L.range)
            sig = rng.choice([1.0, 0.5])
            tau = 0.9 / (0.5 + sig * nrm ** 2)                   # 1/tau - sigma |L|^2 >= beta/2, beta = 1
            x = sp.element(x0)
            ytr = []
            _fb_probe(out, rng, sp, L, fT, f, h, hb, g2T, g2, tau, sig, x0, NIT)
    # the deterministic witness of finding forward_backward_pd-x_old-alias
    rp = ("import odl\nsp=odl.rn(1); x=sp.element([1.0]); tr=[]\n"
          "odl.solvers.forward_backward_pd(x, odl.solvers.ZeroFunctional(sp), [odl.solvers.IndicatorZero(sp)], [odl.IdentityOperator(sp)],\n"
          "    odl.solvers.ZeroFunctional(sp), tau=0.5, sigma=[0.5], niter=200, callback=lambda z: tr.append(abs(float(z[0]))))\n"
          "observed=max(tr[-20:]); expected='-> 0 (unique solution x = 0)'; ok=observed<1e-6\n")
    env = {}
    exec(rp, env)
    _P(out, env['ok'], 'forward_backward_pd-x_old-alias',
       'forward_backward_pd on f=h=0, g=indicator{0}, L=id, tau=sigma=1/2 converges to the solution 0 '
       '(max |x| over the last 20 of 200 iterations: %r)' % env['observed'], rp)
    # default step-size rules (exact operator norms given as numbers)
    for _ in range(N):
        with _guard(out, 'nonsmooth_probes'):
            Ln = rng.choice([0.5, 1.0, 3.0, 7.0])
            t, s_ = S.pdhg_stepsize(Ln)
            t2, s2 = S.pdhg_stepsize(Ln, tau=0.25)
            t3, s3 = S.pdhg_stepsize(Ln, sigma=0.5)
            ok = all(abs(a * b_ * Ln ** 2 - 0.9) < 1e-12 for a, b_ in ((t, s_), (t2, s2), (t3, s3))) and t2 == 0.25 and s3 == 0.5
            _P(out, ok, 'pdhg_stepsize-rule', 'pdhg_stepsize: tau*sigma*|L|^2 = 0.9 < 1 in all three branches', None)
            Ls = [rng.choice([0.5, 1.0, 3.0]) for _ in range(rng.randint(1, 3))]
            ok = True
            for kw in ({}, {'tau': 0.3}, {'sigma': [0.7] * len(Ls)}):
                t, sg = S.douglas_rachford_pd_stepsize(Ls, **kw)
                ok = ok and abs(t * sum(si * li ** 2 for si, li in zip(sg, Ls)) - 2.0) < 1e-12
            _P(out, ok, 'douglas_rachford_pd_stepsize-rule', 'douglas_rachford_pd_stepsize: tau * sum sigma_i |L_i|^2 = 2 < 4', None)


class _SpyConj(object):
    """Stands in for a functional where a solver only uses `.convex_conj.proximal` (or `.proximal`):
    delegates to the real functional and remembers the last proximal input/output, which is how the
    solver's internal dual variable is observed without touching the solver."""

    def __init__(self, func):
        self.func, self.last_in, self.last_out = func, None, None

    @property
    def convex_conj(self):
        return _SpyConj(self.func.convex_conj)._share(self)

    def _share(self, owner):
        self.owner = owner
        return self

    def proximal(self, sigma):
        real = self.func.proximal(sigma)
        owner = getattr(self, 'owner', self)

        def call(x, out=None):
            owner.last_in = x.copy()
            res = real(x, out=out) if out is not None else real(x)
            owner.last_out = (out if out is not None else res).copy()
            return res
        return call


def _fb_probe(out, rng, sp, L, fT, f, h, hb, g2T, g2, tau, sig, x0, NIT):
    import odl
    x = sp.element(x0)
    spy = _SpyConj(g2)
    odl.solvers.forward_backward_pd(x, f, [spy], [L], h, tau, [sig], NIT)
    y = spy.last_out                      # the solver's dual variable v after the last iteration
    gh = x - sp.element(hb)
    r = fT.sub_dist(sp, x, -(gh + L.adjoint(y))) + g2T.sub_dist(L.range, L(x), y)
    ok = r <= 1e-5
    key = 'forward_backward_pd-kkt-f:%s-g:%s' % (fT.kind, g2T.kind)
    if not ok and fb_alias_variant():
        # attribute to the recorded finding only if the documented algorithm does converge on this input
        key = 'forward_backward_pd-x_old-alias'
    _P(out, ok, key, 'forward_backward_pd (f + strongly convex h + g(Lx)): optimality residual %.3g' % r, None,
       {'M': _matrix(L).tolist(), 'f': repr(fT), 'g': repr(g2T), 'tau': tau, 'sigma': sig, 'x0': x0})


# ============================================================ the property's own statement, option by option
# "A solution is a fixed point of each of them" and "the iterate is driven towards a point that satisfies the
# optimality conditions", evaluated for EVERY keyword of every solver signature at its default and at >= 2
# non-default values.  Problems have a minimiser known in closed form at exactly representable numbers:
#   lasso with orthogonal design   min 1/2 |Q x - b|^2 + c |x|_1,  Q^T Q = I :  x* = soft(Q^T b, c)
#   quadratic + box                min 1/2 |x - a|^2 + indicator[lo,hi]      :  x* = clip(a)
#   quadratic + L2                 min 1/2 |x - a|^2 + c |x|_2, a = (3,4)k   :  x* = (1 - c/|a|)+ a
#   quadratic + g(Lx), a in ker L  (solvers whose duals start at zero inside the function): x* = a
#   consistent linear systems      A x* = b with integer data
FP_TOL = 1e-10
FP_OPTIONS = {
    # solver: {keyword: [values]}; the first value of each list is the default.  'cb' = a recording callback,
    # 'call:..' = a callable returning the listed values cyclically, 'proj' = a projection that fixes x*
    'landweber': {'niter': [3, 0, 1], 'omega': [None, 0.125, 0.03125], 'projection': [None, 'proj', 'proj'],
                  'callback': [None, 'cb', 'cb']},
    'conjugate_gradient': {'niter': [3, 0, 1], 'callback': [None, 'cb', 'cb']},
    'conjugate_gradient_normal': {'niter': [1, 0, 3], 'callback': [None, 'cb', 'cb']},
    'kaczmarz': {'niter': [2, 0, 1], 'omega': [1, 0.0625, 'list'], 'projection': [None, 'proj', 'proj'],
                 'random': [False, True, True], 'callback': [None, 'cb', 'cb'], 'callback_loop': ['outer', 'inner', 'inner']},
    'pdhg': {'niter': [3, 0, 1], 'tau': [0.25, 0.5, 0.0625], 'sigma': [0.25, 1.0, 0.125], 'theta': [1, 0.5, 0.0],
             'gamma_primal': [None, 0.5, 2.0], 'gamma_dual': [None, 0.25, 1.0], 'callback': [None, 'cb', 'cb'],
             'x_relax': ['given', None, 'given'], 'y': ['given', 'given', 'given']},
    'douglas_rachford_pd': {'niter': [3, 1, 2], 'tau': [0.25, 0.5, 1.0], 'sigma': [[0.5], [0.25], [2.0]],
                            'callback': [None, 'cb', 'cb'], 'l': [None, 'indzero', 'indzero'],
                            'lam': [1.0, 0.5, 1.5, 'call:0.5,1.5']},
    'forward_backward_pd': {'niter': [3, 0, 1], 'tau': [0.25, 0.125, 0.5], 'sigma': [[0.5], [0.25], [1.0]],
                            'callback': [None, 'cb', 'cb'], 'l': [None, 'l2sq', 'l2sq']},
    'proximal_gradient': {'niter': [3, 0, 1], 'gamma': [0.5, 0.25, 1.0], 'callback': [None, 'cb', 'cb'],
                          'lam': [1.0, 0.5, 1.5, 'call:0.5,1.5,1.0']},
    'accelerated_proximal_gradient': {'niter': [3, 0, 1], 'gamma': [0.5, 0.25, 1.0], 'callback': [None, 'cb', 'cb']},
    'admm_linearized': {'niter': [3, 0, 1], 'tau': [0.125, 0.25, 0.0625], 'sigma': [1.0, 0.5, 2.0],
                        'callback': [None, 'cb', 'cb']},
    'steepest_descent': {'line_search': [1.0, 0.25, 'backtracking'], 'maxiter': [3, 0, 1], 'tol': [1e-16, 1e-3, 0.5],
                         'projection': [None, 'proj', 'proj'], 'callback': [None, 'cb', 'cb']},
}
# keywords that are the problem itself, not options
FP_PROBLEM_ARGS = {'op', 'ops', 'x', 'rhs', 'f', 'g', 'L', 'h', 'kwargs'}


def _fp_call_spec(v):
    if isinstance(v, str) and v.startswith('call:'):
        seq = [float(t) for t in v[5:].split(',')]
        return lambda k: seq[k % len(seq)]
    return v


def fp_run(solver, opts):
    """Run `solver` started AT the known minimiser of its closed-form problem with the given options; returns
    (max distance of any visited iterate / final iterate from the minimiser, description)."""
    import odl
    S = odl.solvers
    sp = odl.rn(2)
    seen = []
    o = dict(opts)
    sc = float(o.pop('scale', 1.0))          # the whole problem (data, weights of the norms, minimiser) times a power of two
    cb = (lambda z: seen.append(z.copy())) if o.pop('callback', None) == 'cb' else None

    def dist(xs, x):
        pts = [x] + seen
        return max(float((p - xs).norm()) for p in pts)
    if solver in ('landweber', 'conjugate_gradient', 'conjugate_gradient_normal', 'kaczmarz'):
        A = np.array([[2.0, 1.0], [1.0, 3.0]])
        xs = sc * sp.element([1.0, -2.0])
        op = odl.MatrixOperator(A)
        x = xs.copy()
        proj = (lambda z: z.ufuncs.maximum(-5.0 * sc, out=z)) if o.pop('projection', None) == 'proj' else None
        if solver == 'landweber':
            S.landweber(op, x, op(xs), o.pop('niter'), omega=o.pop('omega'), projection=proj, callback=cb)
        elif solver == 'conjugate_gradient':
            S.conjugate_gradient(op, x, op(xs), o.pop('niter'), callback=cb)
        elif solver == 'conjugate_gradient_normal':
            S.conjugate_gradient_normal(odl.MatrixOperator(np.array([[1.0, 2.0], [0.0, 1.0], [2.0, -1.0]])), x,
                                        odl.MatrixOperator(np.array([[1.0, 2.0], [0.0, 1.0], [2.0, -1.0]]))(xs),
                                        o.pop('niter'), callback=cb)
        else:
            ops = [odl.MatrixOperator(np.array([[2.0, 1.0]])), odl.MatrixOperator(np.array([[1.0, 3.0], [8.0, -8.0]]))]
            om = o.pop('omega')
            om = [0.125, 0.00390625] if om == 'list' else om
            np.random.seed(3)
            S.kaczmarz(ops, x, [q(xs) for q in ops], o.pop('niter'), omega=om, projection=proj, random=o.pop('random'),
                       callback=cb, callback_loop=o.pop('callback_loop'))
        assert not o, o
        return dist(xs, x), 'A x* = b'
    if solver == 'steepest_descent':
        xs = sc * sp.element([1.5, -0.5])
        f = 0.5 * S.L2NormSquared(sp).translated(xs)
        x = xs.copy()
        ls = o.pop('line_search')
        if ls == 'backtracking':
            ls = S.BacktrackingLineSearch(f)
        proj = (lambda z: z.ufuncs.maximum(-5.0 * sc, out=z)) if o.pop('projection', None) == 'proj' else None
        S.steepest_descent(f, x, line_search=ls, maxiter=o.pop('maxiter'), tol=o.pop('tol'), projection=proj, callback=cb)
        assert not o, o
        return dist(xs, x), 'min 1/2 |x - x*|^2'
    # lasso with orthogonal design: Q = [[0,1],[-1,0]], b = (0.5, 3), c = 1: Q^T b = (-3, 0.5), x* = (-2, 0)
    Q = np.array([[0.0, 1.0], [-1.0, 0.0]])
    b = sc * sp.element([0.5, 3.0])
    xs = sc * sp.element([-2.0, 0.0])
    Qop = odl.MatrixOperator(Q)
    if solver in ('proximal_gradient', 'accelerated_proximal_gradient'):
        f = sc * S.L1Norm(sp)
        g = 0.5 * S.L2NormSquared(sp).translated(b) * Qop
        x = xs.copy()
        kw = {}
        if 'lam' in o:
            lam = _fp_call_spec(o.pop('lam'))
            if lam != 1.0 or True:
                kw['lam'] = lam
        getattr(S, solver)(x, f, g, o.pop('gamma'), o.pop('niter'), callback=cb, **kw)
        assert not o, o
        return dist(xs, x), 'lasso, orthogonal design, x* = soft(Q^T b, 1) = (-2, 0)'
    if solver == 'pdhg':
        # min |x|_1 + 1/2 |Q x - b|^2 : dual y* = Q x* - b
        f = sc * S.L1Norm(sp)
        g = 0.5 * S.L2NormSquared(sp).translated(b)
        ys = Qop(xs) - b
        x, y = xs.copy(), ys.copy()
        kw = {'y': y}
        xr = o.pop('x_relax')
        o.pop('y')
        if xr == 'given':
            kw['x_relax'] = xs.copy()
        for k in ('theta', 'gamma_primal', 'gamma_dual'):
            v = o.pop(k)
            if v is not None and not (k == 'theta' and v == 1 and False):
                kw[k] = v
        if kw.get('gamma_primal') is not None and kw.get('gamma_dual') is not None:
            kw.pop('gamma_dual')
        S.pdhg(x, f, g, Qop, o.pop('niter'), tau=o.pop('tau'), sigma=o.pop('sigma'), callback=cb, **kw)
        assert not o, o
        return max(dist(xs, x), float((y - ys).norm())), 'lasso as saddle point, (x*, y*) = ((-2, 0), Q x* - b)'
    # solvers whose dual variables are created inside the function (start at zero): a in ker L, dual solution 0
    a = sc * sp.element([1.5, 1.5])
    L = odl.MatrixOperator(np.array([[1.0, -1.0]]))
    if solver == 'forward_backward_pd':
        # min |x|_1 + 1/2 |x - a'|^2 + |L x - L x*|_1 : x* = soft(a', 1), dual 0 (kink of g at L x*)
        ap = sc * sp.element([3.0, -0.5])
        xs2 = sc * sp.element([2.0, 0.0])
        f, h = sc * S.L1Norm(sp), 0.5 * S.L2NormSquared(sp).translated(ap)
        g = sc * S.L1Norm(L.range).translated(L(xs2))
        kw = {}
        lv = o.pop('l')
        if lv == 'l2sq':
            kw['l'] = [S.L2NormSquared(L.range)]          # grad l^*(0) = 0: the dual solution 0 is kept
        x = xs2.copy()
        S.forward_backward_pd(x, f, [g], [L], h, o.pop('tau'), o.pop('sigma'), o.pop('niter'), callback=cb, **kw)
        assert not o, o
        return dist(xs2, x), 'min |x|_1 + 1/2 |x - (3, -1/2)|^2 + |L(x - x*)|_1, x* = (2, 0)'
    f = 0.5 * S.L2NormSquared(sp).translated(a)
    g = sc * S.L1Norm(L.range)
    x = a.copy()
    if solver == 'admm_linearized':
        S.admm_linearized(x, f, g, L, o.pop('tau'), o.pop('sigma'), o.pop('niter'), callback=cb)
    else:
        kw = {}
        lv = o.pop('l')
        if lv == 'indzero':
            kw['l'] = [S.IndicatorZero(L.range)]          # l^* = 0: infimal convolution with l changes nothing
        lam = _fp_call_spec(o.pop('lam'))
        S.douglas_rachford_pd(x, f, [g], [L], o.pop('niter'), tau=o.pop('tau'), sigma=o.pop('sigma'), callback=cb,
                              lam=lam, **kw)
    assert not o, o
    return dist(a, x), 'min 1/2 |x - a|^2 + |x_1 - x_2|, a = (3/2, 3/2) in ker L: x* = a, dual 0'


def _fp_replay(solver, opts):
    return ("import sys\nsys.path.insert(0, %r)\nfrom harness.c12 import fp_run\nobserved, problem = fp_run(%r, %r)\n"
            "expected = 'distance from the known minimiser <= %g'\nok = observed <= %g\n"
            % (C.VERIF, solver, opts, FP_TOL, FP_TOL))


def _fp_option_sets(solver):
    """defaults; each keyword at each of its non-default values (others default); all non-default at once"""
    table = FP_OPTIONS[solver]
    base = {k: v[0] for k, v in table.items()}
    yield 'defaults', dict(base)
    for k, vals in table.items():
        for j, v in enumerate(vals[1:], 1):
            o = dict(base)
            o[k] = v
            if k == 'niter' and v == 0:
                pass
            if o.get('niter', 1) == 0 or o.get('maxiter', 1) == 0:
                o[k] = v
            if solver == 'pdhg' and k == 'gamma_dual':
                o['gamma_primal'] = None
            yield '%s=%r' % (k, v), o
    for j in (1, 2):
        o = {k: (v[j] if len(v) > j else v[-1]) for k, v in table.items()}
        if solver == 'pdhg':
            o['gamma_dual' if j == 1 else 'gamma_primal'] = None
        for it in ('niter', 'maxiter'):
            if it in o and o[it] == 0:
                o[it] = 2
        yield 'all-nondefault-%d' % j, o


def _fixed_point_option_probes(out, stop_at_first=False):
    for solver in FP_OPTIONS:
        for label, opts in _fp_option_sets(solver):
            try:
                d, problem = fp_run(solver, opts)
                ok, why = d <= FP_TOL, 'moved by %.3g' % d
            except Exception as e:
                ok, why = False, 'raised %s: %s' % (type(e).__name__, str(e)[:120])
            key = 'fixed-point-%s-%s' % (solver, label.split('=')[0])
            _P(out, ok, key, '%s started at the known minimiser with %s stays there (%s)' % (solver, label, why),
               _fp_replay(solver, opts), {'options': repr(opts)})
            if stop_at_first and not ok:
                return


def _limit_option_probes(out, tier):
    """conversely: the limit of a long run satisfies the sub-gradient inclusion, for non-default relaxation / steps"""
    import odl
    S = odl.solvers
    sp = odl.rn(2)
    Q = np.array([[0.0, 1.0], [-1.0, 0.0]])
    b = sp.element([0.5, 3.0])
    Qop = odl.MatrixOperator(Q)
    fT = Term('l1', c=1.0)
    f = S.L1Norm(sp)
    g = 0.5 * S.L2NormSquared(sp).translated(b) * Qop
    nit = 400 if tier == 'quick' else 1500

    def resid(z):
        return fT.sub_dist(sp, z, -Qop.adjoint(Qop(z) - b))
    for lam in (1.0, 0.5, 1.5, 'call:0.5,1.5'):
        with _guard(out, 'limit_option_probes'):
            for gamma in (0.5, 1.0):
                x = sp.element([3.0, 3.0])
                S.proximal_gradient(x, f, g, gamma, nit, lam=_fp_call_spec(lam))
                r = resid(x)
                _P(out, r <= 1e-8, 'limit-proximal_gradient-lam', 'proximal_gradient(lam=%r, gamma=%r): limit satisfies '
                   '-grad g(x) in d|x|_1 (residual %.3g)' % (lam, gamma, r),
                   "import odl, numpy as np\nS=odl.solvers; sp=odl.rn(2); Qop=odl.MatrixOperator(np.array([[0.,1.],[-1.,0.]])); b=sp.element([.5,3.])\n"
                   "x=sp.element([3.,3.]); lam=%r\nif isinstance(lam,str): seq=[float(t) for t in lam[5:].split(',')]; lam=lambda k: seq[k %% len(seq)]\n"
                   "S.proximal_gradient(x,S.L1Norm(sp),0.5*S.L2NormSquared(sp).translated(b)*Qop,%r,%d,lam=lam)\n"
                   "observed=x.asarray().tolist(); expected=[-2.0,0.0]; ok=float((x-sp.element(expected)).norm())<=1e-7\n" % (lam, gamma, nit))
    for gamma in (0.5, 0.25):
        with _guard(out, 'limit_option_probes'):
            x = sp.element([3.0, 3.0])
            S.accelerated_proximal_gradient(x, f, g, gamma, nit)
            r = resid(x)
            _P(out, r <= 1e-6, 'limit-accelerated_proximal_gradient-gamma', 'accelerated_proximal_gradient(gamma=%r): '
               'residual of the inclusion %.3g' % (gamma, r), None)
    g2 = 0.5 * S.L2NormSquared(sp).translated(b)
    # gamma_dual needs g^* strongly convex (g = 1/2|.-b|^2: yes); gamma_primal needs f strongly convex: use the
    # mirrored problem  min 1/2 |x - a|^2 + |Q x|_1  there.  Accelerated variants converge like 1/N^2: looser bound.
    a_ = sp.element([3.0, -0.5])
    fq, gl = 0.5 * S.L2NormSquared(sp).translated(a_), S.L1Norm(sp)
    for tau, sigma, theta, acc in ((0.25, 0.25, 1, {}), (0.5, 1.0, 1, {}), (0.0625, 4.0, 1, {}), (0.5, 0.5, 1, {'gamma_primal': 0.5}),
                                   (0.5, 0.5, 1, {'gamma_dual': 0.5}), (0.25, 0.5, 0.5, {})):
        x = sp.element([3.0, 3.0])
        y = sp.zero()
        if 'gamma_primal' in acc:
            S.pdhg(x, fq, gl, Qop, nit * 3, tau=tau, sigma=sigma, theta=theta, y=y, **acc)
            r = float((x - a_ + Qop.adjoint(y)).norm()) + fT.sub_dist(sp, Qop(x), y)
        else:
            S.pdhg(x, f, g2, Qop, nit * 3, tau=tau, sigma=sigma, theta=theta, y=y, **acc)
            r = fT.sub_dist(sp, x, -Qop.adjoint(y)) + float((y - (Qop(x) - b)).norm())
        # theta < 1 has no convergence guarantee in general; on this strongly convex problem it converges as well
        _P(out, r <= (1e-4 if acc else 1e-6), 'limit-pdhg-%s' % ('-'.join(sorted(acc)) or 'theta=%r' % theta),
           'pdhg(tau=%r, sigma=%r, theta=%r, %r): KKT residual of the limit %.3g' % (tau, sigma, theta, acc, r), None)
    a = sp.element([1.5, 1.0])
    L = odl.MatrixOperator(np.array([[1.0, -1.0]]))
    f3 = 0.5 * S.L2NormSquared(sp).translated(a)
    gT = Term('l1', c=1.0)
    for lam in (1.0, 0.5, 1.5, 'call:0.5,1.5'):
        with _guard(out, 'limit_option_probes'):
            x = sp.element([3.0, -3.0])
            spy = _SpyConj(S.L1Norm(L.range))
            S.douglas_rachford_pd(x, f3, [spy], [L], nit, tau=0.5, sigma=[1.0], lam=_fp_call_spec(lam))
            yv = spy.last_out
            r = float((x - a + L.adjoint(yv)).norm()) + gT.sub_dist(L.range, L(x), yv)
            _P(out, r <= 1e-6, 'limit-douglas_rachford_pd-lam', 'douglas_rachford_pd(lam=%r): KKT residual of the limit %.3g'
               % (lam, r), None)


# ================================================= scales, warm starts, alias-unsafe operators
SCALES = [2.0 ** -20, 2.0 ** -10, 2.0 ** 10, 2.0 ** 20]      # powers of two: float arithmetic commutes with them


def _scale_probes(out):
    """The properties are scale-invariant, absolute tolerances in the code are not.  (1) EXACT equivariance: data and
    start multiplied by a power of two must give the same callbacks multiplied by it, bit for bit (same number of
    them); (2) warm starts x* + tiny: CG / CGN still reduce the error to rounding level within n steps, residuals
    stay monotone; (3) the closed-form fixed points at every scale."""
    import odl
    S = odl.solvers
    A = np.array([[4.0, 1.0, 0.0], [1.0, 3.0, 1.0], [0.0, 1.0, 2.0]])
    M = np.array([[2.0, 1.0, 0.0], [1.0, -1.0, 1.0], [0.0, 3.0, 1.0], [1.0, 1.0, 1.0]])
    x0 = [1.0, -2.0, 0.5]
    bA = [3.0, -1.0, 2.0]
    bM = [1.0, 2.0, -1.0, 0.5]

    def run(solver, s):
        tr = []
        cb = lambda z: tr.append(np.asarray(z).copy())
        if solver == 'conjugate_gradient':
            op = odl.MatrixOperator(A)
            x = op.domain.element([s * t for t in x0])
            S.conjugate_gradient(op, x, op.range.element([s * t for t in bA]), 3, callback=cb)
        elif solver == 'conjugate_gradient_normal':
            op = odl.MatrixOperator(M)
            x = op.domain.element([s * t for t in x0])
            S.conjugate_gradient_normal(op, x, op.range.element([s * t for t in bM]), 3, callback=cb)
        elif solver == 'landweber':
            op = odl.MatrixOperator(M)
            x = op.domain.element([s * t for t in x0])
            S.landweber(op, x, op.range.element([s * t for t in bM]), 4, omega=0.0625, callback=cb)
        elif solver == 'kaczmarz':
            ops = [odl.MatrixOperator(M[:2]), odl.MatrixOperator(M[2:])]
            x = ops[0].domain.element([s * t for t in x0])
            S.kaczmarz(ops, x, [ops[0].range.element([s * t for t in bM[:2]]), ops[1].range.element([s * t for t in bM[2:]])],
                       3, omega=[0.125, 0.0625], callback=cb, callback_loop='inner')
        elif solver in ('proximal_gradient', 'accelerated_proximal_gradient'):
            sp = odl.rn(3)
            f = s * S.L1Norm(sp)
            g = 0.5 * S.L2NormSquared(sp).translated([s * t for t in bA]) * odl.MatrixOperator(A * 0.25)
            x = sp.element([s * t for t in x0])
            getattr(S, solver)(x, f, g, 0.5, 4, callback=cb)
        return tr, np.asarray(x).copy()
    for solver in ('conjugate_gradient', 'conjugate_gradient_normal', 'landweber', 'kaczmarz', 'proximal_gradient',
                   'accelerated_proximal_gradient'):
        base, xb = run(solver, 1.0)
        for s in SCALES:
            tr, xf = run(solver, s)
            ok = len(tr) == len(base) and all(np.array_equal(t, s * b) for t, b in zip(tr, base)) and np.array_equal(xf, s * xb)
            _P(out, ok, 'scale-equivariance-%s' % solver,
               '%s with data and start multiplied by 2**%d gives the same iterates multiplied by it, bit for bit '
               '(%d callbacks vs %d)' % (solver, int(np.log2(s)), len(tr), len(base)),
               "import sys\nsys.path.insert(0, %r)\nfrom harness import c12\nout=[]\nc12._scale_probes(out)\n"
               "bad=[p.what for p in out if not p.ok]\nobserved=bad[:3]; ok=not bad\n" % C.VERIF,
               {'scale': s, 'final': xf.tolist(), 'expected_final': (s * xb).tolist()})
    # warm starts: x0 = x* + tiny * delta, at several magnitudes of the problem
    xs = np.array([1.0, -2.0, 0.5])
    for s in [1.0] + SCALES:
        for eps in (2.0 ** -20, 2.0 ** -30):
            op = odl.MatrixOperator(A)
            sol = op.domain.element(s * xs)
            x = op.domain.element(s * (xs + eps * np.array([1.0, -1.0, 2.0])))
            e0 = float((x - sol).inner(op(x - sol)))
            vals = [e0]
            S.conjugate_gradient(op, x, op(sol), 3, callback=lambda z: vals.append(float((z - sol).inner(op(z - sol)))))
            e1 = float((x - sol).inner(op(x - sol)))
            _P(out, _mono(vals, 1e-9) and e1 <= 1e-12 * e0, 'warm-start-conjugate_gradient',
               'conjugate_gradient from x* + 2**%d * delta (problem scale 2**%d): energy error %.3g -> %.3g within n steps'
               % (int(np.log2(eps)), int(np.log2(s)), e0, e1),
               "import odl, numpy as np\nA=np.array(%r); op=odl.MatrixOperator(A); s=%r; eps=%r\nsol=op.domain.element(s*np.array([1.,-2.,.5]))\n"
               "x=op.domain.element(s*(np.array([1.,-2.,.5])+eps*np.array([1.,-1.,2.]))); e0=float((x-sol).inner(op(x-sol)))\n"
               "odl.solvers.conjugate_gradient(op,x,op(sol),3)\nobserved=float((x-sol).inner(op(x-sol))); expected='<= 1e-12 * %%g' %% e0; ok=observed<=1e-12*e0\n"
               % (A.tolist(), s, eps))
            opn = odl.MatrixOperator(M)
            x = opn.domain.element(s * (xs + eps * np.array([1.0, -1.0, 2.0])))
            rhs = opn(opn.domain.element(s * xs))
            r0 = float((opn(x) - rhs).norm())
            vals = [r0]
            S.conjugate_gradient_normal(opn, x, rhs, 3, callback=lambda z: vals.append(float((opn(z) - rhs).norm())))
            r1 = float((opn(x) - rhs).norm())
            _P(out, _mono(vals, 1e-9) and r1 <= 1e-6 * r0, 'warm-start-conjugate_gradient_normal',
               'conjugate_gradient_normal from x* + 2**%d * delta (scale 2**%d): residual %.3g -> %.3g within n steps'
               % (int(np.log2(eps)), int(np.log2(s)), r0, r1), None)
    # the closed-form fixed points at every scale (default options and one non-default set)
    for solver in FP_OPTIONS:
        sets = list(_fp_option_sets(solver))
        for s in SCALES:
            for label, opts in (sets[0], sets[-1]):
                o = dict(opts, scale=s)
                try:
                    d, problem = fp_run(solver, o)
                    ok, why = d <= FP_TOL * s, 'moved by %.3g' % d
                except Exception as e:
                    ok, why = False, 'raised %s: %s' % (type(e).__name__, str(e)[:100])
                _P(out, ok, 'fixed-point-at-scale-%s' % solver,
                   '%s started at the known minimiser of the problem scaled by 2**%d (%s) stays there (%s)'
                   % (solver, int(np.log2(s)), label, why), _fp_replay(solver, o).replace('<= %g' % FP_TOL, '<= %g' % (FP_TOL * s)))


def _tr_replay(name):
    return ("import sys\nsys.path.insert(0, %r)\nfrom harness import c12\nout=[]\nc12._transcription_probes(out)\n"
            "bad=[(p.key, p.detail) for p in out if not p.ok and p.key.startswith(%r)]\nobserved=bad[:2]; ok=not bad\n"
            % (C.VERIF, name))


def _transcription_probes(out):
    """NumPy transcriptions of the documented iterations on fixed small problems, compared iterate by iterate, plus the
    limit against the closed-form minimiser: accelerated pdhg (primal and dual rule), douglas_rachford_pd with several
    operators SHARING a range space, forward_backward_pd with infimal-convolution terms `l` and sigma_i != 1."""
    import odl
    S = odl.solvers
    sp = odl.rn(2)
    close = lambda tr, ref: len(tr) == len(ref) and all(np.allclose(t, r, rtol=1e-9, atol=1e-12) for t, r in zip(tr, ref))
    soft = lambda z, t: np.sign(z) * np.maximum(np.abs(z) - t, 0.0)
    # ---------------- accelerated pdhg
    Q = np.array([[0.0, 1.0], [-1.0, 0.0]])
    Qop = odl.MatrixOperator(Q)
    b = np.array([0.5, 3.0])
    a = np.array([3.0, -0.5])
    for mode, gamma in (('gamma_dual', 0.5), ('gamma_dual', 1.0), ('gamma_primal', 0.5), ('gamma_primal', 1.0)):
        with _guard(out, 'transcription-pdhg-' + mode, _tr_replay('transcription-pdhg')):
            if mode == 'gamma_dual':      # min |x|_1 + 1/2 |Q x - b|^2 : g^* is 1-strongly convex; x* = soft(Q^T b, 1) = (-2, 0)
                f, g = S.L1Norm(sp), 0.5 * S.L2NormSquared(sp).translated(b)
                proxf = lambda z, t: soft(z, t)
                proxgc = lambda y, sg: (y - sg * b) / (1 + sg)
                xstar = np.array([-2.0, 0.0])
            else:                         # min 1/2 |x - a|^2 + |Q x|_1 : f is 1-strongly convex; x* = soft(a, 1) = (2, 0)
                f, g = 0.5 * S.L2NormSquared(sp).translated(a), S.L1Norm(sp)
                proxf = lambda z, t: (z + t * a) / (1 + t)
                proxgc = lambda y, sg: np.clip(y, -1.0, 1.0)
                xstar = np.array([2.0, 0.0])
            tau, sigma = 0.5, 0.5
            tr = []
            x = sp.element([3.0, 3.0])
            S.pdhg(x, f, g, Qop, 6, tau=tau, sigma=sigma, callback=lambda z: tr.append(np.asarray(z).copy()), **{mode: gamma})
            ref, xx, xr, yy, t_, s_ = [], np.array([3.0, 3.0]), np.array([3.0, 3.0]), np.zeros(2), tau, sigma
            for _ in range(6):
                yy = proxgc(yy + s_ * Q.dot(xr), s_)
                xn = proxf(xx - t_ * Q.T.dot(yy), t_)
                if mode == 'gamma_primal':
                    th = 1 / np.sqrt(1 + 2 * gamma * t_)
                    t_, s_ = t_ * th, s_ / th
                else:
                    th = 1 / np.sqrt(1 + 2 * gamma * s_)
                    t_, s_ = t_ / th, s_ * th
                xr = xn + th * (xn - xx)
                xx = xn
                ref.append(xx.copy())
            _P(out, close(tr, ref), 'transcription-pdhg-%s' % mode,
               'pdhg(%s=%r): the first 6 iterates equal the NumPy transcription (tau*theta / sigma/theta for the primal, '
               'tau/theta / sigma*theta for the dual rule)' % (mode, gamma), _tr_replay('transcription-pdhg'),
               {'got': [t.tolist() for t in tr[:3]], 'want': [t.tolist() for t in ref[:3]]})
            x = sp.element([3.0, 3.0])
            S.pdhg(x, f, g, Qop, 1500, tau=tau, sigma=sigma, **{mode: gamma})
            d = float(np.linalg.norm(np.asarray(x) - xstar))
            # accelerated pdhg: |x_N - x*| = O(1/N); a frozen or diverging iterate is off by O(1)
            _P(out, d <= 1e-2, 'limit-pdhg-%s-known-minimiser' % mode,
               'pdhg(%s=%r, admissible: the strongly convex side has modulus 1) converges to the closed-form minimiser %r '
               '(distance %.3g after 1500 iterations)' % (mode, gamma, xstar.tolist(), d), _tr_replay('limit-pdhg'),
               {'x': np.asarray(x).tolist()})
    # ---------------- douglas_rachford_pd, operators sharing a range space
    Ls = [np.array([[1.0, -1.0]]), np.array([[2.0, 1.0]]), np.array([[0.0, 3.0]])]      # all map into rn(1)
    cs = [1.0, 0.5, 2.0]
    sig = [0.5, 1.0, 0.25]
    a3 = np.array([1.5, -1.0])
    for m in (2, 3):
        for lam in (1.0, 0.5):
            with _guard(out, 'transcription-douglas_rachford_pd', _tr_replay('transcription-douglas')):
                ops = [odl.MatrixOperator(L) for L in Ls[:m]]
                f = 0.5 * S.L2NormSquared(sp).translated(a3)
                gs = [c * S.L1Norm(o.range) for c, o in zip(cs, ops)]
                tau = 0.25
                tr = []
                x = sp.element([2.0, 3.0])
                S.douglas_rachford_pd(x, f, gs, ops, 5, tau=tau, sigma=sig[:m], lam=lam,
                                      callback=lambda z: tr.append(np.asarray(z).copy()))
                xx, vs, ref = np.array([2.0, 3.0]), [np.zeros(1) for _ in range(m)], []
                for k in range(5):
                    z1 = xx - tau / 2 * sum(L.T.dot(v) for L, v in zip(Ls, vs))
                    p1 = (z1 + tau * a3) / (1 + tau)
                    ref.append(p1.copy())
                    if k == 4:
                        xx = p1
                        break
                    w1 = 2 * p1 - xx
                    p2 = [np.clip(v + s_ / 2 * L.dot(w1), -c, c) for L, v, s_, c in zip(Ls, vs, sig, cs)]
                    w2 = [2 * p - v for p, v in zip(p2, vs)]
                    z1 = w1 - tau / 2 * sum(L.T.dot(w) for L, w in zip(Ls, w2))
                    xx = xx - lam * p1 + lam * z1
                    q1 = 2 * z1 - w1
                    vs = [v + lam * (w + s_ / 2 * L.dot(q1)) - lam * p for L, v, w, p, s_ in zip(Ls, vs, w2, p2, sig)]
                ok = close(tr, ref) and np.allclose(np.asarray(x), xx, rtol=1e-9, atol=1e-12)
                _P(out, ok, 'transcription-douglas_rachford_pd-shared-range',
                   'douglas_rachford_pd with %d operators into the SAME range space rn(1), lam=%r: callbacks and final x equal '
                   'the NumPy transcription' % (m, lam), _tr_replay('transcription-douglas'),
                   {'got': [t.tolist() for t in tr], 'want': [t.tolist() for t in ref]})
                # limit: KKT through the duals observed by spies
                x = sp.element([2.0, 3.0])
                spies = [_SpyConj(gi) for gi in gs]
                S.douglas_rachford_pd(x, f, spies, ops, 3000, tau=tau, sigma=sig[:m], lam=lam)
                ys = [sp_.last_out for sp_ in spies]
                r = float(np.linalg.norm(np.asarray(x) - a3 + sum(L.T.dot(np.asarray(y)) for L, y in zip(Ls, ys))))
                r += sum(Term('l1', c=c).sub_dist(o.range, o(x), y) for c, o, y in zip(cs, ops, ys))
                _P(out, r <= 1e-6, 'limit-douglas_rachford_pd-shared-range',
                   'douglas_rachford_pd with %d operators sharing a range, lam=%r: KKT residual of the limit %.3g' % (m, lam, r),
                   _tr_replay('limit-douglas'))
    # ---------------- forward_backward_pd with l and sigma != 1
    alias = fb_alias_variant()
    for sig2, cl in (([0.5], 1.0), ([2.0], 0.5), ([0.25, 2.0], 1.0)):
        with _guard(out, 'transcription-forward_backward_pd', _tr_replay('transcription-forward')):
            m = len(sig2)
            ops = [odl.MatrixOperator(L) for L in Ls[:m]]
            f = S.L1Norm(sp)
            h = 0.5 * S.L2NormSquared(sp).translated(a3)
            gs = [c * S.L1Norm(o.range) for c, o in zip(cs, ops)]
            ls = [cl * S.L2NormSquared(o.range) for o in ops]                 # grad l^*(v) = v / (2 cl)
            tau = 0.125
            tr = []
            x = sp.element([2.0, 3.0])
            S.forward_backward_pd(x, f, gs, ops, h, tau, sig2, 5, l=ls, callback=lambda z: tr.append(np.asarray(z).copy()))
            xx, vs, ref = np.array([2.0, 3.0]), [np.zeros(1) for _ in range(m)], []
            for _ in range(5):
                t1 = (xx - a3) + sum(L.T.dot(v) for L, v in zip(Ls, vs))
                xn = soft(xx - tau * t1, tau)
                y = xn if alias else 2 * xn - xx
                vs = [np.clip(v + s_ * (L.dot(y) - v / (2 * cl)), -c, c) for L, v, s_, c in zip(Ls, vs, sig2, cs)]
                xx = xn
                ref.append(xx.copy())
            _P(out, close(tr, ref), 'transcription-forward_backward_pd-l-sigma',
               'forward_backward_pd with l_i = %r |.|^2 and sigma = %r: iterates equal the NumPy transcription '
               '(dual step v + sigma_i (L_i y - grad l_i^*(v)))' % (cl, sig2), _tr_replay('transcription-forward'),
               {'got': [t.tolist() for t in tr], 'want': [t.tolist() for t in ref], 'alias_variant': alias})


def _norm_estimate_probes(rng, out):
    """power_method_opnorm and the default step sizes derived from it, at magnitudes 2**-30 .. 2**20 of the operator:
    the estimate must be within 1e-3 of the true norm (never above) for operators with a clear spectral gap, and
    landweber(omega=None), pdhg_stepsize(L) must stay admissible.  Magnitudes <= 2**-17 (norm below ~2e-5) are finding
    power-method-atol-small-norm (absolute tolerance 1e-8 in the stopping test)."""
    import odl
    from odl.operator.oputils import power_method_opnorm
    R1 = np.array([[0.6, -0.8, 0.0], [0.8, 0.6, 0.0], [0.0, 0.0, 1.0]])
    R2 = np.array([[1.0, 0.0, 0.0], [0.0, 0.6, 0.8], [0.0, -0.8, 0.6]])
    base = [R1.dot(np.diag([4.0, 1.0, 0.5])).dot(R2), np.diag([3.0, 1.0, 0.25]), R2.dot(np.diag([2.0, 0.5, 0.5])).dot(R1),
            R1.dot(np.diag([1.0, 0.8, 0.5])).dot(R2), R2.dot(np.diag([2.0, 1.7, 0.3])).dot(R1)]     # the last two: small gap
    for k in (-30, -20, -17, -13, -10, 0, 10, 20):
        for j, B in enumerate(base):
            with _guard(out, 'norm-estimates'):
                A = B * 2.0 ** k
                true = float(np.linalg.norm(A, 2))
                rp = ("import odl, numpy as np\nfrom odl.operator.oputils import power_method_opnorm\nA=np.array(%r)*2.0**%d\n"
                      "observed=float(power_method_opnorm(odl.MatrixOperator(A), xstart=[1.,1.,1.], maxiter=100))\n"
                      "expected=float(np.linalg.norm(A,2)); ok=(1-1e-3)*expected<=observed<=expected*(1+1e-9)\n" % (B.tolist(), k))
                est = float(power_method_opnorm(odl.MatrixOperator(A), xstart=[1.0, 1.0, 1.0], maxiter=100))
                _P(out, (1 - 1e-3) * true <= est <= true * (1 + 1e-9),
                   'power-method-atol-small-norm' if k <= -17 else 'power-method-estimate-accuracy',
                   'power_method_opnorm of a matrix with singular values (4,1,.5)-like times 2**%d: estimate/true = %.4f '
                   '(must be in [0.999, 1])' % (k, est / true), rp)
                # default relaxation of landweber
                op = odl.MatrixOperator(A)
                b = op.range.element(np.array([2.0, 1.0, 2.0]) * 2.0 ** k)
                x = op.domain.element([-3.0, 2.0, -3.0])
                vals = [float((op(x) - b).norm())]
                np.random.seed(13 + j)
                odl.solvers.landweber(op, x, b, 6, callback=lambda z: vals.append(float((op(z) - b).norm())))
                _P(out, _mono(vals, 1e-9), 'power-method-atol-small-norm' if k <= -17 else 'landweber-default-omega-at-scale',
                   'landweber(omega=None) on an operator of norm %.3g: residual non-increasing (%s)'
                   % (true, ['%.3g' % v for v in vals[:4]]),
                   "import odl, numpy as np\nA=np.array(%r)*2.0**%d; op=odl.MatrixOperator(A)\nb=op.range.element(np.array([2.,1.,2.])*2.0**%d); "
                   "x=op.domain.element([-3.,2.,-3.]); vals=[float((op(x)-b).norm())]\nnp.random.seed(%d)\n"
                   "odl.solvers.landweber(op,x,b,6,callback=lambda z: vals.append(float((op(z)-b).norm())))\n"
                   "observed=vals; ok=all(q<=p*(1+1e-9) for p,q in zip(vals,vals[1:]))\n" % (B.tolist(), k, k, 13 + j))
                np.random.seed(13 + j)
                t_, s_ = odl.solvers.pdhg_stepsize(odl.MatrixOperator(A))
                _P(out, t_ * s_ * true ** 2 <= 1.0, 'power-method-atol-small-norm' if k <= -17 else 'pdhg_stepsize-admissible-at-scale',
                   'pdhg_stepsize(L) for |L| = %.3g: tau*sigma*|L|^2 = %.4f <= 1' % (true, t_ * s_ * true ** 2), None)
    # the documented finding, deterministic
    with _guard(out, 'norm-estimates'):
        rp = ("import odl, numpy as np\nA=np.array([[3.,2.,-3.],[0.,-3.,0.],[-2.,-1.,2.]])*2.0**-30; op=odl.MatrixOperator(A)\n"
              "x=op.domain.element([-3.,2.,-3.]); b=op.range.element(np.array([2.,1.,2.])*2.0**-30); vals=[float((op(x)-b).norm())]\n"
              "np.random.seed(13)\nodl.solvers.landweber(op,x,b,6,callback=lambda z: vals.append(float((op(z)-b).norm())))\n"
              "observed=vals; ok=all(q<=p*(1+1e-9) for p,q in zip(vals,vals[1:]))\n")
        env = {}
        exec(rp, env)
        _P(out, env['ok'], 'power-method-atol-small-norm',
           'landweber(omega=None) on a 3x3 integer matrix times 2**-30: residual non-increasing (observed %r)'
           % (['%.3g' % v for v in env['vals']],), rp)


def _alias_pool(rng):
    """linear operators with domain == range whose in-place call is NOT safe when out aliases the input (and a few
    that are), as (name, operator)"""
    import odl
    r2 = odl.rn(2)
    mk = lambda m: odl.MatrixOperator(np.array(m, dtype=float))
    A, B, Cm, D = mk([[2, 1], [0, 1]]), mk([[1, 0], [1, 1]]), mk([[0, 1], [1, 0]]), mk([[1, -1], [2, 1]])
    Id = odl.IdentityOperator(r2)
    d = odl.uniform_discr(0, 4, 4)
    G = odl.Gradient(d, pad_mode='constant')
    pool = [('ProductSpaceOperator-offdiag', odl.ProductSpaceOperator([[A, B], [Cm, D]])),
            ('ProductSpaceOperator-antidiag', odl.ProductSpaceOperator([[None, A], [B, None]])),
            ('OperatorSum', A + D),
            ('OperatorComp', D * A),
            ('Reduction*Broadcast', odl.ReductionOperator(Id, A) * odl.BroadcastOperator(Id, B)),
            ('Divergence*Gradient', (-odl.Divergence(range=d, pad_mode='constant')) * G),
            ('scaled-sum', 0.5 * (A + B * Cm)),
            ('MatrixOperator', mk([[1, 2], [-1, 1]]))]
    return pool


class _FirstDraw(object):
    """a stand-in for the driver's generator whose first randrange returns a fixed seed (used by replays)"""

    def __init__(self, seed):
        self.seed = seed

    def randrange(self, *a):
        return self.seed


def _alias_pool_probes(rng, out):
    """solvers on square operators from the pool against the NumPy recursion on the measured matrices"""
    import odl
    S = odl.solvers
    seed = rng.randrange(2 ** 31)
    rng = __import__('random').Random(seed)

    class _Fixed(object):               # what the replay passes in: a generator whose first draw is `seed`
        pass
    REPLAY = ("import sys, random\nsys.path.insert(0, %r)\nfrom harness import c12\nout=[]\n"
              "c12._alias_pool_probes(random.Random(%d), out)\nbad=[(p.key, p.detail) for p in out if not p.ok]\n"
              "observed=bad[:2]; ok=not bad\n" % (C.VERIF, seed))
    for name, op in _alias_pool(rng):
        with _guard(out, 'alias_pool_probes'):
            M, Mt = _matrix(op), _matrix(op.adjoint)
            n = M.shape[0]
            w = _weights(op.domain)
            b = np.array([float(rng.randint(-3, 3)) for _ in range(n)])
            x0 = np.array([float(rng.randint(-2, 2)) for _ in range(n)])
            om = float(2.0 ** np.floor(np.log2(1.0 / max(1.0, np.linalg.norm(M, 2) ** 2))))

            def close(tr, ref):
                return len(tr) == len(ref) and all(np.allclose(t, r, rtol=1e-9, atol=1e-11) for t, r in zip(tr, ref))
            # landweber
            tr = []
            x = _unflat(op.domain, x0.copy())
            S.landweber(op, x, _unflat(op.range, b), 4, omega=om, callback=lambda z: tr.append(_flat(z).copy()))
            ref, y = [], x0.copy()
            for _ in range(4):
                y = y - om * Mt.dot(M.dot(y) - b)
                ref.append(y.copy())
            _P(out, close(tr, ref), 'alias-pool-landweber-%s' % name,
               'landweber on %s (domain == range) equals the NumPy recursion x - omega A^*(A x - b)' % name, REPLAY,
               {'M': M.tolist(), 'b': b.tolist(), 'x0': x0.tolist(), 'omega': om, 'got': [t.tolist() for t in tr[:2]],
                'want': [t.tolist() for t in ref[:2]]})
            # kaczmarz with the operator twice (two right-hand sides)
            tr = []
            x = _unflat(op.domain, x0.copy())
            S.kaczmarz([op, op], x, [_unflat(op.range, b), _unflat(op.range, 2 * b)], 2, omega=[om, om / 2],
                       callback=lambda z: tr.append(_flat(z).copy()), callback_loop='inner')
            ref, y = [], x0.copy()
            for _ in range(2):
                for bb, oo in ((b, om), (2 * b, om / 2)):
                    y = y - oo * Mt.dot(M.dot(y) - bb)
                    ref.append(y.copy())
            _P(out, close(tr, ref), 'alias-pool-kaczmarz-%s' % name, 'kaczmarz on [%s, %s] equals the NumPy recursion' % (name, name), REPLAY)
            # conjugate_gradient_normal
            tr = []
            x = _unflat(op.domain, x0.copy())
            S.conjugate_gradient_normal(op, x, _unflat(op.range, b), 2, callback=lambda z: tr.append(_flat(z).copy()))
            ip = lambda u, v: float(np.sum(w * u * v))
            ref, y = [], x0.copy()
            dd = b - M.dot(y)
            p = Mt.dot(dd)
            s_ = p.copy()
            ss = ip(s_, s_)
            for _ in range(2):
                q = M.dot(p)
                qq = ip(q, q)
                if qq == 0:
                    break
                a = ss / qq
                y = y + a * p
                dd = dd - a * q
                s_ = Mt.dot(dd)
                ssn = ip(s_, s_)
                p = s_ + (ssn / ss) * p
                ss = ssn
                ref.append(y.copy())
            _P(out, close(tr, ref), 'alias-pool-conjugate_gradient_normal-%s' % name,
               'conjugate_gradient_normal on %s equals the NumPy recursion' % name, REPLAY)
            # conjugate_gradient on the self-adjoint positive operator  A^* A + I  built by operator arithmetic
            T = op.adjoint * op + odl.IdentityOperator(op.domain)
            TM = Mt.dot(M) + np.eye(n)
            tr = []
            x = _unflat(op.domain, x0.copy())
            S.conjugate_gradient(T, x, _unflat(op.domain, b), 2, callback=lambda z: tr.append(_flat(z).copy()))
            ref, y = [], x0.copy()
            r = b - TM.dot(y)
            p = r.copy()
            rr = ip(r, r)
            for _ in range(2):
                if rr == 0:
                    break
                dv = TM.dot(p)
                pd = ip(p, dv)
                if pd == 0:
                    break
                al = rr / pd
                y = y + al * p
                r = r - al * dv
                rn_ = ip(r, r)
                p = r + (rn_ / rr) * p
                rr = rn_
                ref.append(y.copy())
            _P(out, close(tr, ref), 'alias-pool-conjugate_gradient-%s' % name,
               'conjugate_gradient on A^*A + I with A = %s equals the NumPy recursion' % name, REPLAY)
            # power method on the same self-adjoint operator: never above the largest eigenvalue
            from odl.operator.oputils import power_method_opnorm
            est = float(power_method_opnorm(op, xstart=_unflat(op.domain, np.ones(n)), maxiter=10))
            true = _true_opnorm(op)
            _P(out, est <= true * (1 + 1e-9), 'alias-pool-power-method-%s' % name,
               'power_method_opnorm(%s) = %r <= %r' % (name, est, true), REPLAY)
            # non-smooth solvers with L from the pool (operators on rn(n) only): pdhg / admm against NumPy
            if isinstance(op.domain, odl.ProductSpace) or not isinstance(op.domain, type(odl.rn(1))) or op.domain != odl.rn(n):
                continue
            sp = op.domain
            a = np.array([float(rng.randint(-2, 2)) for _ in range(n)])
            f = 0.5 * S.L2NormSquared(sp).translated(a)
            g = S.L1Norm(sp)
            tau, sigma = 0.25, 0.5
            tr = []
            x = sp.element(x0.copy())
            S.pdhg(x, f, g, op, 3, tau=tau, sigma=sigma, callback=lambda z: tr.append(_flat(z).copy()))
            ref, xx, xr, yy = [], x0.copy(), x0.copy(), np.zeros(n)
            for _ in range(3):
                yy = np.clip(yy + sigma * M.dot(xr), -1, 1)
                xn = (xx - tau * Mt.dot(yy) + tau * a) / (1 + tau)
                xr = 2 * xn - xx
                xx = xn
                ref.append(xx.copy())
            _P(out, close(tr, ref), 'alias-pool-pdhg-%s' % name, 'pdhg with L = %s equals the NumPy recursion' % name, REPLAY)
            tr = []
            x = sp.element(x0.copy())
            S.admm_linearized(x, f, g, op, 0.125, 1.0, 3, callback=lambda z: tr.append(_flat(z).copy()))
            ref, xx, zz, uu = [], x0.copy(), np.zeros(n), np.zeros(n)
            t_, s_g = 0.125, 1.0
            for _ in range(3):
                v = xx - t_ / s_g * Mt.dot(M.dot(xx) + uu - zz)
                xx = (v + t_ * a) / (1 + t_)
                Lx = M.dot(xx)
                zn = np.sign(Lx + uu) * np.maximum(np.abs(Lx + uu) - s_g, 0)
                uu = uu + Lx - zn
                zz = zn
                ref.append(xx.copy())
            _P(out, close(tr, ref), 'alias-pool-admm_linearized-%s' % name, 'admm_linearized with L = %s equals the NumPy recursion' % name, REPLAY)


def search(rng, broken):
    """Something is broken (a proof over regenerated code, the translator, the correspondence): evaluate the property's
    own statement option by option and return the first input on which it fails (not a recorded finding)."""
    known = C.load_findings(PID)
    out = []
    for name, fam in FAMILIES[:6]:
        with _guard(out, 'family-' + name):
            fam(rng, 'quick', out)
        for p in out:
            if not p.ok and p.key not in known:
                return p
    return None


def extra_coverage():
    """Every keyword of every anchored solver signature (incl. the ones popped from **kwargs) against the option
    table of the fixed-point family: a keyword without probe values shows up under 'uncovered'."""
    import inspect
    import re
    import odl
    S = odl.solvers
    rep = {}
    for name in FP_OPTIONS:
        fn = getattr(S, name)
        kws = [k for k in inspect.signature(fn).parameters if k not in FP_PROBLEM_ARGS]
        kws += re.findall(r"kwargs\.pop\('(\w+)'", inspect.getsource(fn))
        table = FP_OPTIONS[name]
        rep[name] = {'keywords': kws,
                     'values': {k: [repr(v) for v in table[k]] for k in kws if k in table},
                     'uncovered': [k for k in kws if k not in table or len(table[k]) < 3],
                     'stale_table_entries': [k for k in table if k not in kws]}
    rep['all_covered'] = all(not r['uncovered'] and not r['stale_table_entries'] for r in rep.values() if isinstance(r, dict))
    return rep


FAMILIES = [('fixed-point-options', lambda rng, tier, out: _fixed_point_option_probes(out)),
            ('scales', lambda rng, tier, out: _scale_probes(out)),
            ('transcriptions', lambda rng, tier, out: _transcription_probes(out)),
            ('norm-estimates', lambda rng, tier, out: _norm_estimate_probes(rng, out)),
            ('alias-pool', lambda rng, tier, out: _alias_pool_probes(rng, out)),
            ('limits', lambda rng, tier, out: _limit_option_probes(out, tier)),
            ('linear', lambda rng, tier, out: (np.random.seed(rng.randrange(2 ** 31)), _linear_probes(rng, tier, out))),
            ('cgn-regressions', lambda rng, tier, out: (_cgn_blowup_probe(out), _cgn_noise_floor_probe(rng, tier, out))),
            ('descent', lambda rng, tier, out: _descent_probes(rng, tier, out)),
            ('linesearch-reuse', lambda rng, tier, out: (_linesearch_reuse_probes(rng, tier, out),
                                                          _linesearch_stale_state_probes(rng, tier, out))),
            ('nonsmooth', lambda rng, tier, out: _nonsmooth_probes(rng, tier, out))]


def probes(rng, tier):
    out = []
    for name, fam in FAMILIES:
        with _guard(out, 'family-' + name):         # a crash never takes the other families down
            fam(rng, tier, out)
    return out


LEVEL_TEXT = ('Proof (partial: convergence of the non-smooth solvers is validated, not proved). Tie to the source: the loop bodies '
              'of conjugate_gradient, conjugate_gradient_normal, power_method_opnorm, forward_backward_pd, douglas_rachford_pd and the '
              'formulas of BacktrackingLineSearch are REGENERATED from /repo on every run (translate/solvers_c12.py) and proved equal to '
              'the models; landweber, kaczmarz, pdhg, admm_linearized, (accelerated_)proximal_gradient go through the programs C11 '
              'regenerates (C12/Bridge.v); an edit of a loop body breaks a proof, unknown syntax fails closed. '
              'The loop bodies of landweber, kaczmarz, conjugate_gradient, conjugate_gradient_normal, power_method_opnorm, '
              'pdhg, douglas_rachford_pd, forward_backward_pd, (accelerated_)proximal_gradient, admm_linearized, '
              'BacktrackingLineSearch and steepest_descent are modelled once, generically, in Coq; the same terms are executed '
              'at Q against the implementation (every branch of the loops, 258/1065 cases) and proved at R over ALL '
              'inner-product spaces, operators, starts and iteration budgets: Landweber/CGN residual and Kaczmarz distance '
              'never increase in the admissible step windows, the CG energy error decreases by |r|^4/<p,Ap> per step, '
              'CG is exact after dimension-many steps, every power-method estimate is <= the norm, backtracking/steepest descent strictly decrease any objective, '
              'proximal gradient decreases f+g for gamma <= 2/L, and for all six non-smooth solvers a point satisfying the '
              'sub-gradient optimality conditions is a fixed point (PDHG and proximal gradient: if and only if). The theorems '
              'are transported to the list model itself (R^n, weighted dot products, matrices; plain transpose proved adjoint). '
              'forward_backward_pd as coded is PROVED not to converge on an admissible 1-d problem (finding, with fix).')
LEVEL_NOTE = ('Modelled not verified: proximal maps enter the theorems through the proximal inequality (C07), operators through '
              'linearity + exact adjoint + norm bound (C05); the separable list proximals, objectives and measured operator '
              'matrices are tied by the correspondence only. Exact arithmetic: rounding is outside every theorem (finding '
              'cgn-past-convergence-blowup is a floating-point failure of a clause that holds exactly). Not modelled: random-order '
              'kaczmarz, projections, Newton/BFGS/nonlinear CG. Axioms: classical reals + functional extensionality as printed.')
TECHNIQUE = ('Coq proofs by induction on the iteration count with loop invariants over an abstract inner-product space '
             '(Record IPS/LinOp, sub-gradient/proximal calculus), instantiated to fixed-length lists; the identical generic '
             'solver terms are run at Q inside Coq against the implementation (differential correspondence); KKT-residual probes')
