"""C12 solvers: descent / monotonicity / fixed points / power-method bound.
Correspondence (model iterates at Q vs. implementation iterates) + probes."""
import numpy as np

from . import common as C

PID = 'C12'
SHARD_SIZE = 40
RULE = ('every anchored solver loop is run on small integer/dyadic problems (rn, constant-weighted rn and '
        'uniform_discr spaces; dense integer matrices, PartialDerivative and scaled identities given to the model as '
        'their measured matrix and adjoint matrix; functionals zero / indicator-zero / c*L1 / c*L2^2 / box and their '
        'translates; dyadic steps incl. inadmissible ones; iteration budgets 0..8) and the callback iterates are '
        'compared with the Coq model run at Q on the same data; a case is non-trivial when at least one iterate '
        'differs from the start vector; distinct by (solver, operator matrix, functionals, steps, start, budget)')
ASSUMPTIONS = [
    'exact arithmetic: theorems speak about the unrounded iterates; the implementation is compared with them up to 1e-8',
    'proximal operators are taken as maps satisfying the proximal inequality (property C07); gradients as given maps',
    'operators enter the theorems as bounded linear maps with an exact adjoint (property C05)',
    'convergence of the non-smooth solvers is NOT proved (fixed points and optimality characterisation are); '
    'it is watched by KKT-residual probes only',
    'random-order kaczmarz, projections, accelerated pdhg (changing steps), l-terms of the primal-dual splittings, '
    'newton/bfgs/nonlinear-cg are outside the model']
TRUSTED = [
    'harness/c12.py: measuring an operator by its matrix on unit vectors, recording callback copies',
    'C12/Model.v list instance (mvec/wdot) and the separable proximal formulas fprox/fcprox (validated by the correspondence)',
    'power method: the identity  x_norm_k^2 = |B^(k+1) x0|^2 / |B^k x0|^2  between the normalised loop of the code '
    'and the un-normalised executable model is proved in Coq (pm_normalised_ratio) for the abstract model']


# ------------------------------------------------------------------ helpers
def _flat(el):
    import odl
    if isinstance(el.space, odl.ProductSpace):
        return np.concatenate([_flat(e) for e in el])
    return np.asarray(el, dtype=float).ravel()


def _unflat(space, arr):
    import odl
    arr = np.asarray(arr, dtype=float)
    if isinstance(space, odl.ProductSpace):
        out, k = [], 0
        for sp in space:
            n = _size(sp)
            out.append(_unflat(sp, arr[k:k + n]))
            k += n
        return space.element(out)
    return space.element(arr.reshape(space.shape))


def _size(space):
    import odl
    if isinstance(space, odl.ProductSpace):
        return sum(_size(sp) for sp in space)
    return int(np.prod(space.shape))


def _matrix(op):
    n = _size(op.domain)
    cols = []
    for j in range(n):
        e = np.zeros(n)
        e[j] = 1.0
        cols.append(_flat(op(_unflat(op.domain, e))))
    return np.array(cols).T.reshape(_size(op.range), n)


def _weights(space):
    """vector w with <x,y> = sum w_i x_i y_i"""
    import odl
    if isinstance(space, odl.ProductSpace):
        return np.concatenate([_weights(sp) for sp in space])
    n = _size(space)
    ones = space.one()
    w = []
    for j in range(n):
        e = np.zeros(n)
        e[j] = 1.0
        w.append(float(_unflat(space, e).inner(ones)))
    return np.array(w)


def _ivec(rng, n, lo=-4, hi=4):
    return [float(rng.randint(lo, hi)) for _ in range(n)]


def _imat(rng, m, n, lo=-3, hi=3):
    while True:
        M = np.array([[float(rng.randint(lo, hi)) for _ in range(n)] for _ in range(m)])
        if np.any(M):
            return M


def _spd(rng, n, ill=False):
    B = _imat(rng, n, n, -2, 2)
    S = B.T.dot(B) + (0.0 if ill else float(rng.randint(1, 3))) * np.eye(n)
    if ill:
        S = S + np.diag([0.0] * (n - 1) + [float(rng.choice([64, 256]))])
    return S


def _space(rng, n, kinds=('rn', 'rnw', 'discr')):
    import odl
    k = rng.choice(kinds)
    if k == 'rn':
        return odl.rn(n), 'rn'
    if k == 'rnw':
        return odl.rn(n, weighting=rng.choice([2.0, 0.5, 4.0])), 'rn-const-weight'
    return odl.uniform_discr(0, n * rng.choice([0.5, 2.0, 1.0]), n), 'uniform_discr'


def _cb(tr):
    return lambda x: tr.append(_flat(x).tolist())


def _rec(**kw):
    return '{| ' + '; '.join('%s := %s' % (k, v) for k, v in kw.items()) + ' |}'


def _moved(x0, tr):
    return any(list(t) != list(x0) for t in tr)


DY = [0.5, 0.25, 1.0, 0.125, 2.0]


# --------------------------------------------------------- functional family
def _fn(rng, space, kinds):
    """(odl functional, Coq term of type @fn Q, short name)"""
    import odl
    S = odl.solvers
    n = _size(space)
    k = rng.choice(kinds)
    if k == 'zero':
        return S.ZeroFunctional(space), 'FZero', k
    if k == 'indzero':
        return S.IndicatorZero(space), 'FIndZero', k
    if k == 'l1':
        c = rng.choice([1.0, 2.0, 0.5])
        return c * S.L1Norm(space), '(FL1 %s)' % C.q(c), k
    if k == 'l2sq':
        c = rng.choice([1.0, 0.5, 2.0])
        return c * S.L2NormSquared(space), '(FL2sq %s)' % C.q(c), k
    if k == 'box':
        lo = float(rng.randint(-3, 0))
        hi = lo + float(rng.randint(0, 4))
        return S.IndicatorBox(space, lo, hi), '(FBox %s %s)' % (C.q(lo), C.q(hi)), k
    if k.startswith('tr-'):
        f, t, nm = _fn(rng, space, [k[3:]])
        b = _ivec(rng, n, -3, 3)
        return f.translated(_unflat(space, b)), '(FTr %s %s)' % (t, C.qs(b)), k
    raise ValueError(k)


PRIMAL_KINDS = ['zero', 'l1', 'l2sq', 'box', 'tr-l1', 'tr-l2sq', 'tr-box', 'indzero']
DUAL_KINDS = ['l1', 'l2sq', 'box', 'tr-l1', 'tr-l2sq', 'indzero', 'tr-indzero', 'zero', 'tr-box']


def _operator(rng, dom_n):
    """(op, kind): linear operator on a space of size dom_n whose adjoint is exact"""
    import odl
    kind = rng.choice(['matrix', 'matrix', 'pderiv', 'scaled-id', 'matrix-discr'])
    if kind == 'matrix':
        m = rng.randint(1, 4)
        return odl.MatrixOperator(_imat(rng, m, dom_n)), kind
    if kind == 'matrix-discr':
        sp = odl.uniform_discr(0, dom_n * 0.5, dom_n)
        return odl.MatrixOperator(_imat(rng, dom_n, dom_n), sp, sp), kind
    if kind == 'pderiv':
        n = max(dom_n, 2)
        sp = odl.uniform_discr(0, n * rng.choice([1.0, 0.5]), n)
        return odl.PartialDerivative(sp, 0, method=rng.choice(['forward', 'backward', 'central']),
                                     pad_mode=rng.choice(['constant', 'periodic', 'symmetric'])), kind
    sp = odl.rn(dom_n)
    return rng.choice([2.0, -1.0, 0.5]) * odl.IdentityOperator(sp), kind


def _smooth(rng, space):
    """q*|Mx-b|^2 as an odl functional with gradient, and the Coq record"""
    import odl
    n = _size(space)
    if rng.random() < 0.3:
        M = np.eye(n)
    else:
        M = _imat(rng, rng.randint(1, 3), n, -2, 2)
    b = _ivec(rng, M.shape[0], -3, 3)
    qq = rng.choice([0.5, 1.0, 0.25])
    ran = odl.rn(M.shape[0])
    if isinstance(space, type(ran)) and space == odl.rn(n):
        Mop = odl.MatrixOperator(M, space, ran)
        g = qq * odl.solvers.L2NormSquared(ran).translated(b) * Mop
        Mt = M.T
    else:
        Mop = odl.MatrixOperator(M, space, ran)
        g = qq * odl.solvers.L2NormSquared(ran).translated(b) * Mop
        Mt = _matrix(Mop.adjoint)
    term = _rec(sm_q=C.q(qq), sm_M=C.qss(M.tolist()), sm_Mt=C.qss(np.asarray(Mt).tolist()), sm_b=C.qs(b))
    return g, term, {'q': qq, 'M': M.tolist(), 'b': b}


# ------------------------------------------------------------ case families
def _lin_cases(rng, tier, cs):
    import odl
    S = odl.solvers
    nper = 10 if tier == 'quick' else 45
    for solver in ('SLandweber', 'SCG', 'SCGN'):
        for _ in range(nper):
            n = rng.randint(1, 4)
            dom, dk = _space(rng, n)
            if solver == 'SCG':
                M = _spd(rng, n, ill=rng.random() < 0.25)
                if rng.random() < 0.15:
                    M = np.diag([float(rng.choice([1, 2]))] * n)     # repeated eigenvalues: early exact stop
                ran, m = dom, n
            else:
                m = rng.randint(1, 4)
                M = _imat(rng, m, n)
                if dk == 'rn':
                    ran = odl.rn(m)
                elif dk == 'rn-const-weight':
                    ran = odl.rn(m, weighting=dom.weighting.const)
                else:
                    ran = odl.uniform_discr(0, m * dom.cell_volume, m)
            op = odl.MatrixOperator(M, dom, ran)
            Mt = _matrix(op.adjoint)
            b = _ivec(rng, m)
            x0 = _ivec(rng, n, -3, 3) if rng.random() < 0.8 else [0.0] * n
            niter = rng.choice([0, 1, 2, 3, 4, 6])
            omega = rng.choice(DY) / max(1.0, float(np.sum(M * M)))
            omega = float(2.0 ** np.round(np.log2(omega)))
            x = dom.element(x0)
            tr = []
            rhs = ran.element(b)
            if solver == 'SLandweber':
                S.landweber(op, x, rhs, niter, omega=omega, callback=_cb(tr))
            elif solver == 'SCG':
                S.conjugate_gradient(op, x, rhs, niter, callback=_cb(tr))
            else:
                S.conjugate_gradient_normal(op, x, rhs, niter, callback=_cb(tr))
            term = 'CLin ' + _rec(cl_solver=solver, cl_M=C.qss(M.tolist()), cl_Mt=C.qss(Mt.tolist()),
                                  cl_wV=C.qs(_weights(dom)), cl_wW=C.qs(_weights(ran)), cl_b=C.qs(b),
                                  cl_x0=C.qs(x0), cl_omega=C.q(omega), cl_niter=C.nat(niter),
                                  cl_trace=C.qss(tr))
            desc = {'solver': solver, 'space': dk, 'M': M.tolist(), 'b': b, 'x0': x0, 'niter': niter, 'omega': omega}
            cs.add(term, desc, (solver, dk, str(M.tolist()), tuple(b), tuple(x0), niter, omega) if _moved(x0, tr) else None)


def _kz_cases(rng, tier, cs):
    import odl
    nper = 12 if tier == 'quick' else 50
    for _ in range(nper):
        n = rng.randint(1, 4)
        dom, dk = _space(rng, n, ('rn', 'rnw'))
        nb = rng.randint(1, 3)
        ops, rhs, blocks, descb = [], [], [], []
        for _i in range(nb):
            m = rng.randint(1, 3)
            M = _imat(rng, m, n)
            ran = odl.rn(m) if dk == 'rn' else odl.rn(m, weighting=dom.weighting.const)
            op = odl.MatrixOperator(M, dom, ran)
            b = _ivec(rng, m)
            om = float(2.0 ** np.round(np.log2(rng.choice(DY) / float(np.sum(M * M)))))
            ops.append(op)
            rhs.append(ran.element(b))
            blocks.append((M, _matrix(op.adjoint), b, om))
            descb.append({'M': M.tolist(), 'b': b, 'omega': om})
        x0 = _ivec(rng, n, -3, 3)
        niter = rng.choice([0, 1, 2, 3])
        inner = rng.random() < 0.4
        same_omega = rng.random() < 0.3
        if same_omega:
            blocks = [(M, Mt, b, blocks[0][3]) for (M, Mt, b, _o) in blocks]
        tr = []
        x = dom.element(x0)
        odl.solvers.kaczmarz(ops, x, rhs, niter, omega=(blocks[0][3] if same_omega else [bl[3] for bl in blocks]),
                             callback=_cb(tr), callback_loop='inner' if inner else 'outer')
        bt = C.lst([_rec(kb_M=C.qss(M.tolist()), kb_Mt=C.qss(Mt.tolist()), kb_b=C.qs(b), kb_omega=C.q(om))
                    for (M, Mt, b, om) in blocks])
        term = 'CKz ' + _rec(kz_blocks=bt, kz_x0=C.qs(x0), kz_niter=C.nat(niter), kz_inner=C.b(inner),
                             kz_trace=C.qss(tr))
        cs.add(term, {'solver': 'kaczmarz', 'space': dk, 'blocks': descb, 'x0': x0, 'niter': niter, 'inner': inner},
               ('kz', dk, str(descb), tuple(x0), niter, inner) if _moved(x0, tr) else None)


def _pm_cases(rng, tier, cs):
    import odl
    from odl.operator.oputils import power_method_opnorm
    nper = 24 if tier == 'quick' else 100
    for _ in range(nper):
        n = rng.randint(1, 4)
        dom, dk = _space(rng, n)
        selfadj = rng.random() < 0.4
        if selfadj:
            B = _imat(rng, n, n, -2, 2)
            M = B + B.T
            if rng.random() < 0.2:
                M = np.zeros((n, n))
                M[0, 0] = 1.0
            op = odl.MatrixOperator(M, dom, dom)
            # `op.adjoint is op` is what selects the branch: use a wrapper that says so
            class SelfAdj(odl.Operator):
                def __init__(self):
                    super(SelfAdj, self).__init__(dom, dom, linear=True)

                def _call(self, x, out):
                    op(x, out=out)

                @property
                def adjoint(self):
                    return self
            use = SelfAdj()
            Mt = M
        else:
            m = rng.randint(1, 4)
            M = _imat(rng, m, n)
            if rng.random() < 0.15:
                M[:, 0] = 0.0
            ran = (odl.rn(m) if dk == 'rn' else odl.rn(m, weighting=dom.weighting.const) if dk == 'rn-const-weight'
                   else odl.uniform_discr(0, m * dom.cell_volume, m))
            use = odl.MatrixOperator(M, dom, ran)
            Mt = _matrix(use.adjoint)
        x0 = _ivec(rng, n, -3, 3)
        r = rng.random()
        if r < 0.1:
            x0 = [0.0] * n
        elif r < 0.25:
            x0 = [1.0] + [0.0] * (n - 1)
        maxiter = rng.choice([1, 2, 3, 4, 6]) * (1 if selfadj else 2)
        exact = rng.random() < 0.5
        xs = []
        raised, est = False, 0.0
        try:
            kw = dict(rtol=0.0, atol=0.0) if exact else {}
            est = float(power_method_opnorm(use, xstart=dom.element(x0), maxiter=maxiter, callback=_cb(xs), **kw))
        except ValueError:
            raised = True
        ncalls = maxiter if selfadj else maxiter // 2
        iters = len(xs) + (0 if (len(xs) == ncalls and not raised) else 1)
        if not any(x0):
            iters = 0          # raises before the loop
        term = 'CPm ' + _rec(pm_M=C.qss(M.tolist()), pm_Mt=C.qss(np.asarray(Mt).tolist()), pm_w=C.qs(_weights(dom)),
                             pm_selfadj=C.b(selfadj), pm_x0=C.qs(x0), pm_iters=C.nat(iters), pm_raised=C.b(raised),
                             pm_est=C.q(est), pm_xs=C.qss(xs))
        cs.add(term, {'solver': 'power_method', 'space': dk, 'M': M.tolist(), 'x0': x0, 'maxiter': maxiter,
                      'selfadj': selfadj, 'iters': iters, 'raised': raised},
               ('pm', dk, str(M.tolist()), tuple(x0), maxiter, selfadj, exact))


def _pdhg_cases(rng, tier, cs):
    import odl
    nper = 30 if tier == 'quick' else 120
    for _ in range(nper):
        L, lk = _operator(rng, rng.randint(1, 4))
        f, ft, fk = _fn(rng, L.domain, PRIMAL_KINDS)
        g, gt, gk = _fn(rng, L.range, DUAL_KINDS)
        n, m = _size(L.domain), _size(L.range)
        M, Mt = _matrix(L), _matrix(L.adjoint)
        tau, sigma = rng.choice(DY), rng.choice(DY)
        theta = rng.choice([1.0, 1.0, 0.5, 0.0])
        x0 = _ivec(rng, n, -3, 3)
        niter = rng.choice([0, 1, 2, 3, 5])
        given = rng.random() < 0.4
        xr0 = _ivec(rng, n, -3, 3) if given else list(x0)
        y0 = _ivec(rng, m, -2, 2) if given else [0.0] * m
        x = _unflat(L.domain, x0)
        xr = _unflat(L.domain, xr0)
        y = _unflat(L.range, y0)
        tr = []
        obs = given or rng.random() < 0.5     # defaults (x_relax = x.copy(), y = 0) cannot be observed afterwards
        kw = dict(x_relax=xr, y=y) if obs else {}
        odl.solvers.pdhg(x, f, g, L, niter, tau=tau, sigma=sigma, theta=theta, callback=_cb(tr), **kw)
        term = 'CPdhg ' + _rec(ph_f=ft, ph_g=gt, ph_M=C.qss(M.tolist()), ph_Mt=C.qss(Mt.tolist()), ph_tau=C.q(tau),
                               ph_sigma=C.q(sigma), ph_theta=C.q(theta), ph_x0=C.qs(x0), ph_xr0=C.qs(xr0),
                               ph_y0=C.qs(y0), ph_niter=C.nat(niter), ph_trace=C.qss(tr), ph_obs=C.b(obs), ph_xr=C.qs(_flat(xr)),
                               ph_y=C.qs(_flat(y)))
        cs.add(term, {'solver': 'pdhg', 'op': lk, 'f': fk, 'g': gk, 'M': M.tolist(), 'tau': tau, 'sigma': sigma,
                      'theta': theta, 'x0': x0, 'niter': niter},
               ('pdhg', lk, ft, gt, str(M.tolist()), tau, sigma, theta, tuple(x0), niter) if _moved(x0, tr) else None)


def _admm_cases(rng, tier, cs):
    import odl
    nper = 24 if tier == 'quick' else 100
    for _ in range(nper):
        L, lk = _operator(rng, rng.randint(1, 4))
        f, ft, fk = _fn(rng, L.domain, PRIMAL_KINDS)
        g, gt, gk = _fn(rng, L.range, PRIMAL_KINDS)
        n, m = _size(L.domain), _size(L.range)
        M, Mt = _matrix(L), _matrix(L.adjoint)
        tau, sigma = rng.choice(DY), rng.choice(DY)
        x0 = _ivec(rng, n, -3, 3)
        niter = rng.choice([0, 1, 2, 3, 5])
        x = _unflat(L.domain, x0)
        tr = []
        odl.solvers.admm_linearized(x, f, g, L, tau, sigma, niter, callback=_cb(tr))
        term = 'CAdmm ' + _rec(am_f=ft, am_g=gt, am_M=C.qss(M.tolist()), am_Mt=C.qss(Mt.tolist()), am_tau=C.q(tau),
                               am_sigma=C.q(sigma), am_x0=C.qs(x0), am_nW=C.nat(m), am_niter=C.nat(niter),
                               am_trace=C.qss(tr))
        cs.add(term, {'solver': 'admm_linearized', 'op': lk, 'f': fk, 'g': gk, 'M': M.tolist(), 'tau': tau,
                      'sigma': sigma, 'x0': x0, 'niter': niter},
               ('admm', lk, ft, gt, str(M.tolist()), tau, sigma, tuple(x0), niter) if _moved(x0, tr) else None)


def _apg_roots(niter):
    t, out = 1.0, []
    for _ in range(niter):
        r = float(np.sqrt(1 + 4 * t ** 2))
        out.append(r)
        t = (1 + r) / 2
    return out


def _pg_cases(rng, tier, cs):
    import odl
    nper = 30 if tier == 'quick' else 120
    for _ in range(nper):
        n = rng.randint(1, 4)
        space, sk = _space(rng, n, ('rn', 'rn', 'discr'))
        f, ft, fk = _fn(rng, space, PRIMAL_KINDS)
        g, gterm, gd = _smooth(rng, space)
        gamma = rng.choice([0.5, 0.25, 0.125, 0.0625])
        x0 = _ivec(rng, n, -3, 3)
        niter = rng.choice([0, 1, 2, 3, 5])
        accel = rng.random() < 0.45
        x = space.element(x0)
        tr = []
        if accel:
            odl.solvers.accelerated_proximal_gradient(x, f, g, gamma, niter, callback=_cb(tr))
            lams, roots = [], _apg_roots(niter)
        else:
            mode = rng.choice(['default', 'const', 'callable'])
            seq = [rng.choice([1.0, 0.5, 1.5, 0.25]) for _ in range(niter)]
            if mode == 'default':
                seq = [1.0] * niter
                odl.solvers.proximal_gradient(x, f, g, gamma, niter, callback=_cb(tr))
            elif mode == 'const':
                seq = [seq[0] if seq else 1.0] * niter
                odl.solvers.proximal_gradient(x, f, g, gamma, niter, callback=_cb(tr), lam=(seq[0] if seq else 1.0))
            else:
                odl.solvers.proximal_gradient(x, f, g, gamma, niter, callback=_cb(tr), lam=lambda k: seq[k])
            lams, roots = seq, []
        term = 'CPg ' + _rec(pg_f=ft, pg_g=gterm, pg_gamma=C.q(gamma), pg_lams=C.qs(lams), pg_x0=C.qs(x0),
                             pg_accel=C.b(accel), pg_roots=C.qs(roots), pg_trace=C.qss(tr))
        cs.add(term, {'solver': 'accelerated_proximal_gradient' if accel else 'proximal_gradient', 'space': sk,
                      'f': fk, 'g': gd, 'gamma': gamma, 'lams': lams, 'x0': x0, 'niter': niter},
               ('pg', accel, sk, ft, str(gd), gamma, tuple(lams), tuple(x0), niter) if _moved(x0, tr) else None)


def fb_alias_variant():
    """Which variant of forward_backward_pd the current code exhibits: True = `x_old` aliases `x`
    (y = x_new, no extrapolation), False = documented y = 2 x_new - x_old."""
    import odl
    sp = odl.rn(1)
    x = sp.element([1.0])
    odl.solvers.forward_backward_pd(x, odl.solvers.ZeroFunctional(sp), [odl.solvers.IndicatorZero(sp)],
                                    [odl.IdentityOperator(sp)], odl.solvers.ZeroFunctional(sp), tau=0.5,
                                    sigma=[0.5], niter=2)
    # x1 = 1, v1 = sigma*y1 with y1 = x1 (alias) or 2*x1 - x0 = 1: same; second step: x2 = x1 - tau v1 = 0.75,
    # v2 = v1 + sigma y2, y2 = x2 (alias) or 2 x2 - x1 = 0.5.  A third step separates x: run it
    x = sp.element([1.0])
    odl.solvers.forward_backward_pd(x, odl.solvers.ZeroFunctional(sp), [odl.solvers.IndicatorZero(sp)],
                                    [odl.IdentityOperator(sp)], odl.solvers.ZeroFunctional(sp), tau=0.5,
                                    sigma=[0.5], niter=3)
    v = float(x[0])
    if v == 0.3125:
        return True
    if v == 0.375:
        return False
    return None


def _blocks(rng, dom_space, nb):
    import odl
    n = _size(dom_space)
    Ls, gs, terms, desc = [], [], [], []
    for _ in range(nb):
        kind = rng.choice(['matrix', 'matrix', 'scaled-id'])
        if kind == 'matrix':
            M = _imat(rng, rng.randint(1, 3), n, -2, 2)
            L = odl.MatrixOperator(M, dom_space, odl.rn(M.shape[0]))
        else:
            L = rng.choice([1.0, 2.0, -0.5]) * odl.IdentityOperator(dom_space)
        g, gt, gk = _fn(rng, L.range, DUAL_KINDS)
        sig = rng.choice(DY)
        M, Mt = _matrix(L), _matrix(L.adjoint)
        Ls.append(L)
        gs.append(g)
        terms.append((_rec(pb_g=gt, pb_M=C.qss(M.tolist()), pb_Mt=C.qss(Mt.tolist()), pb_sigma=C.q(sig),
                           pb_n=C.nat(_size(L.range))), sig))
        desc.append({'M': M.tolist(), 'g': gk, 'sigma': sig})
    return Ls, gs, terms, desc


def _fb_cases(rng, tier, cs, alias):
    import odl
    nper = 24 if tier == 'quick' else 100
    for _ in range(nper):
        n = rng.randint(1, 3)
        space = odl.rn(n)
        f, ft, fk = _fn(rng, space, PRIMAL_KINDS)
        if rng.random() < 0.3:
            h, hterm, hd = (odl.solvers.ZeroFunctional(space),
                            _rec(sm_q=C.q(0), sm_M=C.qss(np.eye(n).tolist()), sm_Mt=C.qss(np.eye(n).tolist()),
                                 sm_b=C.qs([0.0] * n)), 'zero')
        else:
            h, hterm, hd = _smooth(rng, space)
        Ls, gs, terms, desc = _blocks(rng, space, rng.randint(1, 2))
        tau = rng.choice(DY)
        x0 = _ivec(rng, n, -3, 3)
        niter = rng.choice([0, 1, 2, 3, 5])
        x = space.element(x0)
        tr = []
        odl.solvers.forward_backward_pd(x, f, gs, Ls, h, tau, [t[1] for t in terms], niter, callback=_cb(tr))
        term = 'CFb ' + _rec(fb_f=ft, fb_h=hterm, fb_blocks=C.lst([t[0] for t in terms]), fb_tau=C.q(tau),
                             fb_x0=C.qs(x0), fb_niter=C.nat(niter), fb_alias=C.b(bool(alias)), fb_trace=C.qss(tr))
        cs.add(term, {'solver': 'forward_backward_pd', 'f': fk, 'h': hd, 'blocks': desc, 'tau': tau, 'x0': x0,
                      'niter': niter, 'alias_variant': alias},
               ('fb', ft, str(hd), str(desc), tau, tuple(x0), niter) if _moved(x0, tr) else None)


def _dr_cases(rng, tier, cs):
    import odl
    nper = 24 if tier == 'quick' else 100
    for _ in range(nper):
        n = rng.randint(1, 3)
        space = odl.rn(n)
        f, ft, fk = _fn(rng, space, PRIMAL_KINDS)
        Ls, gs, terms, desc = _blocks(rng, space, rng.randint(1, 3))
        tau = rng.choice(DY)
        x0 = _ivec(rng, n, -3, 3)
        niter = rng.choice([0, 1, 2, 3, 5])
        mode = rng.choice(['default', 'const', 'callable'])
        seq = [rng.choice([1.0, 0.5, 1.5]) for _ in range(niter)]
        x = space.element(x0)
        tr = []
        kw = {}
        if mode == 'default':
            seq = [1.0] * niter
        elif mode == 'const':
            seq = [seq[0] if seq else 1.0] * niter
            kw['lam'] = seq[0] if seq else 1.0
        else:
            kw['lam'] = lambda k: seq[k]
        odl.solvers.douglas_rachford_pd(x, f, gs, Ls, niter, tau=tau, sigma=[t[1] for t in terms],
                                        callback=_cb(tr), **kw)
        term = 'CDr ' + _rec(dr_f=ft, dr_blocks=C.lst([t[0] for t in terms]), dr_tau=C.q(tau), dr_lams=C.qs(seq),
                             dr_x0=C.qs(x0), dr_trace=C.qss(tr), dr_final=C.qs(_flat(x)))
        cs.add(term, {'solver': 'douglas_rachford_pd', 'f': fk, 'blocks': desc, 'tau': tau, 'lams': seq, 'x0': x0,
                      'niter': niter},
               ('dr', ft, str(desc), tau, tuple(seq), tuple(x0), niter) if _moved(x0, tr) else None)


def _objective(rng, n):
    """(odl functional, Coq objective term, description)"""
    import odl
    sp = odl.rn(n)
    if n >= 2 and rng.random() < 0.35:
        sc = rng.choice([1.0, 2.0, 4.0])
        return odl.solvers.RosenbrockFunctional(sp, scale=sc), '(ORosen %s)' % C.q(sc), {'rosenbrock': sc}
    kind = rng.choice(['spd', 'indef', 'nonsym'])
    if kind == 'spd':
        Qm = _spd(rng, n)
    elif kind == 'indef':
        B = _imat(rng, n, n, -2, 2)
        Qm = B + B.T
    else:
        Qm = _imat(rng, n, n, -2, 2)
    b = _ivec(rng, n, -3, 3)
    c = float(rng.randint(-2, 2))
    f = odl.solvers.QuadraticForm(odl.MatrixOperator(Qm), sp.element(b), c)
    return f, '(OQuad %s %s %s %s)' % (C.qss(Qm.tolist()), C.qss(Qm.T.tolist()), C.qs(b), C.q(c)), \
        {'quadratic': kind, 'Q': Qm.tolist(), 'b': b, 'c': c}


_LSRES = {'maxiter': 'RMaxIter', 'zero': 'RZeroDeriv', 'assert': 'RAssert'}


def _run_ls(ls, x, d, dd):
    try:
        a = ls(x, d, dd)
        return 'RAlpha %s' % C.q(float(a)), float(a)
    except AssertionError:
        return 'RAssert', None
    except ValueError as e:
        return ('RZeroDeriv' if dd == 0 else 'RMaxIter'), None


def _descent_cases(rng, tier, cs):
    import odl
    from odl.solvers.util.steplen import BacktrackingLineSearch
    nper = 30 if tier == 'quick' else 120
    for _ in range(nper):
        n = rng.randint(1, 3)
        f, ot, od = _objective(rng, n)
        sp = f.domain
        tau = rng.choice([0.5, 0.5, 0.25, 0.75])
        disc = rng.choice([0.01, 0.0, 0.5, 0.25, 1.0])
        disc = float(np.float64(disc))
        mni = rng.choice([0, 1, 3, 8, 20])
        est = rng.random() < 0.4
        alpha = rng.choice([1.0, 2.0, 0.5, 4.0])
        x0 = _ivec(rng, n, -2, 2)
        x = sp.element(x0)
        gx = f.gradient(x)
        r = rng.random()
        if r < 0.5:
            d = -gx
            dd = float(gx.inner(d))
        elif r < 0.7:
            d = gx.copy()                      # ascent direction: alpha is negated
            dd = float(gx.inner(d))
        elif r < 0.8:
            d = sp.element(_ivec(rng, n, -2, 2))
            dd = 0.0
        else:
            d = sp.element(_ivec(rng, n, -2, 2))
            dd = float(gx.inner(d))
        ls = BacktrackingLineSearch(f, tau=tau, discount=disc, alpha=alpha, max_num_iter=mni, estimate_step=est)
        res, a = _run_ls(ls, x, d, dd)
        term = 'CLs ' + _rec(ls_obj=ot, ls_tau=C.q(tau), ls_disc=C.q(disc), ls_mni=C.nat(mni), ls_est=C.b(est),
                             ls_alpha=C.q(alpha), ls_x=C.qs(x0), ls_d=C.qs(_flat(d)), ls_dd=C.q(dd), ls_res_=res)
        cs.add(term, {'solver': 'BacktrackingLineSearch', 'objective': od, 'tau': tau, 'discount': disc,
                      'max_num_iter': mni, 'estimate_step': est, 'alpha': alpha, 'x': x0, 'd': _flat(d).tolist(),
                      'dir_derivative': dd, 'result': res},
               ('ls', str(od), tau, disc, mni, est, alpha, tuple(x0), tuple(_flat(d)), dd))
    for _ in range(nper):
        n = rng.randint(1, 3)
        f, ot, od = _objective(rng, n)
        sp = f.domain
        tau = rng.choice([0.5, 0.5, 0.25])
        disc = float(np.float64(rng.choice([0.01, 0.0, 0.5, 0.25])))
        mni = rng.choice([2, 8, 20, 30])
        est = rng.random() < 0.5
        alpha = rng.choice([1.0, 2.0, 0.5])
        tol = rng.choice([1e-16, 0.5, 4.0])
        maxiter = rng.choice([0, 1, 2, 3, 4])
        x0 = _ivec(rng, n, -2, 2)
        x = sp.element(x0)
        ls = BacktrackingLineSearch(f, tau=tau, discount=disc, alpha=alpha, max_num_iter=mni, estimate_step=est)
        tr = []
        err = 'None'
        try:
            odl.solvers.steepest_descent(f, x, line_search=ls, maxiter=maxiter, tol=tol, callback=_cb(tr))
        except AssertionError:
            err = '(Some RAssert)'
        except ValueError:
            err = '(Some RMaxIter)'
        term = 'CSd ' + _rec(sd_obj=ot, sd_tau=C.q(tau), sd_disc=C.q(disc), sd_mni=C.nat(mni), sd_est=C.b(est),
                             sd_alpha=C.q(alpha), sd_tol=C.q(tol), sd_maxiter=C.nat(maxiter), sd_x0=C.qs(x0),
                             sd_trace=C.qss(tr), sd_err=err)
        cs.add(term, {'solver': 'steepest_descent+BacktrackingLineSearch', 'objective': od, 'tau': tau,
                      'discount': disc, 'max_num_iter': mni, 'estimate_step': est, 'alpha': alpha, 'tol': tol,
                      'maxiter': maxiter, 'x0': x0, 'err': err},
               ('sd', str(od), tau, disc, mni, est, alpha, tol, maxiter, tuple(x0)) if _moved(x0, tr) else None)


IMPORTS = ['Base.Vec', 'C12.Model', 'C12.Corr']


def correspondence(rng, tier):
    np.random.seed(rng.randrange(2 ** 31))
    sets = []
    for name, fun in (('linear', _lin_cases), ('kaczmarz', _kz_cases), ('power', _pm_cases), ('pdhg', _pdhg_cases),
                      ('admm', _admm_cases), ('proxgrad', _pg_cases), ('douglas_rachford', _dr_cases),
                      ('descent', _descent_cases)):
        cs = C.CaseSet(name, IMPORTS, 'check', 'case')
        fun(rng, tier, cs)
        sets.append(cs)
    alias = fb_alias_variant()
    cs = C.CaseSet('forward_backward', IMPORTS, 'check', 'case')
    _fb_cases(rng, tier, cs, True if alias is None else alias)
    sets.append(cs)
    return sets


def probes(rng, tier):
    return []


LEVEL_TEXT = ''
LEVEL_NOTE = ''
TECHNIQUE = ''
