"""C13 finite differences: translator + correspondence + probes."""
import itertools

import numpy as np

from . import common as C
from translate import finite_diff as T

PID = 'C13'
RULE = ('finite_diff on 1-d arrays: all 3 methods x 10 pad modes x sizes 2..7 x (unit vectors + random '
        'small-integer vectors) x dyadic dx x pad constants; a case is non-trivial when the input is not '
        'identically zero; distinct by (method, mode, size, dx, pad_const, values)')
ASSUMPTIONS = ['exact arithmetic: inputs are small integers / dyadic so every float operation is exact',
               'NumPy slicing/np.subtract semantics of the interior rows are trusted as modelled']
TRUSTED = ['translate/finite_diff.py (Python ast -> Gallina tables), fail-closed',
           'C13/Model.v interpreter of sequential out[k] (=|+=|-=) statements']

METHS = list(T.METH)
PMODES = list(T.PMODE)


def translate():
    return {'Gen/FiniteDiff.v': T.translate()}


def impl_fd(f, m, p, c, dx):
    from odl.discr.diff_ops import finite_diff
    try:
        r = finite_diff(np.array(f, dtype=float), axis=0, dx=dx, method=m, pad_mode=p, pad_const=c)
        return 'IOk %s' % C.qs(r.tolist())
    except ValueError:
        return 'IValueErr'
    except IndexError:
        return 'IIndexErr'
    except Exception:
        return 'IOtherErr'


def correspondence(rng, tier):
    cs = C.CaseSet('fd1d', ['C13.Syntax', 'Gen.FiniteDiff', 'C13.Model', 'C13.Corr'], 'check1', 'case1')
    sizes = range(2, 8) if tier == 'quick' else range(2, 11)
    nrand = 2 if tier == 'quick' else 6
    for m, p, n in itertools.product(METHS, PMODES, sizes):
        vecs = [[1.0 if i == j else 0.0 for i in range(n)] for j in range(n)]
        for _ in range(nrand):
            vecs.append([float(rng.randint(-9, 9)) for _ in range(n)])
        for f in vecs:
            dx = rng.choice([1.0, 0.5, 0.25, 2.0])
            c = float(rng.choice([0, 0, 1, -3])) if p == 'constant' else float(rng.choice([0, 2]))
            out = impl_fd(f, m, p, c, dx)
            term = ('{| k_m := %s; k_p := %s; k_c := %s; k_dx := %s; k_f := %s; k_out := %s |}'
                    % (T.METH[m], T.PMODE[p], C.q(c), C.q(dx), C.qs(f), out))
            key = (m, p, n, dx, c, tuple(f)) if any(f) else None
            cs.add(term, {'method': m, 'pad_mode': p, 'f': f, 'dx': dx, 'pad_const': c}, key)
    return [cs]

LEVEL_TEXT = ('Proof: for the tables regenerated from finite_diff on every run, Coq proves for EVERY array length '
              '(short axes included), every entry and pad constant that each (method, base padding) pair equals the '
              'textbook stencil on the extended array / dx, and that for all 30 (method, padding) pairs the operator '
              'named by _ADJ_METHOD/_ADJ_PADDING is exactly minus the transpose (<Df,g> = -<f,D\'g> for all f,g). '
              'order2 x forward/backward is proved to violate the literal statement (recorded finding) and what it '
              'computes instead is proved. The interpreter is tied to the code by an exact correspondence on all '
              'modes x sizes 2..7.')
LEVEL_NOTE = ('Trusted: the translator (fail-closed, small grammar), the hand-written interpreter of sequential '
              'out[k] = / += / -= statements (validated by the correspondence incl. aliasing on sizes 2-4), NumPy '
              'slicing; exact arithmetic (rounding out of scope). Axioms: classical reals + funext as printed.')
TECHNIQUE = 'Coq proof by list induction (summation by parts) over source-regenerated tables + in-Coq differential correspondence'
