"""C13 finite differences: translator + correspondence + probes."""
import itertools

import numpy as np

from . import common as C
from translate import finite_diff as T

PID = 'C13'
RULE = ('finite_diff on 1-d arrays: all 3 methods x 10 pad modes x sizes 2..7 x (unit vectors + random '
        'small-integer vectors) x dyadic dx x pad constants; a case is non-trivial when the input is not '
        'identically zero; distinct by (method, mode, size, dx, pad_const, values)')
ASSUMPTIONS = ['exact arithmetic: inputs are small integers / dyadic so every float operation is exact',
               'NumPy slicing/np.subtract semantics of the interior rows are trusted as modelled']
TRUSTED = ['translate/finite_diff.py (Python ast -> Gallina tables), fail-closed',
           'C13/Model.v interpreter of sequential out[k] (=|+=|-=) statements']

METHS = list(T.METH)
PMODES = list(T.PMODE)


def translate():
    return {'Gen/FiniteDiff.v': T.translate()}


def impl_fd(f, m, p, c, dx):
    from odl.discr.diff_ops import finite_diff
    try:
        r = finite_diff(np.array(f, dtype=float), axis=0, dx=dx, method=m, pad_mode=p, pad_const=c)
        return 'IOk %s' % C.qs(r.tolist())
    except ValueError:
        return 'IValueErr'
    except IndexError:
        return 'IIndexErr'
    except Exception:
        return 'IOtherErr'


LAP_MODES = ['constant', 'symmetric', 'symmetric_adjoint', 'periodic', 'order0', 'order0_adjoint']


def _arr(rng, shape):
    n = int(np.prod(shape))
    return np.array([float(rng.randint(-5, 5)) for _ in range(n)]).reshape(shape)


def nd_cases(rng, tier):
    import odl
    cs = C.CaseSet('ops_nd', ['C13.Syntax', 'Gen.FiniteDiff', 'C13.Model', 'C13.ModelNd', 'C13.Corr'],
                   'checkN', 'caseN')
    nper = 3 if tier == 'quick' else 12
    for kind in ('pd', 'grad', 'div', 'lap'):
        for m in (METHS if kind != 'lap' else ['forward']):
            for p in (PMODES if kind != 'lap' else LAP_MODES):
                for _ in range(nper):
                    ndim = rng.choice([1, 2, 2, 3])
                    lo = 3 if p.startswith('order2') else 2
                    shape = [rng.randint(lo, 4 if ndim > 1 else 6) for _ in range(ndim)]
                    pd_ax = rng.randrange(ndim)
                    if kind == 'pd' and ndim > 1 and rng.random() < 0.6:
                        # only the differentiated axis has a minimal length; the others may be shorter
                        # (down to one point) -- the size guard must look at the axis it differentiates
                        shape = [n if i == pd_ax else rng.randint(1, 3) for i, n in enumerate(shape)]
                    dxs = [rng.choice([1.0, 0.5, 2.0, 0.25]) for _ in range(ndim)]
                    c = float(rng.choice([0, 0, 0, 1, -2])) if p == 'constant' else 0.0
                    # a pad constant handed over together with a non-constant mode must be ignored
                    # (operator linear, adjoint available, values unchanged)
                    if p != 'constant' and rng.random() < 0.3:
                        c = float(rng.choice([1, -2, 3]))
                    # constant weightings other than the cell volume: still "uniformly weighted", the
                    # returned adjoint must stay the exact transpose
                    wt = rng.choice([None, None, 2.0, 0.5])
                    kw = {} if wt is None else {'weighting': wt}
                    # grid placement: nodes in the cell centres, or on the boundary per axis/side -- the
                    # operators must take their step from space.cell_sides (= grid stride) in every case
                    bdry = rng.choice([None, None, True, 'mixed'])
                    if bdry is None:
                        space = odl.uniform_discr([0.0] * ndim, [n * d for n, d in zip(shape, dxs)], shape, **kw)
                    else:
                        flags = ([(True, True)] * ndim if bdry is True else
                                 [(rng.random() < 0.5, rng.random() < 0.5) for _ in range(ndim)])
                        # a one-point axis with nodes on both sides would have extent 0
                        # (and with a node on one side the code's own cell side is off: recorded C14 finding)
                        flags = [(False, False) if n == 1 else fl for n, fl in zip(shape, flags)]
                        # extent chosen so that the cell side is exactly dxs[i]: side * (n - (bl + br) / 2)
                        ext = [d * (n - (int(fl[0]) + int(fl[1])) / 2.0) for n, d, fl in zip(shape, dxs, flags)]
                        space = odl.uniform_discr([0.0] * ndim, ext, shape, nodes_on_bdry=flags, **kw)
                        assert np.allclose(space.cell_sides, dxs)
                    meta = {'op': kind, 'shape': shape, 'method': m, 'pad_mode': p, 'pad_const': c,
                            'dx': dxs, 'axis': pd_ax, 'in_place': False, 'weighting': wt}
                    try:
                        op = _nd_op(space, meta)
                        if op.is_linear:
                            op.adjoint          # must exist for every operator flagged linear
                    except Exception as e:
                        # every axis that is differentiated is long enough for the mode: the code must accept
                        _CTOR_FAILS.append((dict(meta, flags=None if bdry is None else flags), repr(e)))
                        continue
                    ax = pd_ax
                    opk = {'pd': '(OpPD %d)' % ax, 'grad': 'OpGrad', 'div': 'OpDiv', 'lap': 'OpLap'}[kind]
                    def pack(el, sp):
                        if isinstance(sp, odl.ProductSpace):
                            return [np.asarray(e).ravel().tolist() for e in el]
                        return [np.asarray(el).ravel().tolist()]
                    def rand_el(sp):
                        if isinstance(sp, odl.ProductSpace):
                            return sp.element([_arr(rng, shape) for _ in range(len(sp))])
                        return sp.element(_arr(rng, shape))
                    x = rand_el(op.domain)
                    # half of the evaluations are in place into an element holding arbitrary old values:
                    # the result must not depend on them (solvers call op(x, out=...) on used buffers)
                    inplace = rng.random() < 0.5
                    lin = bool(op.is_linear)
                    try:
                        out = op(x, out=rand_el(op.range)) if inplace else op(x)
                        if lin:
                            y = rand_el(op.range)
                            adj = pack(op.adjoint(y, out=rand_el(op.domain)) if inplace else op.adjoint(y),
                                       op.domain)
                            yy = pack(y, op.range)
                        else:
                            adj, yy = [], []
                    except Exception as e:
                        # evaluating a legal configuration raised: reported as a failing input by the probes
                        _CTOR_FAILS.append((dict(meta, in_place=inplace, flags=None if bdry is None else flags), repr(e)))
                        continue
                    term = ('{| n_op := %s; n_shape := %s; n_m := %s; n_p := %s; n_c := %s; n_dxs := %s; '
                            'n_x := %s; n_out := %s; n_linear := %s; n_y := %s; n_adj := %s |}'
                            % (opk, C.nats(shape) + '%nat', T.METH[m], T.PMODE[p], C.q(c), C.qs(dxs),
                               C.qss(pack(x, op.domain)), C.qss(pack(out, op.range)), C.b(lin),
                               C.qss(yy), C.qss(adj)))
                    cs.add(term, dict(meta, in_place=inplace),
                           (kind, tuple(shape), m, p, c, tuple(dxs)))
    return cs


_COV = {}
_CTOR_FAILS = []


def _nd_op(space, meta):
    import odl
    kind, m, p, c = meta['op'], meta['method'], meta['pad_mode'], meta['pad_const']
    if kind == 'pd':
        return odl.PartialDerivative(space, meta['axis'], method=m, pad_mode=p, pad_const=c)
    if kind == 'grad':
        return odl.Gradient(space, method=m, pad_mode=p, pad_const=c)
    if kind == 'div':
        return odl.Divergence(range=space, method=m, pad_mode=p, pad_const=c)
    return odl.Laplacian(space, pad_mode=p, pad_const=c)


def nd_oracle(meta, seed=0):
    """Independent N-d oracle for one configuration of nd_cases (used by the probes, by search() and by
    replay scripts): returns (ok, observed, expected, what).  Values are compared with the textbook stencil
    applied along the axis (base pad modes), in-place results with out-of-place ones, and the returned
    adjoint with the transposed matrix."""
    import random
    import odl
    rng = random.Random('nd-%r-%d' % (sorted(meta.items(), key=str), seed))
    shape, dxs = meta['shape'], meta['dx']
    ndim = len(shape)
    kw = {} if meta.get('weighting') is None else {'weighting': meta['weighting']}
    space = odl.uniform_discr([0.0] * ndim, [n * d for n, d in zip(shape, dxs)], shape, **kw)
    try:
        op = _nd_op(space, meta)
        if op.is_linear:
            op.adjoint
    except Exception as e:
        return False, repr(e), 'an operator with an adjoint', ('constructor / adjoint refuses a legal configuration '
                                                               '(shape %s, pad_mode %r, pad_const %r)' % (shape, meta['pad_mode'], meta['pad_const']))
    kind, m, p, c = meta['op'], meta['method'], meta['pad_mode'], meta['pad_const']
    want_lin = not (p == 'constant' and c != 0)
    if bool(op.is_linear) != want_lin:
        return False, bool(op.is_linear), want_lin, 'is_linear flag (affine only for constant padding with a nonzero constant)'
    if p != 'constant':
        c = 0.0          # a pad constant given with another mode is ignored

    def rand_el(sp):
        if isinstance(sp, odl.ProductSpace):
            return sp.element([_arr(rng, shape) for _ in range(len(sp))])
        return sp.element(_arr(rng, shape))
    x = rand_el(op.domain)
    x0 = _flat(x).copy()
    oop = _flat(op(x))
    if meta.get('in_place'):
        got = _flat(op(x, out=rand_el(op.range)))
        if not np.array_equal(got, oop):
            return False, got.tolist(), oop.tolist(), 'op(x, out=used buffer) differs from op(x)'
        if op.is_linear:
            y = rand_el(op.range)
            a1, a2 = _flat(op.adjoint(y)), _flat(op.adjoint(y, out=rand_el(op.domain)))
            if not np.array_equal(a1, a2):
                return False, a2.tolist(), a1.tolist(), 'op.adjoint(y, out=used buffer) differs from op.adjoint(y)'
    if not np.array_equal(_flat(x), x0):
        return False, _flat(x).tolist(), x0.tolist(), 'the input was modified'
    base = p[:-8] if p.endswith('_adjoint') else p
    onesided_order2 = (base == 'order2' and m != 'central' and kind != 'lap')      # recorded finding
    if not p.endswith('_adjoint') and not onesided_order2:
        xs = [np.asarray(e) for e in x] if kind == 'div' else np.asarray(x)
        want = _ref_nd(kind, xs, m, p, c, dxs, meta.get('axis', 0))
        if not np.array_equal(oop, want):
            return False, oop.tolist(), want.tolist(), 'value differs from the textbook stencil along the axis'
    elif p.endswith('_adjoint') and not onesided_order2 and op.is_linear:
        # an adjoint mode NAMES the transpose: (method, p_adjoint) is minus the transpose of the textbook
        # operator with the mirrored method and the base mode (Laplacian: plus, same sweep)
        akind = {'pd': 'pd', 'grad': 'div', 'div': 'grad', 'lap': 'lap'}[kind]
        am = {'forward': 'backward', 'backward': 'forward', 'central': 'central'}[m]
        nsc = int(np.prod(shape))
        ncomp = ndim if akind == 'div' else 1
        cols = []
        for j in range(nsc * ncomp):
            e = np.zeros(nsc * ncomp)
            e[j] = 1.0
            xs = [e[i * nsc:(i + 1) * nsc].reshape(shape) for i in range(ncomp)] if akind == 'div' else e.reshape(shape)
            cols.append(_ref_nd(akind, xs, am, base, 0.0, dxs, meta.get('axis', 0)))
        R = np.array(cols).T
        want = (R.T if kind == 'lap' else -R.T)
        M = _matrix(op)
        if not np.array_equal(M, want):
            return False, M.tolist(), want.tolist(), ('matrix differs from the transpose of the textbook operator '
                                                     'that the adjoint mode names')
    if op.is_linear:
        M, A = _matrix(op), _matrix(op.adjoint)
        if not np.array_equal(A, M.T):
            return False, A.tolist(), M.T.tolist(), 'matrix of the returned adjoint is not the transpose'
    # derivative: the operator itself when linear, the zero-padding version when affine
    h = rand_el(op.domain)
    d = op.derivative(x)
    dq = _flat(op(x + h)) - oop
    got = _flat(d(h))
    if not d.is_linear or not np.array_equal(got, dq):
        return False, got.tolist(), dq.tolist(), 'derivative(x)(h) is not the exact difference quotient op(x+h)-op(x)'
    return True, None, None, ''


def nd_oracle_safe(meta, seed=0):
    try:
        return nd_oracle(meta, seed)
    except Exception as e:
        return False, repr(e), 'no exception', 'evaluating the operator raised on a legal configuration'


def _nd_probe(meta, key):
    ok, obs, exp, what = nd_oracle_safe(meta)
    rp = ("import sys\nsys.path.insert(0, %r)\nfrom harness.c13 import nd_oracle_safe\n"
          "ok, observed, expected, what = nd_oracle_safe(%r)\n" % (C.VERIF, meta))
    return C.Probe(ok, key, '%s on shape %s (%s, %s%s): %s' % (
        meta['op'], meta['shape'], meta['method'], meta['pad_mode'],
        ', in place' if meta.get('in_place') else '', what or 'N-d oracle'), rp,
        None if ok else {'observed': obs, 'expected': exp})


def search(rng, broken):
    """A correspondence case of the N-d family failed: replay its configuration (and neighbours) against
    the independent oracle to obtain a concrete input on which the property itself fails."""
    metas = [d for k, w, d in broken if k == 'correspondence' and isinstance(d, dict) and 'op' in d and 'shape' in d]
    for meta in metas[:40]:
        meta = dict(meta)
        meta.setdefault('axis', 0)
        for ip in (meta.get('in_place', False), True):
            pr = _nd_probe(dict(meta, in_place=ip), 'nd-%s-%s-%s' % (meta['op'], meta['method'], meta['pad_mode']))
            if not pr.ok:
                return pr
    return None


def extra_coverage():
    return {'anchored_line_coverage_during_correspondence': _COV}


def correspondence(rng, tier):
    import odl
    from odl.discr import diff_ops as D
    with C.LineTrace([D.finite_diff, D.PartialDerivative._call, D.Gradient._call, D.Divergence._call,
                      D.Laplacian._call, D.Gradient.adjoint.fget, D.Divergence.adjoint.fget,
                      D.PartialDerivative.adjoint.fget, D.Laplacian.adjoint.fget]) as lt:
        del _CTOR_FAILS[:]
        res = _correspondence(rng, tier)
    _COV.clear()
    _COV.update(lt.report())
    return res


def _correspondence(rng, tier):
    cs = C.CaseSet('fd1d', ['C13.Syntax', 'Gen.FiniteDiff', 'C13.Model', 'C13.Corr'], 'check1', 'case1')
    sizes = range(1, 8) if tier == 'quick' else range(1, 11)
    nrand = 2 if tier == 'quick' else 6
    for m, p, n in itertools.product(METHS, PMODES, sizes):
        vecs = [[1.0 if i == j else 0.0 for i in range(n)] for j in range(n)]
        for _ in range(nrand):
            vecs.append([float(rng.randint(-9, 9)) for _ in range(n)])
        for f in vecs:
            dx = rng.choice([1.0, 0.5, 0.25, 2.0])
            c = float(rng.choice([0, 0, 1, -3])) if p == 'constant' else float(rng.choice([0, 2]))
            out = impl_fd(f, m, p, c, dx)
            term = ('{| k_m := %s; k_p := %s; k_c := %s; k_dx := %s; k_f := %s; k_out := %s |}'
                    % (T.METH[m], T.PMODE[p], C.q(c), C.q(dx), C.qs(f), out))
            key = (m, p, n, dx, c, tuple(f)) if any(f) else None
            cs.add(term, {'method': m, 'pad_mode': p, 'f': f, 'dx': dx, 'pad_const': c}, key)
    return [cs, nd_cases(rng, tier)]


def _ref_fd(f, m, p, c, dx):
    """Independent reference: textbook stencil on the array extended by the named rule."""
    n = len(f)
    if p == 'constant':
        l, r = c, c
    elif p in ('symmetric', 'order0'):
        l, r = f[0], f[-1]
    elif p == 'periodic':
        l, r = f[-1], f[0]
    elif p == 'order1':
        l, r = 2 * f[0] - f[1], 2 * f[-1] - f[-2]
    elif p == 'order2':
        l, r = 3 * f[0] - 3 * f[1] + f[2], 3 * f[-1] - 3 * f[-2] + f[-3]
    e = np.concatenate([[l], f, [r]])
    if m == 'central':
        return (e[2:] - e[:-2]) / 2.0 / dx
    if m == 'forward':
        return (e[2:] - e[1:-1]) / dx
    return (e[1:-1] - e[:-2]) / dx


def _ref_nd(kind, xs, m, p, c, dxs, axis):
    """Textbook N-d operator for a base pad mode, flat C-order result (Gradient: components concatenated)."""
    def pd(a, ax, mm):
        return np.apply_along_axis(lambda r: _ref_fd(r, mm, p, c, dxs[ax]), ax, a)
    if kind == 'pd':
        return pd(xs, axis, m).ravel()
    if kind == 'grad':
        return np.concatenate([pd(xs, a, m).ravel() for a in range(xs.ndim)])
    if kind == 'div':
        return sum(pd(xs[a], a, m) for a in range(len(xs))).ravel()
    return sum((pd(xs, a, 'forward') - pd(xs, a, 'backward')) / dxs[a] for a in range(xs.ndim)).ravel()


def _flat(el):
    import odl
    if isinstance(el.space, odl.ProductSpace):
        return np.concatenate([np.asarray(e).ravel() for e in el])
    return np.asarray(el).ravel()


def _matrix(op):
    import odl
    dom = op.domain
    cols = []
    n = int(sum(np.prod(sp.shape) for sp in dom)) if isinstance(dom, odl.ProductSpace) else int(np.prod(dom.shape))
    for j in range(n):
        e = np.zeros(n)
        e[j] = 1.0
        if isinstance(dom, odl.ProductSpace):
            k = n // len(dom)
            x = dom.element([e[i * k:(i + 1) * k].reshape(dom[0].shape) for i in range(len(dom))])
        else:
            x = dom.element(e.reshape(dom.shape))
        cols.append(_flat(op(x)))
    return np.array(cols).T


def probes(rng, tier):
    import odl
    from odl.discr.diff_ops import finite_diff
    out = []
    base = ['constant', 'symmetric', 'periodic', 'order0', 'order1', 'order2']
    sizes = range(2, 9) if tier == 'quick' else range(2, 14)
    for m, p, n in itertools.product(METHS, base, sizes):
        if n < (3 if p == 'order2' else 2):
            continue
        f = np.array([float(rng.randint(-9, 9)) for _ in range(n)])
        dx = rng.choice([1.0, 0.5, 2.0])
        c = float(rng.choice([0, 1, -2])) if p == 'constant' else 0.0
        want = _ref_fd(f, m, p, c, dx)
        try:
            got = finite_diff(f, axis=0, dx=dx, method=m, pad_mode=p, pad_const=c)
            ok = bool(np.array_equal(got, want))
        except Exception:
            ok = False
        key = 'order2-onesided' if (p == 'order2' and m != 'central') else 'textbook-%s-%s' % (m, p)
        rp = ("import numpy as np\nfrom odl.discr.diff_ops import finite_diff\n"
              "f=np.array(%r); got=finite_diff(f,axis=0,dx=%r,method=%r,pad_mode=%r,pad_const=%r)\n"
              "expected=np.array(%r); observed=got; ok=bool(np.array_equal(got,expected))\n"
              % (f.tolist(), dx, m, p, c, want.tolist()))
        out.append(C.Probe(ok, key, 'finite_diff(%s,%s) n=%d vs textbook stencil on the extended array' % (m, p, n), rp))
    # adjoint = transpose of the matrix, on uniformly weighted spaces (incl. short axes)
    nper = 1 if tier == 'quick' else 4
    for kind in ('pd', 'grad', 'div', 'lap'):
        for m in (METHS if kind != 'lap' else ['forward']):
            for p in (PMODES if kind != 'lap' else LAP_MODES):
                for _ in range(nper):
                    ndim = rng.choice([1, 2])
                    lo = 3 if p.startswith('order2') else 2
                    shape = [rng.randint(lo, 4) for _ in range(ndim)]
                    dxs = [rng.choice([1.0, 0.5, 2.0]) for _ in range(ndim)]
                    ax = rng.randrange(ndim)
                    rp = ("import odl, numpy as np, sys\nsys.path.insert(0, %r)\nfrom harness.c13 import _matrix\n"
                          "space=odl.uniform_discr(%r,%r,%r)\n" % (C.VERIF, [0.0] * ndim,
                                                                  [n_ * d for n_, d in zip(shape, dxs)], shape))
                    ctor = {'pd': "odl.PartialDerivative(space,%d,method=%r,pad_mode=%r)" % (ax, m, p),
                            'grad': "odl.Gradient(space,method=%r,pad_mode=%r)" % (m, p),
                            'div': "odl.Divergence(range=space,method=%r,pad_mode=%r)" % (m, p),
                            'lap': "odl.Laplacian(space,pad_mode=%r)" % (p,)}[kind]
                    rp += ("op=%s\nM=_matrix(op); A=_matrix(op.adjoint)\nobserved=A.tolist(); expected=M.T.tolist()\n"
                           "ok=bool(np.array_equal(A, M.T))\n" % ctor)
                    env = {}
                    try:
                        exec(rp, env)
                        ok = env['ok']
                    except Exception as e:
                        ok = False
                    out.append(C.Probe(ok, 'adjoint-%s-%s-%s' % (kind, m, p),
                                       '%s adjoint matrix equals the transpose (shape %s)' % (ctor, shape), rp))
    # derivative of the affine constant-padding variant = zero-padding version
    for kind in ('pd', 'grad', 'div', 'lap'):
        for m in METHS:
            shape = [rng.randint(2, 4) for _ in range(rng.choice([1, 2]))]
            space = odl.uniform_discr([0.0] * len(shape), [float(n_) for n_ in shape], shape)
            c = float(rng.choice([1, -2, 3]))
            op = {'pd': lambda: odl.PartialDerivative(space, 0, method=m, pad_const=c),
                  'grad': lambda: odl.Gradient(space, method=m, pad_const=c),
                  'div': lambda: odl.Divergence(range=space, method=m, pad_const=c),
                  'lap': lambda: odl.Laplacian(space, pad_const=c)}[kind]()
            x = op.domain.element([_arr(rng, shape) for _ in range(len(op.domain))] if isinstance(op.domain, odl.ProductSpace) else _arr(rng, shape))
            h = op.domain.element([_arr(rng, shape) for _ in range(len(op.domain))] if isinstance(op.domain, odl.ProductSpace) else _arr(rng, shape))
            try:
                d = op.derivative(x)
                ok = (not op.is_linear) and d.is_linear and np.array_equal(_flat(op(x + h)) - _flat(op(x)), _flat(d(h)))
            except Exception:
                ok = False
            out.append(C.Probe(bool(ok), 'affine-derivative-%s-%s' % (kind, m),
                               '%s with pad_const=%r: derivative is the zero-padding operator and the operator is flagged nonlinear' % (kind, c),
                               None, {'shape': shape}))
    # nodes on the boundary: every operator divides by space.cell_sides (the grid stride), and
    # Divergence stays minus the transpose of Gradient
    for flags in (True, [(True, False), (False, True)], [(False, False), (True, True)]):
        for m in METHS:
            shape = [rng.randint(3, 5), rng.randint(3, 5)]
            sp = odl.uniform_discr([0, 0], [1, 3], shape, nodes_on_bdry=flags)
            rp = ("import odl, numpy as np, sys\nsys.path.insert(0, %r)\nfrom harness.c13 import _matrix, _ref_fd\n"
                  "sp=odl.uniform_discr([0,0],[1,3],%r,nodes_on_bdry=%r)\nm=%r\n"
                  "G=_matrix(odl.Gradient(sp,method=m,pad_mode='symmetric')); D=_matrix(odl.Divergence(range=sp,method={'forward':'backward','backward':'forward','central':'central'}[m],pad_mode='symmetric_adjoint'))\n"
                  "x=np.arange(float(np.prod(sp.shape))).reshape(sp.shape)**2\n"
                  "pd=np.asarray(odl.PartialDerivative(sp,1,method=m,pad_mode='order1')(x))\n"
                  "want=np.array([_ref_fd(r,m,'order1',0.0,sp.cell_sides[1]) for r in x])\n"
                  "dv=np.asarray(odl.Divergence(range=sp,method=m,pad_mode='order1')([x,x]))\n"
                  "dwant=np.array([_ref_fd(c,m,'order1',0.0,sp.cell_sides[0]) for c in x.T]).T+want\n"
                  "observed=[float(abs(D+G.T).max()),float(abs(pd-want).max()),float(abs(dv-dwant).max())]; expected=[0,0,0]\n"
                  "ok=bool(np.allclose(D,-G.T,atol=1e-12) and np.allclose(pd,want,atol=1e-10) and np.allclose(dv,dwant,atol=1e-10))\n"
                  % (C.VERIF, shape, flags, m))
            env = {}
            try:
                exec(rp, env); ok = env['ok']
            except Exception:
                ok = False
            out.append(C.Probe(ok, 'nodes-on-bdry-step-%s' % m,
                               'PartialDerivative/Divergence use cell_sides and Divergence = -Gradient^T with nodes_on_bdry=%r, shape %s' % (flags, shape), rp))
    # configurations of the correspondence whose constructor raised
    for meta, err in _CTOR_FAILS[:10]:
        fl = meta.pop('flags', None)
        out.append(_nd_probe(meta, 'constructor-accepts-legal-shape'))
        out[-1].ok = False
        out[-1].what += ' [raised %s; nodes_on_bdry=%r]' % (err, fl)
    # in-place evaluation into used buffers, short non-differentiated axes: the N-d oracle
    nper = 1 if tier == 'quick' else 3
    for kind in ('pd', 'grad', 'div', 'lap'):
        for m in (METHS if kind != 'lap' else ['forward']):
            for p in (PMODES if kind != 'lap' else LAP_MODES):
                for _ in range(nper):
                    ndim = rng.choice([2, 3, 3])
                    lo = 3 if p.startswith('order2') else 2
                    shape = [rng.randint(lo, 4) for _ in range(ndim)]
                    ax = rng.choice([ndim - 1, rng.randrange(ndim)])
                    if kind == 'pd':
                        shape = [n_ if i == ax else rng.randint(1, 3) for i, n_ in enumerate(shape)]
                    meta = {'op': kind, 'shape': shape, 'method': m, 'pad_mode': p,
                            'pad_const': float(rng.choice([0, 1, -2])) if (p == 'constant' or rng.random() < 0.3) else 0.0,
                            'dx': [rng.choice([1.0, 0.5, 2.0]) for _ in range(ndim)], 'axis': ax,
                            'in_place': True, 'weighting': rng.choice([None, 2.0, 0.5])}
                    out.append(_nd_probe(meta, 'nd-%s-%s-%s' % (kind, m, p)))
    # the set of pad modes Laplacian accepts is the set the self-adjointness theorem covers (lap_mode)
    sp2 = odl.uniform_discr([0, 0], [3, 3], [3, 3])
    for p in PMODES:
        try:
            odl.Laplacian(sp2, pad_mode=p)
            accepted = True
        except ValueError:
            accepted = False
        out.append(C.Probe(accepted == (p in LAP_MODES), 'laplacian-modes-%s' % p,
                           'Laplacian accepts pad_mode=%r iff it is one of the six modes of lap_mode (C13/ProofsLap.v)' % p,
                           "import odl\nsp=odl.uniform_discr([0,0],[3,3],[3,3])\ntry:\n    odl.Laplacian(sp,pad_mode=%r); acc=True\n"
                           "except ValueError:\n    acc=False\nobserved=acc; expected=%r; ok=(acc==expected)\n" % (p, p in LAP_MODES)))
    # complex dtype: acts on real and imaginary parts separately
    for m, p in itertools.product(METHS, PMODES):
        n = rng.randint(3, 6)
        space = odl.uniform_discr(0, n, n, dtype=complex)
        rspace = odl.uniform_discr(0, n, n)
        re, im = _arr(rng, [n]), _arr(rng, [n])
        op = odl.PartialDerivative(space, 0, method=m, pad_mode=p)
        rop = odl.PartialDerivative(rspace, 0, method=m, pad_mode=p)
        try:
            got = np.asarray(op(space.element(re + 1j * im)))
            want = np.asarray(rop(re)) + 1j * np.asarray(rop(im))
            okc = bool(np.array_equal(got, want))
        except Exception:
            okc = False
        out.append(C.Probe(okc, 'complex-%s-%s' % (m, p),
                           'PartialDerivative on a complex space acts on real and imaginary parts', None))
    return out


LEVEL_TEXT = ('Proof: for the tables regenerated from finite_diff on every run, Coq proves for EVERY array length '
              '(short axes included), every entry and pad constant that each (method, base padding) pair equals the '
              'textbook stencil on the extended array / dx, and that for all 30 (method, padding) pairs the operator '
              'named by _ADJ_METHOD/_ADJ_PADDING is exactly minus the transpose (<Df,g> = -<f,D\'g> for all f,g). '
              'Both statements are lifted to arrays of EVERY shape and every axis (Lib/AxisR: adjoint, extensionality '
              'and additivity of apply-along-axis): PartialDerivative, Gradient* = -Divergence, Divergence* = -Gradient, '
              'Gradient components, Divergence (sum over the axes) and the Laplacian (sum of textbook second differences '
              'for the four base modes) equal the textbook stencils for every shape; '
              'the Laplacian is self-adjoint with the SAME pad mode for the six modes the class accepts, and the '
              'constant-padding variant is affine with the zero-padding scheme as exact difference quotient (1-d and all four '
              'N-d operators on every shape: op_c(x+h) = op_c(x) + op_0(h)); finite_diff is '
              'linear in (pad_const, array) for all 30 pairs (the regenerated tables contain only linear forms); the model '
              'executed at Q -- 1-d and all four N-d operators, any shape and pad constant -- is proved to be the restriction of the model proved at R (Q2R transfer). '
              'order2 x forward/backward is proved to violate the literal statement (recorded finding) and what it '
              'computes instead is proved. The interpreter is tied to the code by an exact correspondence on all '
              'modes x sizes 1..7 and on the N-d operators (1-3 d, nodes in cell centres or on the boundary per side).')
LEVEL_NOTE = ('Trusted: the translator (fail-closed, small grammar), the hand-written interpreter of sequential '
              'out[k] = / += / -= statements (validated by the correspondence incl. aliasing on sizes 2-4), the N-d '
              'composition model C13/ModelNd.v (validated by the N-d correspondence), NumPy slicing; exact arithmetic '
              '(rounding out of scope); complex dtype validated by probes only. Axioms: classical reals + funext as printed.')
TECHNIQUE = 'Coq proof by list induction (summation by parts, N-d lift through transposition lemmas) over source-regenerated tables + in-Coq differential correspondence'
