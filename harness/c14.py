"""C14 partitions: correspondence (model C14/Model.v vs odl.discr.partition & friends) + probes."""
import itertools
import random

import numpy as np

from . import common as C
from translate import partition as TP

PID = 'C14'
SHARD_SIZE = 250
IMPORTS = ['C14.Model', 'C14.Corr']

DY = [0.0, 0.25, 0.5, 1.0, 1.5, 2.0, 3.0]          # dyadic offsets
STEPS = [0.25, 0.5, 1.0, 1.5, 2.0, 3.0]


def translate():
    return {'Gen/Partition.v': TP.translate()}


# ----------------------------------------------------------------- literals
def z(v):
    return '(%d)%%Z' % int(v)


def zs(vs):
    return C.lst(list(vs), z)


def oz(v):
    return 'None' if v is None else '(Some %s)' % z(v)


def ozs(vs):
    return C.lst(vs, oz)


def flags_lit(fl):
    return C.lst(fl, lambda t: '(%s, %s)' % (C.b(t[0]), C.b(t[1])))


def ax_lit(lo, hi, cs):
    return '(mkAxis %s %s %s)' % (C.q(lo), C.q(hi), C.qs(cs))


def part_lit(p):
    return C.lst([ax_lit(p.min_pt[i], p.max_pt[i], p.coord_vectors[i]) for i in range(p.ndim)])


def parts_lit(ps):
    return C.lst([part_lit(p) for p in ps])


OBS_ATTRS = ['lo', 'hi', 'cs', 'bd', 'sz', 'fr', 'nb', 'sd']


def read_attr(p, name):
    """Read one observable of a RectPartition and convert it to its Coq literal (copies nothing back)."""
    if name == 'lo':
        return C.qs(p.min_pt.tolist())
    if name == 'hi':
        return C.qs(p.max_pt.tolist())
    if name == 'cs':
        return C.qss([v.tolist() for v in p.coord_vectors])
    if name == 'bd':
        return C.qss([v.tolist() for v in p.cell_boundary_vecs])
    if name == 'sz':
        return C.qss([v.tolist() for v in p.cell_sizes_vecs])
    if name == 'fr':
        return C.qss([[float(a), float(b)] for a, b in p.boundary_cell_fractions])
    if name == 'nb':
        return flags_lit([(bool(a), bool(b)) for a, b in p.nodes_on_bdry_byaxis])
    if name == 'sd':
        return C.oqs([float(s) for s in (p.cell_sides if p.ndim else [])])
    raise KeyError(name)


def obs_lit(p, order=None):
    """All observables of p; `order` = the order in which the attributes are read."""
    vals = {}
    for name in (order or OBS_ATTRS):
        vals[name] = read_attr(p, name)
    return ('{| ob_lo := %(lo)s; ob_hi := %(hi)s; ob_cs := %(cs)s; ob_bd := %(bd)s; ob_sz := %(sz)s; '
            'ob_fr := %(fr)s; ob_nb := %(nb)s; ob_sd := %(sd)s |}' % vals)


def impl(fn, kind='part'):
    """Run the implementation, return (coq iout literal, python result or exception class name)."""
    try:
        r = fn()
    except ValueError:
        return 'IErr EValue', 'ValueError'
    except IndexError:
        return 'IErr EIndex', 'IndexError'
    except TypeError:
        return 'IErr EType', 'TypeError'
    except Exception as e:   # noqa
        return 'IErr EOther', type(e).__name__
    if kind == 'part':
        return 'IPart %s' % obs_lit(r), r
    if kind == 'zs':
        r = list(np.atleast_1d(r))
        return 'IZs %s' % zs(r), r
    r = [float(v) for v in np.atleast_1d(r)]
    return 'IQs %s' % C.qs(r), r


# --------------------------------------------------------------- generators
def rand_axis(rng, nmax=6, n=None):
    """(lo, hi, coords): exact dyadic numbers; mixes uniform/non-uniform, nodes on/off the boundary."""
    n = n or rng.choice([1, 1, 2, 2, 3, 4, 5, nmax])
    c0 = rng.choice([-3.0, -1.0, -0.5, 0.0, 0.25, 1.0, 2.0])
    if rng.random() < 0.45:
        s = rng.choice(STEPS)
        cs = [c0 + i * s for i in range(n)]
    else:
        cs = [c0]
        for _ in range(n - 1):
            cs.append(cs[-1] + rng.choice(STEPS))
    mode = rng.random()
    if mode < 0.35 and n >= 2:      # default: half a cell outside
        lo, hi = cs[0] - (cs[1] - cs[0]) / 2, cs[-1] + (cs[-1] - cs[-2]) / 2
    elif mode < 0.5:                # both nodes on the boundary (zero extent when n == 1)
        lo, hi = cs[0], cs[-1]
    else:
        lo, hi = cs[0] - rng.choice(DY), cs[-1] + rng.choice(DY)
    return lo, hi, cs


def rand_axis_scaled(rng, n=None):
    """Axis at another length scale / far from the origin; all numbers exact in binary64."""
    n = n or rng.choice([1, 2, 3, 4, 5])
    off = rng.choice([0.0, 0.0, 2.0 ** 10, -2.0 ** 10, 2.0 ** 20, -2.0 ** 20])
    step = 2.0 ** rng.choice([-30, -20, -10, 0, 10])
    cs = [off + i * step for i in range(n)]
    m = rng.random()
    if m < 0.5:
        lo, hi = cs[0] - step / 2, cs[-1] + step / 2
    elif m < 0.7:
        lo, hi = cs[0], cs[-1]
    else:
        lo, hi = cs[0] - step * rng.choice([0.25, 1.0, 3.0]), cs[-1] + step * rng.choice([0.25, 1.0, 3.0])
    return lo, hi, cs


def near(v, k):
    """v moved by k units in the last place (k < 0: downwards)"""
    for _ in range(abs(k)):
        v = float(np.nextafter(v, np.inf if k > 0 else -np.inf))
    return v


def mkpart(axes):
    import odl
    return odl.RectPartition(odl.IntervalProd([a[0] for a in axes], [a[1] for a in axes]),
                             odl.RectGrid(*[a[2] for a in axes]))


def rand_part(rng, ndim=None, nmax=6):
    ndim = ndim or rng.choice([1, 1, 2, 2, 3])
    return mkpart([rand_axis(rng, nmax) for _ in range(ndim)])


def rand_oz(rng, n):
    return rng.choice([None, None, 0, 1, 2, n - 1, n, n + 1, -1, -2, -n, -n - 1, rng.randint(-n - 2, n + 2)])


def rand_item(rng, n):
    """(python index object, coq item literal) for an axis of length n."""
    r = rng.random()
    if r < 0.35:
        i = rng.choice([0, n - 1, -1, -n, rng.randint(-n - 2, n + 1), rng.randint(0, max(0, n - 1))])
        return i, 'IInt %s' % z(i)
    if r < 0.9:
        a, b_ = rand_oz(rng, n), rand_oz(rng, n)
        c = rng.choice([None, None, None, 1, 1, 2, 2, 3, -1, -2, 0 if rng.random() < 0.15 else 5])
        if rng.random() < 0.5:      # bias towards non-empty forward slices
            a = rng.choice([None, rng.randint(0, n - 1)])
            b_ = rng.choice([None, rng.randint((a or 0) + 1, n)])
            c = rng.choice([None, 1, 2, 3])
        return slice(a, b_, c), 'ISlice %s %s %s' % (oz(a), oz(b_), oz(c))
    if r < 0.97:
        return Ellipsis, 'IEll'
    return None, 'INew'


def rand_iexpr(rng, shape):
    nd = len(shape)
    r = rng.random()
    if r < 0.12:
        n = shape[0]
        k = rng.randint(0, min(4, n + 1))
        if rng.random() < 0.7:      # sorted, valid
            l = sorted(rng.sample(range(n), min(k, n)))
            if l and rng.random() < 0.3:
                l = [i - n if rng.random() < 0.5 else i for i in l]
        else:
            l = [rng.randint(-n - 1, n) for _ in range(k)]
        return list(l), 'EList %s' % zs(l)
    if r < 0.3:
        py, cq = rand_item(rng, shape[0])
        while py is None:
            py, cq = rand_item(rng, shape[0])
        return py, 'ESingle (%s)' % cq
    k = rng.choice([nd, nd, nd, max(1, nd - 1), nd + 1, rng.randint(0, nd + 1)])
    items = [rand_item(rng, shape[min(i, nd - 1)]) for i in range(k)]
    return tuple(i[0] for i in items), 'ETuple %s' % C.lst([i[1] for i in items])


def rand_axsel(rng, nd):
    r = rng.random()
    if r < 0.25:
        return None, 'AxAll'
    if r < 0.55:
        i = rng.randint(-nd - 1, nd)
        return i, 'AxInt %s' % z(i)
    if r < 0.8:
        l = [rng.randint(-nd, nd - 1) if rng.random() < 0.9 else rng.randint(-nd - 2, nd + 1)
             for _ in range(rng.randint(0, 3))]
        return l, 'AxList %s' % zs(l)
    a, b_ = rand_oz(rng, nd), rand_oz(rng, nd)
    c = rng.choice([None, 1, 2, -1])
    return slice(a, b_, c), 'AxSlice %s %s %s' % (oz(a), oz(b_), oz(c))


def rand_flags(rng, nd):
    return [(rng.random() < 0.5, rng.random() < 0.5) for _ in range(nd)]


def py_flags(rng, fl):
    """One of the accepted spellings of nodes_on_bdry that normalizes to fl."""
    if all(a == b for a, b in fl) and len(set(fl)) == 1 and rng.random() < 0.5:
        return fl[0][0]
    if len(fl) == 1 and rng.random() < 0.5:
        return (fl[0][0], fl[0][1])                      # 1-d pair (ae155d0)
    return [a if (a == b and rng.random() < 0.5) else (a, b) for a, b in fl]


def uniform_axis_params(rng, dyadic=True):
    """A consistent (xmin, xmax, n, dx, (bl, br)) with exact float arithmetic when dyadic."""
    n = rng.choice([1, 1, 2, 2, 3, 4, 5, 7])
    bl, br = rng.random() < 0.5, rng.random() < 0.5
    xmin = rng.choice([-2.0, -0.5, 0.0, 0.25, 1.0])
    if dyadic:
        dx = rng.choice([0.25, 0.5, 1.0, 2.0, 3.0])
        xmax = xmin + (n - (bl + br) / 2.0) * dx
    else:
        xmax = xmin + rng.choice([1.0, 3.0, 0.7, 2.5])
        dx = (xmax - xmin) / (n - (bl + br) / 2.0) if n - (bl + br) / 2.0 > 0 else 1.0
    return xmin, xmax, n, dx, (bl, br)


def call_methods(p, rng):
    """Call a few non-mutating public methods of the partition's set and grid (results discarded or scribbled on)."""
    import odl
    if p.ndim == 0:
        return []
    S, G = p.set, p.grid
    mid = [float(v) for v in S.mid_pt]
    mid1 = mid if p.ndim > 1 else mid[0]
    S2, G2 = odl.IntervalProd(0, 1), odl.RectGrid([0.25, 0.75])
    calls = {
        'set.collapse': lambda: S.collapse(0, mid[0]), 'set.collapse_all': lambda: S.collapse(list(range(p.ndim)), mid),
        'set.collapse_lo': lambda: S.collapse(p.ndim - 1, float(S.min_pt[-1])),
        'set.squeeze': lambda: S.squeeze(), 'set.insert': lambda: S.insert(0, S2), 'set.append': lambda: S.append(S2),
        'set.dist': lambda: S.dist(mid1), 'set.corners': lambda: S.corners(), 'set.element': lambda: S.element(),
        'set.contains_set': lambda: S.contains_set(G), 'set.getitem': lambda: S[::-1], 'set.measure': lambda: S.measure(),
        'set.arith': lambda: (S + 1.0, S * 2.0, -S), 'set.approx': lambda: S.approx_equals(S2, 0.1),
        'grid.squeeze': lambda: G.squeeze(), 'grid.insert': lambda: G.insert(0, G2), 'grid.corners': lambda: G.corners(),
        'grid.points': lambda: G.points(), 'grid.getitem': lambda: G[...], 'grid.hull': lambda: G.convex_hull(),
        'grid.corner_grid': lambda: G.corner_grid(), 'grid.subgrid': lambda: G.is_subgrid(G),
        'part.getitem': lambda: p[...], 'part.squeeze': lambda: p.squeeze(), 'part.byaxis': lambda: p.byaxis[0],
        'part.index': lambda: p.index(mid1), 'part.points': lambda: p.points(), 'part.repr': lambda: repr(p),
    }
    log = []
    for name in rng.sample(sorted(calls), rng.randint(1, 4)):
        try:
            r = calls[name]()
        except Exception as e:   # invalid for this partition (e.g. nothing to collapse): the state must still be intact
            r = None
            name += '!' + type(e).__name__
        if isinstance(r, np.ndarray) and r.dtype.kind == 'f' and r.flags.writeable and rng.random() < 0.5:
            r[...] = -7.0
        log.append(name)
    return log


def touch(p, rng):
    """Read some freshly computed attributes of p and overwrite the returned arrays (a careless caller);
    call non-mutating methods of its set / grid."""
    log = call_methods(p, rng) if rng.random() < 0.6 else []
    for _ in range(rng.randint(1, 4)):
        what = rng.choice(['cell_sides', 'cell_sizes_vecs', 'stride', 'extent', 'cell_volume', 'fracs', 'grid_pts'])
        if what == 'cell_sides':
            arr = [p.cell_sides] if p.ndim else []
        elif what == 'cell_sizes_vecs':
            arr = list(p.cell_sizes_vecs)
        elif what == 'stride':
            arr = [p.grid.stride]
        elif what == 'extent':
            arr = [p.extent, p.grid.extent]
        elif what == 'grid_pts':
            arr = [p.grid.min_pt, p.grid.max_pt, p.mid_pt]
        elif what == 'fracs':
            p.boundary_cell_fractions
            arr = []
        else:
            p.cell_volume
            arr = []
        for a_ in arr:
            a_[...] = -7.0
        log.append(what)
    return log


# ------------------------------------------------------------ case families
def correspondence(rng, tier):
    import odl
    from odl.discr.partition import (uniform_partition_fromintv, uniform_partition_fromgrid,
                                     uniform_partition, nonuniform_partition)
    cs = C.CaseSet('part', IMPORTS, 'check', 'case')
    N = 1 if tier == 'quick' else 4

    def add(opterm, out, desc, trivial=False):
        cs.add('{| c_op := %s; c_out := %s |}' % (opterm, out[0]), desc,
               None if trivial else C.digest(opterm))

    # ---- OInit: RectPartition(IntervalProd, RectGrid) + all derived vectors
    for _ in range(120 * N):
        nd = rng.choice([1, 1, 2, 3])
        axes = [rand_axis(rng) for _ in range(nd)]
        los, his, css = [a[0] for a in axes], [a[1] for a in axes], [list(a[2]) for a in axes]
        m = rng.random()
        k = rng.randrange(nd)
        if m < 0.08 and len(css[k]) >= 2:
            css[k][0], css[k][1] = css[k][1], css[k][0]          # unsorted
        elif m < 0.14 and len(css[k]) >= 2:
            css[k][1] = css[k][0]                                # duplicate
        elif m < 0.20:
            los[k] = css[k][0] + 0.25                            # grid sticks out left
        elif m < 0.26:
            his[k] = css[k][-1] - 0.25                           # grid sticks out right (or hi < lo)
        elif m < 0.30:
            his[k] = los[k] - 1.0                                # hi < lo
        elif m < 0.33:
            css = css + [[0.0]]                                  # ndim mismatch
        out = impl(lambda: odl.RectPartition(odl.IntervalProd(los, his), odl.RectGrid(*css)))
        add('OInit %s %s %s' % (C.qs(los), C.qs(his), C.qss(css)), out,
            {'op': 'init', 'lo': los, 'hi': his, 'cs': css, 'impl': str(out[1])[:40]})

    # ---- histories: several partitions sharing ONE RectGrid object (lazily cached grid attributes),
    # attributes read in random orders, re-read, and returned (freshly computed) arrays overwritten by the caller
    for _ in range(40 * N):
        nd = rng.choice([1, 2, 2, 3])
        gaxes = [rand_axis(rng, 4, n=rng.choice([1, 1, 2, 3])) for _ in range(nd)]
        css = [list(a[2]) for a in gaxes]
        grid = odl.RectGrid(*css)
        K = rng.choice([2, 2, 3, 4])
        lims, parts = [], []
        for k in range(K):
            lo = [c[0] - rng.choice(DY) for c in css]
            hi = [c[-1] + rng.choice(DY) for c in css]
            lims.append((lo, hi))
            if rng.random() < 0.5:
                parts.append(odl.RectPartition(odl.IntervalProd(lo, hi), grid))
            else:
                parts.append(uniform_partition_fromgrid(grid, min_pt=list(lo), max_pt=list(hi)))
        trace = []
        for _ in range(rng.randint(4, 14)):
            k = rng.randrange(K)
            what = rng.choice(['sd', 'sd', 'sz', 'stride', 'extent', 'volume', 'fr', 'bd', 'gextent', 'mid', 'methods', 'methods'])
            p = parts[k]
            if what == 'methods':
                trace.append((k, call_methods(p, rng), False))
                continue
            if what == 'stride':
                arr = [p.grid.stride]
            elif what == 'extent':
                arr = [p.extent]
            elif what == 'gextent':
                arr = [p.grid.extent, p.grid.min_pt, p.grid.max_pt]
            elif what == 'mid':
                arr = [p.mid_pt, p.grid.mid_pt]
            elif what == 'volume':
                p.cell_volume
                arr = []
            elif what == 'sd':
                arr = [p.cell_sides]
            elif what == 'sz':
                arr = list(p.cell_sizes_vecs)
            else:
                read_attr(p, what)
                arr = []
            scribble = rng.random() < 0.5
            if scribble:                       # the caller overwrites what it was handed
                for a_ in arr:
                    a_[...] = -7.0
            trace.append((k, what, scribble))
        for k in rng.sample(range(K), K):
            order = rng.sample(OBS_ATTRS, len(OBS_ATTRS))
            lo, hi = lims[k]
            out = ('IPart %s' % obs_lit(parts[k], order), parts[k])
            add('OInit %s %s %s' % (C.qs(lo), C.qs(hi), C.qss(css)), out,
                {'op': 'history', 'cs': css, 'limits': lims, 'k': k, 'trace': trace, 'read_order': order})

    # ---- OIndex
    for it in range(75 * N):
        if it % 5 < 2:
            p = mkpart([rand_axis_scaled(rng) for _ in range(rng.choice([1, 1, 2]))])
        else:
            p = rand_part(rng)
        pts = []
        bd = p.cell_boundary_vecs
        for _ in range(6):
            x = []
            for ax in range(p.ndim):
                r = rng.random()
                if r < 0.25:
                    x.append(float(rng.choice(bd[ax].tolist())))              # on an edge
                elif r < 0.45:                                                # a few ulps beside an edge, inside the set
                    v = near(float(rng.choice(bd[ax].tolist())), rng.choice([-3, -2, -1, 1, 2, 3]))
                    x.append(min(max(v, float(p.min_pt[ax])), float(p.max_pt[ax])))
                elif r < 0.55:
                    x.append(float(rng.choice(p.coord_vectors[ax].tolist())))  # a grid point
                elif r < 0.92:
                    lo, hi = p.min_pt[ax], p.max_pt[ax]
                    x.append(lo + (hi - lo) * rng.randint(0, 64) / 64.0)
                else:
                    x.append(rng.choice([p.min_pt[ax] - 0.125, p.max_pt[ax] + 0.125]))   # outside
            pts.append(x)
        for x in pts:
            for fl in (False, True):
                arg = x[0] if p.ndim == 1 else (x if rng.random() < 0.5 else np.array(x))
                out = impl(lambda: p.index(arg, floating=fl), 'qs' if fl else 'zs')
                add('OIndex %s %s %s' % (part_lit(p), C.qs(x), C.b(fl)), out,
                    {'op': 'index', 'part': repr(p), 'x': x, 'floating': fl})

    # ---- OGet
    for _ in range(420 * N):
        p = rand_part(rng)
        py, cq = rand_iexpr(rng, p.shape)
        hist = touch(p, rng) if rng.random() < 0.3 else None
        plit = part_lit(p)
        out = impl(lambda: p[py])
        same = (not isinstance(out[1], str)) and obs_lit(out[1]) == obs_lit(p)
        add('OGet %s (%s)' % (plit, cq), out,
            {'op': 'getitem', 'part': repr(p), 'idx': repr(py), 'impl': str(out[1])[:60], 'touched': hist}, trivial=same)
        if hist is not None:
            # the source partition is what it was, whatever was read / overwritten / derived from it
            if not isinstance(out[1], str):
                touch(out[1], rng)
            add('OInit %s %s %s' % (C.qs(p.min_pt.tolist()), C.qs(p.max_pt.tolist()),
                                    C.qss([v.tolist() for v in p.coord_vectors])),
                ('IPart %s' % obs_lit(p, rng.sample(OBS_ATTRS, len(OBS_ATTRS))), p),
                {'op': 'history-after-getitem', 'part': repr(p), 'idx': repr(py), 'touched': hist})

    # ---- OInsert / OAppend
    for _ in range(40 * N):
        p = rand_part(rng, rng.choice([1, 2, 3]), nmax=4)
        parts = [rand_part(rng, rng.choice([1, 1, 2]), nmax=3) for _ in range(rng.choice([0, 1, 1, 2, 3]))]
        if rng.random() < 0.3:
            out = impl(lambda: p.append(*parts))
            add('OAppend %s %s' % (part_lit(p), parts_lit(parts)), out,
                {'op': 'append', 'part': repr(p), 'nparts': len(parts)}, trivial=not parts)
        else:
            i = rng.randint(-p.ndim - 1, p.ndim + 1)
            if rng.random() < 0.3:
                touch(p, rng)
                for t in parts:
                    touch(t, rng)
            out = impl(lambda: p.insert(i, *parts))
            add('OInsert %s %s %s' % (part_lit(p), z(i), parts_lit(parts)), out,
                {'op': 'insert', 'part': repr(p), 'index': i, 'nparts': len(parts)}, trivial=not parts)

    # ---- OSqueeze / OByaxis
    for _ in range(60 * N):
        nd = rng.choice([1, 2, 3, 4])
        p = mkpart([rand_axis(rng, 4, n=rng.choice([1, 1, 2, 3])) for _ in range(nd)])
        py, cq = rand_axsel(rng, nd)
        hist = touch(p, rng) if rng.random() < 0.3 else None
        out = impl(lambda: p.squeeze(py))
        add('OSqueeze %s (%s)' % (part_lit(p), cq), out,
            {'op': 'squeeze', 'part': repr(p), 'axis': repr(py), 'touched': hist})
        if hist is not None and not isinstance(out[1], str):
            touch(out[1], rng)
            add('OInit %s %s %s' % (C.qs(p.min_pt.tolist()), C.qs(p.max_pt.tolist()),
                                    C.qss([v.tolist() for v in p.coord_vectors])),
                ('IPart %s' % obs_lit(p, rng.sample(OBS_ATTRS, len(OBS_ATTRS))), p),
                {'op': 'history-after-squeeze', 'part': repr(p), 'touched': hist})
    for _ in range(60 * N):
        nd = rng.choice([1, 2, 3, 4])
        p = mkpart([rand_axis(rng, 4) for _ in range(nd)])
        if rng.random() < 0.6:
            py, cq = rand_axsel(rng, nd)
            while py is None or isinstance(py, list):
                py, cq = rand_axsel(rng, nd)
            cq = 'ByOne (%s)' % cq
        else:
            py = [rng.randint(-nd, nd - 1) if rng.random() < 0.9 else rng.randint(-nd - 2, nd + 1)
                  for _ in range(rng.randint(0, 4))]
            cq = 'BySeq %s' % zs(py)
        out = impl(lambda: p.byaxis[py])
        add('OByaxis %s (%s)' % (part_lit(p), cq), out,
            {'op': 'byaxis', 'part': repr(p), 'sel': repr(py)})

    # ---- OFromIntv: uniform_partition_fromintv over every spelling of nodes_on_bdry
    for _ in range(120 * N):
        nd = rng.choice([1, 1, 2, 3])
        dy = rng.random() < 0.6
        prm = [uniform_axis_params(rng, dy) for _ in range(nd)]
        lo, hi = [a[0] for a in prm], [a[1] for a in prm]
        shape = [a[2] for a in prm]
        fl = [a[4] for a in prm]
        m = rng.random()
        k = rng.randrange(nd)
        if m < 0.06:
            shape[k] = 0
        elif m < 0.12:
            hi[k] = lo[k]                      # degenerate interval
        pf = py_flags(rng, fl)
        out = impl(lambda: uniform_partition_fromintv(odl.IntervalProd(lo, hi), shape if nd > 1 or rng.random() < 0.5
                                                      else shape[0], nodes_on_bdry=pf))
        add('OFromIntv %s %s %s %s' % (C.qs(lo), C.qs(hi), zs(shape), flags_lit(fl)), out,
            {'op': 'fromintv', 'lo': lo, 'hi': hi, 'shape': shape, 'nodes_on_bdry': repr(pf)})

    # fixed corner cases of the input validation
    for lo, hi, shape, fl in [([0.0, 0.0], [1.0, 1.0], [2, 2], [(True, False), (False, False), (True, True)]),
                              ([0.0, 0.0], [1.0, 1.0], [2, 2], [(True, False)]),
                              ([0.0], [1.0], [2], [(True, False), (False, False), (True, True)])]:
        out = impl(lambda: uniform_partition_fromintv(odl.IntervalProd(lo, hi), shape, nodes_on_bdry=fl))
        add('OFromIntv %s %s %s %s' % (C.qs(lo), C.qs(hi), zs(shape), flags_lit(fl)), out,
            {'op': 'fromintv', 'lo': lo, 'hi': hi, 'shape': shape, 'nodes_on_bdry': repr(fl)})
    for lo, hi, css in [([0.0, 0.0], [1.0], [[0.5], [0.5]]), ([0.0], [1.0, 2.0], [[0.5]]), ([0.0], [1.0], [[0.5], [0.5]])]:
        out = impl(lambda: odl.RectPartition(odl.IntervalProd(lo, hi), odl.RectGrid(*css)))
        add('OInit %s %s %s' % (C.qs(lo), C.qs(hi), C.qss(css)), out, {'op': 'init', 'lo': lo, 'hi': hi, 'cs': css})

    # ---- OUniform: every subset of (min_pt, max_pt, shape, cell_sides), per axis
    for _ in range(200 * N):
        nd = rng.choice([1, 1, 2, 3])
        dy = rng.random() < 0.7
        prm = [uniform_axis_params(rng, dy) for _ in range(nd)]
        cols = [[a[0] for a in prm], [a[1] for a in prm], [a[2] for a in prm], [a[3] for a in prm]]
        fl = [a[4] for a in prm]
        for ax in range(nd):
            drop = rng.choice([0, 1, 2, 3, None])
            if not dy and drop in (2, None):
                drop = 3                       # shape recovery / the 4-parameter check need exact arithmetic
            if drop == 2 and prm[ax][2] - (fl[ax][0] + fl[ax][1]) / 2.0 <= 0:
                drop = None
            if drop is not None:
                cols[drop][ax] = None
            m = rng.random()
            if m < 0.05:
                cols[rng.randrange(4)][ax] = None       # too few parameters
            elif m < 0.12 and cols[3][ax] is not None and dy:
                cols[3][ax] = cols[3][ax] + 0.125          # inconsistent cell side
            elif m < 0.16 and cols[2][ax] is not None:
                cols[2][ax] += 1                         # inconsistent shape
        args = []
        for col in cols:
            if all(v is None for v in col):
                args.append(None)
            elif nd == 1 and rng.random() < 0.5:
                args.append(col[0])
            else:
                args.append(list(col))
        if all(a is None for a in args):
            continue
        pf = py_flags(rng, fl)
        out = impl(lambda: uniform_partition(args[0], args[1], args[2], args[3], nodes_on_bdry=pf))
        if not dy and isinstance(out[1], str):
            continue                             # isclose-band decisions are outside the model
        add('OUniform %s %s %s %s %s' % (C.lst(cols[0], C.oq), C.lst(cols[1], C.oq), ozs(cols[2]),
                                        C.lst(cols[3], C.oq), flags_lit(fl)), out,
            {'op': 'uniform_partition', 'args': repr(args), 'nodes_on_bdry': repr(pf),
             'impl': str(out[1])[:60]})

    # fixed corner cases: computed shape (integral / not integral / with nodes on the boundary / non-positive)
    for cols, fl in [([[0.0], [1.0], [None], [0.25]], [(False, False)]),
                     ([[0.0], [1.0], [None], [0.25]], [(True, True)]),
                     ([[0.0], [1.0], [None], [0.375]], [(False, False)]),
                     ([[0.0], [1.0], [None], [0.5]], [(True, False)]),
                     ([[0.0], [1.75], [None], [0.5]], [(True, False)]),
                     ([[0.0], [1.0], [None], [-0.25]], [(False, False)]),
                     ([[0.0, 1.0], [1.0, 3.0], [None, None], [0.5, 0.5]], [(False, True), (True, True)]),
                     ([[0.0], [0.0], [1], [None]], [(True, True)]),
                     ([[0.0], [0.0], [2], [None]], [(False, False)]),
                     ([[None], [1.0], [1], [2.0]], [(False, True)]),
                     ([[0.0], [None], [1], [2.0]], [(True, False)])]:
        args = [None if all(v is None for v in col) else list(col) for col in cols]
        out = impl(lambda: uniform_partition(args[0], args[1], args[2], args[3], nodes_on_bdry=fl))
        add('OUniform %s %s %s %s %s' % (C.lst(cols[0], C.oq), C.lst(cols[1], C.oq), ozs(cols[2]),
                                        C.lst(cols[3], C.oq), flags_lit(fl)), out,
            {'op': 'uniform_partition', 'args': repr(args), 'nodes_on_bdry': repr(fl), 'impl': str(out[1])[:60]})

    # ---- OFromGrid
    for _ in range(50 * N):
        nd = rng.choice([1, 2, 3])
        axes = [rand_axis(rng, 5) for _ in range(nd)]
        css = [a[2] for a in axes]
        omin = [None if rng.random() < 0.5 else (a[0] if rng.random() < 0.85 else a[2][0] + 0.5) for a in axes]
        omax = [None if rng.random() < 0.5 else a[1] for a in axes]
        grid = odl.RectGrid(*css)

        def as_arg(o):
            if all(v is None for v in o):
                return None
            if any(v is None for v in o):
                return {(i if rng.random() < 0.5 else i - nd): v for i, v in enumerate(o) if v is not None}
            return list(o)
        amin, amax = as_arg(omin), as_arg(omax)
        out = impl(lambda: uniform_partition_fromgrid(grid, dict(amin) if isinstance(amin, dict) else amin,
                                                      dict(amax) if isinstance(amax, dict) else amax))
        add('OFromGrid %s %s %s' % (C.qss(css), C.lst(omin, C.oq), C.lst(omax, C.oq)), out,
            {'op': 'fromgrid', 'cs': css, 'min_pt': repr(amin), 'max_pt': repr(amax)})

    # ---- ONonuniform
    for _ in range(80 * N):
        nd = rng.choice([1, 1, 2, 3])
        axes = [rand_axis(rng, 5) for _ in range(nd)]
        css = [list(a[2]) for a in axes]
        fl = rand_flags(rng, nd) if rng.random() < 0.7 else [(False, False)] * nd
        omin = [None if (f[0] and rng.random() < 0.85) or rng.random() < 0.5 else a[0] for a, f in zip(axes, fl)]
        omax = [None if (f[1] and rng.random() < 0.85) or rng.random() < 0.5 else a[1] for a, f in zip(axes, fl)]
        if rng.random() < 0.06 and len(css[0]) >= 2:
            css[0][0], css[0][1] = css[0][1], css[0][0]
        kw = {}
        if any(v is not None for v in omin):
            kw['min_pt'] = list(omin) if nd > 1 or rng.random() < 0.5 else omin[0]
        if any(v is not None for v in omax):
            kw['max_pt'] = list(omax) if nd > 1 or rng.random() < 0.5 else omax[0]
        pf = py_flags(rng, fl)
        out = impl(lambda: nonuniform_partition(*css, nodes_on_bdry=pf, **kw))
        add('ONonuniform %s %s %s %s' % (C.qss(css), C.lst(omin, C.oq), C.lst(omax, C.oq), flags_lit(fl)), out,
            {'op': 'nonuniform_partition', 'cs': css, 'kw': repr(kw), 'nodes_on_bdry': repr(pf)})
    return [cs]



# ---------------------------------------------- receiver-must-not-change probes (P12) and axis-argument oracles (P13)
RECV_PRE = r"""import odl, numpy as np
S = odl.IntervalProd(%(lo)r, %(hi)r); G = odl.RectGrid(*%(css)r); p = odl.RectPartition(S, G)
S2 = odl.IntervalProd(0, 1); G2 = odl.RectGrid([0.25, 0.75]); p2 = odl.RectPartition(S2, G2)
nd = p.ndim
mid = [float(v) for v in S.mid_pt]
mid1 = mid if nd > 1 else mid[0]
def snap():
    return repr((S.min_pt.tolist(), S.max_pt.tolist(), [v.tolist() for v in G.coord_vectors],
                 p.min_pt.tolist(), p.max_pt.tolist(), p.extent.tolist(), [v.tolist() for v in p.coord_vectors],
                 [v.tolist() for v in p.cell_boundary_vecs], [v.tolist() for v in p.cell_sizes_vecs],
                 p.cell_sides.tolist(), G.stride.tolist(), G.min_pt.tolist(), G.max_pt.tolist(),
                 p.boundary_cell_fractions, p.nodes_on_bdry_byaxis,
                 S2.min_pt.tolist(), S2.max_pt.tolist(), [v.tolist() for v in G2.coord_vectors],
                 [v.tolist() for v in p2.cell_boundary_vecs]))
def tiles(t):
    ok = True
    for ax in range(t.ndim):
        b = t.cell_boundary_vecs[ax]; c = t.coord_vectors[ax]
        ok = ok and len(b) == len(c) + 1 and b[0] == t.min_pt[ax] and b[-1] == t.max_pt[ax]
        ok = ok and bool(np.all(np.diff(b) >= 0) and np.all(b[:-1] <= c) and np.all(c <= b[1:]))
        ok = ok and t.extent[ax] == b[-1] - b[0]
    return bool(ok)
def arrays(r, depth=0):
    if isinstance(r, np.ndarray):
        yield r
    elif isinstance(r, (tuple, list)) and depth < 3:
        for x in r:
            for a in arrays(x, depth + 1):
                yield a
    elif isinstance(r, odl.RectPartition):
        for a in arrays((r.set, r.grid, r.cell_boundary_vecs), depth + 1):
            yield a
    elif isinstance(r, odl.IntervalProd):
        for a in (r.min_pt, r.max_pt):
            yield a
    elif isinstance(r, odl.RectGrid):
        for a in r.coord_vectors:
            yield a
before = snap()
obj = {'set': S, 'grid': G, 'part': p}[%(which)r]
raised = None
try:
    r = eval(%(expr)r)
    if hasattr(r, '__next__'):
        r = list(r)[:3]
except Exception as e:
    r = None; raised = type(e).__name__
ok = snap() == before and tiles(p) and tiles(p2)
stage = 'call'
if ok and %(write)r:
    for a in arrays(r):
        if a.flags.writeable and a.dtype.kind in 'fc':
            a[...] = 123.0
    stage = 'write-into-result'
    ok = snap() == before and tiles(p) and tiles(p2)
observed = (stage, raised, snap()); expected = before
"""

# argument table for the public API (members not listed are read / called without arguments)
RECV_ARGS = {
    'set': {
        'append': ['obj.append(S2)', 'obj.append(S2, S2)'], 'insert': ['obj.insert(0, S2)', 'obj.insert(-1, S2)', 'obj.insert(nd, S2, S2)', 'obj.insert(0)'],
        'approx_contains': ['obj.approx_contains(mid1, 0.1)'], 'approx_equals': ['obj.approx_equals(S, 0.1)', 'obj.approx_equals(S2, 0.1)'],
        'collapse': ['obj.collapse(0, float(S.min_pt[0]))', 'obj.collapse(nd - 1, float(S.max_pt[nd - 1]))',
                     'obj.collapse(list(range(nd)), mid)', 'obj.collapse(0, mid[0]).collapse(0, float(S.min_pt[0]))'],
        'contains_all': ['obj.contains_all(G.points().T)', 'obj.contains_all(G.meshgrid)'], 'contains_set': ['obj.contains_set(G)', 'obj.contains_set(S)', 'obj.contains_set(p)'],
        'corners': ['obj.corners()', "obj.corners(order='F')"], 'dist': ['obj.dist(mid1)', 'obj.dist([v + 10 for v in mid] if nd > 1 else mid[0] + 10, exponent=1.0)'],
        'element': ['obj.element()', 'obj.element(mid1)'], 'measure': ['obj.measure()', 'obj.measure(ndim=nd)'],
        'squeeze': ['obj.squeeze()'], 'min': ['obj.min()'], 'max': ['obj.max()'],
        '__getitem__': ['obj[0]', 'obj[::-1]', 'obj[[0, 0]]', 'obj[-1:]'], '__contains__': ['mid1 in obj'], '__eq__': ['obj == S2', 'obj == S'],
        '__hash__': ['hash(obj)'], '__repr__': ['repr(obj)'], '__len__': ['len(obj)'], '__add__': ['obj + 1.0', 'obj + obj'], '__sub__': ['obj - 1.0'],
        '__mul__': ['obj * 2.0', 'obj * obj'], '__neg__': ['-obj'], '__pos__': ['+obj'], '__truediv__': ['obj / 2.0'], '__rtruediv__': ['2.0 / (obj + (abs(float(S.min_pt.min())) + 1.0))'],
    },
    'grid': {
        'append': ['obj.append(G2)', 'obj.append(G2, G2)'], 'insert': ['obj.insert(0, G2)', 'obj.insert(-1, G2)', 'obj.insert(nd, G2, G2)', 'obj.insert(0)'],
        'approx_contains': ['obj.approx_contains(mid1, 0.1)'], 'approx_equals': ['obj.approx_equals(G, 0.1)', 'obj.approx_equals(G2, 0.1)'],
        'is_subgrid': ['obj.is_subgrid(G)', 'obj.is_subgrid(G2, atol=0.1)'], 'corners': ['obj.corners()', "obj.corners(order='F')"],
        'points': ['obj.points()', "obj.points(order='F')"], 'squeeze': ['obj.squeeze()', 'obj.squeeze(axis=0)', 'obj.squeeze(axis=-1)'],
        'element': ['obj.element()'], 'min': ['obj.min()'], 'max': ['obj.max()'], 'convex_hull': ['obj.convex_hull()'],
        'corner_grid': ['obj.corner_grid()'],
        '__getitem__': ['obj[0]', 'obj[...]', 'obj[[0]]', 'obj[tuple([0] * nd)]', 'obj[::2]'], '__contains__': ['mid1 in obj'], '__eq__': ['obj == G2', 'obj == G'],
        '__hash__': ['hash(obj)'], '__repr__': ['repr(obj)'], '__len__': ['len(obj)'], '__array__': ['np.asarray(obj)'],
    },
    'part': {
        'append': ['obj.append(p2)', 'obj.append(p2, p2)'], 'insert': ['obj.insert(0, p2)', 'obj.insert(-1, p2)', 'obj.insert(nd, p2, p2)', 'obj.insert(0)'],
        'approx_equals': ['obj.approx_equals(p, 0.1)', 'obj.approx_equals(p2, 0.1)'], 'index': ['obj.index(mid1)', 'obj.index(mid1, floating=True)'],
        'squeeze': ['obj.squeeze()', 'obj.squeeze(axis=0)', 'obj.squeeze(axis=-1)', 'obj.squeeze(axis=[0])'],
        'byaxis': ['obj.byaxis[0]', 'obj.byaxis[-1]', 'obj.byaxis[:]', 'obj.byaxis[[0, 0]]'], 'points': ['obj.points()'], 'min': ['obj.min()'], 'max': ['obj.max()'],
        '__getitem__': ['obj[0]', 'obj[...]', 'obj[[0]]', 'obj[::2]', 'obj[-1]'], '__eq__': ['obj == p2', 'obj == p'], '__hash__': ['hash(obj)'],
        '__repr__': ['repr(obj)'], '__len__': ['len(obj)'],
    },
}
# getters that hand out the object's own state in the code at hand (main's decision: a caller writing into THESE is
# outside C14's quantifier); for every other member the result is also overwritten and the receivers re-checked
RECV_STATE_GETTERS = {'set': {'min_pt', 'max_pt', 'min', 'max', '__pos__'},   # +S is S itself
                      'grid': {'coord_vectors', 'meshgrid'},
                      'part': {'min_pt', 'max_pt', 'min', 'max', 'coord_vectors', 'meshgrid', 'cell_boundary_vecs', 'set', 'grid'}}


def recv_calls():
    """(which, member, expression) for every public member of IntervalProd / RectGrid / RectPartition (introspection)."""
    import odl
    out = []
    for which, cls in (('set', odl.IntervalProd), ('grid', odl.RectGrid), ('part', odl.RectPartition)):
        names = [n for n in dir(cls) if not n.startswith('_')] + sorted(k for k in RECV_ARGS[which] if k.startswith('__'))
        for name in names:
            if name in RECV_ARGS[which]:
                for e in RECV_ARGS[which][name]:
                    out.append((which, name, e))
            else:
                attr = getattr(cls, name)
                if isinstance(attr, property) or not callable(attr):
                    out.append((which, name, 'obj.%s' % name))
                else:
                    out.append((which, name, 'obj.%s()' % name))
    return out

# ------------------------------------------------------------------- probes
def _rand_float_axis(rng, n=None):
    """Non-dyadic axis (tolerances apply): used by probes only."""
    n = n or rng.choice([1, 2, 3, 5, 8, 13])
    c = [rng.uniform(-3, 3)]
    for _ in range(n - 1):
        c.append(c[-1] + rng.uniform(0.05, 2.0))
    lo = c[0] - rng.choice([0.0, rng.uniform(0, 1)])
    hi = c[-1] + rng.choice([0.0, rng.uniform(0, 1)])
    return lo, hi, c


def _axes_of(p):
    return [(float(p.min_pt[i]), float(p.max_pt[i]), p.coord_vectors[i].tolist()) for i in range(p.ndim)]


_PRE = "import odl, numpy as np\n"


def _mk_src(axes, name='p'):
    return ("%s = odl.RectPartition(odl.IntervalProd(%r, %r), odl.RectGrid(*%r))\n"
            % (name, [a[0] for a in axes], [a[1] for a in axes], [list(a[2]) for a in axes]))


def _run(src):
    env = {}
    try:
        exec(src, env)
        return bool(env.get('ok')), env
    except Exception as e:     # a probe that raises counts as failing
        return False, {'exc': repr(e)}


def probes(rng, tier):
    out = []
    N = 1 if tier == 'quick' else 4

    def probe(key, what, src):
        ok, env = _run(src)
        out.append(C.Probe(ok, key, what, src, {k: repr(env[k])[:200] for k in ('observed', 'expected', 'exc') if k in env}))

    # -- P1 tiling, incl. non-dyadic coordinates
    tiling = (
        "ok = True\n"
        "for ax in range(p.ndim):\n"
        "    b = p.cell_boundary_vecs[ax]; c = p.coord_vectors[ax]; lo = p.min_pt[ax]; hi = p.max_pt[ax]\n"
        "    ok &= len(b) == len(c) + 1 and b[0] == lo and b[-1] == hi\n"
        "    ok &= bool(np.all(np.diff(b) > 0)) if (len(c) > 1 or hi > lo) else bool(np.all(np.diff(b) >= 0))\n"
        "    ok &= bool(np.all(b[:-1] <= c) and np.all(c <= b[1:]))\n")
    sizes = (
        "ok = True\n"
        "for ax in range(p.ndim):\n"
        "    b = p.cell_boundary_vecs[ax]; sz = p.cell_sizes_vecs[ax]\n"
        "    ok &= bool(np.allclose(sz, np.diff(b), rtol=1e-12, atol=1e-12))\n"
        "    ok &= bool(abs(sz.sum() - p.extent[ax]) <= 1e-12 * max(1.0, abs(p.extent[ax])))\n"
        "observed = [v.tolist() for v in p.cell_sizes_vecs]; expected = [np.diff(v).tolist() for v in p.cell_boundary_vecs]\n")
    for _ in range(40 * N):
        nd = rng.choice([1, 2, 3])
        axes = [(_rand_float_axis(rng) if rng.random() < 0.5 else rand_axis(rng)) for _ in range(nd)]
        src = _PRE + _mk_src(axes)
        probe('tiling-boundaries', 'boundaries start/end at the limits, increase, node i in cell i', src + tiling)
        single = any(len(a[2]) == 1 and a[1] > a[0] for a in axes)
        probe('cell_sizes-single-point-axis' if single else 'cell-sizes-sum',
              'cell_sizes_vecs are the cell widths and sum to the extent', src + sizes)

    # -- P2 uniform: side * (n - (bl+br)/2) = extent, requested placement
    for _ in range(60 * N):
        n = rng.choice([1, 1, 2, 3, 4, 7, 16, 33])
        lo = rng.choice([0.0, -1.0, rng.uniform(-2, 2)])
        hi = lo + rng.choice([1.0, 3.0, rng.uniform(0.1, 5)])
        fl = (rng.random() < 0.5, rng.random() < 0.5)
        src = (_PRE + "p = odl.uniform_partition_fromintv(odl.IntervalProd(%r, %r), %d, nodes_on_bdry=[%r])\n"
               "s = p.cell_sides[0]; h = (%d + %d) / 2.0; ext = %r - %r\n"
               "observed = (float(s * (%d - h)), p.nodes_on_bdry_byaxis[0]); expected = (ext, %r)\n"
               "ok = abs(observed[0] - ext) <= 1e-12 * ext and observed[1] == expected[1]\n"
               "fr = p.boundary_cell_fractions[0]\n"
               "ok = ok and all(abs(f - (0.5 if b else 1.0)) <= 1e-12 for f, b in zip(fr, %r))\n"
               % (lo, hi, n, fl, fl[0], fl[1], hi, lo, n, fl, fl))
        key = 'uniform-one-point-nodes-on-bdry' if (n == 1 and any(fl)) else 'uniform-side-count-placement'
        probe(key, 'uniform partition: cell side * (n - (bl+br)/2) = extent, nodes placed as requested, fractions 1/2 | 1', src)

    # -- P3 index: containing cell, fractional position, p[p.index(x)] is that cell
    idx = (
        "ok = True\n"
        "i = np.atleast_1d(p.index(x)); f = np.atleast_1d(p.index(x, floating=True))\n"
        "cell = p[tuple(int(k) for k in i)]\n"
        "for ax in range(p.ndim):\n"
        "    b = p.cell_boundary_vecs[ax]; k = int(i[ax]); xv = np.atleast_1d(x)[ax]\n"
        "    ok &= 0 <= k < len(b) - 1 and b[k] <= xv <= b[k + 1]\n"
        "    ok &= (k + 1 == len(b) - 1 or xv < b[k + 1])          # on an edge -> right cell, except the last edge\n"
        "    ok &= abs(b[k] + (f[ax] - k) * (b[k + 1] - b[k]) - xv) <= 1e-12 * max(1.0, abs(xv)) and k <= f[ax] <= k + 1\n"
        "    ok &= cell.min_pt[ax] == b[k] and cell.max_pt[ax] == b[k + 1] and cell.shape[ax] == 1\n"
        "    ok &= cell.coord_vectors[ax][0] == p.coord_vectors[ax][k]\n"
        "ok = bool(ok); observed = (i.tolist(), f.tolist())\n")
    for _ in range(60 * N):
        nd = rng.choice([1, 2, 3])
        axes = [(_rand_float_axis(rng) if rng.random() < 0.5 else rand_axis(rng)) for _ in range(nd)]
        p = mkpart(axes)
        x = []
        for ax in range(nd):
            r = rng.random()
            if r < 0.4:
                x.append(float(rng.choice(p.cell_boundary_vecs[ax].tolist())))
            elif r < 0.5:
                x.append(float(rng.choice(axes[ax][2])))
            else:
                x.append(rng.uniform(axes[ax][0], axes[ax][1]))
        xs = repr(x[0]) if nd == 1 else repr(x)
        probe('index-containing-cell', 'index(x) is the cell containing x; floating position; p[index] extracts it',
              _PRE + _mk_src(axes) + 'x = %s\n' % xs + idx)

    # -- P4 __getitem__: the cells of the result are exactly the selected cells
    getit = (
        "sel = [np.atleast_1d(np.arange(n)[i]) for n, i in zip(p.shape, norm)]\n"
        "ok = q.ndim == p.ndim\n"
        "for ax in range(p.ndim):\n"
        "    b = p.cell_boundary_vecs[ax]; rb = q.cell_boundary_vecs[ax]; s = sel[ax]\n"
        "    ok = ok and len(rb) == len(s) + 1 and bool(np.all(rb[:-1] == b[s]) and np.all(rb[1:] == b[s + 1]))\n"
        "    ok = ok and bool(np.all(q.coord_vectors[ax] == p.coord_vectors[ax][s]))\n"
        "observed = [v.tolist() for v in q.cell_boundary_vecs]\n"
        "expected = [[p.cell_boundary_vecs[a][s].tolist(), p.cell_boundary_vecs[a][s + 1].tolist()] for a, s in enumerate(sel)]\n")
    hull = (
        "ok = q.ndim == p.ndim\n"
        "for ax in range(p.ndim):\n"
        "    n = p.shape[ax]; i = norm[ax]; b = p.cell_boundary_vecs[ax]\n"
        "    s = np.atleast_1d(np.arange(n)[i])\n"
        "    u = np.atleast_1d(np.arange(n)[slice(i.start, i.stop)]) if isinstance(i, slice) else s\n"
        "    ok = ok and bool(np.all(q.coord_vectors[ax] == p.coord_vectors[ax][s]))\n"
        "    ok = ok and q.min_pt[ax] == b[u[0]] and q.max_pt[ax] == b[u[-1] + 1]\n"
        "observed = (q.min_pt.tolist(), q.max_pt.tolist(), [v.tolist() for v in q.coord_vectors])\n")
    for _ in range(80 * N):
        p = rand_part(rng)
        nd = p.ndim
        items, stepped = [], False
        for n in p.shape:
            r = rng.random()
            if r < 0.3:
                items.append(rng.randint(-n, n - 1))
            else:
                a = rng.randint(0, n - 1)
                b_ = rng.randint(a + 1, n)
                st = rng.choice([None, None, 1, 2, 3]) if rng.random() < 0.4 else None
                sl = slice(rng.choice([a, a - n]) if a or rng.random() < 0.5 else None,
                           rng.choice([b_, b_ - n]) if b_ < n else rng.choice([None, n, n + 2]), st)
                if list(range(n)[sl]) != list(range(n)[slice(sl.start, sl.stop)]):
                    stepped = True
                items.append(sl)
        norm = list(items)
        form = rng.random()
        if form < 0.2 and nd > 1 and items[-1] == slice(None):
            expr = tuple(items[:-1])                      # too few indices
        elif form < 0.4 and nd > 1:
            k = rng.randrange(nd)
            if all(isinstance(i, slice) and i == slice(None) for i in items[k:k + 1]):
                expr = tuple(items[:k]) + (Ellipsis,) + tuple(items[k + 1:])
            else:
                expr = tuple(items)
        else:
            expr = tuple(items) if nd > 1 or rng.random() < 0.5 else items[0]
        src = (_PRE + "from builtins import slice, Ellipsis\n" + _mk_src(_axes_of(p)) +
               "expr = %r\nnorm = %r\nq = p[expr]\n" % (expr, norm) + getit)
        probe('getitem-step-slice-cells' if stepped else 'getitem-selected-cells',
              'p[ints/slices/ellipsis]: cells of the result are exactly the selected cells', src)
        if stepped:
            probe('getitem-step-slice-hull', 'p[a:b:k]: selected grid points, limits = hull of the cells a..b-1 (documented)',
                  _PRE + "from builtins import slice, Ellipsis\n" + _mk_src(_axes_of(p)) +
                  "expr = %r\nnorm = %r\nq = p[expr]\n" % (expr, norm) + hull)
    # index lists along the first axis
    for _ in range(20 * N):
        p = rand_part(rng)
        n = p.shape[0]
        l = sorted(rng.sample(range(n), rng.randint(1, n)))
        contiguous = l == list(range(l[0], l[-1] + 1))
        src = (_PRE + _mk_src(_axes_of(p)) + "q = p[%r]\nnorm = [%r] + [slice(None)] * (p.ndim - 1)\n" % (l, l) + getit)
        probe('getitem-selected-cells' if contiguous else 'getitem-list-noncontiguous-cells',
              'p[list]: cells of the result are exactly the selected cells', src)
        if not contiguous:
            probe('getitem-list-hull', 'p[list]: selected grid points, limits = hull of the first and last selected cell',
                  _PRE + _mk_src(_axes_of(p)) + "q = p[%r]\nnorm = [%r] + [slice(None)] * (p.ndim - 1)\n" % (l, l) + hull)
    # integers below -n must be rejected like any out-of-range index
    for n in ([2, 3, 5] if tier == 'quick' else [1, 2, 3, 4, 5, 8]):
        for i in (n, n + 1, -n - 1, -n - 2, -2 * n):
            if i == -2 * n and n == 1:
                continue
            src = (_PRE + "p = odl.uniform_partition(0, %d, %d)\n"
                   "try:\n    observed = repr(p[%d]); ok = False\nexcept IndexError:\n    observed = 'IndexError'; ok = True\n"
                   "expected = 'IndexError'\n" % (n, n, i))
            probe('getitem-int-below-minus-n' if i < -n else 'getitem-int-out-of-range',
                  'p[i] with i outside [-n, n) raises IndexError', src)

    # -- P5 insert / append / squeeze / byaxis act axis-wise
    axw = ("A = lambda t: [(float(t.min_pt[i]), float(t.max_pt[i]), t.coord_vectors[i].tolist()) for i in range(t.ndim)]\n"
           "observed = A(q); ok = observed == expected\n")
    for _ in range(30 * N):
        p = rand_part(rng, rng.choice([1, 2, 3]), nmax=4)
        parts = [rand_part(rng, rng.choice([1, 2]), nmax=3) for _ in range(rng.choice([1, 1, 2, 3]))]
        i = rng.randint(-p.ndim, p.ndim)
        j = i + p.ndim if i < 0 else i
        pa = _axes_of(p)
        exp = pa[:j] + [a for t in parts for a in _axes_of(t)] + pa[j:]
        src = (_PRE + _mk_src(pa) + ''.join(_mk_src(_axes_of(t), 't%d' % k) for k, t in enumerate(parts)) +
               "q = p.insert(%d, %s)\nexpected = %r\n" % (i, ', '.join('t%d' % k for k in range(len(parts))), exp) + axw)
        probe('insert-axiswise', 'insert(i, *parts) splices the axes of the parts at position i', src)
        src = (_PRE + _mk_src(pa) + ''.join(_mk_src(_axes_of(t), 't%d' % k) for k, t in enumerate(parts)) +
               "q = p.append(%s)\nexpected = %r\n" % (', '.join('t%d' % k for k in range(len(parts))),
                                                        pa + [a for t in parts for a in _axes_of(t)]) + axw)
        probe('append-axiswise', 'append(*parts) concatenates the axes', src)
    for _ in range(30 * N):
        nd = rng.choice([1, 2, 3, 4])
        axes = [rand_axis(rng, 4, n=rng.choice([1, 1, 2, 3])) for _ in range(nd)]
        sel = rng.choice([None, rng.randrange(nd), sorted(rng.sample(range(nd), rng.randint(0, nd)))])
        rng_ = list(range(nd)) if sel is None else ([sel] if isinstance(sel, int) else sel)
        exp = [(a[0], a[1], list(a[2])) for i, a in enumerate(axes) if i not in rng_ or len(a[2]) > 1]
        src = _PRE + _mk_src(axes) + "q = p.squeeze(%r)\nexpected = %r\n" % (sel, exp) + axw
        probe('squeeze-axiswise', 'squeeze(axis) removes exactly the selected one-point axes', src)
        sq = rng.choice([rng.randrange(nd), [rng.randrange(-nd, nd) for _ in range(rng.randint(1, 4))]])
        exp = [(axes[i][0], axes[i][1], list(axes[i][2])) for i in ([sq] if isinstance(sq, int) else sq)]
        src = _PRE + _mk_src(axes) + "q = p.byaxis[%r]\nexpected = %r\n" % (sq, exp) + axw
        probe('byaxis-axiswise', 'byaxis[sel] is the partition made of the selected axes', src)

    # -- P7 boundary cell fractions = part of the "natural" outermost cell that lies inside the set
    fr = ("ok = True\n"
          "for ax in range(p.ndim):\n"
          "    c = p.coord_vectors[ax]; b = p.cell_boundary_vecs[ax]; fl, fr_ = p.boundary_cell_fractions[ax]\n"
          "    if len(c) == 1:\n"
          "        ok &= (fl, fr_) == (1.0, 1.0)\n"
          "    else:\n"
          "        ok &= abs(fl * (c[1] - c[0]) - (b[1] - b[0])) <= 1e-12 * max(1.0, abs(b[1] - b[0]))\n"
          "        ok &= abs(fr_ * (c[-1] - c[-2]) - (b[-1] - b[-2])) <= 1e-12 * max(1.0, abs(b[-1] - b[-2]))\n"
          "        ok &= p.nodes_on_bdry_byaxis[ax] == (bool(np.isclose(c[0], b[0])), bool(np.isclose(c[-1], b[-1])))\n"
          "ok = bool(ok); observed = p.boundary_cell_fractions\n")
    for _ in range(30 * N):
        axes = [(_rand_float_axis(rng) if rng.random() < 0.5 else rand_axis(rng)) for _ in range(rng.choice([1, 2]))]
        probe('boundary-cell-fractions', 'fraction * natural cell width = width of the outermost cell; nodes_on_bdry flags',
              _PRE + _mk_src(axes) + fr)
    # -- P8 default limits of nonuniform_partition / uniform_partition_fromgrid: outermost nodes are cell midpoints
    for _ in range(30 * N):
        lo, hi, c = _rand_float_axis(rng, rng.choice([2, 3, 5])) if rng.random() < 0.5 else rand_axis(rng, 5, n=rng.choice([2, 3, 5]))
        fl = (rng.random() < 0.4, rng.random() < 0.4)
        give_min = (not fl[0]) and rng.random() < 0.3
        give_max = (not fl[1]) and rng.random() < 0.3
        kw = ''.join([', min_pt=%r' % lo if give_min else '', ', max_pt=%r' % hi if give_max else ''])
        chk = ("b = p.cell_boundary_vecs[0]; c = p.coord_vectors[0]\n"
               "exp_lo = %s\nexp_hi = %s\n"
               "ok = bool(abs(b[0] - exp_lo) <= 1e-12 and abs(b[-1] - exp_hi) <= 1e-12 and np.all(c == np.array(%r)))\n"
               "observed = (b[0], b[-1]); expected = (exp_lo, exp_hi)\n")
        e_lo = repr(lo) if give_min else ('c[0]' if fl[0] else 'c[0] - (b[1] - c[0])')
        e_hi = repr(hi) if give_max else ('c[-1]' if fl[1] else 'c[-1] + (c[-1] - b[-2])')
        probe('nonuniform-default-limits', 'nonuniform_partition: given limits are used, else node on the boundary / midpoint of its cell',
              _PRE + "p = odl.nonuniform_partition(%r, nodes_on_bdry=[%r]%s)\n" % (list(c), fl, kw) + chk % (e_lo, e_hi, list(c)))
        e_lo = repr(lo) if give_min else 'c[0] - (b[1] - c[0])'
        e_hi = repr(hi) if give_max else 'c[-1] + (c[-1] - b[-2])'
        probe('fromgrid-default-limits', 'uniform_partition_fromgrid: given limits are used, else the outermost nodes are cell midpoints',
              _PRE + "p = odl.uniform_partition_fromgrid(odl.RectGrid(%r)%s)\n" % (list(c), kw) + chk % (e_lo, e_hi, list(c)))

    # -- P9 several partitions on ONE grid object: each reports its own cell sides / volume, whatever was read before
    shared = (
        "def sides_ok(p):\n"
        "    s = p.cell_sides\n"
        "    ok = True\n"
        "    for ax in range(p.ndim):\n"
        "        n = p.shape[ax]; c = p.coord_vectors[ax]\n"
        "        want = p.extent[ax] if n == 1 else (c[-1] - c[0]) / (n - 1)\n"
        "        ok = ok and abs(s[ax] - want) <= 1e-12 * max(1.0, abs(want))\n"
        "    return bool(ok and abs(p.cell_volume - float(np.prod(s))) <= 1e-12 * max(1.0, abs(p.cell_volume)))\n"
        "ok = True; observed = []\n"
        "for k in order:\n"
        "    ok = ok and sides_ok(parts[k]); observed.append((k, parts[k].cell_sides.tolist(), parts[k].extent.tolist()))\n")
    for _ in range(25 * N):
        nd = rng.choice([1, 2, 3])
        css = []
        for _a in range(nd):
            n = rng.choice([1, 1, 2, 3])
            c0 = rng.choice([-1.0, 0.0, 0.5])
            st = rng.choice(STEPS)
            css.append([c0 + i * st for i in range(n)])
        K = rng.choice([2, 3])
        lims = [([c[0] - rng.choice(DY) for c in css], [c[-1] + rng.choice(DY) for c in css]) for _k in range(K)]
        order = [rng.randrange(K) for _o in range(rng.randint(K, 3 * K))]
        ctor = rng.choice(["odl.RectPartition(odl.IntervalProd(lo, hi), g)",
                           "odl.uniform_partition_fromgrid(g, min_pt=lo, max_pt=hi)"])
        src = (_PRE + "g = odl.RectGrid(*%r)\nparts = [%s for lo, hi in %r]\norder = %r\n" % (css, ctor, lims, order) + shared)
        probe('shared-grid-cell-sides', 'partitions sharing one RectGrid each report their own cell_sides / cell_volume '
              '(length-1 axes: the extent), in any read order', src)

    # -- P10 derived quantities (recomputed on every call in the code at hand) must not be views of a cache that
    #    the library itself reads later: overwrite what was returned, all partitions on the grid stay what they are.
    #    (Getters that hand out the object's own state -- cell_boundary_vecs, min_pt/max_pt, coord_vectors, meshgrid --
    #    are NOT probed: caller-side writes into them are outside the property's quantifier.)
    snap = ("def snap(t):\n"
            "    return repr((t.min_pt.tolist(), t.max_pt.tolist(), [v.tolist() for v in t.coord_vectors],\n"
            "                 [v.tolist() for v in t.cell_boundary_vecs], [v.tolist() for v in t.cell_sizes_vecs],\n"
            "                 t.cell_sides.tolist(), t.grid.stride.tolist(), t.extent.tolist(), t.cell_volume,\n"
            "                 t.boundary_cell_fractions, t.nodes_on_bdry_byaxis, t.grid.min_pt.tolist(), t.grid.max_pt.tolist()))\n")
    getters = [('cell_sides', 'p.cell_sides'), ('cell_sizes_vecs', 'p.cell_sizes_vecs'), ('grid.stride', 'p.grid.stride'),
               ('extent', 'p.extent'), ('grid.extent', 'p.grid.extent'), ('grid.min_pt', 'p.grid.min_pt'),
               ('grid.max_pt', 'p.grid.max_pt'), ('mid_pt', 'p.mid_pt'), ('grid.mid_pt', 'p.grid.mid_pt'),
               ('points', 'p.points()')]
    for name, expr in getters:
        for _ in range(N):
            css = [[0.0, 1.0, 2.5][:rng.choice([1, 2, 3])], [5.0, 5.5][:rng.choice([1, 2])]]
            lims = [([c[0] - rng.choice(DY) for c in css], [c[-1] + rng.choice(DY) for c in css]) for _k in range(2)]
            warm = rng.random() < 0.5
            src = (_PRE + snap + "g = odl.RectGrid(*%r)\n" % (css,) +
                   "p, q = [odl.RectPartition(odl.IntervalProd(lo, hi), g) for lo, hi in %r]\n" % (lims,) +
                   ("snap(p); snap(q)\n" if warm else "") +
                   "fresh = [odl.RectPartition(odl.IntervalProd(lo, hi), odl.RectGrid(*%r)) for lo, hi in %r]\n" % (css, lims) +
                   "expected = (snap(fresh[0]), snap(fresh[1]))\n"
                   "a = %s\n"
                   "for arr in (a if isinstance(a, (tuple, list)) else [a]):\n"
                   "    try:\n        arr[...] = 123.0\n    except ValueError:\n        pass          # read-only arrays are fine\n"
                   "observed = (snap(p), snap(q)); ok = observed == expected\n" % expr)
            probe('derived-array-is-fresh-' + name, 'overwriting the array returned by %s changes no observable of any partition on that grid' % expr, src)

    # -- P11 invalid nodes_on_bdry (wrong number of axes; plain, mixed bool/pair, nested) is a ValueError in every factory
    for fl in ([True, False, True], [True, (False, True), False], [(True, False), (False, True), True], [True],
               [(True, False), False, (True, True), False]):
        for ctor in ("odl.uniform_partition([0, 0], [1, 1], (2, 2), nodes_on_bdry=fl)",
                     "odl.uniform_partition_fromintv(odl.IntervalProd([0, 0], [1, 1]), (2, 2), nodes_on_bdry=fl)",
                     "odl.nonuniform_partition([0, 1], [0, 1], nodes_on_bdry=fl)"):
            src = (_PRE + "fl = %r\ntry:\n    %s\n    observed = 'accepted'\nexcept Exception as e:\n"
                   "    observed = type(e).__name__\nexpected = 'ValueError'; ok = observed == expected\n" % (fl, ctor))
            key = 'nodes_on_bdry-wrong-length-error-class' if 'fromintv' not in ctor else 'nodes_on_bdry-wrong-length-fromintv'
            probe(key, 'nodes_on_bdry with the wrong number of axes raises ValueError', src)

    # -- P12 no public method or property may change its receiver (nor any partition built on it), and what it returns
    #    must not be a writable view of the receiver's state (except the documented state getters)
    cls_name = {'set': 'IntervalProd', 'grid': 'RectGrid', 'part': 'RectPartition'}
    for which, name, expr in recv_calls():
        for _ in range(N):
            nd = rng.choice([1, 2, 3])
            axes = [rand_axis(rng, 4) for _a in range(nd)]
            prm = {'lo': [a[0] for a in axes], 'hi': [a[1] for a in axes], 'css': [list(a[2]) for a in axes],
                   'which': which, 'expr': expr}
            probe('receiver-unchanged-%s.%s' % (cls_name[which], name),
                  '%s on a %s in use by a partition leaves every array of the partition, its set and grid bit-identical '
                  'and the partition tiling its domain' % (expr, cls_name[which]),
                  RECV_PRE % dict(prm, write=False))
            if name not in RECV_STATE_GETTERS[which]:
                probe('result-shares-state-%s.%s' % (cls_name[which], name),
                      'overwriting the arrays returned by %s leaves the receiver and the partition unchanged' % expr,
                      RECV_PRE % dict(prm, write=True))

    # -- P13 every method taking an axis / index argument against an independent NumPy-semantic reference:
    #    negative ints, lists/arrays/1-tuples with negative entries, slices, out-of-range values
    axis_ref = (
        "def norm1(i, nd):\n"
        "    i = int(i)\n"
        "    if not -nd <= i < nd:\n        raise IndexError(i)\n"
        "    return i + nd if i < 0 else i\n"
        "def axes_of(arg, nd):\n"
        "    if arg is None:\n        return list(range(nd))\n"
        "    if isinstance(arg, slice):\n        return list(range(nd))[arg]\n"
        "    if isinstance(arg, (list, tuple, np.ndarray)):\n        return [norm1(i, nd) for i in arg]\n"
        "    return [norm1(arg, nd)]\n"
        "A = lambda t: [(float(t.min_pt[i]), float(t.max_pt[i]), t.coord_vectors[i].tolist()) for i in range(t.ndim)]\n"
        "def outcome(f):\n"
        "    try:\n        return f()\n    except IndexError:\n        return 'IndexError'\n    except ValueError:\n        return 'ValueError'\n")

    def rand_axis_arg(nd, allow_none=True):
        kind = rng.choice(['int', 'negint', 'list', 'array', 'tuple1', 'slice', 'oob'] + (['none'] if allow_none else []))
        if kind == 'none':
            return 'None'
        if kind == 'int':
            return repr(rng.randrange(nd))
        if kind == 'negint':
            return repr(rng.randint(-nd, -1))
        if kind == 'oob':
            return repr(rng.choice([nd, nd + 1, -nd - 1, -nd - 2]))
        if kind == 'slice':
            return 'slice(%r, %r, %r)' % (rng.choice([None, 0, 1, -1, -nd]), rng.choice([None, nd, -1, 1]), rng.choice([None, 1, 2, -1]))
        l = [rng.randint(-nd, nd - 1) for _ in range(rng.randint(1, 3))]
        if rng.random() < 0.15:
            l.append(rng.choice([nd, -nd - 1]))
        if kind == 'list':
            return repr(l)
        if kind == 'array':
            return 'np.array(%r)' % (l,)
        return '(%r,)' % l[0]
    for _ in range(40 * N):
        nd = rng.choice([1, 2, 3, 4])
        axes = [rand_axis(rng, 4, n=rng.choice([1, 1, 2, 3])) for _a in range(nd)]
        base = _PRE + axis_ref + _mk_src(axes) + "nd = p.ndim; ax0 = A(p)\n"
        arg = rand_axis_arg(nd)
        probe('axis-arg-squeeze', 'RectPartition.squeeze(axis) for int / negative / list / array / 1-tuple / slice axis against the reference',
              base + "arg = %s\n"
              "def ref():\n    rng_ = axes_of(arg, nd)\n    return [a for i, a in enumerate(ax0) if i not in rng_ or len(a[2]) > 1]\n"
              "expected = outcome(ref); observed = outcome(lambda: A(p.squeeze(arg))); ok = observed == expected\n" % arg)
        probe('axis-arg-grid-squeeze', 'RectGrid.squeeze(axis) against the reference',
              base + "arg = %s\n"
              "def ref():\n    rng_ = axes_of(arg, nd)\n    return [a[2] for i, a in enumerate(ax0) if i not in rng_ or len(a[2]) > 1]\n"
              "expected = outcome(ref)\n"
              "observed = outcome(lambda: [v.tolist() for v in p.grid.squeeze(arg).coord_vectors]); ok = observed == expected\n" % arg)
        arg = rand_axis_arg(nd, allow_none=False)
        probe('axis-arg-byaxis', 'byaxis[...] for int / negative / list / array / 1-tuple / slice against the reference',
              base + "arg = %s\n"
              "def ref():\n    sel = axes_of(arg, nd)\n"
              "    # a slice marks positions, so the axes come in their original order even for a negative step\n"
              "    return [ax0[i] for i in (sorted(sel) if isinstance(arg, slice) else sel)]\n"
              "expected = outcome(ref); observed = outcome(lambda: A(p.byaxis[arg])); ok = observed == expected\n" % arg)
        idx = rng.choice([rng.randint(-nd, nd), 'np.int64(%d)' % rng.randint(-nd, nd), rng.choice([nd + 1, -nd - 1, nd + 2])])
        k = rng.choice([1, 2])
        probe('axis-arg-insert', 'insert(index, parts) for negative / NumPy-integer / out-of-range index against the reference',
              base + "q1 = odl.uniform_partition(0, 1, 2); q2 = odl.nonuniform_partition([0, 1, 3], [5])\nparts = [q1, q2][:%d]\nidx = %s\n"
              "def ref():\n    i = int(idx)\n    if not -nd <= i <= nd:\n        raise IndexError(i)\n    i = i + nd if i < 0 else i\n"
              "    return ax0[:i] + [a for t in parts for a in A(t)] + ax0[i:]\n"
              "expected = outcome(ref); observed = outcome(lambda: A(p.insert(idx, *parts))); ok = observed == expected\n"
              "ok = ok and outcome(lambda: A(p.append(*parts))) == ax0 + [a for t in parts for a in A(t)]\n" % (k, idx))
        cidx = rng.choice([rng.randrange(nd), sorted(rng.sample(range(nd), rng.randint(1, nd))), -1, nd, [0, nd]])
        probe('axis-arg-collapse', 'IntervalProd.collapse(indices, values): listed axes collapse to the value, the others and the receiver stay',
              base + "S = p.set; cidx = %r\nidxs = [cidx] if isinstance(cidx, int) else list(cidx)\n"
              "vals = [float(S.mid_pt[i]) if 0 <= i < nd else 0.0 for i in idxs]\n"
              "def ref():\n    if any(not 0 <= i < nd for i in idxs):\n        raise IndexError(idxs)\n"
              "    lo = S.min_pt.tolist(); hi = S.max_pt.tolist()\n    for i, v in zip(idxs, vals):\n        lo[i] = v; hi[i] = v\n    return (lo, hi)\n"
              "def run():\n    c = S.collapse(cidx, vals if not isinstance(cidx, int) else vals[0])\n    return (c.min_pt.tolist(), c.max_pt.tolist())\n"
              "expected = outcome(ref); observed = outcome(run); ok = observed == expected and A(p) == ax0\n" % (cidx,))

    # -- P14 index() / index(floating=True) near cell edges, exact rational oracle, length scales 1e-9 .. 1e6,
    #    offsets up to 1e6: p = edge +- k ulp, edge +- r * cell width (r = 1e-9 .. 1e-4), edges, grid points
    idx_exact = (
        "from fractions import Fraction as Fr\n"
        "ok = True; observed = []\n"
        "b = p.cell_boundary_vecs[0]; B = [Fr(float(v)) for v in b]; n = len(b) - 1\n"
        "for x in pts:\n"
        "    X = Fr(x)\n"
        "    if not (B[0] <= X <= B[-1]):\n        continue\n"
        "    want = n - 1 if X == B[-1] else max(k for k in range(n) if B[k] <= X)\n"
        "    got = p.index(x); f = p.index(x, floating=True)\n"
        "    w = B[want + 1] - B[want]\n"
        "    fw = want + (X - B[want]) / w if w else Fr(want)\n"
        "    good = got == want and abs(Fr(float(f)) - fw) <= Fr(1, 10 ** 6)\n"
        "    if not good:\n        ok = False; observed.append((x, int(got), float(f), want, float(fw)))\n"
        "expected = 'the cell [b_k, b_k+1) containing p (last edge -> last cell), floating = k + (p - b_k) / width'\n")
    for _ in range(40 * N):
        scale = 10.0 ** rng.choice([-9, -8, -7, -5, -3, 0, 2, 4, 6])
        off = rng.choice([0.0, 0.0, 1.0, 1000.0, -1000.0, 1e6, -1e6]) * rng.choice([1.0, scale if scale >= 1 else 1.0])
        n = rng.choice([1, 2, 3, 10, 17])
        kind = rng.choice(['uniform', 'uniform', 'nonuniform'])
        if kind == 'uniform':
            ctor = 'odl.uniform_partition(%r, %r, %d, nodes_on_bdry=%r)' % (off, off + n * scale * rng.choice([1.0, 0.5, 3.0]), n,
                                                                            rng.choice([False, True, (True, False)]))
        else:
            c = [off]
            for _i in range(n - 1):
                c.append(c[-1] + scale * rng.choice([0.5, 1.0, 2.5]))
            ctor = 'odl.nonuniform_partition(%r, min_pt=%r, max_pt=%r)' % (c, c[0] - scale * rng.choice([0.0, 0.5, 2.0]),
                                                                           c[-1] + scale * rng.choice([0.0, 0.5, 2.0]))
        src = (_PRE + "p = %s\n" % ctor +
               "b = p.cell_boundary_vecs[0]; c = p.coord_vectors[0]; pts = list(b) + list(c)\n"
               "for e in b:\n"
               "    for k in (1, 2, 5):\n"
               "        u = float(e); d = float(e)\n"
               "        for _ in range(k):\n            u = np.nextafter(u, np.inf); d = np.nextafter(d, -np.inf)\n"
               "        pts += [u, d]\n"
               "    w = float(p.extent[0]) / max(1, len(c))\n"
               "    for r in (1e-9, 1e-8, 1e-7, 1e-6, 1e-5, 1e-4, 1e-2):\n"
               "        pts += [float(e) + r * w, float(e) - r * w, float(e) * (1 + r), float(e) * (1 - r)]\n"
               "pts = [float(x) for x in pts]\n" + idx_exact)
        probe('index-near-edges-exact', 'index(p) / floating index for points within a few ulp .. 1e-4 of a cell edge, at length '
              'scales 1e-9 .. 1e6 and offsets up to 1e6, against exact rational comparison with the boundaries', src)

    # -- P15 every factory x axis lengths 1, 2, 3 x every subset of explicit limits x nodes_on_bdry: the domain limits
    #    are the requested ones (defaults otherwise) and the cells tile the domain
    fac_chk = (
        "def want_lim(c, given, flag, left):\n"
        "    if given is not None:\n        return given\n"
        "    if flag or len(c) == 1:\n        return c[0] if left else c[-1]\n"
        "    return c[0] - (c[1] - c[0]) / 2 if left else c[-1] + (c[-1] - c[-2]) / 2\n"
        "ok = p.ndim == len(css)\n"
        "for ax in range(len(css)):\n"
        "    c = css[ax]; b = p.cell_boundary_vecs[ax]\n"
        "    lo = want_lim(c, mins[ax], flags[ax][0], True); hi = want_lim(c, maxs[ax], flags[ax][1], False)\n"
        "    ok = ok and abs(p.min_pt[ax] - lo) <= 1e-12 * max(1, abs(lo)) and abs(p.max_pt[ax] - hi) <= 1e-12 * max(1, abs(hi))\n"
        "    ok = ok and p.coord_vectors[ax].tolist() == c and len(b) == len(c) + 1 and b[0] == p.min_pt[ax] and b[-1] == p.max_pt[ax]\n"
        "    ok = ok and bool(np.all(np.diff(b) >= 0) and np.all(b[:-1] <= np.array(c)) and np.all(np.array(c) <= b[1:]))\n"
        "ok = bool(ok); observed = (p.min_pt.tolist(), p.max_pt.tolist()); expected = (mins, maxs, flags)\n")
    for lens in itertools.product([1, 2, 3], repeat=2):
        for _ in range(2 * N):
            nd = rng.choice([1, 2])
            css, mins, maxs, flags = [], [], [], []
            for n in lens[:nd]:
                c0 = rng.choice([-2.0, 0.0, 0.5, 5.0])
                c = [c0]
                for _i in range(n - 1):
                    c.append(c[-1] + rng.choice([0.5, 1.0, 2.0]))
                sub = rng.choice(['none', 'min', 'max', 'both'])
                mn = c[0] - rng.choice([0.0, 0.5, 1.0]) if sub in ('min', 'both') else None
                mx = c[-1] + rng.choice([0.0, 0.5, 2.0]) if sub in ('max', 'both') else None
                fl = (mn is None and rng.random() < 0.4, mx is None and rng.random() < 0.4)
                css.append(c); mins.append(mn); maxs.append(mx); flags.append(fl)
            head = _PRE + "css = %r; mins = %r; maxs = %r; flags = %r\n" % (css, mins, maxs, flags)
            kw = []
            if any(v is not None for v in mins):
                kw.append('min_pt=mins' if nd > 1 else 'min_pt=mins[0]')
            if any(v is not None for v in maxs):
                kw.append('max_pt=maxs' if nd > 1 else 'max_pt=maxs[0]')
            probe('factory-limits-nonuniform', 'nonuniform_partition: axis lengths %r, given limits are kept, defaults otherwise, cells tile the domain' % (lens[:nd],),
                  head + "p = odl.nonuniform_partition(*css, nodes_on_bdry=flags%s)\n" % ''.join(', ' + k for k in kw) + fac_chk)
            # uniform_partition_fromgrid: no nodes_on_bdry; a missing limit on a one-point axis must be a ValueError
            need = any(len(c) == 1 and (mn is None or mx is None) for c, mn, mx in zip(css, mins, maxs))
            dmin = {i: v for i, v in enumerate(mins) if v is not None}
            dmax = {(i - nd): v for i, v in enumerate(maxs) if v is not None}
            src = (head + "flags = [(False, False)] * len(css)\n"
                   "try:\n    p = odl.uniform_partition_fromgrid(odl.RectGrid(*css), min_pt=%r, max_pt=%r)\n    err = None\n"
                   "except ValueError:\n    p = None; err = 'ValueError'\n" % (dmin or None, dmax or None))
            if need:
                src += "ok = err == 'ValueError'; observed = err; expected = 'ValueError'\n"
            else:
                src += "assert err is None\n" + fac_chk
            probe('factory-limits-fromgrid', 'uniform_partition_fromgrid: axis lengths %r, given limits (dict form) are kept' % (lens[:nd],), src)
            # the uniform factories: min_pt / max_pt are the limits, any shape incl. 1
            lo = [c[0] - 0.5 for c in css]; hi = [c[-1] + 1.0 for c in css]; shp = [len(c) for c in css]
            fl2 = [(rng.random() < 0.5, rng.random() < 0.5) for _c in css]
            src = (_PRE + "lo = %r; hi = %r; shp = %r; fl = %r\n" % (lo, hi, shp, fl2) +
                   "ps = [odl.uniform_partition(lo, hi, shp, nodes_on_bdry=fl), odl.uniform_partition_fromintv(odl.IntervalProd(lo, hi), shp, nodes_on_bdry=fl)]\n"
                   "ok = True\n"
                   "for p in ps:\n"
                   "    ok = ok and p.min_pt.tolist() == lo and p.max_pt.tolist() == hi and list(p.shape) == shp\n"
                   "    for ax in range(p.ndim):\n"
                   "        b = p.cell_boundary_vecs[ax]; c = p.coord_vectors[ax]\n"
                   "        ok = ok and b[0] == lo[ax] and b[-1] == hi[ax] and bool(np.all(np.diff(b) > 0) and np.all(b[:-1] <= c) and np.all(c <= b[1:]))\n"
                   "ok = bool(ok); observed = [(p.min_pt.tolist(), p.max_pt.tolist()) for p in ps]; expected = (lo, hi)\n")
            probe('factory-limits-uniform', 'uniform_partition / uniform_partition_fromintv: shapes %r incl. 1, limits are the requested ones, cells tile' % (shp,), src)

    # -- P6 every consistent subset of (min_pt, max_pt, shape, cell_sides) gives the same partition
    for _ in range(40 * N):
        xmin, xmax, n, dx, fl = uniform_axis_params(rng, dyadic=rng.random() < 0.5)
        if n - (fl[0] + fl[1]) / 2.0 <= 0:
            continue
        src = (_PRE + "kw = dict(min_pt=%r, max_pt=%r, shape=%d, cell_sides=%r)\n"
               "ps = [odl.uniform_partition(nodes_on_bdry=[%r], **{k: v for k, v in kw.items() if k != d}) for d in (None, 'min_pt', 'max_pt', 'shape', 'cell_sides')]\n"
               "ok = all(q.approx_equals(ps[0], atol=1e-12) and q.shape == ps[0].shape for q in ps)\n"
               "ok = ok and all(abs(q.cell_sides[0] - kw['cell_sides']) <= 1e-12 for q in ps)\n"
               "ok = ok and all(q.nodes_on_bdry_byaxis[0] == %r for q in ps)\n"
               "observed = [(q.min_pt[0], q.max_pt[0], q.shape[0], q.cell_sides[0]) for q in ps]; expected = kw\n"
               % (xmin, xmax, n, dx, fl, fl))
        key = 'uniform-one-point-nodes-on-bdry' if (n == 1 and any(fl)) else 'uniform-parameter-subsets'
        probe(key, 'all consistent subsets of (min_pt, max_pt, shape, cell_sides) describe the same partition with that cell side', src)
    return out


def search(rng, broken):
    """Something (translator, proof, shard) is broken and the quick probes found no input: run the oracle probes at the
    thorough tier with fresh seeds and hand back the first failing one that is not a listed finding."""
    known = C.load_findings(PID)
    for k in range(3):
        for p in probes(random.Random('C14-search-%d-%r' % (k, rng.random())), 'thorough'):
            if not p.ok and p.key not in known:
                return p
    return None


RULE = ('random operations on random rectangular partitions (1-4 axes, 1-7 points per axis, dyadic limits, '
        'uniform and non-uniform vectors, nodes on/off the boundary, zero-extent axes): constructor + all derived '
        'vectors, index (edges, nodes, interior, outside; floating), __getitem__ (ints incl. negative/out of range, '
        'slices with None/negative/over-long bounds and steps 0,+-1,2,3,5, ellipsis, None, too many indices, index '
        'lists), HISTORIES (2-4 partitions sharing one RectGrid object, attributes read in random orders and re-read, '
        'returned freshly-computed arrays overwritten by the caller, source partitions re-observed after deriving '
        'p[...] / squeeze / insert from them), insert/append, squeeze, byaxis, uniform_partition_fromintv, uniform_partition with every dropped '
        'parameter and inconsistent ones, uniform_partition_fromgrid, nonuniform_partition; a case is non-trivial '
        'unless the operation returns its input unchanged; distinct by the full operation term')
ASSUMPTIONS = ['exact arithmetic: limits/coordinates are dyadic so that float results are exact (tolerance 1e-12 for '
               'the quotients in boundary fractions, floating indices and non-dyadic uniform grids)',
               'np.isclose / np.allclose decisions (nodes_on_bdry, is_uniform, consistency of four given parameters, '
               'rounding of the computed shape) are modelled as exact equality; inputs stay away from the tolerance band']
ASSUMPTIONS.append('Q2R transfer of the executed model is PROVED (C14/Transfer.v, theorems transfer_*), not assumed')
ASSUMPTIONS.append('the model is pure: observables are functions of (set, grid) only; independence from object history, '
                   'caches and caller-side writes is validated by the history cases and the aliasing probes, not proved')
TRUSTED = ['translate/partition.py (Python ast -> Gallina, fail-closed; typed expression grammar in its docstring)',
           'C14/Model.v hand-written model of RectPartition, RectGrid/IntervalProd checks, normalized_index_expression, '
           'Python slice and NumPy integer-array indexing semantics (validated by the correspondence)']
LEVEL_TEXT = ('Proof: for a hand-written Coq model of RectPartition / RectGrid / IntervalProd / normalized_index_expression '
              '(tied to the code by an in-Coq correspondence on ~1900 random operations per run), Coq proves for EVERY '
              'number of grid points, every non-uniform vector and all limits: boundaries have n+1 entries, start/end at '
              'the domain limits, increase strictly, node i lies in cell i, cell_sizes_vecs are the cell widths and sum to '
              'the extent (n >= 2); index(x) returns the cell containing x with the documented tie rule and floating=True '
              'the fractional position; p[index(x)] is that cell; every positive-step slice yields a valid partition whose '
              'cells (unit step, ints) are exactly the selected cells, N-d axis by axis; insert/append/squeeze act on the '
              'axis list; uniform partitions satisfy side*(n-(bl+br)/2)=extent with the requested node placement and '
              'fractions 1/2|1 (n >= 2); every consistent subset of (min_pt, max_pt, shape, cell_sides) completes to the '
              'same partition with that cell side. Five literal-text violations are proved as _refuted and listed as '
              'findings (one-point axes: cell size 0.0 and nodes_on_bdry placement; stepped slices / index lists keep the '
              'hull; integers below -n accepted; zero-extent axes have non-strict boundaries).')
LEVEL_NOTE = ('The gmin/gmax formulas, completion formulas, boundary fractions, midpoint rule, index edge rules and the '
              'integer bounds test are REGENERATED from /repo (Gen/Partition.v) and the model is proved to be built from them; '
              'the model run at Q is proved to be the restriction of the model at R. Also proved: byaxis (selected axes unchanged), ellipsis / too-few-indices / integer normalisation, default '
              'limits of nonuniform_partition and uniform_partition_fromgrid (also explicit ones), increasing index lists, rejection of negative steps, squeeze(axis=i). Validated, not proved: the model itself '
              '(correspondence), unsorted/negative index lists, single-point negative steps, squeeze(axis=list|slice). '
              'np.isclose/allclose decisions are modelled as exact equality; float rounding is out of scope. '
              'Axioms: classical reals + funext as printed by Print Assumptions (insert/append/squeeze theorems are closed).')
TECHNIQUE = ('Coq proofs by list induction over a hand-written model built from source-regenerated formulas '
             '(translate/partition.py) + proved Q2R transfer + in-Coq differential correspondence')
