"""Fail-closed translator: odl/discr/diff_ops.py:finite_diff  ->  coq/Gen/FiniteDiff.v

Grammar accepted (anything else raises TranslateError):
  * module constants _SUPPORTED_DIFF_METHODS, _SUPPORTED_PAD_MODES (tuples of str),
    _ADJ_METHOD, _ADJ_PADDING (dict str->str)
  * in finite_diff, a fixed preamble (compared as text after ast.unparse), then
      if method == M: np.subtract(f_arr[S], f_arr[S], out=out[1:-1]) [; out[1:-1] /= c] elif ...
      if pad_mode == P: (BLOCK | if method == M: BLOCK elif ...) elif ... else: raise
      out /= dx ; return out_in
    BLOCK := out[0] = E ; out[-1] = E ; (out[k] (+=|-=) E)*
    E := f_arr[k] | pad_const | number | E (+|-|*|/) E | -E
"""
import ast
import os
from fractions import Fraction

from harness.common import TranslateError, REPO

SRC = 'odl/discr/diff_ops.py'

METH = {'central': 'Central', 'forward': 'Forward', 'backward': 'Backward'}
PMODE = {'constant': 'PConstant', 'symmetric': 'PSymmetric',
         'symmetric_adjoint': 'PSymmetricAdjoint', 'periodic': 'PPeriodic',
         'order0': 'POrder0', 'order0_adjoint': 'POrder0Adjoint',
         'order1': 'POrder1', 'order1_adjoint': 'POrder1Adjoint',
         'order2': 'POrder2', 'order2_adjoint': 'POrder2Adjoint'}

PREAMBLE = [
    "f_arr = np.asarray(f)",
    "ndim = f_arr.ndim",
    "if f_arr.shape[axis] < 2:\n    raise ValueError('in axis {}: at least two elements required, got {}'.format(axis, f_arr.shape[axis]))",
    "if axis < 0:\n    axis += ndim",
    "if not 0 <= axis < ndim:\n    raise IndexError('`axis` {} outside the valid range 0 ... {}'.format(axis, ndim - 1))",
    "(dx, dx_in) = (float(dx), dx)",
    "if dx <= 0 or not np.isfinite(dx):\n    raise ValueError('`dx` must be positive, got {}'.format(dx_in))",
    "(method, method_in) = (str(method).lower(), method)",
    "if method not in _SUPPORTED_DIFF_METHODS:\n    raise ValueError('`method` {} was not understood'.format(method_in))",
    "if pad_mode not in _SUPPORTED_PAD_MODES:\n    raise ValueError('`pad_mode` {} not understood'.format(pad_mode))",
    "pad_const = f.dtype.type(pad_const)",
    "if out is None:\n    out = np.empty_like(f_arr)\nelif out.shape != f.shape:\n    raise ValueError('expected output shape {}, got {}'.format(f.shape, out.shape))",
    "MINSIZE",
    "MINSIZE",
    "(out, out_in) = (np.swapaxes(out, 0, axis), out)",
    "f_arr = np.swapaxes(f_arr, 0, axis)",
]


def fail(node, why):
    raise TranslateError('%s:%s: %s: %s' % (SRC, getattr(node, 'lineno', '?'), why,
                                            ast.unparse(node)[:120] if node is not None else ''))


def qlit(fr):
    n, d = fr.numerator, fr.denominator
    return '(%d # %d)' % (n, d) if n >= 0 else '((%d) # %d)' % (n, d)


def const_int(node):
    if isinstance(node, ast.Constant) and isinstance(node.value, int) and not isinstance(node.value, bool):
        return node.value
    if isinstance(node, ast.UnaryOp) and isinstance(node.op, ast.USub):
        v = const_int(node.operand)
        return -v
    fail(node, 'expected an integer constant')


def idx(node, arr):
    if not (isinstance(node, ast.Subscript) and isinstance(node.value, ast.Name) and node.value.id == arr):
        fail(node, 'expected %s[const]' % arr)
    k = const_int(node.slice)
    return 'Lo %d' % k if k >= 0 else 'Hi %d' % (-k)


def expr(node):
    if isinstance(node, ast.BinOp):
        ops = {ast.Add: 'EAdd', ast.Sub: 'ESub', ast.Mult: 'EMul', ast.Div: 'EDiv'}
        for k, v in ops.items():
            if isinstance(node.op, k):
                return '(%s %s %s)' % (v, expr(node.left), expr(node.right))
        fail(node, 'operator outside grammar')
    if isinstance(node, ast.UnaryOp) and isinstance(node.op, ast.USub):
        return '(ENeg %s)' % expr(node.operand)
    if isinstance(node, ast.Constant) and isinstance(node.value, (int, float)) and not isinstance(node.value, bool):
        return '(EK %s)' % qlit(Fraction(node.value))
    if isinstance(node, ast.Name) and node.id == 'pad_const':
        return 'EPad'
    if isinstance(node, ast.Subscript):
        return '(EF (%s))' % idx(node, 'f_arr')
    fail(node, 'expression outside grammar')


def eq_test(node, name):
    """`name == 'str'` -> str"""
    if (isinstance(node, ast.Compare) and isinstance(node.left, ast.Name) and node.left.id == name
            and len(node.ops) == 1 and isinstance(node.ops[0], ast.Eq)
            and isinstance(node.comparators[0], ast.Constant) and isinstance(node.comparators[0].value, str)):
        return node.comparators[0].value
    fail(node, 'expected %s == <string>' % name)


def chain(node, name):
    """if name == a: B1 elif name == b: B2 ... [else: E] -> ([(a,B1),...], E or None)"""
    out = []
    while True:
        if not isinstance(node, ast.If):
            fail(node, 'expected if-chain on %s' % name)
        out.append((eq_test(node.test, name), node.body))
        if len(node.orelse) == 1 and isinstance(node.orelse[0], ast.If):
            node = node.orelse[0]
            continue
        return out, (node.orelse or None)


def block(stmts):
    if len(stmts) < 2:
        fail(stmts[0] if stmts else None, 'boundary block too short')
    def plain(s, want):
        if not (isinstance(s, ast.Assign) and len(s.targets) == 1):
            fail(s, 'expected out[%s] = E' % want)
        if idx(s.targets[0], 'out') != want:
            fail(s, 'expected assignment to out[%s]' % want)
        return expr(s.value)
    e0 = plain(stmts[0], 'Lo 0')
    eN = plain(stmts[1], 'Hi 1')
    corr = []
    for s in stmts[2:]:
        if not (isinstance(s, ast.AugAssign) and isinstance(s.op, (ast.Add, ast.Sub))):
            fail(s, 'expected out[k] += E or out[k] -= E')
        corr.append('(%s, %s, %s)' % ('true' if isinstance(s.op, ast.Add) else 'false',
                                      idx(s.target, 'out'), expr(s.value)))
    return '{| b_first := %s; b_last := %s; b_corr := [%s] |}' % (e0, eN, '; '.join(corr))


SLICE_OFF = {'2:': 1, '1:-1': 0, ':-2': -1}


def interior(stmts):
    if not 1 <= len(stmts) <= 2:
        fail(stmts[0], 'interior block shape')
    s = stmts[0]
    if not (isinstance(s, ast.Expr) and isinstance(s.value, ast.Call)
            and ast.unparse(s.value.func) == 'np.subtract' and len(s.value.args) == 2
            and len(s.value.keywords) == 1 and s.value.keywords[0].arg == 'out'
            and ast.unparse(s.value.keywords[0].value) == 'out[1:-1]'):
        fail(s, 'expected np.subtract(f_arr[..], f_arr[..], out=out[1:-1])')
    offs = []
    for a in s.value.args:
        if not (isinstance(a, ast.Subscript) and ast.unparse(a.value) == 'f_arr'
                and ast.unparse(a.slice) in SLICE_OFF):
            fail(a, 'interior slice outside grammar')
        offs.append(SLICE_OFF[ast.unparse(a.slice)])
    div = 'None'
    if len(stmts) == 2:
        d = stmts[1]
        if not (isinstance(d, ast.AugAssign) and isinstance(d.op, ast.Div)
                and ast.unparse(d.target) == 'out[1:-1]' and isinstance(d.value, ast.Constant)
                and isinstance(d.value.value, (int, float))):
            fail(d, 'expected out[1:-1] /= const')
        div = '(Some %s)' % qlit(Fraction(d.value.value))
    return '{| i_o1 := %d; i_o2 := %d; i_div := %s |}' % (offs[0], offs[1], div)


def match_on(kind, table, arg, body_of):
    lines = ['  match %s with' % arg]
    for py, coq in table.items():
        lines.append('  | %s => %s' % (coq, body_of(py)))
    lines.append('  end.')
    return '\n'.join(lines)


def translate(repo=None):
    repo = repo or REPO
    src = open(os.path.join(repo, SRC)).read()
    tree = ast.parse(src)
    consts = {}
    fn = None
    for node in tree.body:
        if isinstance(node, ast.Assign) and len(node.targets) == 1 and isinstance(node.targets[0], ast.Name):
            nm = node.targets[0].id
            if nm in ('_SUPPORTED_DIFF_METHODS', '_SUPPORTED_PAD_MODES', '_ADJ_METHOD', '_ADJ_PADDING'):
                try:
                    consts[nm] = ast.literal_eval(node.value)
                except Exception:
                    fail(node, 'table is not a literal')
        if isinstance(node, ast.FunctionDef) and node.name == 'finite_diff':
            fn = node
    if fn is None or len(consts) != 4:
        fail(fn, 'finite_diff or its tables not found')
    if tuple(consts['_SUPPORTED_DIFF_METHODS']) != tuple(METH):
        fail(None, 'method list changed: %r' % (consts['_SUPPORTED_DIFF_METHODS'],))
    if tuple(consts['_SUPPORTED_PAD_MODES']) != tuple(PMODE):
        fail(None, 'pad mode list changed: %r' % (consts['_SUPPORTED_PAD_MODES'],))
    for nm, tab in (('_ADJ_METHOD', METH), ('_ADJ_PADDING', PMODE)):
        d = consts[nm]
        if not isinstance(d, dict) or set(d) != set(tab) or not set(d.values()) <= set(tab):
            fail(None, '%s keys/values outside the known names' % nm)
    args = [a.arg for a in fn.args.args]
    if args != ['f', 'axis', 'dx', 'method', 'out', 'pad_mode', 'pad_const']:
        fail(fn, 'signature changed')
    body = list(fn.body)
    if isinstance(body[0], ast.Expr) and isinstance(body[0].value, ast.Constant):
        body = body[1:]
    if len(body) != len(PREAMBLE) + 4:
        fail(fn, 'finite_diff has %d statements, expected %d' % (len(body), len(PREAMBLE) + 4))
    minsize = {}
    for want, st in zip(PREAMBLE, body):
        if want == 'MINSIZE':
            # if f_arr.shape[axis] < K and pad_mode == 'X': raise ValueError(...)
            ok = (isinstance(st, ast.If) and not st.orelse and len(st.body) == 1
                  and isinstance(st.body[0], ast.Raise) and isinstance(st.test, ast.BoolOp)
                  and isinstance(st.test.op, ast.And) and len(st.test.values) == 2)
            if not ok:
                fail(st, 'expected a minimal-size check')
            lhs, rhs = st.test.values
            if not (isinstance(lhs, ast.Compare) and ast.unparse(lhs.left) == 'f_arr.shape[axis]'
                    and len(lhs.ops) == 1 and isinstance(lhs.ops[0], ast.Lt)):
                fail(st, 'expected f_arr.shape[axis] < K')
            minsize[eq_test(rhs, 'pad_mode')] = const_int(lhs.comparators[0])
        elif ast.dump(st) != ast.dump(ast.parse(want).body[0]):
            fail(st, 'preamble statement changed (expected %r)' % want)
    rest = body[len(PREAMBLE):]
    ich, ielse = chain(rest[0], 'method')
    if ielse is not None or [c[0] for c in ich] != list(METH):
        fail(rest[0], 'interior chain does not cover exactly the three methods')
    inter = {m: interior(b) for m, b in ich}
    bch, belse = chain(rest[1], 'pad_mode')
    if not (belse and len(belse) == 1 and isinstance(belse[0], ast.Raise)):
        fail(rest[1], 'boundary chain must end in else: raise')
    if [c[0] for c in bch] != list(PMODE):
        fail(rest[1], 'boundary chain does not cover exactly the known pad modes in order')
    bnd = {}
    for p, stmts in bch:
        if len(stmts) == 1 and isinstance(stmts[0], ast.If):
            mch, melse = chain(stmts[0], 'method')
            if melse is not None or [c[0] for c in mch] != list(METH):
                fail(stmts[0], 'method chain does not cover exactly the three methods')
            for m, b in mch:
                bnd[(p, m)] = block(b)
        else:
            bl = block(stmts)
            for m in METH:
                bnd[(p, m)] = bl
    if ast.unparse(rest[2]) != 'out /= dx':
        fail(rest[2], 'expected out /= dx')
    if ast.unparse(rest[3]) != 'return out_in':
        fail(rest[3], 'expected return out_in')

    o = ['(* GENERATED by translate/finite_diff.py from %s -- do not edit *)' % SRC,
         'From Coq Require Import ZArith QArith List.',
         'From Verif Require Import C13.Syntax.',
         'Import ListNotations.', 'Local Open Scope Z_scope.', '',
         'Definition interior_tab (m : meth) : inter :=',
         match_on('m', METH, 'm', lambda m: inter[m]), '',
         'Definition boundary_tab (p : pmode) (m : meth) : bnd :=',
         '  match p with']
    for p, pc in PMODE.items():
        o.append('  | %s =>' % pc)
        o.append('    match m with')
        for m, mc in METH.items():
            o.append('    | %s => %s' % (mc, bnd[(p, m)]))
        o.append('    end')
    o += ['  end.', '',
          'Definition adj_method (m : meth) : meth :=',
          match_on('m', METH, 'm', lambda m: METH[consts['_ADJ_METHOD'][m]]), '',
          'Definition adj_padding (p : pmode) : pmode :=',
          match_on('p', PMODE, 'p', lambda p: PMODE[consts['_ADJ_PADDING'][p]]), '',
          'Definition min_size (p : pmode) : nat :=',
          match_on('p', PMODE, 'p', lambda p: '%d%%nat' % max(2, minsize.get(p, 2))), '']
    return '\n'.join(o) + '\n'


if __name__ == '__main__':
    print(translate())
