"""Fail-closed translator: formula bodies of odl/tomo/util/utility.py and odl/tomo/geometry/detector.py
->  coq/Gen/GeometryFormulas.v

What is regenerated (anything outside the grammar raises TranslateError):
  * euler_matrix: the two `mat = np.array([[...], ...])` literals (2-d and ZXZ); entries are arithmetic over the
    names cph, sph, cth, sth, cps, sps, which must be bound by `X = np.cos(phi)` ... exactly.
  * axis_rotation_matrix: `cross_mat = np.array([[...]])` over axis[k], `dy_mat = np.outer(axis, axis)`,
    `id_mat = np.eye(3)`, and the combination `axis_mat = <linear combination of id_mat, dy_mat, cross_mat with
    coefficients over cos_ang, sin_ang>`; emitted entry by entry.
  * Circular/Cylindrical/SphericalDetector.surface and .surface_deriv: the native vector, i.e. the component
    assignments `X[..., k] = E` followed optionally by `X *= self.radius`, with E over np.cos/np.sin(param[i]),
    param[1], self.radius and numbers; the tail (matmul with the transposed rotation matrix, += translation,
    np.stack of the two derivative vectors) is compared structurally.
  E := name | number | E (+|-|*) E | -E
"""
import ast
import os

from harness.common import TranslateError, REPO

UTIL = 'odl/tomo/util/utility.py'
DET = 'odl/tomo/geometry/detector.py'


def fail(src, node, why):
    raise TranslateError('%s:%s: %s: %s' % (src, getattr(node, 'lineno', '?'), why,
                                            ast.unparse(node)[:140] if node is not None else ''))


def _func(tree, name, cls=None, src=''):
    body = tree.body
    if cls is not None:
        for n in body:
            if isinstance(n, ast.ClassDef) and n.name == cls:
                body = n.body
                break
        else:
            fail(src, None, 'class %s not found' % cls)
    for n in body:
        if isinstance(n, ast.FunctionDef) and n.name == name:
            return n
    fail(src, None, 'function %s.%s not found' % (cls, name))


class Expr(object):
    """Arithmetic expression translator with a per-call atom map."""

    def __init__(self, src, atom):
        self.src, self.atom = src, atom

    def go(self, e):
        if isinstance(e, ast.Constant) and isinstance(e.value, (int, float)) and not isinstance(e.value, bool):
            if float(e.value) != int(e.value):
                fail(self.src, e, 'non-integer constant')
            v = int(e.value)
            return '(of_Z %d)' % v if v >= 0 else '(of_Z (%d))' % v
        if isinstance(e, ast.UnaryOp) and isinstance(e.op, ast.USub):
            return '(- %s)' % self.go(e.operand)
        if isinstance(e, ast.BinOp) and isinstance(e.op, (ast.Add, ast.Sub, ast.Mult)):
            op = {ast.Add: '+', ast.Sub: '-', ast.Mult: '*'}[type(e.op)]
            return '(%s %s %s)' % (self.go(e.left), op, self.go(e.right))
        a = self.atom(e)
        if a is None:
            fail(self.src, e, 'expression outside the grammar')
        return a


def _np_array_literal(src, node, rows, cols):
    """np.array([[..], ..]) -> list of lists of entry nodes."""
    if not (isinstance(node, ast.Call) and ast.unparse(node.func) == 'np.array' and len(node.args) == 1
            and not node.keywords and isinstance(node.args[0], ast.List)):
        fail(src, node, 'expected np.array([[...]])')
    out = []
    for r in node.args[0].elts:
        if not (isinstance(r, ast.List) and len(r.elts) == cols):
            fail(src, r, 'row of %d entries expected' % cols)
        out.append(list(r.elts))
    if len(out) != rows:
        fail(src, node, '%d rows expected' % rows)
    return out


def _tuple(entries):
    return '(' + ', '.join(entries) + ')'


def _matrix(rows):
    return '(' + ',\n   '.join(_tuple(r) for r in rows) + ')'


# ------------------------------------------------------------------ euler_matrix
def tr_euler(tree):
    f = _func(tree, 'euler_matrix', src=UTIL)
    binds = {}
    mats = {}
    for n in ast.walk(f):
        if isinstance(n, ast.Assign) and len(n.targets) == 1 and isinstance(n.targets[0], ast.Name):
            name = n.targets[0].id
            if name in ('cph', 'sph', 'cth', 'sth', 'cps', 'sps'):
                binds[name] = ast.unparse(n.value)
            if name == 'mat':
                lit = n.value
                k = len(lit.args[0].elts) if isinstance(lit, ast.Call) and lit.args and isinstance(lit.args[0], ast.List) else 0
                if k not in (2, 3) or k in mats:
                    fail(UTIL, n, 'unexpected `mat =` assignment')
                mats[k] = _np_array_literal(UTIL, lit, k, k)
    want = {'cph': 'np.cos(phi)', 'sph': 'np.sin(phi)', 'cth': 'np.cos(theta)', 'sth': 'np.sin(theta)',
            'cps': 'np.cos(psi)', 'sps': 'np.sin(psi)'}
    if binds != want:
        fail(UTIL, f, 'cos/sin bindings changed: %r' % binds)
    if sorted(mats) != [2, 3]:
        fail(UTIL, f, 'expected one 2x2 and one 3x3 matrix literal')

    def atom(e):
        if isinstance(e, ast.Name) and e.id in want:
            return e.id
        return None
    ex = Expr(UTIL, atom)
    m2 = [[ex.go(e) for e in r] for r in mats[2]]
    m3 = [[ex.go(e) for e in r] for r in mats[3]]
    return ('Definition gen_euler2 (cph sph : T) : (T * T) * (T * T) :=\n  %s.\n\n'
            'Definition gen_euler3 (cph sph cth sth cps sps : T) : (T * T * T) * (T * T * T) * (T * T * T) :=\n  %s.\n'
            % (_matrix(m2), _matrix(m3)))


# ---------------------------------------------------------- axis_rotation_matrix
def tr_axis_rot(tree):
    f = _func(tree, 'axis_rotation_matrix', src=UTIL)
    assigns = {}
    for n in f.body:
        if isinstance(n, ast.Assign) and len(n.targets) == 1 and isinstance(n.targets[0], ast.Name):
            assigns.setdefault(n.targets[0].id, []).append(n.value)
    for name, txt in (('dy_mat', 'np.outer(axis, axis)'), ('id_mat', 'np.eye(3)'),
                      ('cos_ang', 'np.cos(angle)'), ('sin_ang', 'np.sin(angle)')):
        if name not in assigns or ast.unparse(assigns[name][0]) != txt:
            fail(UTIL, f, '`%s = %s` expected' % (name, txt))
    # later re-bindings may only add broadcasting axes: X = X[slc]
    for name in ('cross_mat', 'dy_mat', 'id_mat', 'cos_ang', 'sin_ang'):
        for later in assigns.get(name, [])[1:]:
            if not (isinstance(later, ast.Subscript) and ast.unparse(later.value) == name
                    and ast.unparse(later.slice) in ('mat_slc', 'ang_slc')):
                fail(UTIL, later, 're-binding of %s is not a broadcasting slice' % name)
    cross = _np_array_literal(UTIL, assigns['cross_mat'][0], 3, 3)
    names = 'xyz'

    def atom_axis(e):
        if (isinstance(e, ast.Subscript) and isinstance(e.value, ast.Name) and e.value.id == 'axis'
                and isinstance(e.slice, ast.Constant) and e.slice.value in (0, 1, 2)):
            return names[e.slice.value]
        return None
    exa = Expr(UTIL, atom_axis)
    cross_t = [[exa.go(e) for e in r] for r in cross]
    if 'axis_mat' not in assigns or len(assigns['axis_mat']) != 1:
        fail(UTIL, f, 'single `axis_mat =` expected')
    rows = []
    for i in range(3):
        row = []
        for j in range(3):
            def atom(e, i=i, j=j):
                if isinstance(e, ast.Name):
                    if e.id == 'cos_ang':
                        return 'c'
                    if e.id == 'sin_ang':
                        return 's'
                    if e.id == 'id_mat':
                        return '(of_Z %d)' % (1 if i == j else 0)
                    if e.id == 'dy_mat':
                        return '(%s * %s)' % (names[i], names[j])
                    if e.id == 'cross_mat':
                        return cross_t[i][j]
                return None
            row.append(Expr(UTIL, atom).go(assigns['axis_mat'][0]))
        rows.append(row)
    return ('Definition gen_axis_rot (x y z c s : T) : (T * T * T) * (T * T * T) * (T * T * T) :=\n  %s.\n'
            % _matrix(rows))


# -------------------------------------------------------------- detector surfaces
def _native_vector(fn, var, dim, src):
    """Collect `var[..., k] = E` (k = 0..dim-1, each once) and whether `var *= self.radius` follows."""
    comps = {}
    scaled = False
    for n in fn.body:
        if (isinstance(n, ast.Assign) and len(n.targets) == 1 and isinstance(n.targets[0], ast.Subscript)
                and ast.unparse(n.targets[0].value) == var):
            sl = ast.unparse(n.targets[0].slice)
            if not sl.startswith('(..., ') and not sl.startswith('..., '):
                fail(src, n, 'component assignment expected')
            k = int(sl.strip('()').split(',')[1])
            if k in comps or scaled:
                fail(src, n, 'component assigned twice or after scaling')
            comps[k] = n.value
        if isinstance(n, ast.AugAssign) and ast.unparse(n.target) == var:
            if isinstance(n.op, ast.Mult) and ast.unparse(n.value) == 'self.radius' and not scaled:
                scaled = True
            elif isinstance(n.op, ast.Add) and ast.unparse(n.value) == 'self.translation':
                pass
            else:
                fail(src, n, 'unexpected in-place update')
    if sorted(comps) != list(range(dim)):
        fail(src, fn, 'components of %s: %r' % (var, sorted(comps)))
    return [comps[k] for k in range(dim)], scaled


def _det_atom(two_params):
    def atom(e):
        t = ast.unparse(e)
        table = {'self.radius': 'r'}
        if two_params:
            table.update({'np.cos(param[0])': 'cu', 'np.sin(param[0])': 'su', 'np.cos(param[1])': 'cv',
                          'np.sin(param[1])': 'sv', 'param[1]': 'v'})
        else:
            table.update({'np.cos(param)': 'cu', 'np.sin(param)': 'su'})
        return table.get(t)
    return atom


def _require(fn, src, *stmts):
    body = [ast.unparse(n) for n in fn.body]
    for s in stmts:
        if s not in body:
            fail(src, fn, 'statement `%s` expected in %s' % (s, fn.name))


def tr_detectors(tree):
    out = []
    specs = [('CircularDetector', 'surface', 'surf', 2, False, 'gen_circ_surf', '(cu su r : T) : T * T'),
             ('CircularDetector', 'surface_deriv', 'deriv', 2, False, 'gen_circ_deriv', '(cu su r : T) : T * T'),
             ('CylindricalDetector', 'surface', 'surf', 3, True, 'gen_cyl_surf', '(cu su v r : T) : T * T * T'),
             ('CylindricalDetector', 'surface_deriv', 'deriv_phi', 3, True, 'gen_cyl_dphi', '(cu su r : T) : T * T * T'),
             ('SphericalDetector', 'surface', 'surf', 3, True, 'gen_sph_surf', '(cu su cv sv r : T) : T * T * T'),
             ('SphericalDetector', 'surface_deriv', 'deriv_phi', 3, True, 'gen_sph_dphi', '(cu su cv sv r : T) : T * T * T'),
             ('SphericalDetector', 'surface_deriv', 'deriv_theta', 3, True, 'gen_sph_dtheta', '(cu su cv sv r : T) : T * T * T')]
    for cls, meth, var, dim, two, gname, sig in specs:
        fn = _func(tree, meth, cls, DET)
        comps, scaled = _native_vector(fn, var, dim, DET)
        ex = Expr(DET, _det_atom(two))
        ents = [ex.go(c) for c in comps]
        if scaled:
            ents = ['(r * %s)' % e for e in ents]
        out.append('Definition %s %s :=\n  %s.\n' % (gname, sig, _tuple(ents)))
        # structural tail
        if meth == 'surface':
            _require(fn, DET, 'surf = np.matmul(surf, np.transpose(self.rotation_matrix))', 'surf += self.translation')
        elif cls == 'CircularDetector':
            _require(fn, DET, 'deriv = np.matmul(deriv, np.transpose(self.rotation_matrix))')
    fn = _func(tree, 'surface_deriv', 'CylindricalDetector', DET)
    _require(fn, DET, 'deriv_h = np.broadcast_to((0, 0, 1), np.broadcast(*param).shape + (3,))',
             'deriv = np.stack((deriv_phi, deriv_h), axis=-2)',
             'deriv = np.matmul(deriv, np.transpose(self.rotation_matrix))')
    fn = _func(tree, 'surface_deriv', 'SphericalDetector', DET)
    _require(fn, DET, 'deriv = np.stack((deriv_phi, deriv_theta), axis=-2)',
             'deriv = np.matmul(deriv, np.transpose(self.rotation_matrix))')
    # CircularDetector.__init__: sin = axis[0], cos = -axis[1], rotation [[cos, -sin], [sin, cos]], translation
    init = _func(tree, '__init__', 'CircularDetector', DET)
    _require(init, DET, 'sin = self.__axis[0]', 'cos = -self.__axis[1]',
             'self.__rotation_matrix = np.array([[cos, -sin], [sin, cos]])',
             'self.__translation = -self.__radius * np.matmul(self.__rotation_matrix, (1, 0))')
    for cls in ('CylindricalDetector', 'SphericalDetector'):
        init = _func(tree, '__init__', cls, DET)
        _require(init, DET, 'self.__translation = -self.__radius * np.matmul(self.__rotation_matrix, (1, 0, 0))')
    return '\n'.join(out)


def translate(repo=None):
    repo = repo or REPO
    ut = ast.parse(open(os.path.join(repo, UTIL)).read())
    dt = ast.parse(open(os.path.join(repo, DET)).read())
    parts = [tr_euler(ut), tr_axis_rot(ut), tr_detectors(dt)]
    return ('(* GENERATED by translate/geometry_formulas.py from %s and %s -- do not edit. *)\n'
            'From Coq Require Import ZArith.\nFrom Verif Require Import Base.Num.\nLocal Open Scope num_scope.\n\n'
            'Section Gen.\nContext {T : Type} `{Num T}.\n\n%s\nEnd Gen.\n' % (UTIL, DET, '\n'.join(parts)))
