"""Fail-closed translator:  every `convex_conj` property of
    odl/solvers/functional/functional.py           (conjugation rules of the derived functionals + the default)
    odl/solvers/functional/default_functionals.py  (built-in conjugate pairs)
and the body of odl/util/utility.py:conj_exponent
->  coq/Gen/Conjugates.v   (pure data: terms of the syntax in coq/C07/BindSyntax.v)

The statement/expression grammar is the one of translate/prox_bindings.py (class Tr); anything outside it
raises TranslateError.  coq/C08/ConjTables.v interprets these terms and proves that the hand-written
`cconj` of coq/C08/Model.v satisfies every generated equation, so a changed exponent, constant, reciprocal,
sign, class name or branch condition in the source breaks a PROOF.
"""
import ast
import os

from harness.common import TranslateError, REPO
from translate import prox_bindings as PB

FN, DF = PB.FN, PB.DF
UT = 'odl/util/utility.py'

FN_CLASSES = ['Functional', 'FunctionalLeftScalarMult', 'FunctionalRightScalarMult', 'FunctionalRightVectorMult',
              'FunctionalScalarSum', 'FunctionalTranslation', 'InfimalConvolution', 'FunctionalQuadraticPerturb',
              'FunctionalDefaultConvexConjugate', 'BregmanDistance']
DF_CLASSES = ['LpNorm', 'GroupL1Norm', 'IndicatorGroupL1UnitBall', 'IndicatorLpUnitBall', 'L2NormSquared',
              'ConstantFunctional', 'IndicatorZero', 'KullbackLeibler', 'KullbackLeiblerConvexConj',
              'KullbackLeiblerCrossEntropy', 'KullbackLeiblerCrossEntropyConvexConj', 'SeparableSum',
              'QuadraticForm', 'NuclearNorm', 'IndicatorNuclearNormUnitBall', 'Huber']
# classes that must keep the inherited conjugate (a new override must be noticed)
FN_INHERIT = [('FunctionalSum', 'Functional'), ('FunctionalComp', 'Functional'), ('FunctionalProduct', 'Functional'),
              ('FunctionalQuotient', 'Functional')]
DF_INHERIT = [('L1Norm', 'LpNorm'), ('L2Norm', 'LpNorm'), ('ZeroFunctional', 'ConstantFunctional'),
              ('IndicatorBox', 'Functional'), ('IndicatorNonnegativity', 'Functional'), ('MoreauEnvelope', 'Functional')]


def _prop(tr, mod, cls, name='convex_conj'):
    for node in mod.body:
        if isinstance(node, ast.ClassDef) and node.name == cls:
            for item in node.body:
                if isinstance(item, ast.FunctionDef) and item.name == name:
                    if not any(isinstance(d, ast.Name) and d.id == 'property' for d in item.decorator_list):
                        PB.fail(tr.src, item, '`%s` is not a property' % name)
                    return tr.body(item.body)
            return None
    raise TranslateError('%s: class %s not found' % (tr.src, cls))


def _conj_exponent(mod):
    """if exp == 1.0: return float('inf') / elif exp == float('inf'): return 1.0 / else: return exp / (exp - 1.0)"""
    fn = None
    for node in mod.body:
        if isinstance(node, ast.FunctionDef) and node.name == 'conj_exponent':
            fn = node
    if fn is None:
        raise TranslateError('%s: conj_exponent not found' % UT)
    if [a.arg for a in fn.args.args] != ['exp']:
        PB.fail(UT, fn, 'unexpected signature')
    body = PB.Tr(UT).strip_doc(fn.body)

    def is_inf(n):
        return (isinstance(n, ast.Call) and isinstance(n.func, ast.Name) and n.func.id == 'float' and
                len(n.args) == 1 and isinstance(n.args[0], ast.Constant) and n.args[0].value == 'inf')

    def num(n):
        if is_inf(n):
            return 'NInf'
        if isinstance(n, ast.Constant) and isinstance(n.value, (int, float)) and float(n.value) == int(n.value):
            return '(NInt %d)' % int(n.value)
        PB.fail(UT, n, 'constant outside the grammar')

    table = []
    st = body
    while True:
        if len(st) != 1:
            PB.fail(UT, fn, 'conj_exponent is not a single if-chain')
        s = st[0]
        if isinstance(s, ast.If):
            t = s.test
            if not (isinstance(t, ast.Compare) and len(t.ops) == 1 and isinstance(t.ops[0], ast.Eq) and
                    isinstance(t.left, ast.Name) and t.left.id == 'exp'):
                PB.fail(UT, t, 'test outside the grammar')
            if not (len(s.body) == 1 and isinstance(s.body[0], ast.Return)):
                PB.fail(UT, s, 'branch is not a return')
            table.append('(%s, %s)' % (num(t.comparators[0]), num(s.body[0].value)))
            st = s.orelse
            continue
        if isinstance(s, ast.Return):
            r = s.value
            ok = (isinstance(r, ast.BinOp) and isinstance(r.op, ast.Div) and isinstance(r.left, ast.Name) and
                  r.left.id == 'exp' and isinstance(r.right, ast.BinOp) and isinstance(r.right.op, ast.Sub) and
                  isinstance(r.right.left, ast.Name) and r.right.left.id == 'exp' and
                  isinstance(r.right.right, ast.Constant) and r.right.right.value == 1)
            if not ok:
                PB.fail(UT, s, 'general branch is not exp / (exp - 1)')
            return table
        PB.fail(UT, s, 'statement outside the grammar')


def translate():
    out = ['(* GENERATED by translate/conjugates.py from the current source of /repo -- do not edit. *)',
           'From Coq Require Import ZArith String List.',
           'From Verif Require Import C07.BindSyntax.',
           'Import ListNotations.',
           'Local Open Scope string_scope.', '']
    for path, classes, inherit in ((FN, FN_CLASSES, FN_INHERIT), (DF, DF_CLASSES, DF_INHERIT)):
        tr = PB.Tr(path)
        mod = PB._module(path)
        for cls in classes:
            term = _prop(tr, mod, cls)
            if term is None:
                raise TranslateError('%s: class %s has no convex_conj property' % (path, cls))
            out.append('Definition cc_%s : pbody :=\n  %s.' % (cls, term))
        for cls, base in inherit:
            if _prop(tr, mod, cls) is not None:
                raise TranslateError('%s: class %s now overrides convex_conj' % (path, cls))
            out.append('Definition cc_inherits_%s : string := %s.' % (cls, PB.cs(base)))
    table = _conj_exponent(PB._module(UT))
    out.append('(* conj_exponent: the special cases; every other exponent p goes to p / (p - 1) *)')
    out.append('Definition conj_exponent_cases : list (pnum * pnum) := %s.' % PB.lst(table))
    return '\n'.join(out) + '\n'
