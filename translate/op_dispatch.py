"""Fail-closed translator:  bodies of the arithmetic overloads  ->  coq/Gen/OpDispatch.v

    Operator.__add__/__radd__/__sub__/__rsub__/__mul__/__matmul__/__rmul__/__rmatmul__/
             __pow__/__truediv__/__neg__,
    OperatorRightScalarMult.__mul__,  Functional.__mul__/__rmul__/__add__/__sub__ (+ `__radd__ = __add__`)

are re-read from the current source as DECISION TREES (C04/Dispatch.v: dtree over `cond` tests and
`act` leaves), and, for every expression class, WHICH class's method Python's MRO selects
(C3 linearisation of the class statements) is emitted as owner tables.  C04/DispatchProofs.v proves
that the hand-written dispatch of C04/Model.v equals the interpretation of these trees, so a changed
dispatch (other side, dropped branch, different class) breaks a proof.

Grammar (anything else raises TranslateError):
  body   := [docstring] stmt ;  stmt := `if` cond: stmt (`elif` cond: stmt)* `else`: stmt | block
  block  := (`from .. import ..`)* [`constant_vector = other * self.range.one()`] `return` expr
            | the __pow__ loop (compared as text)
  cond   := one of COND (text after ast.unparse) | cond `and` cond
  expr   := one of ACT (text after ast.unparse)
"""
import ast
import os

from harness.common import TranslateError, REPO

OP = 'odl/operator/operator.py'
FN = 'odl/solvers/functional/functional.py'
DF = 'odl/solvers/functional/default_functionals.py'

COND = {
    'isinstance(other, Operator)': 'CIsOp',
    'isinstance(other, Number)': 'CIsNumber',
    'isinstance(other, Real)': 'CIsReal',
    'isinstance(other, LinearSpaceElement)': 'CIsVec',
    'isinstance(other, Functional)': 'CIsFunctional',
    'isinstance(n, Integral)': 'CIsIntegral',
    'n > 0': 'CPositive',
    'other in self.range': 'CInRange',
    'other in self.range.field': 'CInRangeField',
    'other in self.domain.field': 'CInDomainField',
    'other in self.domain': 'CInDomain',
    'other.space.field == self.range': 'CFieldIsRange',
    'other == 0': 'CEqZero',
    'self.is_linear': 'CSelfLinear',
}
ACT = {
    'OperatorVectorSum(self, other)': 'AVecSum',
    'OperatorSum(self, other)': 'AOpSum',
    'NotImplemented': 'ANotImpl',
    'self + other': 'ASelfPlusOther',
    'self + -1 * other': 'ASelfPlusNegOther',
    '-1 * self + other': 'ANegSelfPlusOther',
    'OperatorComp(self, other)': 'ACompSelfOther',
    'other * self': 'AOtherTimesSelf',
    'OperatorRightScalarMult(self, other)': 'ARScal',
    'OperatorRightVectorMult(self, other.copy())': 'ARVecCopy',
    'self.__mul__(other)': 'ASelfMul',
    'OperatorComp(other, self)': 'ACompOtherSelf',
    'OperatorLeftScalarMult(self, other)': 'ALScal',
    'OperatorLeftVectorMult(self, other.copy())': 'ALVecCopy',
    'FunctionalLeftVectorMult(self, other.copy())': 'AFLVecCopy',
    'self.__rmul__(other)': 'ASelfRmul',
    'self * (1.0 / other)': 'ASelfTimesInv',
    '-1 * self': 'ANegOneTimesSelf',
    'OperatorRightScalarMult(self.operator, self.scalar * other, self.__tmp)': 'ARScalMerge',
    'super(OperatorRightScalarMult, self).__mul__(other)': 'ASuperMul',
    'super(Functional, self).__mul__(other)': 'ASuperMul',
    'super(Functional, self).__rmul__(other)': 'ASuperRmul',
    'super(Functional, self).__add__(other)': 'ASuperAdd',
    'FunctionalComp(self, other)': 'AFComp',
    'ConstantFunctional(self.domain, self(self.domain.zero()))': 'AConstAtZero',
    'FunctionalLeftScalarMult(self, other)': 'AFLScal',
    'FunctionalRightScalarMult(self, other)': 'AFRScal',
    'FunctionalRightVectorMult(self, other)': 'AFRVec',
    'ZeroFunctional(self.domain)': 'AZeroF',
    'FunctionalScalarSum(self, other)': 'AFScalSum',
    'FunctionalSum(self, other)': 'AFSum',
}
CONST_VEC = 'constant_vector = other * self.range.one()'
POW_LOOP = 'op = self\nwhile n > 1:\n    op = OperatorComp(self, op)\n    n -= 1\nreturn op'

METHODS = [  # (Coq name, file, class, method, parameter names)
    ('t_Operator_add', OP, 'Operator', '__add__', ['self', 'other']),
    ('t_Operator_radd', OP, 'Operator', '__radd__', ['self', 'other']),
    ('t_Operator_sub', OP, 'Operator', '__sub__', ['self', 'other']),
    ('t_Operator_rsub', OP, 'Operator', '__rsub__', ['self', 'other']),
    ('t_Operator_mul', OP, 'Operator', '__mul__', ['self', 'other']),
    ('t_Operator_matmul', OP, 'Operator', '__matmul__', ['self', 'other']),
    ('t_Operator_rmul', OP, 'Operator', '__rmul__', ['self', 'other']),
    ('t_Operator_rmatmul', OP, 'Operator', '__rmatmul__', ['self', 'other']),
    ('t_Operator_pow', OP, 'Operator', '__pow__', ['self', 'n']),
    ('t_Operator_truediv', OP, 'Operator', '__truediv__', ['self', 'other']),
    ('t_Operator_neg', OP, 'Operator', '__neg__', ['self']),
    ('t_RScal_mul', OP, 'OperatorRightScalarMult', '__mul__', ['self', 'other']),
    ('t_Functional_mul', FN, 'Functional', '__mul__', ['self', 'other']),
    ('t_Functional_rmul', FN, 'Functional', '__rmul__', ['self', 'other']),
    ('t_Functional_add', FN, 'Functional', '__add__', ['self', 'other']),
    ('t_Functional_sub', FN, 'Functional', '__sub__', ['self', 'other']),
]
DUNDERS = ['__add__', '__radd__', '__sub__', '__rsub__', '__mul__', '__rmul__', '__matmul__', '__rmatmul__',
           '__pow__', '__truediv__', '__neg__']
ONLY_OPERATOR = ['__rsub__', '__matmul__', '__rmatmul__', '__pow__', '__truediv__', '__neg__']
OWNERS = {'Operator': 'OwnOperator', 'Functional': 'OwnFunctional', 'OperatorRightScalarMult': 'OwnRScal'}

CLASSES = [  # Coq cls constructor -> Python class
    ('CConst', 'ConstantFunctional'), ('CZero', 'ZeroFunctional'), ('CSum', 'OperatorSum'),
    ('CFSum', 'FunctionalSum'), ('CFScalSum', 'FunctionalScalarSum'), ('CVecSum', 'OperatorVectorSum'),
    ('CComp', 'OperatorComp'), ('CFComp', 'FunctionalComp'), ('CLScal', 'OperatorLeftScalarMult'),
    ('CFLScal', 'FunctionalLeftScalarMult'), ('CRScal', 'OperatorRightScalarMult'),
    ('CFRScal', 'FunctionalRightScalarMult'), ('CLVec', 'OperatorLeftVectorMult'),
    ('CRVec', 'OperatorRightVectorMult'), ('CFRVec', 'FunctionalRightVectorMult'),
    ('CFLVec', 'FunctionalLeftVectorMult'), ('CPtw', 'OperatorPointwiseProduct'),
]

_trees = {}


def _tree(rel):
    if rel not in _trees:
        with open(os.path.join(REPO, rel)) as fh:
            _trees[rel] = ast.parse(fh.read())
    return _trees[rel]


def fail(rel, node, why):
    raise TranslateError('%s:%s: %s: %s' % (rel, getattr(node, 'lineno', '?'), why,
                                            ast.unparse(node)[:160] if node is not None else ''))


def _classes():
    out = {}
    for rel in (OP, FN, DF):
        for n in _tree(rel).body:
            if isinstance(n, ast.ClassDef):
                out[n.name] = (rel, n)
    return out


def cond(rel, e):
    if isinstance(e, ast.BoolOp) and isinstance(e.op, ast.And):
        parts = [cond(rel, v) for v in e.values]
        r = parts[-1]
        for p in reversed(parts[:-1]):
            r = '(CAnd %s %s)' % (p, r)
        return r
    txt = ast.unparse(e)
    if txt not in COND:
        fail(rel, e, 'condition outside the grammar')
    return COND[txt]


def block(rel, stmts):
    stmts = [s for s in stmts if not isinstance(s, ast.ImportFrom)]
    if len(stmts) == 1 and isinstance(stmts[0], ast.If):
        return stmt_if(rel, stmts[0])
    txt = '\n'.join(ast.unparse(s) for s in stmts)
    if txt == POW_LOOP:
        return '(DAct APowLoop)'
    if (len(stmts) == 2 and ast.unparse(stmts[0]) == CONST_VEC and isinstance(stmts[1], ast.Return)
            and ast.unparse(stmts[1].value) == 'OperatorVectorSum(self, constant_vector)'):
        return '(DAct AVecSumConst)'
    if len(stmts) == 1 and isinstance(stmts[0], ast.Return) and stmts[0].value is not None:
        txt = ast.unparse(stmts[0].value)
        if txt not in ACT:
            fail(rel, stmts[0], 'returned expression outside the grammar')
        return '(DAct %s)' % ACT[txt]
    fail(rel, stmts[0] if stmts else None, 'statement block outside the grammar')


def stmt_if(rel, node):
    if not node.orelse:
        fail(rel, node, '`if` without `else` (fall-through) is outside the grammar')
    return '(DIf %s %s %s)' % (cond(rel, node.test), block(rel, node.body), block(rel, node.orelse))


def method_tree(rel, cname, mname, params):
    classes = _classes()
    if cname not in classes:
        fail(rel, None, 'class %s not found' % cname)
    cd = classes[cname][1]
    for f in cd.body:
        if isinstance(f, ast.FunctionDef) and f.name == mname:
            if [a.arg for a in f.args.args] != params or f.args.vararg or f.args.kwarg or f.args.kwonlyargs:
                fail(rel, f, 'unexpected signature')
            body = list(f.body)
            if body and isinstance(body[0], ast.Expr) and isinstance(body[0].value, ast.Constant) \
                    and isinstance(body[0].value.value, str):
                body = body[1:]
            return block(rel, body)
    fail(rel, cd, 'method %s.%s not found' % (cname, mname))


def _mro(name, classes, seen=()):
    """C3 linearisation over the classes of the three files (bases given by simple names)."""
    if name == 'object':
        return ['object']
    if name not in classes or name in seen:
        raise TranslateError('cannot linearise class %s' % name)
    bases = []
    for b in classes[name][1].bases:
        if not isinstance(b, ast.Name):
            raise TranslateError('base of %s is not a simple name' % name)
        bases.append(b.id)
    seqs = [_mro(b, classes, seen + (name,)) for b in bases] + [list(bases)]
    res = [name]
    while any(seqs):
        for s in seqs:
            if not s:
                continue
            cand = s[0]
            if not any(cand in t[1:] for t in seqs):
                break
        else:
            raise TranslateError('inconsistent hierarchy at %s' % name)
        res.append(cand)
        seqs = [[c for c in s if c != cand] for s in seqs]
    return res


def _defines(cd, m):
    for f in cd.body:
        if isinstance(f, ast.FunctionDef) and f.name == m:
            return True
        if isinstance(f, ast.Assign) and any(isinstance(t, ast.Name) and t.id == m for t in f.targets):
            return True
    return False


def owner(pyclass, m, classes):
    for c in _mro(pyclass, classes):
        if c != 'object' and _defines(classes[c][1], m):
            return c
    raise TranslateError('%s has no %s' % (pyclass, m))


def translate():
    _trees.clear()
    classes = _classes()
    out = ['(* GENERATED by translate/op_dispatch.py from %s and %s -- do not edit. *)' % (OP, FN),
           'From Verif Require Import C04.Model C04.Dispatch.', '']
    for coq, rel, cname, mname, params in METHODS:
        out.append('(* %s.%s *)' % (cname, mname))
        out.append('Definition %s : dtree :=\n  %s.\n' % (coq, method_tree(rel, cname, mname, params)))
    # class-level aliases
    fcd = classes['Functional'][1]
    alias = any(isinstance(f, ast.Assign) and ast.unparse(f) == '__radd__ = __add__' for f in fcd.body)
    radd_def = any(isinstance(f, ast.FunctionDef) and f.name == '__radd__' for f in fcd.body)
    if radd_def or not alias:
        fail(FN, fcd, 'Functional.__radd__ is no longer the class-level alias of __add__')
    out.append('(* Functional: `__radd__ = __add__` *)\nDefinition functional_radd_is_add : bool := true.\n')
    # which class's method does the MRO select?
    for m in DUNDERS:
        rows = []
        for coq, py in CLASSES:
            if py not in classes:
                fail(OP, None, 'class %s not found' % py)
            o = owner(py, m, classes)
            if o not in OWNERS:
                raise TranslateError('%s.%s resolves to %s, which is not modelled' % (py, m, o))
            if m in ONLY_OPERATOR and o != 'Operator':
                raise TranslateError('%s.%s is overridden by %s' % (py, m, o))
            rows.append('  | %s => %s' % (coq, OWNERS[o]))
        if m in ONLY_OPERATOR:
            continue
        out.append('Definition owner%s (c : cls) : owner :=\n  match c with\n%s\n  | CLeaf => OwnOperator\n  end.\n'
                   % (m.strip('_').join(['_', '']), '\n'.join(rows)))
    # Python tries the REFLECTED method of the right operand first when its class is a proper subclass
    # of the left operand's class and provides a different reflected method
    for m, nm in (('__radd__', 'reflected_first_add'), ('__rmul__', 'reflected_first_mul')):
        pairs = []
        for cb, pb in CLASSES:
            for ca, pa in CLASSES:
                if pb != pa and pa in _mro(pb, classes) and owner(pb, m, classes) != owner(pa, m, classes):
                    pairs.append('%s, %s' % (cb, ca))
        out.append('Definition %s (b a : cls) : bool :=\n  match b, a with\n  | %s => true\n  | _, _ => false\n  end.\n'
                   % (nm, '\n  | '.join(pairs)) if pairs else
                   'Definition %s (b a : cls) : bool := false.\n' % nm)
    for m in ('__rmatmul__', '__rsub__'):
        for cb, pb in CLASSES:
            for ca, pa in CLASSES:
                if pb != pa and pa in _mro(pb, classes) and owner(pb, m, classes) != owner(pa, m, classes):
                    raise TranslateError('%s of %s differs from %s: reflected-first for it is not modelled' % (m, pb, pa))
    # leaves: a Functional leaf resolves like Functional, any other leaf like Operator -- provided
    # no odl class overrides an arithmetic dunder (checked here on the three files)
    for name, (rel, cd) in classes.items():
        if name in ('Operator', 'Functional', 'OperatorRightScalarMult'):
            continue
        for m in DUNDERS + ['__div__', '__rtruediv__', '__rdiv__', '__rpow__']:
            if _defines(cd, m):
                fail(rel, cd, 'class %s overrides %s' % (name, m))
    return '\n'.join(out) + '\n'


if __name__ == '__main__':
    print(translate())
